#!/usr/bin/env python3
"""pyx2v — fail-closed Python-ast -> Gallina translator (tie A of DESIGN.md §2.2).

Two back-ends share the statement translator:
  * real-valued expression functions (pyttb/gcp/handles.py)        -> Gen/GenHandles.v
  * integer / index helper functions (pyttb/pyttb_utils.py, ...)   -> Gen/GenUtils.v, Gen/GenKernels.v

Anything outside the supported subset raises Unsupported: the caller reports a broken tie.
The type environment for the integer back-end is tools/pyx2v_env.json.
"""
import ast
import json
import os
import sys
from fractions import Fraction


class Unsupported(Exception):
    pass


def fail(node, why):
    line = getattr(node, "lineno", "?")
    raise Unsupported(f"line {line}: {why}: {ast.dump(node)[:200] if isinstance(node, ast.AST) else node}")


def strip_doc(body):
    if body and isinstance(body[0], ast.Expr) and isinstance(body[0].value, ast.Constant) and isinstance(body[0].value.value, str):
        return body[1:]
    return body


def find_funcs(tree):
    """last definition of each module-level function wins (overloads come first); methods are found as Class.name"""
    out = {}
    for n in tree.body:
        if isinstance(n, ast.FunctionDef):
            out[n.name] = n
        if isinstance(n, ast.ClassDef):
            for m in n.body:
                if isinstance(m, ast.FunctionDef):
                    out[f"{n.name}.{m.name}"] = m
    return out


# --------------------------------------------------------------------------------------
# Real-valued back-end (handles.py)
# --------------------------------------------------------------------------------------

def dec_to_R(v):
    """exact decimal reading of a Python numeric literal as a Gallina real expression"""
    if isinstance(v, bool):
        raise Unsupported("bool literal in real context")
    if isinstance(v, int):
        return f"{v}" if v >= 0 else f"(- {-v})"
    fr = Fraction(repr(v)) if "e" not in repr(v) and "E" not in repr(v) else Fraction(repr(v))
    n, d = fr.numerator, fr.denominator
    if d == 1:
        return f"{n}" if n >= 0 else f"(- {-n})"
    s = f"({abs(n)} / {d})"
    return s if n >= 0 else f"(- {s})"


class RealTr:
    """expressions over R; booleans are Gallina bool; bool*real is `bsel`"""

    def __init__(self, consts):
        self.consts = consts  # module-level constant names

    def expr(self, e, env):
        """returns (text, type) with type in {'R','B'}"""
        if isinstance(e, ast.Constant):
            if isinstance(e.value, (int, float)) and not isinstance(e.value, bool):
                return dec_to_R(e.value), "R"
            fail(e, "constant")
        if isinstance(e, ast.Name):
            if e.id in env:
                return e.id + "_" if e.id in ("beta", "gamma") else e.id, env[e.id]
            if e.id in self.consts:
                return e.id, "R"
            fail(e, "unknown name")
        if isinstance(e, ast.Attribute):
            if ast.dump(e) == ast.dump(ast.parse("np.pi", mode="eval").body):
                return "PI", "R"
            fail(e, "attribute")
        if isinstance(e, ast.UnaryOp) and isinstance(e.op, ast.USub):
            t, ty = self.expr(e.operand, env)
            if ty != "R":
                fail(e, "neg of non-real")
            return f"(- {t})", "R"
        if isinstance(e, ast.BinOp):
            if isinstance(e.op, ast.Pow):
                b, tb = self.expr(e.left, env)
                if tb != "R":
                    fail(e, "pow base")
                if isinstance(e.right, ast.Constant) and isinstance(e.right.value, int) and e.right.value >= 0:
                    return f"({b} ^ {e.right.value})", "R"
                x, tx = self.expr(e.right, env)
                if tx != "R":
                    fail(e, "pow exponent")
                return f"(rpow {b} {x})", "R"
            l, tl = self.expr(e.left, env)
            r, tr = self.expr(e.right, env)
            if isinstance(e.op, ast.Mult) and tl == "R" and tr == "B":
                return f"(bsel {r} {l})", "R"
            if isinstance(e.op, ast.Mult) and tl == "B" and tr == "R":
                return f"(bsel {l} {r})", "R"
            if tl != "R" or tr != "R":
                fail(e, "binop types")
            op = {ast.Add: "+", ast.Sub: "-", ast.Mult: "*", ast.Div: "/"}.get(type(e.op))
            if op is None:
                fail(e, "operator")
            return f"({l} {op} {r})", "R"
        if isinstance(e, ast.Compare) and len(e.ops) == 1:
            l, tl = self.expr(e.left, env)
            r, tr = self.expr(e.comparators[0], env)
            if tl != "R" or tr != "R":
                fail(e, "compare types")
            if isinstance(e.ops[0], ast.Lt):
                return f"(Rltb {l} {r})", "B"
            fail(e, "comparison")
        if isinstance(e, ast.Call) and isinstance(e.func, ast.Attribute) and isinstance(e.func.value, ast.Name) and e.func.value.id == "np" and not e.keywords:
            fn = e.func.attr
            args = [self.expr(a, env) for a in e.args]
            table = {"log": ("ln", "R", "R"), "exp": ("exp", "R", "R"), "abs": ("Rabs", "R", "R"),
                     "sign": ("sgnR", "R", "R"), "logical_not": ("negb", "B", "B")}
            if fn in table and len(args) == 1 and args[0][1] == table[fn][1]:
                return f"({table[fn][0]} {args[0][0]})", table[fn][2]
            fail(e, "np call")
        fail(e, "expression")

    def func(self, f):
        params = [a.arg for a in f.args.args]
        if f.args.vararg or f.args.kwarg or f.args.kwonlyargs or f.args.defaults:
            fail(f, "parameters")
        env = {p: "R" for p in params}
        body = strip_doc(f.body)
        lets = []
        for st in body[:-1]:
            if isinstance(st, ast.Assign) and len(st.targets) == 1 and isinstance(st.targets[0], ast.Name):
                t, ty = self.expr(st.value, env)
                env[st.targets[0].id] = ty
                lets.append(f"  let {st.targets[0].id} := {t} in")
            else:
                fail(st, "statement")
        if not isinstance(body[-1], ast.Return) or body[-1].value is None:
            fail(body[-1], "last statement must be return")
        t, ty = self.expr(body[-1].value, env)
        if ty != "R":
            fail(body[-1], "return type")
        name = f.name + "_" if f.name in ("beta", "gamma") else f.name
        ps = " ".join((p + "_" if p in ("beta", "gamma") else p) for p in params)
        return f"Definition {name} ({ps} : R) : R :=\n" + "\n".join(lets) + ("\n" if lets else "") + f"  {t}.\n"


def gen_handles(src_root):
    path = os.path.join(src_root, "pyttb", "gcp", "handles.py")
    tree = ast.parse(open(path).read())
    consts = {}
    for n in tree.body:
        if isinstance(n, ast.Assign) and len(n.targets) == 1 and isinstance(n.targets[0], ast.Name) \
                and isinstance(n.value, ast.Constant) and isinstance(n.value.value, (int, float)):
            consts[n.targets[0].id] = n.value.value
    tr = RealTr(set(consts))
    out = ["(* GENERATED by tools/pyx2v.py from pyttb/gcp/handles.py — do not edit *)",
           "From Coq Require Import Reals.", "From PV Require Import Np.NpR.", "Local Open Scope R_scope.", ""]
    for k, v in consts.items():
        out.append(f"Definition {k} : R := {dec_to_R(v)}.")
    out.append("")
    funcs = find_funcs(tree)
    names = []
    for name, f in funcs.items():
        out.append(tr.func(f))
        names.append(name)
    # the Objectives enum -> list of names (order as in the source)
    for n in tree.body:
        if isinstance(n, ast.ClassDef) and n.name == "Objectives":
            members = [s.targets[0].id for s in n.body if isinstance(s, ast.Assign)]
            out.append("(* Objectives: " + " ".join(members) + " *)")
    return "\n".join(out) + "\n", names


# --------------------------------------------------------------------------------------
# fg_setup.setup: objective -> (loss handle, gradient handle, lower bound) table + valid_* data-domain predicates
# --------------------------------------------------------------------------------------

def coq_handle(n):
    return n + "_" if n in ("beta", "gamma") else n


def gen_fg_setup(src_root):
    """Strict templates (fail-closed): `setup` must be one if/elif chain on `objective == Objectives.X` whose branches
    consist of  [if data is not None and not valid_K(data): raise]  [if additional_parameter is None: raise]
    function_handle = handles.F | partial(handles.F, kw=additional_parameter)   (same for gradient_handle)
    lower_bound = -np.inf | <number>;  final else raises;  return function_handle, gradient_handle, lower_bound."""
    hpath = os.path.join(src_root, "pyttb", "gcp", "handles.py")
    htree = ast.parse(open(hpath).read())
    hfuncs = find_funcs(htree)
    members = None
    for n in htree.body:
        if isinstance(n, ast.ClassDef) and n.name == "Objectives":
            members = [s_.targets[0].id for s_ in n.body if isinstance(s_, ast.Assign)]
    if not members:
        raise Unsupported("handles.py: Objectives enum not found")
    path = os.path.join(src_root, "pyttb", "gcp", "fg_setup.py")
    funcs = find_funcs(ast.parse(open(path).read()))
    for need in ("setup", "valid_nonneg", "valid_binary", "valid_natural"):
        if need not in funcs:
            raise Unsupported(f"fg_setup.py: function {need} not found")
    f = funcs["setup"]
    if [a.arg for a in f.args.args] != ["objective", "data", "additional_parameter"] or f.args.vararg or f.args.kwarg or f.args.kwonlyargs:
        fail(f, "setup parameters")
    body = strip_doc(f.body)
    if len(body) != 2 or not isinstance(body[0], ast.If) or not isinstance(body[1], ast.Return):
        fail(f, "setup body must be one if/elif chain followed by return")
    if ast.dump(body[1].value) != dump("(function_handle, gradient_handle, lower_bound)"):
        fail(body[1], "return")
    valid_names = ("valid_binary", "valid_natural", "valid_nonneg")

    def handle(v, node):
        """-> (handle name, keyword or None)"""
        if isinstance(v, ast.Attribute) and ast.dump(v.value) == dump("handles") and v.attr in hfuncs:
            if len(hfuncs[v.attr].args.args) != 2:
                fail(node, "plain handle must take (data, model)")
            return v.attr, None
        if isinstance(v, ast.Call) and isinstance(v.func, ast.Name) and v.func.id == "partial" and len(v.args) == 1 \
                and len(v.keywords) == 1 and ast.dump(v.keywords[0].value) == dump("additional_parameter"):
            h = v.args[0]
            if isinstance(h, ast.Attribute) and ast.dump(h.value) == dump("handles") and h.attr in hfuncs:
                ps = [a.arg for a in hfuncs[h.attr].args.args]
                if len(ps) == 3 and ps[2] == v.keywords[0].arg:
                    return h.attr, v.keywords[0].arg
        fail(node, "handle expression")

    def bound(v, node):
        if ast.dump(v) == dump("-np.inf"):
            return "NegInf"
        if isinstance(v, ast.Constant) and isinstance(v.value, (int, float)) and not isinstance(v.value, bool):
            return f"(Finite {dec_to_R(v.value)})"
        fail(node, "lower bound")

    arms = {}
    node = body[0]
    while True:
        t = node.test
        if not (isinstance(t, ast.Compare) and len(t.ops) == 1 and isinstance(t.ops[0], ast.Eq) and ast.dump(t.left) == dump("objective")
                and isinstance(t.comparators[0], ast.Attribute) and ast.dump(t.comparators[0].value) == dump("Objectives")):
            fail(node, "branch test must be objective == Objectives.X")
        name = t.comparators[0].attr
        if name not in members or name in arms:
            fail(node, "unknown or repeated objective")
        need_valid, need_param, fh, gh, lb = None, False, None, None, None
        for st in node.body:
            if isinstance(st, ast.If) and not st.orelse and len(st.body) == 1 and isinstance(st.body[0], ast.Raise):
                matched = False
                for vn in valid_names:
                    if ast.dump(st.test) == dump(f"data is not None and not {vn}(data)"):
                        if need_valid or fh:
                            fail(st, "data check position")
                        need_valid, matched = vn, True
                if ast.dump(st.test) == dump("additional_parameter is None"):
                    if fh:
                        fail(st, "parameter check position")
                    need_param, matched = True, True
                if not matched:
                    fail(st, "guard")
            elif isinstance(st, ast.Assign) and len(st.targets) == 1 and isinstance(st.targets[0], ast.Name):
                tg = st.targets[0].id
                if tg == "function_handle" and fh is None:
                    fh = handle(st.value, st)
                elif tg == "gradient_handle" and gh is None:
                    gh = handle(st.value, st)
                elif tg == "lower_bound" and lb is None:
                    lb = bound(st.value, st)
                else:
                    fail(st, "assignment")
            else:
                fail(st, "statement")
        if fh is None or gh is None or lb is None:
            fail(node, "branch must set function_handle, gradient_handle and lower_bound")
        if (fh[1] is None) != (gh[1] is None) or ((fh[1] is not None) and not need_param):
            fail(node, "extra parameter must be checked for None and given to both handles")
        arms[name] = (need_valid, need_param, fh, gh, lb)
        if len(node.orelse) == 1 and isinstance(node.orelse[0], ast.If):
            node = node.orelse[0]
            continue
        if not (len(node.orelse) == 1 and isinstance(node.orelse[0], ast.Raise)):
            fail(node, "final else must raise")
        break

    def entry_pred(e, arr):
        """entry-wise predicate of bool(np.all(<e>)) over the array expression `arr` (ast.dump text)"""
        if not (isinstance(e, ast.Call) and ast.dump(e.func) == dump("bool") and len(e.args) == 1
                and isinstance(e.args[0], ast.Call) and ast.dump(e.args[0].func) == dump("np.all") and len(e.args[0].args) == 1
                and not e.args[0].keywords):
            fail(e, "validity predicate must be bool(np.all(...))")
        q = e.args[0].args[0]
        if isinstance(q, ast.Compare) and len(q.ops) == 1 and isinstance(q.comparators[0], ast.Constant) \
                and isinstance(q.comparators[0].value, (int, float)):
            c = dec_to_R(q.comparators[0].value)
            if ast.dump(q.left) == arr and isinstance(q.ops[0], ast.Gt):
                return f"v > {c}"
            if ast.dump(q.left) == arr and isinstance(q.ops[0], ast.Eq):
                return f"v = {c}"
            if isinstance(q.left, ast.BinOp) and isinstance(q.left.op, ast.Mod) and ast.dump(q.left.left) == arr \
                    and ast.dump(q.left.right) == dump("1") and isinstance(q.ops[0], ast.Eq) and q.comparators[0].value == 0:
                return "exists k : Z, v = IZR k"
        if isinstance(q, ast.Call) and ast.dump(q.func) == dump("np.isin") and len(q.args) == 2 and not q.keywords \
                and isinstance(q.args[0], ast.Call) and ast.dump(q.args[0].func) == dump("np.unique") \
                and len(q.args[0].args) == 1 and ast.dump(q.args[0].args[0]) == arr and isinstance(q.args[1], ast.List) \
                and all(isinstance(x, ast.Constant) and isinstance(x.value, (int, float)) for x in q.args[1].elts) and q.args[1].elts:
            return " \\/ ".join(f"v = {dec_to_R(x.value)}" for x in q.args[1].elts)
        fail(e, "validity predicate")

    def valid_def(vn):
        b = strip_doc(funcs[vn].body)
        isin = dump("isinstance(data, ttb.sptensor)")
        if len(b) == 2 and isinstance(b[0], ast.If) and ast.dump(b[0].test) == isin and not b[0].orelse \
                and len(b[0].body) == 1 and isinstance(b[0].body[0], ast.Return) and isinstance(b[1], ast.Return):
            sp = entry_pred(b[0].body[0].value, dump("data.vals"))
            de = entry_pred(b[1].value, dump("data.data"))
        elif len(b) == 2 and isinstance(b[0], ast.If) and ast.dump(b[0].test) == isin \
                and [ast.dump(x) for x in b[0].body] == [ast.dump(ast.parse("vals = data.vals").body[0])] \
                and [ast.dump(x) for x in b[0].orelse] == [ast.dump(ast.parse("vals = data.data").body[0])] \
                and isinstance(b[1], ast.Return):
            sp = de = entry_pred(b[1].value, dump("vals"))
        else:
            fail(funcs[vn], "validity function shape")
        return (f"(* {vn}(data) holds iff every stored value (sparse: data.vals) / every entry (dense: data.data) v satisfies: *)\n"
                f"Definition {vn}_entry (sparse : bool) (v : R) : Prop :=\n  if sparse then {sp} else {de}.\n")

    out = ["(* GENERATED by tools/pyx2v.py from pyttb/gcp/fg_setup.py (and the Objectives enum of handles.py) — do not edit *)",
           "From Coq Require Import Reals ZArith.", "From PV Require Import Np.NpR Gen.GenHandles.", "Local Open Scope R_scope.", "",
           "Inductive Objectives := " + " | ".join(members) + ".",
           "(* lower bound on the model entries: -np.inf or a number *)",
           "Inductive lbound := NegInf | Finite (b : R).",
           "(* what setup asks about the data: the results of the valid_* calls (data = None: no data given) *)",
           "Record datachk := { valid_binary : bool; valid_natural : bool; valid_nonneg : bool }.", ""]
    for vn in valid_names:
        out.append(valid_def(vn))
    out.append("Definition setup (objective : Objectives) (data : option datachk) (additional_parameter : option R)")
    out.append("  : option ((R -> R -> R) * (R -> R -> R) * lbound) :=")
    out.append("  match objective with")
    for mname in members:
        if mname not in arms:
            out.append(f"  | {mname} => None")
            continue
        need_valid, need_param, fh, gh, lb = arms[mname]

        def hx(h):
            return coq_handle(h[0]) if h[1] is None else f"(fun data_ model_ => {coq_handle(h[0])} data_ model_ p_)"
        core = f"Some ({hx(fh)}, {hx(gh)}, {lb})"
        if need_param:
            core = f"match additional_parameter with None => None | Some p_ => {core} end"
        if need_valid:
            core = f"if (match data with Some d_ => negb ({need_valid} d_) | None => false end) then None else\n      {core}"
        out.append(f"  | {mname} =>\n      {core}")
    out.append("  end.")
    return "\n".join(out) + "\n", ["setup"] + list(valid_names)


# --------------------------------------------------------------------------------------
# Integer / index back-end
# --------------------------------------------------------------------------------------

COQ_TY = {"int": "Z", "optint": "option Z", "vec": "vec", "optvec": "option vec", "bvec": "bvec",
          "bool": "bool", "mat": "mat", "order": "memorder", "nil": "vec", "matlist": "list mat",
          "cyc": "option cyclic", "optmat": "option mat"}
ELEM_TY = {"vec": "int", "mat": "vec", "matlist": "mat", "nil": "int"}

# ---- third batch (Np/NpZ3.v): dynamically typed values ------------------------------------------------------
COQ_TY.update({"ix": "pyidx", "ixlist": "list pyidx", "slice": "pyslice", "pylist": "vec", "nda": "ndarr", "ndb": "ndbool",
               "spt": "sptz", "key": "pykey", "elem": "pyelem", "elist": "list pyelem", "kt": "ktz", "ktorseq": "kt_or_seq",
               "shp": "pyshp", "ten3": "ten3", "rat": "pyrat", "ktclass": "unit", "sqres": "sq_result"})
ELEM_TY.update({"ixlist": "ix", "pylist": "int", "elist": "elem"})
# union type -> Python class name -> constructors of the Gallina inductive that stand for instances of that class
UNION_CLASSES = {
    "ix": {"int": ["IxInt"], "np.integer": ["IxInt"], "np.generic": ["IxInt"], "float": [], "slice": ["IxSlice"], "Sequence": ["IxSeq"],
           "list": ["IxSeq"], "np.ndarray": ["IxArr"], "tuple": []},
    "key": {"int": ["KInt"], "np.integer": ["KInt"], "float": [], "slice": ["KSlice"], "Sequence": ["KTuple", "KList"],
            "list": ["KList"], "np.ndarray": ["KArr"], "tuple": ["KTuple"]},
    "elem": {"int": ["EInt"], "np.integer": ["EInt"], "float": [], "slice": [], "Sequence": ["EList"], "list": ["EList"],
             "np.ndarray": [], "tuple": []},
    "ktorseq": {"ttb.ktensor": ["UKt"], "Sequence": ["USeq"], "np.ndarray": [], "list": ["USeq"], "tuple": ["USeq"]},
    "shp": {"int": ["SInt"], "np.integer": ["SInt"], "float": [], "np.floating": [], "slice": [], "np.ndarray": ["SArr"],
            "Sequence": ["STuple", "SList"], "list": ["SList"], "tuple": ["STuple"]},
}
# constructor -> (type of its argument, boolean recogniser)
UNION_CTORS = {"IxInt": ("int", "ix_is_int"), "IxSlice": ("slice", "ix_is_slice"), "IxSeq": ("pylist", "ix_is_list"),
               "IxArr": ("vec", "ix_is_arr"), "KInt": ("int", "key_is_int"), "KSlice": ("slice", "key_is_slice"),
               "KArr": ("nda", "key_is_arr"), "KTuple": ("elist", "key_is_tuple"), "KList": ("elist", "key_is_list"),
               "EInt": ("int", "elem_is_int"), "EList": ("pylist", "elem_is_list"), "UKt": ("kt", "u_is_kt"),
               "USeq": ("matlist", "u_is_seq"), "SInt": ("int", "shp_is_int"), "SArr": ("nda", "shp_is_arr"),
               "STuple": ("elist", "shp_is_tuple"), "SList": ("elist", "shp_is_list")}
# injections used when a value of a narrowed type flows into a variable / join of the union type
UNION_INJ = {("int", "ix"): "IxInt", ("slice", "ix"): "IxSlice", ("pylist", "ix"): "IxSeq",
             ("kt", "ktorseq"): "UKt", ("matlist", "ktorseq"): "USeq", ("elist", "shp"): "STuple"}


def dump(src):
    return ast.dump(ast.parse(src, mode="eval").body)


def coq_ty(t):
    return t[5:] if t.startswith("enum:") else COQ_TY[t]


def module_info(tree):
    """module-level `class X(Enum)` member lists and `Alias = Union[a, b, ...]` class-name lists"""
    enums, aliases = {}, {}
    for n in tree.body:
        if isinstance(n, ast.ClassDef) and [ast.dump(b) for b in n.bases] == [dump("Enum")]:
            ms = []
            for st in strip_doc(n.body):
                if isinstance(st, ast.Assign) and len(st.targets) == 1 and isinstance(st.targets[0], ast.Name) \
                        and isinstance(st.value, ast.Constant):
                    ms.append(st.targets[0].id)
                else:
                    ms = None
                    break
            if ms:
                enums[n.name] = ms
        if isinstance(n, ast.Assign) and len(n.targets) == 1 and isinstance(n.targets[0], ast.Name) \
                and isinstance(n.value, ast.Subscript) and ast.dump(n.value.value) == dump("Union") \
                and isinstance(n.value.slice, ast.Tuple):
            names = []
            for x in n.value.slice.elts:
                if isinstance(x, ast.Name):
                    names.append(x.id)
                elif isinstance(x, ast.Attribute) and isinstance(x.value, ast.Name):
                    names.append(f"{x.value.id}.{x.attr}")
                else:
                    names = None
                    break
            if names:
                aliases[n.targets[0].id] = names
    return enums, aliases


class IntTr:
    def __init__(self, fenv, known_funcs, enums=None, aliases=None):
        self.enums = enums or {}            # enum class name -> member names (module-level `class X(Enum)`)
        self.aliases = aliases or {}        # module-level `Alias = Union[a, b, ...]` -> class names
        self.types = fenv["types"]          # name -> declared type (join type)
        self.ret = fenv["returns"]          # list of types of the returned tuple
        self.known = known_funcs            # translated function name -> (param types, return types)
        self.fresh = 0
        self.options = fenv.get("options", [])
        self.retypes = fenv.get("retypes", {})   # name -> further types a straight-line rebinding may switch the variable to
        self.known_names = {}                    # translated function name -> parameter names (keyword / *args calls)
        self.known_defaults = {}                 # translated function name -> {parameter name: default value node}
        self.guards = []                    # side conditions (index in range, divisor non-zero) of the statement being translated
        self.loops = []                     # stack of loop-carried variable lists (innermost last)
        self.file_funcs = {}                # all functions / methods of the source file (properties read by the m4 rules)
        self.known_coq = {}                 # translated function / method name -> Gallina name (env "coqname")
        self.oracles = fenv.get("oracles", {})   # method name -> [argument types]: calls `self.m(..)` become applications of a parameter
        self.dtype_flags = fenv.get("dtype_flags", {})   # vec parameter -> name of the extra bool parameter "is a boolean array"

    # -- guards: conditions under which evaluating the current statement's expressions raises ------------
    def guard(self, text):
        if text not in self.guards:
            self.guards.append(text)

    def scoped(self, fn):
        """run fn() collecting the guards it produces separately; returns (result, guards)"""
        saved = self.guards
        self.guards = []
        try:
            r = fn()
            g = self.guards
        finally:
            self.guards = saved
        return r, g

    @staticmethod
    def conj(gs):
        return gs[0] if len(gs) == 1 else "(" + " && ".join(gs) + ")"

    # -- expressions ------------------------------------------------------------------
    def expr(self, e, cur):
        """cur: name -> (gallina text, current type). returns (text, type)"""
        d = ast.dump(e)
        if "m6" in self.options:
            r_ = self.m6_expr(e, cur)
            if r_ is not None:
                return r_
        if "m5" in self.options:
            r_ = self.m5_expr(e, cur)
            if r_ is not None:
                return r_
        if "m4" in self.options:
            r_ = self.m4_expr(e, cur)
            if r_ is not None:
                return r_
        if "dyn" in self.options:
            r_ = self.dyn_expr(e, cur)
            if r_ is not None:
                return r_
        if isinstance(e, ast.Constant):
            if e.value is None:
                return "None", "none"
            if isinstance(e.value, bool):
                return ("true" if e.value else "false"), "bool"
            if isinstance(e.value, int):
                return (f"{e.value}" if e.value >= 0 else f"({e.value})"), "int"
            if isinstance(e.value, str) and e.value in ("F", "C"):
                return ("OrdF" if e.value == "F" else "OrdC"), "order"
            fail(e, "constant")
        if isinstance(e, ast.Name):
            if e.id in cur:
                return cur[e.id]
            fail(e, "unknown name")
        if isinstance(e, ast.UnaryOp) and isinstance(e.op, ast.USub):
            t, ty = self.expr(e.operand, cur)
            if ty != "int":
                fail(e, "neg")
            return f"(- {t})", "int"
        if isinstance(e, ast.UnaryOp) and isinstance(e.op, ast.Not):
            t, ty = self.expr(e.operand, cur)
            if ty != "bool":
                fail(e, "not")
            return f"(negb {t})", "bool"
        if isinstance(e, ast.BoolOp) and isinstance(e.op, ast.Or) and len(e.values) == 2 and "dyn" in self.options:
            (a0, t0), g0 = self.scoped(lambda: self.expr(e.values[0], cur))
            if t0 == "optint":
                for g in g0:
                    self.guard(g)
                (b0, t1), g1 = self.scoped(lambda: self.expr(e.values[1], cur))
                if t1 != "int":
                    fail(e, "`x or d` on Optional[int] needs an int default")
                if g1:      # the default is only evaluated when x is falsy
                    self.guard(f"((opt_truthy {a0}) || {self.conj(g1)})")
                return f"(opt_or {a0} {b0})", "int"
        if isinstance(e, ast.BoolOp):
            op = " && " if isinstance(e.op, ast.And) else " || "
            parts = []
            for v in e.values:
                (t, ty), gs = self.scoped(lambda v=v: self.expr(v, cur))
                if ty != "bool":
                    fail(e, "boolop types")
                if gs:      # short-circuit: the operand is only evaluated when the earlier ones did not decide
                    if parts:
                        before = "(" + op.join(parts) + ")" if len(parts) > 1 else parts[0]
                        pre = f"(negb {before})" if isinstance(e.op, ast.And) else before
                        self.guard(f"({pre} || {self.conj(gs)})")
                    else:
                        for g in gs:
                            self.guard(g)
                parts.append(t)
            return "(" + op.join(parts) + ")", "bool"
        if isinstance(e, ast.IfExp):
            (c, tc), gc = self.scoped(lambda: self.expr(e.test, cur))
            for g in gc:
                self.guard(g)
            (a, ta), ga = self.scoped(lambda: self.expr(e.body, cur))
            (b, tb), gb = self.scoped(lambda: self.expr(e.orelse, cur))
            if tc != "bool" or ta != tb:
                fail(e, "conditional expression types")
            if ga or gb:
                self.guard(f"(if {c} then {self.conj(ga) if ga else 'true'} else {self.conj(gb) if gb else 'true'})")
            return f"(if {c} then {a} else {b})", ta
        if isinstance(e, ast.Compare) and len(e.ops) == 1:
            op = e.ops[0]
            lhs, rhs = e.left, e.comparators[0]
            if isinstance(op, (ast.Is, ast.IsNot)) and isinstance(rhs, ast.Constant) and rhs.value is None:
                t, ty = self.expr(lhs, cur)
                if ty in ("optint", "optvec", "cyc", "optmat"):
                    s = f"(is_some {t})"
                elif ty in ("int", "vec", "mat"):
                    s = "true"      # narrowed: known not None
                else:
                    fail(e, "is None on non-optional")
                return (s if isinstance(op, ast.IsNot) else f"(negb {s})"), "bool"
            if isinstance(op, ast.Is) and isinstance(rhs, ast.Constant) and rhs.value is True:
                t, ty = self.expr(lhs, cur)
                if ty != "bool":
                    fail(e, "is True on non-bool")
                return t, "bool"
            if isinstance(op, ast.Eq) and isinstance(rhs, ast.Constant) and isinstance(rhs.value, str):
                t, ty = self.expr(lhs, cur)
                tags = {"fc": "CycFC", "bc": "CycBC", "t": "CycT"}
                if ty != "cyc" or rhs.value not in tags:
                    fail(e, "string comparison")
                return f"(cyc_is {t} {tags[rhs.value]})", "bool"
            if isinstance(op, (ast.In, ast.NotIn)) and isinstance(rhs, ast.Tuple):
                t, ty = self.expr(lhs, cur)
                alts = [self.expr(x, cur) for x in rhs.elts]
                if ty != "int" or any(a[1] != "int" for a in alts):
                    fail(e, "in-tuple types")
                s = "(" + " || ".join(f"({t} =? {a[0]})" for a in alts) + ")"
                return (s if isinstance(op, ast.In) else f"(negb {s})"), "bool"
            l, tl = self.expr(lhs, cur)
            r, tr = self.expr(rhs, cur)
            cmpops = {ast.Lt: "<?", ast.LtE: "<=?", ast.Gt: ">?", ast.GtE: ">=?", ast.Eq: "=?"}
            if tl == "int" and tr == "int" and type(op) in cmpops:
                return f"({l} {cmpops[type(op)]} {r})", "bool"
            if tl == "int" and tr == "int" and isinstance(op, ast.NotEq):
                return f"(negb ({l} =? {r}))", "bool"
            if tl == "vec" and tr == "int" and isinstance(op, ast.Lt):
                return f"(np_lt_s {l} {r})", "bvec"
            fail(e, "comparison")
        if isinstance(e, ast.BinOp):
            k = self.kr_template(e, cur)
            if k:
                return k
            l, tl = self.expr(e.left, cur)
            r, tr = self.expr(e.right, cur)
            ops = {ast.Add: "+", ast.Sub: "-", ast.Mult: "*", ast.FloorDiv: "/", ast.Mod: "mod"}
            if tl == "int" and tr == "int" and type(e.op) in ops:
                if isinstance(e.op, (ast.FloorDiv, ast.Mod)) and not (
                        isinstance(e.right, ast.Constant) and isinstance(e.right.value, int) and e.right.value != 0):
                    self.guard(f"(negb ({r} =? 0))")      # ZeroDivisionError
                return f"({l} {ops[type(e.op)]} {r})", "int"
            if tl in ("vec", "nil") and tr in ("vec", "nil") and isinstance(e.op, ast.Add) \
                    and isinstance(e.left, ast.ListComp) and isinstance(e.right, ast.ListComp):
                return f"({l} ++ {r})", "vec"      # concatenation of two Python lists
            if tl == "vec" and tr == "int" and isinstance(e.op, ast.Mult):
                return f"(map (fun x_ => x_ * {r}) {l})", "vec"
            fail(e, "binop")
        if isinstance(e, ast.Attribute):
            # X.size  /  X.shape[0] handled in Subscript
            t, ty = self.expr(e.value, cur)
            if e.attr == "size" and ty == "mat":
                return f"(np_size2 {t})", "int"
            if e.attr == "size" and ty in ("vec", "bvec"):
                return f"(zlen {t})", "int"
            fail(e, "attribute")
        if isinstance(e, ast.Subscript):
            # X.shape[0]
            if isinstance(e.value, ast.Attribute) and e.value.attr == "shape" and isinstance(e.slice, ast.Constant) and e.slice.value == 0:
                t, ty = self.expr(e.value.value, cur)
                if ty == "mat":
                    return f"(np_nrows {t})", "int"
                fail(e, "shape[0]")
            if isinstance(e.value, ast.Attribute) and e.value.attr == "shape" and isinstance(e.slice, ast.Constant) and e.slice.value == 1:
                t, ty = self.expr(e.value.value, cur)
                if ty == "mat":
                    return f"(np_ncols {t})", "int"
                fail(e, "shape[1]")
            # shape[1:]
            if isinstance(e.slice, ast.Slice):
                t, ty = self.expr(e.value, cur)
                sl = e.slice
                if ty in ("vec", "matlist") and sl.upper is None and sl.step is None and isinstance(sl.lower, ast.Constant) and sl.lower.value == 1:
                    return f"(tl {t})", ty
                fail(e, "slice")
            a, ta = self.expr(e.value, cur)
            i, ti = self.expr(e.slice, cur)
            if ta == "vec" and ti == "vec":
                return f"(np_take 0 {a} {i})", "vec"
            if ta == "mat" and ti == "vec":
                return f"(np_take [] {a} {i})", "mat"
            if ta == "nil" and ti in ("vec", "nil"):
                return f"(np_take [] {a} {i})", "mat"
            if ta == "vec" and ti == "bvec":
                return f"(np_mask {a} {i})", "vec"
            if ta == "vec" and ti == "int":
                self.guard(f"(idx_ok {a} {i})")           # IndexError
                return f"(znth 0 {a} {i})", "int"
            if ta == "matlist" and ti == "int":
                self.guard(f"(idx_ok {a} {i})")
                return f"(znth [] {a} {i})", "mat"
            fail(e, "subscript")
        if isinstance(e, ast.ListComp):
            # [i for i in range(...)]  (identity comprehension over a range)
            if len(e.generators) == 1 and not e.generators[0].ifs and isinstance(e.generators[0].target, ast.Name) \
                    and isinstance(e.elt, ast.Name) and e.elt.id == e.generators[0].target.id \
                    and isinstance(e.generators[0].iter, ast.Call) and isinstance(e.generators[0].iter.func, ast.Name) \
                    and e.generators[0].iter.func.id == "range" and not e.generators[0].iter.keywords:
                ra = [self.expr(a, cur) for a in e.generators[0].iter.args]
                if any(ty != "int" for _, ty in ra):
                    fail(e, "range bounds")
                if len(ra) == 1:
                    return f"(np_arange 0 {ra[0][0]})", "vec"
                if len(ra) == 2:
                    return f"(np_arange {ra[0][0]} {ra[1][0]})", "vec"
                if len(ra) == 3 and ast.dump(e.generators[0].iter.args[2]) == dump("-1"):
                    return f"(np_arange_down {ra[0][0]} {ra[1][0]})", "vec"
            fail(e, "list comprehension")
        if isinstance(e, ast.Call):
            return self.call(e, cur)
        fail(e, "expression")

    # -- third batch: dynamically typed values (option "dyn") ------------------------------------------
    def class_names(self, node):
        """class names of the second argument of isinstance: a name, a dotted name, a tuple of those, or
        get_args(<module-level Union alias>)"""
        if isinstance(node, ast.Tuple):
            out = []
            for x in node.elts:
                out += self.class_names(x)
            return out
        if isinstance(node, ast.Name):
            return [node.id]
        if isinstance(node, ast.Attribute) and isinstance(node.value, ast.Name):
            return [f"{node.value.id}.{node.attr}"]
        if isinstance(node, ast.Call) and isinstance(node.func, ast.Name) and node.func.id == "get_args" and len(node.args) == 1 \
                and not node.keywords and isinstance(node.args[0], ast.Name) and node.args[0].id in self.aliases:
            return list(self.aliases[node.args[0].id])
        fail(node, "class expression of isinstance")

    def ctors_of(self, ty, node):
        """constructors of the union type `ty` that the classes named by `node` cover"""
        if ty not in UNION_CLASSES:
            fail(node, f"isinstance on a value of type {ty}")
        out = []
        for cn in self.class_names(node):
            if cn not in UNION_CLASSES[ty]:
                fail(node, f"class {cn} has no reading on type {ty}")
            for c in UNION_CLASSES[ty][cn]:
                if c not in out:
                    out.append(c)
        return out

    @staticmethod
    def col_index(sl):
        """X for a subscript of the form [:, X]"""
        if isinstance(sl, ast.Tuple) and len(sl.elts) == 2 and isinstance(sl.elts[0], ast.Slice) \
                and sl.elts[0].lower is None and sl.elts[0].upper is None and sl.elts[0].step is None \
                and not isinstance(sl.elts[1], ast.Slice):
            return sl.elts[1]
        return None

    def dyn_expr(self, e, cur):
        """expression forms of the third batch; None = not one of them (the older rules apply)"""
        if isinstance(e, ast.Attribute) and isinstance(e.value, ast.Name) and e.value.id in self.enums and e.value.id not in cur:
            if e.attr not in self.enums[e.value.id]:
                fail(e, "unknown enum member")
            return e.attr, "enum:" + e.value.id
        if isinstance(e, ast.Attribute):
            t, ty = self.expr(e.value, cur)
            table = {("nda", "ndim"): ("nd_ndim", "int"), ("nda", "size"): ("nd_size", "int"), ("nda", "shape"): ("nd_shape", "vec"),
                     ("spt", "nnz"): ("spt_nnz", "int"), ("spt", "subs"): ("spt_subs", "mat"), ("spt", "shape"): ("spt_shape", "vec"),
                     ("kt", "weights"): ("kt_weights", "vec"), ("spt", "ndims"): ("spt_ndims", "int"),
                     ("kt", "ndims"): ("kt_ndims", "int"), ("kt", "ncomponents"): ("kt_ncomponents", "int"),
                     ("slice", "start"): ("sl_start", "optint"), ("slice", "stop"): ("sl_stop", "optint"),
                     ("slice", "step"): ("sl_step", "optint"), ("kt", "factor_matrices"): ("kt_factors", "matlist")}
            if (ty, e.attr) in table:
                fn, rty = table[(ty, e.attr)]
                return f"({fn} {t})", rty
            if ty in ("mat", "vec", "bvec") and e.attr == "size":
                return None
            fail(e, f"attribute .{e.attr} of a value of type {ty}")
        if isinstance(e, ast.List) and not e.elts:
            return "[]", "nil"
        if isinstance(e, ast.List) and e.elts:
            parts = [self.expr(x, cur) for x in e.elts]
            if any(ty != "int" for _, ty in parts):
                fail(e, "list display of non-integers")
            return "[" + "; ".join(t for t, _ in parts) + "]", "pylist"
        if isinstance(e, ast.Compare) and len(e.ops) == 2 and all(isinstance(o, (ast.Lt, ast.LtE)) for o in e.ops):
            a, ta = self.expr(e.left, cur)
            b, tb = self.expr(e.comparators[0], cur)
            c, tc = self.expr(e.comparators[1], cur)
            if (ta, tb, tc) != ("int", "int", "int") or not isinstance(e.comparators[0], (ast.Name, ast.Constant)):
                fail(e, "chained comparison")       # the middle operand is evaluated once: only names / literals
            sym = {ast.Lt: "<?", ast.LtE: "<=?"}
            return f"(({a} {sym[type(e.ops[0])]} {b}) && ({b} {sym[type(e.ops[1])]} {c}))", "bool"
        if isinstance(e, ast.Compare) and len(e.ops) == 1 and isinstance(e.ops[0], (ast.In, ast.NotIn)) \
                and isinstance(e.comparators[0], ast.Call) and isinstance(e.comparators[0].func, ast.Name) \
                and e.comparators[0].func.id == "range" and not e.comparators[0].keywords and len(e.comparators[0].args) in (1, 2):
            x, tx = self.expr(e.left, cur)
            bs = [self.expr(b, cur) for b in e.comparators[0].args]
            if tx != "int" or any(t != "int" for _, t in bs) or not isinstance(e.left, (ast.Name, ast.Constant)):
                fail(e, "membership in a range")
            lo, hi = ("0", bs[0][0]) if len(bs) == 1 else (bs[0][0], bs[1][0])
            t_ = f"(({lo} <=? {x}) && ({x} <? {hi}))"
            return (t_ if isinstance(e.ops[0], ast.In) else f"(negb {t_})"), "bool"
        if isinstance(e, ast.Compare) and len(e.ops) == 1:
            op, rhs = e.ops[0], e.comparators[0]
            if isinstance(op, ast.Eq) and ast.dump(rhs) == dump("slice(None, None, None)"):
                t, ty = self.expr(e.left, cur)
                if ty != "ix":
                    fail(e, "comparison with slice(None, None, None)")
                self.guard(f"(ix_eq_ok {t})")        # `not (ndarray == slice)`: ambiguous truth value
                return f"(ix_is_fullslice {t})", "bool"
            if isinstance(op, (ast.Gt, ast.GtE)) and isinstance(e.left, ast.Name) and e.left.id in cur and cur[e.left.id][1] == "nda":
                r, tr = self.expr(rhs, cur)
                if tr != "int":
                    fail(e, "array comparison")
                return f"({'nd_gt_s' if isinstance(op, ast.Gt) else 'nd_ge_s'} {cur[e.left.id][0]} {r})", "ndb"
            return None
        if isinstance(e, ast.Subscript):
            ci = self.col_index(e.slice)
            if ci is not None:
                m, tm = self.expr(e.value, cur)
                i, ti = self.expr(ci, cur)
                if tm != "mat" or ti != "int":
                    fail(e, "column subscript")
                self.guard(f"(np_col_ok {m} {i})")
                return f"(np_col {m} {i})", "vec"
            if isinstance(e.slice, ast.Slice):
                return None
            if isinstance(e.slice, ast.Constant) and e.slice.value is None:
                a, ta = self.expr(e.value, cur)
                if ta != "nda":
                    fail(e, "X[None]")
                return f"(nd_expand0 {a})", "nda"
            if isinstance(e.value, ast.Attribute) and e.value.attr == "shape" and isinstance(e.slice, ast.Constant):
                t, ty = self.expr(e.value.value, cur)
                if ty == "mat":
                    return None
                if ty == "ten3" and e.slice.value in (0, 1, 2):
                    return f"({('t3_n1', 't3_n2', 't3_r')[e.slice.value]} {t})", "int"
            a, ta = self.expr(e.value, cur)
            i, ti = self.expr(e.slice, cur)
            if ta in ("vec", "pylist") and ti == "slice":
                self.guard(f"(slice_ok {i})")
                return f"(py_slice 0 {a} {i})", ta
            if ta in ("vec", "pylist") and ti == "vec":
                self.guard(f"(np_take_ok {a} {i})")
                return f"(np_take 0 {a} {i})", "vec"
            if ta in ("vec", "pylist") and ti == "int":
                self.guard(f"(idx_ok {a} {i})")
                return f"(znth 0 {a} {i})", "int"
            if ta == "ixlist" and ti == "int":
                self.guard(f"(idx_ok {a} {i})")
                return f"(znth IxNone {a} {i})", "ix"
            if ta == "ix" and ti == "int":
                self.guard(f"(ix_idx_ok {a} {i})")
                return f"(ix_nth {a} {i})", "int"
            if ta == "ix" and ti == "vec":
                self.guard(f"(ix_take_ok {a} {i})")
                return f"(ix_take {a} {i})", "vec"
            if ta == "key" and ti == "int":
                self.guard(f"(key_idx_ok {a} {i})")
                return f"(key_nth {a} {i})", "elem"
            return None
        if isinstance(e, ast.Call):
            return self.dyn_call(e, cur)
        return None

    def dyn_call(self, e, cur):
        f = e.func
        kw = {k.arg: k.value for k in e.keywords}
        nm = f.id if isinstance(f, ast.Name) else None
        if nm == "isinstance" and len(e.args) == 2 and not kw:
            t, ty = self.expr(e.args[0], cur)
            if ty == "nda" and ast.dump(e.args[1]) == dump("bool"):
                return "false", "bool"            # an ndarray is never a Python bool
            if ty not in UNION_CLASSES:
                return None
            cs = self.ctors_of(ty, e.args[1])
            if not cs:
                return "false", "bool"
            return "(" + " || ".join(f"({UNION_CTORS[c][1]} {t})" for c in cs) + ")", "bool"
        if nm == "issubclass" and len(e.args) == 2 and not kw and ast.dump(e.args[1]) == dump("np.integer") \
                and isinstance(e.args[0], ast.Attribute) and e.args[0].attr == "type" \
                and isinstance(e.args[0].value, ast.Attribute) and e.args[0].value.attr == "dtype":
            t, ty = self.expr(e.args[0].value.value, cur)
            if ty != "nda":
                fail(e, "issubclass(X.dtype.type, np.integer)")
            return f"(nd_is_integer {t})", "bool"
        if nm == "int" and len(e.args) == 1 and not kw:
            t, ty = self.expr(e.args[0], cur)
            if ty == "nda":
                self.guard(f"((nd_size {t}) =? 1)")      # int(array): only for exactly one entry
                return f"(nd_int0 {t})", "int"
            if ty != "int":
                fail(e, "int() of a non-integer")
            return t, "int"
        if nm == "tuple" and len(e.args) == 1 and not kw and ast.dump(e.args[0].func if isinstance(e.args[0], ast.Call) else e) == dump("map") \
                and len(e.args[0].args) == 2 and not e.args[0].keywords and ast.dump(e.args[0].args[0]) == dump("int"):
            t, ty = self.expr(e.args[0].args[1], cur)
            if ty != "nda":
                fail(e, "tuple(map(int, X))")
            self.guard(f"((nd_ndim {t}) =? 1)")         # iteration over the first axis: entries only for a 1-d array
            return f"(nd_ints {t})", "pylist"
        if nm == "tuple" and len(e.args) == 1 and not kw and isinstance(e.args[0], ast.Name) and e.args[0].id in cur \
                and cur[e.args[0].id][1] == "shp":
            t = cur[e.args[0].id][0]
            self.guard(f"(shp_iter_ok {t})")
            return f"(shp_elems {t})", "elist"
        if isinstance(f, ast.Attribute) and f.attr == "squeeze" and not e.args and not kw:
            t, ty = self.expr(f.value, cur)
            if ty != "nda":
                fail(e, ".squeeze()")
            return f"(nd_squeeze {t})", "nda"
        if ast.dump(f) == dump("np.issubdtype") and len(e.args) == 2 and not kw and ast.dump(e.args[1]) == dump("np.integer") \
                and isinstance(e.args[0], ast.Attribute) and e.args[0].attr == "dtype":
            t, ty = self.expr(e.args[0].value, cur)
            if ty != "nda":
                fail(e, "np.issubdtype(X.dtype, np.integer)")
            return f"(nd_is_integer {t})", "bool"
        if ast.dump(f) == dump("np.array") and len(e.args) == 1 and not kw and isinstance(e.args[0], ast.List) and e.args[0].elts \
                and "array_nda" in self.options:
            t, ty = self.expr(e.args[0], cur)
            return f"(nd_of_ints {t})", "nda"
        if nm == "len" and len(e.args) == 1 and not kw and isinstance(e.args[0], ast.SetComp):
            # len({E for x in range(..) if C}): the number of distinct values of E over the selected x
            sc = e.args[0]
            if len(sc.generators) != 1 or sc.generators[0].is_async or not isinstance(sc.generators[0].target, ast.Name):
                fail(e, "set comprehension form")
            g = sc.generators[0]
            x = g.target.id
            l, tl_ = self.expr(g.iter, cur)
            if tl_ not in ("pylist", "vec") or x in cur:
                fail(e, "set comprehension iterable / bound-variable capture")
            self.fresh += 1
            xv = f"{x}_{self.fresh}"
            c2 = dict(cur)
            c2[x] = (xv, "int")
            sel = l
            for cond in g.ifs:
                (ct, cty), cg = self.scoped(lambda cond=cond: self.expr(cond, c2))
                if cty != "bool" or cg:
                    fail(e, "set comprehension filter (must be a total boolean expression)")
                sel = f"(filter (fun {xv} => {ct}) {sel})"
            (et, ety), eg = self.scoped(lambda: self.expr(sc.elt, c2))
            if ety != "int":
                fail(e, "set comprehension element")
            if eg:       # the element expression may raise for some x: every selected x must pass
                self.guard(f"(forallb (fun {xv} => {self.conj(eg)}) {sel})")
            return f"(zlen (np_unique (map (fun {xv} => {et}) {sel})))", "int"
        if nm == "len" and len(e.args) == 1 and not kw:
            if isinstance(e.args[0], ast.Attribute) and e.args[0].attr == "shape":
                t, ty = self.expr(e.args[0].value, cur)
                if ty == "nda":
                    return f"(nd_ndim {t})", "int"
                if ty != "spt":
                    return None
            t, ty = self.expr(e.args[0], cur)
            if ty == "vec" and isinstance(e.args[0], ast.Attribute):
                return f"(zlen {t})", "int"
            if ty == "ix":
                self.guard(f"(ix_len_ok {t})")
                return f"(ix_len {t})", "int"
            if ty in ("pylist", "ixlist", "elist"):
                return f"(zlen {t})", "int"
            return None
        if nm == "range" and len(e.args) == 1 and not kw:
            b, tb = self.expr(e.args[0], cur)
            if tb != "int":
                fail(e, "range bound")
            return f"(np_arange 0 {b})", "pylist"
        if isinstance(f, ast.Attribute) and f.attr == "dot" and len(e.args) == 1 and not kw:
            # X[:, :, j].transpose().dot(v)  /  X[:, :, j].dot(v)  for a 3-d view X
            recv, lead = f.value, False
            if isinstance(recv, ast.Call) and isinstance(recv.func, ast.Attribute) and recv.func.attr == "transpose" \
                    and not recv.args and not recv.keywords:
                recv, lead = recv.func.value, True
            if isinstance(recv, ast.Subscript) and isinstance(recv.slice, ast.Tuple) and len(recv.slice.elts) == 3 \
                    and all(isinstance(x, ast.Slice) and x.lower is None and x.upper is None and x.step is None for x in recv.slice.elts[:2]) \
                    and not isinstance(recv.slice.elts[2], ast.Slice):
                x, tx = self.expr(recv.value, cur)
                j, tj = self.expr(recv.slice.elts[2], cur)
                v, tv = self.expr(e.args[0], cur)
                if (tx, tj, tv) != ("ten3", "int", "vec"):
                    fail(e, "slice-dot template")
                fn = "t3_dot_lead" if lead else "t3_dot_mid"
                self.guard(f"({fn}_ok {x} {j} {v})")
                return f"({fn} {x} {j} {v})", "vec"
            fail(e, ".dot()")
        if isinstance(f, (ast.Name, ast.Attribute)) and (kw or any(isinstance(x, ast.Starred) for x in e.args)):
            fname = f.id if isinstance(f, ast.Name) else (f.attr if isinstance(f.value, ast.Name) and f.value.id == "ttb" else None)
            if fname in self.known and fname in self.known_names and len(self.known[fname][1]) == 1:
                # call of a translated function with *list / keyword arguments (single result): an Err of the callee is
                # an Err here — expressed as a guard on `is_ok` plus the projection `res_get`
                ptys, rtys = self.known[fname]
                pn = self.known_names[fname]
                given = {}
                pos = [x for x in e.args]
                if len(pos) == 1 and isinstance(pos[0], ast.Starred) and "*" in pn:
                    given[pn.index("*")] = pos[0].value
                elif pos:
                    fail(e, "positional arguments of a known call")
                for k_, v_ in kw.items():
                    if k_ not in pn:
                        fail(e, "keyword of a known call")
                    given[pn.index(k_)] = v_
                for i_, pname in enumerate(pn):      # parameters left out take the default written in the callee's signature
                    if i_ not in given and pname in self.known_defaults.get(fname, {}):
                        given[i_] = self.known_defaults[fname][pname]
                if sorted(given) != list(range(len(ptys))):
                    fail(e, "known call: every parameter must be given")
                ats = []
                for i_ in range(len(ptys)):
                    t, ty = self.expr(given[i_], cur)
                    ats.append(self.coerce(t, ty, ptys[i_], e))
                call_ = f"({fname} {' '.join(ats)})"
                self.guard(f"(is_ok {call_})")
                dflt = {"mat": "[]", "vec": "[]", "int": "0"}.get(rtys[0])
                if dflt is None:
                    fail(e, "known call result type")
                return f"(res_get {dflt} {call_})", rtys[0]
        if nm == "range" and len(e.args) == 2 and not kw:
            a, ta = self.expr(e.args[0], cur)
            b, tb = self.expr(e.args[1], cur)
            if ta != "int" or tb != "int":
                fail(e, "range bounds")
            return f"(np_arange {a} {b})", "pylist"
        if nm in ("list", "tuple") and len(e.args) == 1 and not kw and not isinstance(e.args[0], ast.Call):
            t, ty = self.expr(e.args[0], cur)
            if ty in ("vec", "pylist"):
                return t, "pylist"
            fail(e, nm + "()")
        if nm == "list" and len(e.args) == 1 and not kw and isinstance(e.args[0], ast.Call) \
                and isinstance(e.args[0].func, ast.Name) and e.args[0].func.id == "range":
            return self.expr(e.args[0], cur)
        if nm == "all" and len(e.args) == 1 and not kw and not isinstance(e.args[0], ast.GeneratorExp):
            t, ty = self.expr(e.args[0], cur)
            if ty != "ndb":
                fail(e, "all() of a non-array")
            self.guard(f"(ndb_iter_ok {t})")
            return f"(ndb_all {t})", "bool"
        if isinstance(f, ast.Attribute) and f.attr == "all" and not e.args and not kw:
            t, ty = self.expr(f.value, cur)
            if ty != "ndb":
                fail(e, ".all() of a non-array")
            return f"(ndb_all {t})", "bool"
        if isinstance(f, ast.Attribute) and f.attr == "copy" and not e.args and not kw:
            t, ty = self.expr(f.value, cur)
            if ty in ("kt", "matlist"):
                return t, ty
            return None
        if isinstance(f, ast.Attribute) and isinstance(f.value, ast.Name) and f.value.id == "np" and "np" not in cur:
            fn = f.attr
            if fn == "array" and len(e.args) == 1 and not kw and not isinstance(e.args[0], ast.List):
                t, ty = self.expr(e.args[0], cur)
                if ty == "ix":
                    return f"(ix_asarray {t})", "ix"
                if ty == "key":
                    self.guard(f"(key_asarray_ok {t})")
                    return f"(key_asarray {t})", "nda"
                if ty == "shp":
                    self.guard(f"(shp_asarray_ok {t})")
                    return f"(shp_asarray {t})", "nda"
                if ty == "nda":
                    return t, "nda"
                return None
            if ast.dump(e) == dump("np.empty(shape=(1, 0), dtype=int)"):
                return "[[]]", "mat"
            if fn == "zeros" and not e.args and set(kw) == {"shape"} and isinstance(kw["shape"], ast.Tuple) and len(kw["shape"].elts) == 2:
                a, ta = self.expr(kw["shape"].elts[0], cur)
                b, tb = self.expr(kw["shape"].elts[1], cur)
                if ta != "int" or tb != "int":
                    fail(e, "np.zeros(shape=(a, b))")
                self.guard(f"(np_zeros2_ok {a} {b})")
                return f"(np_zeros2 {a} {b})", "mat"
            if fn == "ones" and len(e.args) == 1 and not kw and isinstance(e.args[0], ast.Tuple) and len(e.args[0].elts) == 2 \
                    and ast.dump(e.args[0].elts[1]) == dump("1"):
                a, ta = self.expr(e.args[0].elts[0], cur)
                if ta != "int":
                    fail(e, "np.ones((n, 1))")
                self.guard(f"(0 <=? {a})")
                return f"(np_ones_col {a})", "mat"
            if fn == "expand_dims" and len(e.args) == 1 and set(kw) == {"axis"} and ast.dump(kw["axis"]) == dump("1"):
                v, tv = self.expr(e.args[0], cur)
                if tv != "vec":
                    fail(e, "np.expand_dims(v, axis=1)")
                return f"(np_col_mat {v})", "mat"
            if fn == "squeeze" and len(e.args) == 1 and not kw:
                m, tm = self.expr(e.args[0], cur)
                if tm != "mat":
                    fail(e, "np.squeeze")
                self.guard(f"(np_squeeze_col_ok {m})")
                return f"(np_squeeze_col {m})", "vec"
            if fn == "zeros" and not e.args and set(kw) == {"shape"}:
                t, ty = self.expr(kw["shape"], cur)
                if ty != "int":
                    fail(e, "np.zeros(shape=<int>)")
                self.guard(f"(np_zeros_ok {t})")
                return f"(np_zeros {t})", "vec"
            if fn == "reshape" and len(e.args) == 2 and set(kw) == {"order"} and ast.dump(kw["order"]) == dump("'F'") \
                    and isinstance(e.args[1], ast.Tuple) and len(e.args[1].elts) == 3:
                m_, tm = self.expr(e.args[0], cur)
                a_, b_, r_ = e.args[1].elts
                if tm != "mat":
                    fail(e, "np.reshape to 3-d")
                r, tr = self.expr(r_, cur)
                if ast.dump(b_) == dump("-1"):
                    n, tn = self.expr(a_, cur)
                    fn3 = "np_reshape3_lead"
                elif ast.dump(a_) == dump("-1"):
                    n, tn = self.expr(b_, cur)
                    fn3 = "np_reshape3_mid"
                else:
                    fail(e, "np.reshape to 3-d: one leading axis must be -1")
                if tn != "int" or tr != "int":
                    fail(e, "np.reshape to 3-d: sizes")
                self.guard(f"({fn3}_ok {m_} {n} {r})")
                return f"({fn3} {m_} {n} {r})", "ten3"
            if fn == "zeros_like" and len(e.args) == 1 and set(kw) == {"shape"} and isinstance(kw["shape"], ast.Tuple) \
                    and len(kw["shape"].elts) == 2:
                self.expr(e.args[0], cur)       # only the dtype of the prototype is used
                a, ta = self.expr(kw["shape"].elts[0], cur)
                b, tb = self.expr(kw["shape"].elts[1], cur)
                if ta != "int" or tb != "int":
                    fail(e, "np.zeros_like(shape=)")
                self.guard(f"(np_zeros2_ok {a} {b})")
                return f"(np_zeros2 {a} {b})", "mat"
            if fn == "isfinite" and len(e.args) == 1 and not kw:
                t, ty = self.expr(e.args[0], cur)
                if ty != "nda":
                    fail(e, "np.isfinite")
                return f"(nd_isfinite {t})", "ndb"
            if fn == "insert" and len(e.args) == 1 and set(kw) == {"obj", "values", "axis"} and ast.dump(kw["axis"]) == dump("1"):
                m, tm = self.expr(e.args[0], cur)
                i, ti = self.expr(kw["obj"], cur)
                v, tv = self.expr(kw["values"], cur)
                if (tm, ti, tv) != ("mat", "int", "int"):
                    fail(e, "np.insert")
                self.guard(f"(np_insert_col_ok {m} {i})")
                return f"(np_insert_col {m} {i} {v})", "mat"
        return None


    # -- fourth batch (Np/NpZ4.v): whole methods of pyttb classes (option "m4") ---------------------------------
    @staticmethod
    def seq_kind(n):
        """'tuple' / 'list' for an expression that is syntactically a Python tuple / list; None otherwise"""
        if isinstance(n, ast.Call) and isinstance(n.func, ast.Name) and len(n.args) == 1 and not n.keywords:
            if n.func.id == "tuple":
                return "tuple"
            if n.func.id in ("list", "sorted"):
                return "list"
        if isinstance(n, ast.Call) and isinstance(n.func, ast.Attribute) and n.func.attr == "tolist" and not n.args and not n.keywords:
            return "list"
        if isinstance(n, ast.List):
            return "list"
        if isinstance(n, ast.Tuple):
            return "tuple"
        return None

    @staticmethod
    def plain_slice(sl):
        return isinstance(sl, ast.Slice) and sl.step is None

    def slice_text(self, sl, cur):
        """(mkslice lo hi None) for a[lo:hi] with integer bounds (either may be absent)"""
        parts = []
        for b in (sl.lower, sl.upper):
            if b is None:
                parts.append("None")
            else:
                t, ty = self.expr(b, cur)
                if ty != "int":
                    fail(sl, "slice bound")
                parts.append(f"(Some {t})")
        return f"(mkslice {parts[0]} {parts[1]} None)"

    def m6_expr(self, e, cur):
        """expression forms of the sixth batch (option "m6", Np/NpZ4f.v); None = not one of them (the older rules apply).
        `V != c` / `V == c` for a NAME V whose current type is vec (a 1-d integer ndarray) and an int expression c: numpy compares
        entry by entry (bool array of the length of V; an empty V gives an empty array).  Fail closed: a single comparison
        operator, the array on the left, the right operand of type int (a Python sequence / None / another array there is a
        different numpy rule)."""
        if isinstance(e, ast.Compare) and len(e.ops) == 1 and isinstance(e.ops[0], (ast.NotEq, ast.Eq)) \
                and isinstance(e.left, ast.Name) and e.left.id in cur and cur[e.left.id][1] == "vec":
            r, tr = self.expr(e.comparators[0], cur)
            if tr != "int":
                fail(e, "array != / == int")
            return f"({'np_ne_s' if isinstance(e.ops[0], ast.NotEq) else 'np_eq_s'} {cur[e.left.id][0]} {r})", "bvec"
        return None

    def m5_expr(self, e, cur):
        """expression forms of the fifth batch (option "m5"); None = not one of them (the older rules apply)"""
        if isinstance(e, ast.Compare) and len(e.ops) == 1 and isinstance(e.ops[0], (ast.Lt, ast.GtE)) \
                and isinstance(e.left, ast.Name) and e.left.id in cur and cur[e.left.id][1] == "vec":
            r, tr = self.expr(e.comparators[0], cur)
            if tr != "int":
                fail(e, "array < / >= int")
            return f"({'np_lt_s' if isinstance(e.ops[0], ast.Lt) else 'np_ge_s'} {cur[e.left.id][0]} {r})", "bvec"
        if isinstance(e, ast.Call):
            f = e.func
            kw = {k.arg: k.value for k in e.keywords}
            nm = f.id if isinstance(f, ast.Name) else None
            if nm == "any" and nm not in cur and len(e.args) == 1 and not kw and isinstance(e.args[0], ast.GeneratorExp):
                # any(P(x) for x in L): P must be total on the items (a guard inside the test aborts the unit)
                g = e.args[0]
                if len(g.generators) != 1 or g.generators[0].ifs or g.generators[0].is_async or not isinstance(g.generators[0].target, ast.Name):
                    fail(e, "generator form")
                x = g.generators[0].target.id
                l, tl_ = self.expr(g.generators[0].iter, cur)
                if tl_ not in ("vec", "pylist") or x in cur:
                    fail(e, "any(.. for x in L): iterable / bound-variable capture")
                self.fresh += 1
                xv = f"{x}_{self.fresh}"
                c2 = dict(cur)
                c2[x] = (xv, "int")
                (b, tb), gs = self.scoped(lambda: self.expr(g.elt, c2))
                if tb != "bool" or gs:
                    fail(e, "any(.. for x in L): the test must be a total boolean")
                return f"(existsb (fun {xv} => {b}) {l})", "bool"
            if nm == "parse_shape" and nm not in cur and len(e.args) == 1 and not kw:
                t, ty = self.expr(e.args[0], cur)
                if ty not in ("vec", "pylist"):
                    fail(e, "parse_shape")
                return t, "pylist"       # parse_shape returns a TUPLE of ints (identity on the items)
            if nm == "prod" and nm not in cur and len(e.args) == 1 and not kw:
                t, ty = self.expr(e.args[0], cur)
                if ty not in ("vec", "pylist"):
                    fail(e, "prod")
                return f"(zprod {t})", "int"
            if isinstance(f, ast.Attribute) and isinstance(f.value, ast.Name) and f.value.id == "np" and "np" not in cur:
                fn = f.attr
                if fn == "atleast_1d" and len(e.args) == 1 and not kw:
                    t, ty = self.expr(e.args[0], cur)
                    if ty != "vec":
                        fail(e, "np.atleast_1d")
                    return t, "vec"          # an int request is the 1-vector of the model already
                if fn == "isscalar" and len(e.args) == 1 and not kw:
                    t, ty = self.expr(e.args[0], cur)
                    if ty not in ("vec", "mat"):
                        fail(e, "np.isscalar")
                    return "false", "static_false"      # an ndarray is never a scalar: decided by the type
                if fn == "setdiff1d" and len(e.args) == 2 and not kw:
                    a, ta = self.expr(e.args[0], cur)
                    b, tb = self.expr(e.args[1], cur)
                    if ta != "vec" or tb != "vec":
                        fail(e, "np.setdiff1d")
                    return f"(np_setdiff1d {a} {b})", "vec"
                if fn == "arange" and len(e.args) == 2 and set(kw) == {"dtype"} and ast.dump(kw["dtype"]) == dump("int"):
                    a, ta = self.expr(e.args[0], cur)
                    b, tb = self.expr(e.args[1], cur)
                    if ta != "int" or tb != "int":
                        fail(e, "np.arange")
                    return f"(np_arange {a} {b})", "vec"
                if fn == "array" and len(e.args) == 1 and isinstance(e.args[0], ast.List) and not e.args[0].elts \
                        and (not kw or (set(kw) == {"dtype"} and ast.dump(kw["dtype"]) == dump("int"))):
                    return "[]", "nil"
                if fn == "array" and len(e.args) == 1 and not kw and isinstance(e.args[0], ast.Attribute) and e.args[0].attr == "shape":
                    t, ty = self.expr(e.args[0], cur)
                    if ty != "vec":
                        fail(e, "np.array(X.shape)")
                    return t, "vec"
                if fn == "concatenate" and len(e.args) == 1 and isinstance(e.args[0], ast.Tuple) and len(e.args[0].elts) == 2 \
                        and (not kw or (set(kw) == {"axis"} and ast.dump(kw["axis"]) == dump("1"))):
                    a, ta = self.expr(e.args[0].elts[0], cur)
                    b, tb = self.expr(e.args[0].elts[1], cur)
                    if not kw and ta in ("vec", "nil", "pylist") and tb in ("vec", "nil", "pylist"):
                        # a Python sequence operand is converted by np.array: an EMPTY one becomes a float64 array and so does
                        # the result — outside the integer-array model: such a request is an Err of the model (every use seen
                        # so far hands the result to a constructor as a shape, which raises for a non-integer dtype; the
                        # correspondence stream covers the class)
                        for x_, tx_ in ((a, ta), (b, tb)):
                            if tx_ == "pylist":
                                self.guard(f"(negb (zlen {x_} =? 0))")
                        return f"({a} ++ {b})", "vec"
                    if kw and ta == "mat" and tb == "mat":
                        self.guard(f"(np_hstack_ok {a} {b})")
                        return f"(np_hstack {a} {b})", "mat"
                    fail(e, "np.concatenate")
        return None

    def m4_expr(self, e, cur):
        """expression forms of the fourth batch; None = not one of them (the older rules apply)"""
        if isinstance(e, ast.Attribute):
            if isinstance(e.value, ast.Name) and e.value.id in cur and cur[e.value.id][1] == "kt" and e.attr in ("shape", "order"):
                if e.attr == "order":
                    of = self.file_funcs.get("ktensor.order")
                    if of is None or [ast.dump(x) for x in strip_doc(of.body)] != [ast.dump(ast.parse("return 'F'").body[0])]:
                        fail(e, "the property ktensor.order must be the constant 'F'")
                    return "OrdF", "order"
                return f"(kt_shape {cur[e.value.id][0]})", "vec"
            if isinstance(e.value, ast.Name) and e.value.id in cur and cur[e.value.id][1] == "vec" and e.attr == "T":
                return cur[e.value.id][0], "vec"       # the transpose of a 1-d array is the array itself
            if isinstance(e.value, ast.Name) and e.value.id in cur and cur[e.value.id][1] == "spt" and e.attr == "vals":
                return f"(spt_vals {cur[e.value.id][0]})", "vec"
            return None
        if isinstance(e, ast.Compare) and len(e.ops) == 1 and isinstance(e.ops[0], ast.NotEq) and isinstance(e.left, ast.Call) \
                and isinstance(e.left.func, ast.Name) and e.left.func.id == "round" and len(e.left.args) == 1 and not e.left.keywords \
                and isinstance(e.left.args[0], ast.Name) and ast.dump(e.left.args[0]) == ast.dump(e.comparators[0]):
            t, ty = self.expr(e.comparators[0], cur)
            if ty != "rat":
                fail(e, "round(x) != x")
            return f"(negb (rat_is_int {t}))", "bool"
        if isinstance(e, ast.Compare) and len(e.ops) == 1 and isinstance(e.left, ast.Attribute) and e.left.attr == "dtype":
            # `X.dtype == bool` / `!= bool` for a parameter X that carries a dtype flag (env "dtype_flags": the Gallina function
            # has an extra parameter `<flag> : bool` right after X = "X is a boolean array"; the Z-vector itself holds 0/1 then).
            # The flag follows the Python NAME: func() checked that the only rebinding of X is `X = parse_one_d(X)`, which keeps
            # the dtype (ndarray: squeeze; list: np.array).
            op, lhs, rhs = e.ops[0], e.left.value, e.comparators[0]
            if not (isinstance(lhs, ast.Name) and lhs.id in self.dtype_flags and lhs.id in cur and isinstance(op, (ast.Eq, ast.NotEq))
                    and isinstance(rhs, ast.Name) and rhs.id == "bool" and "bool" not in cur):
                fail(e, "dtype test (only `P.dtype ==/!= bool` for a parameter P with a declared dtype flag)")
            t = self.dtype_flags[lhs.id]
            return (t if isinstance(op, ast.Eq) else f"(negb {t})"), "bool"
        if isinstance(e, ast.Compare) and len(e.ops) == 1:
            op, lhs, rhs = e.ops[0], e.left, e.comparators[0]
            if isinstance(op, (ast.Is, ast.IsNot)) and isinstance(rhs, ast.Constant) and rhs.value is None \
                    and isinstance(lhs, ast.Name) and lhs.id in cur and cur[lhs.id][1] == "ix":
                t = f"(ix_is_none {cur[lhs.id][0]})"
                return (t if isinstance(op, ast.Is) else f"(negb {t})"), "bool"
            if isinstance(op, (ast.Eq, ast.NotEq)) and (self.seq_kind(lhs) or self.seq_kind(rhs)):
                # == between two Python sequences of ints: equal only for the same class (tuple / list) and the same items
                if self.seq_kind(lhs) != self.seq_kind(rhs):
                    fail(e, "comparison of a tuple with a list (or with a value of unknown class)")
                l, tl = self.expr(lhs, cur)
                r, tr = self.expr(rhs, cur)
                if tl != "pylist" or tr != "pylist":
                    fail(e, "sequence comparison types")
                t = f"(zlist_eqb {l} {r})"
                return (t if isinstance(op, ast.Eq) else f"(negb {t})"), "bool"
            if isinstance(op, (ast.Eq, ast.NotEq)) and all(isinstance(x, ast.Call) and ast.dump(x.func) in (dump("np.sort"), dump("np.arange"))
                                                           for x in (lhs, rhs)):
                # element-wise comparison of two freshly built 1-d arrays
                l, tl = self.expr(lhs, cur)
                r, tr = self.expr(rhs, cur)
                if tl != "vec" or tr != "vec":
                    fail(e, "element-wise ==")
                self.guard(f"(np_bcast_ok {l} {r})")
                t = f"(np_eq_vv {l} {r})"
                return (t if isinstance(op, ast.Eq) else f"(map negb {t})"), "bvec"
            if isinstance(op, ast.Gt) and isinstance(lhs, ast.Name) and lhs.id in cur and cur[lhs.id][1] == "vec":
                r, tr = self.expr(rhs, cur)
                if tr != "int":
                    fail(e, "array > int")
                return f"(np_gt_s {cur[lhs.id][0]} {r})", "bvec"
            if isinstance(op, (ast.LtE, ast.Lt)) and isinstance(lhs, ast.Subscript) and isinstance(rhs, ast.Subscript):
                l, tl = self.expr(lhs, cur)
                r, tr = self.expr(rhs, cur)
                if tl == "vec" and tr == "vec":
                    self.guard(f"(np_bcast_ok {l} {r})")
                    return f"({'np_le_vv' if isinstance(op, ast.LtE) else 'np_lt_vv'} {l} {r})", "bvec"
                fail(e, "element-wise <= / <")
            return None
        if isinstance(e, ast.Constant) and isinstance(e.value, float) and e.value == int(e.value) and "float_consts" in self.options:
            return (f"{int(e.value)}" if e.value >= 0 else f"({int(e.value)})"), "int"       # values are integer-valued floats
        if isinstance(e, ast.BinOp) and isinstance(e.op, ast.Div):
            l, tl = self.expr(e.left, cur)
            r, tr = self.expr(e.right, cur)
            if tl != "int" or tr != "int":
                fail(e, "true division")
            self.guard(f"(negb ({r} =? 0))")          # ZeroDivisionError
            return f"(rat_div {l} {r})", "rat"
        if isinstance(e, ast.UnaryOp) and isinstance(e.op, ast.USub):
            t, ty = self.expr(e.operand, cur)
            if ty == "vec":
                return f"(map Z.opp {t})", "vec"
            if ty == "int":
                return f"(- {t})", "int"
            fail(e, "neg")
        if isinstance(e, ast.ListComp):
            if len(e.generators) != 1 or e.generators[0].ifs or e.generators[0].is_async \
                    or not isinstance(e.generators[0].target, ast.Name):
                fail(e, "list comprehension form")
            g = e.generators[0]
            x = g.target.id
            l, tl_ = self.expr(g.iter, cur)
            ety = ELEM_TY.get(tl_)
            if ety is None or x in cur:
                fail(e, "list comprehension iterable / bound-variable capture")
            self.fresh += 1
            xv = f"{x}_{self.fresh}"
            c2 = dict(cur)
            c2[x] = (xv, ety)
            (b, tb), gs = self.scoped(lambda: self.expr(e.elt, c2))
            rty = {"int": "pylist", "mat": "matlist"}.get(tb)
            if rty is None:
                fail(e, "list comprehension element type")
            if gs:        # the element expression may raise for some x: every x must pass
                self.guard(f"(forallb (fun {xv} => {self.conj(gs)}) {l})")
            return f"(map (fun {xv} => {b}) {l})", rty
        if isinstance(e, ast.Subscript):
            ci = self.col_index(e.slice)
            if ci is not None:
                i, ti = self.expr(ci, cur)
                if ti in ("vec", "ix"):
                    m, tm = self.expr(e.value, cur)
                    if tm != "mat":
                        fail(e, "column gather")
                    if ti == "ix":
                        self.guard(f"(ix_len_ok {i})")
                        i = f"(ix_seq {i})"
                    self.guard(f"(np_cols_ok {m} {i})")
                    return f"(np_cols {m} {i})", "mat"
                return None
            if isinstance(e.slice, ast.Slice):
                sl = e.slice
                if sl.lower is None and sl.upper is None and sl.step is not None and ast.dump(sl.step) == dump("-1"):
                    a, ta = self.expr(e.value, cur)
                    if ta not in ("vec", "pylist"):
                        fail(e, "[::-1]")
                    return f"(rev {a})", ta
                if self.plain_slice(sl) and not (sl.upper is None and isinstance(sl.lower, ast.Constant) and sl.lower.value == 1):
                    a, ta = self.expr(e.value, cur)
                    if ta not in ("vec", "pylist"):
                        fail(e, "slice of a non-vector")
                    return f"(py_slice 0 {a} {self.slice_text(sl, cur)})", ta
                return None
            if isinstance(e.slice, ast.Constant) and e.slice.value == 0 and isinstance(e.value, ast.Call) \
                    and ast.dump(e.value.func) == dump("np.where") and len(e.value.args) == 1 and not e.value.keywords:
                b, tb = self.expr(e.value.args[0], cur)
                if tb != "bvec":
                    fail(e, "np.where(mask)[0]")
                return f"(np_where1 {b})", "vec"
            if isinstance(e.slice, ast.Tuple) and len(e.slice.elts) == 2 and not any(isinstance(x, ast.Slice) for x in e.slice.elts):
                m, tm = self.expr(e.value, cur)
                v, tv = self.expr(e.slice.elts[0], cur)
                i, ti = self.expr(e.slice.elts[1], cur)
                if (tm, tv, ti) != ("mat", "vec", "int"):
                    fail(e, "M[rows, column]")
                self.guard(f"(np_col_ok {m} {i})")
                self.guard(f"(np_take_ok (np_col {m} {i}) {v})")
                return f"(np_take 0 (np_col {m} {i}) {v})", "vec"
            if isinstance(e.slice, (ast.Tuple, ast.Constant)):
                return None
            i, ti = self.expr(e.slice, cur)
            if ti == "vec" and isinstance(e.value, ast.Name) and e.value.id in cur and cur[e.value.id][1] == "mat":
                a = cur[e.value.id][0]
                self.guard(f"(np_take_ok {a} {i})")
                return f"(np_take [] {a} {i})", "mat"          # rows picked by an index vector
            if ti == "ix":
                a, ta = self.expr(e.value, cur)
                if ta == "pylist" and isinstance(e.value, ast.Call) and isinstance(e.value.func, ast.Name) and e.value.func.id == "range":
                    # range(a, b)[key]: only a slice key yields a sequence (an int key a number, anything else raises)
                    self.guard(f"(ix_is_slice {i})")
                    self.guard(f"(slice_ok (ix_slice {i}))")
                    return f"(py_slice 0 {a} (ix_slice {i}))", "pylist"
                if ta != "vec":
                    fail(e, "index by a sequence")
                self.guard(f"(ix_len_ok {i})")
                self.guard(f"(np_take_ok {a} (ix_seq {i}))")
                return f"(np_take 0 {a} (ix_seq {i}))", "vec"
            return None
        if isinstance(e, ast.Call):
            f = e.func
            kw = {k.arg: k.value for k in e.keywords}
            nm = f.id if isinstance(f, ast.Name) else None
            if nm in ("tuple", "list") and len(e.args) == 1 and not kw and isinstance(e.args[0], ast.Call) \
                    and ((isinstance(e.args[0].func, ast.Name) and e.args[0].func.id in ("range", "sorted"))
                         or (isinstance(e.args[0].func, ast.Attribute) and e.args[0].func.attr == "tolist")):
                t, ty = self.expr(e.args[0], cur)
                if ty not in ("vec", "pylist"):
                    fail(e, nm + "()")
                return t, "pylist"
            if nm == "sorted" and len(e.args) == 1 and not kw:
                t, ty = self.expr(e.args[0], cur)
                if ty not in ("vec", "pylist"):
                    fail(e, "sorted()")
                return f"(np_sort {t})", "pylist"
            if nm == "sum" and len(e.args) == 1 and not kw:
                t, ty = self.expr(e.args[0], cur)
                if ty not in ("vec", "pylist"):
                    fail(e, "sum()")
                return f"(zsum {t})", "int"
            if isinstance(f, ast.Attribute) and f.attr == "tolist" and not e.args and not kw:
                t, ty = self.expr(f.value, cur)
                if ty != "vec":
                    fail(e, ".tolist()")
                return t, "pylist"
            if isinstance(f, ast.Attribute) and f.attr == "reshape" and len(e.args) == 1 and not kw:
                t, ty = self.expr(f.value, cur)
                n, tn = self.expr(e.args[0], cur)
                if ty != "vec" or tn != "int":
                    fail(e, ".reshape(n)")
                self.guard(f"(zlen {t} =? {n})")
                return t, "vec"
            if isinstance(f, ast.Attribute) and f.attr == "item" and not e.args and not kw:
                t, ty = self.expr(f.value, cur)
                if ty != "vec":
                    fail(e, ".item()")
                self.guard(f"(zlen {t} =? 1)")        # ValueError unless the array has exactly one element
                return f"(znth 0 {t} 0)", "int"
            if isinstance(f, ast.Attribute) and f.attr == "copy" and not e.args and not kw:
                t, ty = self.expr(f.value, cur)
                if ty == "spt":
                    # sptensor.copy() goes through the constructor (checked to be `return ttb.sptensor(self.subs, self.vals, self.shape, copy=True)`)
                    cf = self.file_funcs.get("sptensor.copy")
                    if cf is None or [ast.dump(x) for x in strip_doc(cf.body)] != \
                            [ast.dump(ast.parse("return ttb.sptensor(self.subs, self.vals, self.shape, copy=True)").body[0])]:
                        fail(e, "sptensor.copy must be the constructor call on the three fields")
                    self.guard(f"(spt_make_ok (spt_subs {t}) (spt_vals {t}) (spt_shape {t}))")
                    return t, "spt"
                if ty in ("vec", "mat", "kt", "matlist"):
                    return t, ty              # x.copy(): values are immutable in the model
                fail(e, ".copy()")
            if nm == "int" and len(e.args) == 1 and not kw and isinstance(e.args[0], ast.Name) and e.args[0].id in cur \
                    and cur[e.args[0].id][1] == "rat":
                return f"(rat_int {cur[e.args[0].id][0]})", "int"
            if nm in self.known and nm in ("isvector", "isrow") and len(e.args) == 1 and not kw and len(self.known[nm][1]) == 1 \
                    and self.known[nm][1][0] == "bool":
                # a translated predicate of pyttb_utils called inside an expression: an Err of the callee is an Err here
                t, ty = self.expr(e.args[0], cur)
                a_ = self.coerce(t, ty, self.known[nm][0][0], e)
                self.guard(f"(is_ok ({nm} {a_}))")
                return f"(res_get false ({nm} {a_}))", "bool"
            if nm == "cast" and len(e.args) == 2 and not kw:
                return self.expr(e.args[1], cur)          # typing.cast is the identity at run time
            if ast.dump(f) in (dump("ttb.sptensor"), dump("sptensor")) and len(e.args) == 3 and (not kw or (set(kw) == {"copy"}
                    and isinstance(kw["copy"], ast.Constant) and isinstance(kw["copy"].value, bool))):
                a, ta = self.expr(e.args[0], cur)
                b, tb = self.expr(e.args[1], cur)
                c, tc = self.expr(e.args[2], cur)
                a = self.coerce(a, ta, "mat", e)
                b = self.coerce(b, tb, "vec", e)
                c = self.coerce(c, tc, "vec", e)
                self.guard(f"(spt_make_ok {a} {b} {c})")       # the checks of sptensor.__init__
                return f"(spt_make {a} {b} {c})", "spt"
            if ast.dump(f) == dump("np.isin") and len(e.args) == 2 and not kw:
                a, ta = self.expr(e.args[0], cur)
                b, tb = self.expr(e.args[1], cur)
                if ta != "vec":
                    fail(e, "np.isin")
                if tb == "ix":
                    return f"(np_isin_ix {a} {b})", "bvec"
                if tb in ("vec", "pylist"):
                    return f"(np_isin {a} {b})", "bvec"
                fail(e, "np.isin")
            if ast.dump(f) in (dump("ttb.ktensor"), dump("cls")) and len(e.args) == 2 and (not kw or (set(kw) == {"copy"}
                    and isinstance(kw["copy"], ast.Constant) and isinstance(kw["copy"].value, bool))):
                if ast.dump(f) == dump("cls") and self.types.get("cls") != "ktclass":
                    fail(e, "cls(...)")
                a, ta = self.expr(e.args[0], cur)
                b, tb = self.expr(e.args[1], cur)
                a = self.coerce(a, ta, "matlist", e)
                b = self.coerce(b, tb, "vec", e)
                self.guard(f"(kt_make_ok {a} {b})")        # the checks of ktensor.__init__ (copy= only decides aliasing)
                return f"(kt_make {a} {b})", "kt"
            if isinstance(f, ast.Attribute) and isinstance(f.value, ast.Name) and f.value.id == "np" and "np" not in cur:
                fn = f.attr
                if fn in ("asarray", "array") and len(e.args) == 1 and not kw:
                    if fn == "array" and not isinstance(e.args[0], ast.List):
                        return None
                    t, ty = self.expr(e.args[0], cur)
                    if ty == "ix":
                        self.guard(f"(ix_len_ok {t})")
                        return f"(ix_seq {t})", "vec"
                    if ty in ("pylist", "vec"):
                        return t, "vec"
                    if ty == "nil":
                        return "[]", "nil"
                    fail(e, "np." + fn)
                if fn == "ones" and not e.args and set(kw) <= {"shape", "dtype"} and "shape" in kw and isinstance(kw["shape"], ast.Tuple) \
                        and len(kw["shape"].elts) == 2 and ast.dump(kw["shape"].elts[1]) == dump("1"):
                    t, ty = self.expr(kw["shape"].elts[0], cur)          # an n x 1 column of ones (a value array): the model keeps it 1-d
                    if ty != "int":
                        fail(e, "np.ones(shape=(n, 1))")
                    self.guard(f"(0 <=? {t})")
                    return f"(np_full {t} 1)", "vec"
                if fn == "ones" and len(e.args) == 1 and not kw and not isinstance(e.args[0], ast.Tuple):
                    t, ty = self.expr(e.args[0], cur)
                    if ty != "int":
                        fail(e, "np.ones(n)")
                    self.guard(f"(0 <=? {t})")
                    return f"(np_full {t} 1)", "vec"
                if fn == "ones_like" and len(e.args) == 1 and not kw:
                    t, ty = self.expr(e.args[0], cur)
                    if ty != "vec":
                        fail(e, "np.ones_like")
                    return f"(map (fun _ => 1) {t})", "vec"
                if fn == "zeros" and len(e.args) == 1 and not kw:
                    t, ty = self.expr(e.args[0], cur)
                    if ty != "int":
                        fail(e, "np.zeros(n)")
                    self.guard(f"(np_zeros_ok {t})")
                    return f"(np_zeros {t})", "vec"
                if fn == "reshape" and len(e.args) == 2 and set(kw) == {"order"} and isinstance(e.args[1], ast.Tuple) \
                        and len(e.args[1].elts) == 2:
                    v, tv = self.expr(e.args[0], cur)
                    a, ta = self.expr(e.args[1].elts[0], cur)
                    b, tb = self.expr(e.args[1].elts[1], cur)
                    o, to = self.expr(kw["order"], cur)
                    if (tv, ta, tb, to) != ("vec", "int", "int", "order"):
                        fail(e, "np.reshape(v, (a, b), order=)")
                    self.guard(f"(np_reshape2_ok {v} {a} {b})")
                    return f"(np_reshape2 {o} {v} {a} {b})", "mat"
            return None
        return None

    @staticmethod
    def _shape0_name(e):
        """X for a call of the form f(shape=X.shape[0], ...) else ''"""
        for k in e.keywords:
            if k.arg == "shape" and isinstance(k.value, ast.Subscript) and isinstance(k.value.value, ast.Attribute) \
                    and isinstance(k.value.value.value, ast.Name):
                return k.value.value.value.id
        return ""

    def call(self, e, cur):
        d = ast.dump(e)
        f = e.func
        # len(x)
        if isinstance(f, ast.Name) and f.id == "len" and len(e.args) == 1 and isinstance(e.args[0], ast.Attribute) \
                and e.args[0].attr == "shape":
            t, ty = self.expr(e.args[0].value, cur)
            if ty == "mat":
                return "2", "int"        # a value of type mat stands for a 2-d array
            fail(e, "len(.shape)")
        if isinstance(f, ast.Name) and f.id == "len" and len(e.args) == 1:
            t, ty = self.expr(e.args[0], cur)
            if ty in ("vec", "bvec", "mat", "matlist"):
                return f"(zlen {t})", "int"
            fail(e, "len")
        if isinstance(f, ast.Name) and f.id == "prod" and len(e.args) == 1:
            t, ty = self.expr(e.args[0], cur)
            if ty == "vec":
                return f"(zprod {t})", "int"
            fail(e, "prod")
        if isinstance(f, ast.Name) and f.id in ("parse_one_d", "parse_shape") and len(e.args) == 1:
            t, ty = self.expr(e.args[0], cur)
            if ty == "vec":
                return t, "vec"      # normalisation to a 1-d integer array: identity on the model's lists
            fail(e, f.id)
        if isinstance(f, ast.Name) and f.id == "isinstance" and len(e.args) == 2 and not e.keywords \
                and isinstance(e.args[1], ast.Name) and e.args[1].id in ("list", "bool"):
            t, ty = self.expr(e.args[0], cur)
            if ty in ("mat", "vec", "bool", "int"):
                # static: a mat/vec stands for an ndarray (never a Python list); a bool for a Python bool
                return ("true" if (e.args[1].id == "bool" and ty == "bool") else "false"), "bool"
            fail(e, "isinstance")
        if isinstance(f, ast.Name) and f.id == "tuple" and len(e.args) == 1 and not e.keywords \
                and isinstance(e.args[0], ast.Call) and isinstance(e.args[0].func, ast.Name) \
                and e.args[0].func.id == "reversed" and len(e.args[0].args) == 1 and not e.args[0].keywords:
            t, ty = self.expr(e.args[0].args[0], cur)
            if ty in ("matlist", "vec"):
                return f"(rev {t})", ty
            fail(e, "tuple(reversed())")
        if isinstance(f, ast.Name) and f.id == "all" and len(e.args) == 1 and not e.keywords \
                and isinstance(e.args[0], ast.GeneratorExp):
            g = e.args[0]
            if len(g.generators) != 1 or g.generators[0].ifs or g.generators[0].is_async \
                    or not isinstance(g.generators[0].target, ast.Name):
                fail(e, "generator form")
            x = g.generators[0].target.id
            l, tl_ = self.expr(g.generators[0].iter, cur)
            if tl_ not in ELEM_TY or x in cur:
                fail(e, "generator iterable / bound-variable capture")
            self.fresh += 1
            xv = f"{x}_{self.fresh}"
            c2 = dict(cur)
            c2[x] = (xv, ELEM_TY[tl_])
            (b, tb), gs = self.scoped(lambda: self.expr(g.elt, c2))
            if tb != "bool" or gs:
                fail(e, "generator body (must be a total boolean expression)")
            return f"(forallb (fun {xv} => {b}) {l})", "bool"
        if isinstance(f, ast.Name) and f.id == "isinstance" and len(e.args) == 2 and ast.dump(e.args[1]) == dump("np.ndarray"):
            t, ty = self.expr(e.args[0], cur)
            if ty == "optvec":
                return f"(is_some {t})", "bool"
            if ty == "vec":
                return "true", "bool"
            fail(e, "isinstance")
        if isinstance(f, ast.Attribute) and f.attr == "copy" and not e.args and not e.keywords:
            t, ty = self.expr(f.value, cur)
            if ty in ("vec", "mat", "bvec"):
                return t, ty              # x.copy(): values are immutable in the model
            fail(e, "copy")
        if isinstance(f, ast.Attribute) and f.attr == "astype" and len(e.args) == 1 and ast.dump(e.args[0]) == dump("int"):
            t, ty = self.expr(f.value, cur)
            if ty in ("vec", "mat"):
                return t, ty
            fail(e, "astype")
        if isinstance(f, ast.Attribute) and isinstance(f.value, ast.Name) and f.value.id == "np":
            fn = f.attr
            kw = {k.arg: k.value for k in e.keywords}
            if d == dump("np.empty((1,))"):
                return "[0]", "vec"   # uninitialised length-1 placeholder; every path overwrites it before use
            if fn == "array" and len(e.args) == 1 and not kw and isinstance(e.args[0], ast.List) and len(e.args[0].elts) == 1 \
                    and isinstance(e.args[0].elts[0], ast.Call) and isinstance(e.args[0].elts[0].func, ast.Name) \
                    and e.args[0].elts[0].func.id == "range" and len(e.args[0].elts[0].args) == 1 and not e.args[0].elts[0].keywords:
                t, ty = self.expr(e.args[0].elts[0].args[0], cur)
                if ty == "int":
                    return f"(np_arange 0 {t})", "vec"    # np.array([range(n)]): 1 x n; only ever flattened (setdiff1d)
                fail(e, "np.array([range(n)])")
            if fn == "reshape":
                return self.reshape(e, cur)
            if fn == "vstack" and len(e.args) == 1 and isinstance(e.args[0], ast.Tuple) and len(e.args[0].elts) == 2 and not kw:
                a_, ta = self.expr(e.args[0].elts[0], cur)
                b_, tb = self.expr(e.args[0].elts[1], cur)
                if ta in ("mat", "nil") and tb in ("mat", "nil"):
                    self.guard(f"(np_vstack_ok {a_} {b_})")      # ValueError: column counts differ
                    return f"(np_vstack {a_} {b_})", "mat"
                fail(e, "np.vstack")
            if fn == "empty" and not e.args and set(kw) == {"shape"} and isinstance(kw["shape"], ast.Attribute) \
                    and kw["shape"].attr == "shape":
                t, ty = self.expr(kw["shape"].value, cur)
                if ty == "mat":
                    return f"(np_empty_like {t})", "mat"    # uninitialised array of the same shape
                fail(e, "np.empty(shape=X.shape)")
            if d in (dump("np.array([], dtype=int)"), dump("np.array([])"), dump("np.empty(shape=(0, len(shape)), dtype=int)")):
                return "[]", "nil"
            if d == dump("np.ones(shape=X.shape[0])").replace("'X'", repr(self._shape0_name(e))):
                t, ty = self.expr(ast.Name(id=self._shape0_name(e), ctx=ast.Load()), cur)
                if ty == "mat":
                    return f"(np_full (np_nrows {t}) 1)", "vec"
            args = [self.expr(a, cur) for a in e.args]
            tys = [a[1] for a in args]
            tx = [a[0] for a in args]
            if fn == "array" and len(args) == 1 and not kw and tys[0] in ("vec", "mat", "bvec"):
                return tx[0], tys[0]      # np.array(x): a fresh copy; values are immutable in the model
            if fn == "unique" and tys == ["vec"] and not kw:
                return f"(np_unique {tx[0]})", "vec"
            if fn == "arange" and tys == ["int", "int"] and not kw:
                return f"(np_arange {tx[0]} {tx[1]})", "vec"
            if fn == "isin" and tys == ["vec", "vec"] and not kw:
                return f"(np_isin {tx[0]} {tx[1]})", "bvec"
            if fn == "all" and tys == ["bvec"] and not kw:
                return f"(np_all {tx[0]})", "bool"
            if fn == "any" and tys == ["bvec"] and not kw:
                return f"(np_any {tx[0]})", "bool"
            if fn == "setdiff1d" and tys == ["vec", "vec"] and not kw:
                return f"(np_setdiff1d {tx[0]} {tx[1]})", "vec"
            if fn == "setdiff1d" and tys[0] in ("vec", "nil") and tys[1] in ("vec", "nil") and not kw:
                return f"(np_setdiff1d {tx[0]} {tx[1]})", "vec"
            if fn == "argsort" and tys[0] in ("vec", "nil") and len(tys) == 1 and not kw:
                return f"(np_argsort {tx[0]})", "vec"
            if fn == "sort" and tys[0] in ("vec", "nil") and len(tys) == 1 and not kw:
                return f"(np_sort {tx[0]})", "vec"
            if fn == "where" and tys == ["bvec"] and not kw:
                return f"(np_where1 {tx[0]})", "vec"     # np.where(mask): used as an index (1-tuple of positions)
            if fn == "empty" and d == dump("np.empty((1,))"):
                return "[0]", "vec"   # uninitialised length-1 placeholder; every path overwrites it before use
            if fn == "array" and d == dump("np.array([], dtype=int)"):
                return "[]", "nil"
            if fn == "array" and d == dump("np.array([])"):
                return "[]", "nil"
            if fn == "zeros" and set(kw) == {"shape", "dtype"} and ast.dump(kw["dtype"]) == dump("bool") and not args:
                t, ty = self.expr(kw["shape"], cur)
                if ty == "int":
                    return f"(np_full {t} false)", "bvec"
            if fn == "logical_not" and tys == ["bvec"]:
                return f"(map negb {tx[0]})", "bvec"
            fail(e, "np call")
        fail(e, "call")

    def reshape(self, e, cur):
        """the two reshape idioms of khatrirao (row index of the model's 2-d list = F-order index of the leading axes):
             np.reshape(M, newshape=(-1, 1, R)) * np.reshape(P, newshape=(1, -1, R), order="F")   (matched in BinOp)
             np.reshape(P, newshape=(-1, R), order="F")   ->  np_reshape_rows P R"""
        kw = {k.arg: k.value for k in e.keywords}
        if len(e.args) == 1 and set(kw) == {"newshape", "order"} and ast.dump(kw["order"]) == dump("'F'") \
                and isinstance(kw["newshape"], ast.Tuple) and len(kw["newshape"].elts) == 2 \
                and ast.dump(kw["newshape"].elts[0]) == dump("-1"):
            p_, tp = self.expr(e.args[0], cur)
            r_, tr = self.expr(kw["newshape"].elts[1], cur)
            if tp == "mat" and tr == "int":
                self.guard(f"(np_reshape_ok {p_} {r_})")      # ValueError of numpy.reshape
                return f"(np_reshape_rows {p_} {r_})", "mat"
        fail(e, "np.reshape template")

    def kr_template(self, e, cur):
        """np.reshape(M, newshape=(-1, 1, R)) * np.reshape(P, newshape=(1, -1, R), order="F")  ->  np_kr_step P M
        (entry [a, b, r] = M[a, r] * P[b, r]; as a row list in F order: row a + rows(M) * b)"""
        if not (isinstance(e, ast.BinOp) and isinstance(e.op, ast.Mult)):
            return None
        l, r = e.left, e.right
        for x in (l, r):
            if not (isinstance(x, ast.Call) and ast.dump(x.func) == dump("np.reshape") and len(x.args) == 1
                    and isinstance(x.args[0], ast.Name)):
                return None
        m_, p_ = l.args[0].id, r.args[0].id
        kl = {k.arg: k.value for k in l.keywords}
        kr = {k.arg: k.value for k in r.keywords}
        if set(kl) != {"newshape"} or set(kr) != {"newshape", "order"} or ast.dump(kr["order"]) != dump("'F'"):
            return None
        sl, sr = kl["newshape"], kr["newshape"]
        if not (isinstance(sl, ast.Tuple) and isinstance(sr, ast.Tuple) and len(sl.elts) == 3 and len(sr.elts) == 3):
            return None
        if [ast.dump(x) for x in sl.elts[:2]] != [dump("-1"), dump("1")] or [ast.dump(x) for x in sr.elts[:2]] != [dump("1"), dump("-1")]:
            return None
        if ast.dump(sl.elts[2]) != ast.dump(sr.elts[2]):
            return None
        mt, tm = self.expr(l.args[0], cur)
        pt, tp = self.expr(r.args[0], cur)
        rt, tr = self.expr(sl.elts[2], cur)
        if tm != "mat" or tp != "mat" or tr != "int":
            return None
        self.guard(f"(np_reshape_ok {mt} {rt})")
        self.guard(f"(np_reshape_ok {pt} {rt})")
        return f"(np_kr_step {pt} {mt})", "mat"

    # -- statements -------------------------------------------------------------------
    def assigned(self, stmts):
        out = []
        for s in stmts:
            if isinstance(s, ast.Assign):
                for t in s.targets:
                    for n in (t.elts if isinstance(t, ast.Tuple) else [t]):
                        if isinstance(n, ast.Name):
                            if n.id not in out:
                                out.append(n.id)
                        elif isinstance(n, ast.Subscript) and isinstance(n.value, ast.Name):
                            if n.value.id not in out:
                                out.append(n.value.id)
                        elif isinstance(n, ast.Subscript) and "dyn" in self.options and self.store_root(n) is not None:
                            if self.store_root(n) not in out:
                                out.append(self.store_root(n))
                        elif isinstance(n, ast.Attribute) and "m4" in self.options and isinstance(n.value, ast.Name):
                            if n.value.id not in out:
                                out.append(n.value.id)
            elif isinstance(s, ast.Expr) and self.mutator(s) is not None:
                if self.mutator(s)[0] not in out:
                    out.append(self.mutator(s)[0])
            elif isinstance(s, ast.AnnAssign) and isinstance(s.target, ast.Name) and s.value is not None:
                if s.target.id not in out:
                    out.append(s.target.id)
            elif isinstance(s, ast.AugAssign) and isinstance(s.target, ast.Name):
                if s.target.id not in out:
                    out.append(s.target.id)
            elif isinstance(s, ast.AugAssign) and "m4" in self.options and self.store_root(s.target) is not None:
                if self.store_root(s.target) not in out:
                    out.append(self.store_root(s.target))
            elif isinstance(s, ast.For) and "m4" in self.options and not s.orelse:
                tg = {x.id for x in ast.walk(s.target) if isinstance(x, ast.Name)}
                for n in self.assigned(s.body):
                    if n not in out and n not in tg:
                        out.append(n)
            elif isinstance(s, ast.If):
                for n in self.assigned(s.body) + self.assigned(s.orelse):
                    if n not in out:
                        out.append(n)
            elif isinstance(s, (ast.For, ast.While, ast.With, ast.Try)):
                fail(s, "loop / block statement nested inside a branch or loop body")
        return out

    @staticmethod
    def store_root(n):
        """X for a store target of the form X.field[...]... (a field of a record variable is updated)"""
        while isinstance(n, ast.Subscript):
            n = n.value
        if isinstance(n, ast.Attribute) and isinstance(n.value, ast.Name):
            return n.value.id
        return None

    MUTATORS = {("kt", "redistribute"): ("kt_redistribute", "kt_redistribute_ok", ["int"]),
                ("matlist", "append"): ("list_append", None, ["mat"]), ("vec", "append"): ("list_append", None, ["int"]),
                ("vec", "fill"): ("np_fill", None, ["int"])}

    @staticmethod
    def mutator(s):
        """(receiver name, method name, argument nodes) for an expression statement  X.method(args)"""
        v = s.value
        if isinstance(v, ast.Call) and isinstance(v.func, ast.Attribute) and isinstance(v.func.value, ast.Name) and not v.keywords:
            return v.func.value.id, v.func.attr, v.args
        return None

    def reads(self, stmts):
        """names read by stmts, ignoring exception/assert messages"""
        out = set()

        def walk(n):
            if isinstance(n, ast.Raise):
                return
            if isinstance(n, ast.Assert):
                walk(n.test)
                return
            if isinstance(n, ast.Name) and isinstance(n.ctx, ast.Load):
                out.add(n.id)
            if isinstance(n, ast.For) and "dyn" in self.options:
                # the loop's own targets are bound by the loop: reads of them inside the body are not reads of an outer name
                walk(n.iter)
                inner = self.reads(n.body + n.orelse)
                tg = {x.id for x in ast.walk(n.target) if isinstance(x, ast.Name)}
                out.update(inner - tg)
                return
            for c in ast.iter_child_nodes(n):
                walk(c)
        for st in stmts:
            walk(st)
        return out

    def terminates(self, stmts):
        if not stmts:
            return False
        s = stmts[-1]
        if isinstance(s, (ast.Return, ast.Raise, ast.Break)):
            return True
        if isinstance(s, ast.Assert) and isinstance(s.test, ast.Constant) and s.test.value is False:
            return True
        if isinstance(s, ast.If):
            return self.terminates(s.body) and self.terminates(s.orelse)
        return False

    def coerce(self, text, ty, want, node):
        if ty == want:
            return text
        if want == "optvec" and ty in ("vec", "nil"):
            return f"(Some {text})"
        if want == "optint" and ty == "int":
            return f"(Some {text})"
        if want in ("optvec", "optint") and ty == "none":
            return "None"
        if want in ("vec", "mat") and ty == "nil":
            return text
        if (ty, want) in (("pylist", "vec"), ("vec", "pylist")):
            return text
        if ty == "nil" and want == "matlist":
            return "(@nil mat)"
        if ty == "vec" and want == "nda" and "m4" in self.options:
            return f"(nd_of_vec {text})"          # a 1-d float array handed to a helper that inspects shape / dtype
        if (ty, want) in UNION_INJ:
            return f"({UNION_INJ[(ty, want)]} {text})"
        if want == "sqres" and ty in ("spt", "int"):
            return f"({'SqTensor' if ty == 'spt' else 'SqScalar'} {text})"       # squeeze returns a tensor or a number
        fail(node, f"cannot coerce {ty} to {want}")

    def bind_name(self, name, text, ty, cur, node):
        """record an assignment; the variable keeps its declared (join) type"""
        if name not in self.types:
            fail(node, f"variable {name} missing from the type environment")
        want = self.types[name]
        if ty != want and ty in self.retypes.get(name, []):
            # the variable is rebound at another type (e.g. a matrix reshaped to a 3-d view): later code sees the new type;
            # joins and loops still demand the declared type, so a retyped variable cannot flow through them
            self.fresh += 1
            v = f"{name}_{self.fresh}"
            cur = dict(cur)
            cur[name] = (v, ty)
            return f"let {v} := {text} in\n", cur
        if (ty, want) in UNION_INJ:
            # a value of a narrowed type bound to a union-typed variable keeps its narrowed type until the next join
            self.coerce(text, ty, want, node)
            self.fresh += 1
            v = f"{name}_{self.fresh}"
            cur = dict(cur)
            cur[name] = (v, ty)
            return f"let {v} := {text} in\n", cur
        t = self.coerce(text, ty, want, node)
        self.fresh += 1
        v = f"{name}_{self.fresh}"
        cur = dict(cur)
        cur[name] = (v, want)
        return f"let {v} := {t} in\n", cur

    def block(self, stmts, cur, tail, live=frozenset()):
        """translate stmts; `tail(cur)` produces the text for falling off the end.
        The expressions evaluated by the FIRST statement may raise (IndexError, ZeroDivisionError, reshape): their
        side conditions are collected while it is translated and guard the whole continuation (-> Err)."""
        if not stmts:
            return tail(cur)
        txt, gs = self.scoped(lambda: self.block1(stmts, cur, tail, live))
        if gs:
            return f"if {self.conj(gs)} then\n{txt}\nelse Err"
        return txt

    def loop_tuple(self, c, stop, node):
        """value of one loop iteration: (stop?, loop-carried variables)"""
        parts = []
        for n in self.loops[-1]:
            if n not in c:
                fail(node, f"{n} may be unbound at the end of the loop body")
            t, ty = c[n]
            parts.append(self.coerce(t, ty, self.types[n], node))
        st = "(" + ", ".join(parts) + ")" if len(parts) > 1 else parts[0]
        return f"Ok ({'true' if stop else 'false'}, {st})"

    def for_(self, s, rest, cur, tail, live):
        """for x in L / for i, x in enumerate(L[, k])  ->  np_for over the list; loop-carried variables (assigned in the
        body and bound before the loop) form the accumulator; `break` stops with the current accumulator"""
        if s.orelse:
            fail(s, "for-else")
        it = s.iter
        if isinstance(it, ast.Call) and isinstance(it.func, ast.Name) and it.func.id == "enumerate" and not it.keywords \
                and len(it.args) in (1, 2):
            l, tl_ = self.expr(it.args[0], cur)
            k, tk = self.expr(it.args[1], cur) if len(it.args) == 2 else ("0", "int")
            if tk != "int" or tl_ not in ELEM_TY:
                fail(s, "enumerate arguments")
            if not (isinstance(s.target, ast.Tuple) and len(s.target.elts) == 2 and all(isinstance(x, ast.Name) for x in s.target.elts)):
                fail(s, "enumerate target")
            targets = [(s.target.elts[0].id, "int"), (s.target.elts[1].id, ELEM_TY[tl_])]
            ltxt = f"(np_enumerate {k} {l})"
        else:
            l, tl_ = self.expr(it, cur)
            if tl_ not in ELEM_TY or not isinstance(s.target, ast.Name):
                fail(s, "for iterable / target")
            targets = [(s.target.id, ELEM_TY[tl_])]
            ltxt = l
        assigned = self.assigned(s.body)
        for n, _ in targets:
            if n in cur or n == "_" or (n in assigned and not ("dyn" in self.options and n in self.types)):
                fail(s, f"loop variable {n} is rebound")
        if len({n for n, _ in targets}) != len(targets):
            fail(s, "loop targets")
        after = live | self.reads(rest)
        carried = []
        for n in assigned:
            if n in cur:
                if n not in self.types:
                    fail(s, f"variable {n} missing from the type environment")
                carried.append(n)
            elif n in after:
                fail(s, f"{n} is first bound inside the loop and read after it")
        for n, _ in targets:
            if n in after:
                fail(s, f"loop variable {n} is read after the loop")
        if not carried:
            fail(s, "loop without effect on variables bound before it")
        for x in ast.walk(ast.Module(body=s.body, type_ignores=[])):
            if isinstance(x, (ast.Return, ast.Continue)):
                fail(x, "return / continue inside a loop body")
        init = []
        curb = dict(cur)
        pats = []
        for n in carried:
            t, ty = cur[n]
            init.append(self.coerce(t, ty, self.types[n], s))
            self.fresh += 1
            v = f"{n}_{self.fresh}"
            pats.append(v)
            curb[n] = (v, self.types[n])
        tpat = []
        for n, ty in targets:
            self.fresh += 1
            v = f"{n}_{self.fresh}"
            tpat.append(v)
            curb[n] = (v, ty)
        self.loops.append(carried)
        live_b = frozenset(after | set(carried) | self.reads(s.body))
        if "dyn" in self.options:
            # names first bound inside the body are not live across iterations (a read before the assignment in a later
            # iteration would find the name unbound in the model: the translation aborts there)
            live_b = frozenset(n for n in live_b if n in cur or n in carried or n in after)
        body = self.block(s.body, curb, lambda c: self.loop_tuple(c, False, s), live_b)
        self.loops.pop()
        cur2 = dict(cur)
        outs = []
        for n in carried:
            self.fresh += 1
            v = f"{n}_{self.fresh}"
            outs.append(v)
            cur2[n] = (v, self.types[n])

        def pat(vs):
            return "'(" + ", ".join(vs) + ")" if len(vs) > 1 else vs[0]
        ini = "(" + ", ".join(init) + ")" if len(init) > 1 else init[0]
        return (f"bind (np_for {ltxt} (fun {pat(tpat)} {pat(pats)} =>\n{body}) {ini}) (fun {pat(outs)} =>\n"
                + self.block(rest, cur2, tail, live) + ")")

    def block1(self, stmts, cur, tail, live=frozenset()):
        s, rest = stmts[0], stmts[1:]
        if isinstance(s, ast.Expr) and isinstance(s.value, ast.Constant):
            return self.block(rest, cur, tail, live)      # stray string
        if "m4" in self.options:
            r_ = self.m4_stmt(s, rest, cur, tail, live)
            if r_ is not None:
                return r_
        if isinstance(s, ast.Break):
            if not self.loops:
                fail(s, "break outside a loop")
            return self.loop_tuple(cur, True, s)
        if isinstance(s, ast.For):
            return self.for_(s, rest, cur, tail, live)
        if isinstance(s, ast.Return) and self.loops:
            fail(s, "return inside a loop body")
        if isinstance(s, ast.Return) and isinstance(s.value, ast.Call) and len(self.ret) == 1 and self.ret[0] == "mat":
            m = self.match_unravel(s.value, cur)
            if m:
                return m
        if isinstance(s, ast.Return) and "dyn" in self.options and self.ret == ["vec"]:
            if isinstance(s.value, ast.Tuple):        # a tuple display of ints is ONE value: an integer vector
                parts = [self.expr(x, cur) for x in s.value.elts]
                if any(ty != "int" for _, ty in parts):
                    fail(s, "tuple display of non-integers")
                return "Ok [" + "; ".join(t for t, _ in parts) + "]"
            t, ty = self.expr(s.value, cur)
            if ty == "elist":                          # a tuple of Python objects returned as an integer vector: only if all are ints
                self.guard(f"(elems_all_int {t})")
                return f"Ok (elems_ints {t})"
            return f"Ok {self.coerce(t, ty, 'vec', s)}"
        if isinstance(s, ast.Return):
            vals = s.value.elts if isinstance(s.value, ast.Tuple) else [s.value]
            if len(vals) != len(self.ret):
                fail(s, "return arity")
            parts = []
            for v, want in zip(vals, self.ret):
                t, ty = self.expr(v, cur)
                parts.append(self.coerce(t, ty, want, s))
            return "Ok (" + ", ".join(parts) + ")" if len(parts) > 1 else f"Ok {parts[0]}"
        if isinstance(s, ast.Raise):
            return "Err"
        if isinstance(s, ast.Expr) and "dyn" in self.options and self.mutator(s) is not None:
            name, meth, args = self.mutator(s)
            if name not in cur or (cur[name][1], meth) not in self.MUTATORS:
                fail(s, "expression statement")
            fn, okfn, ptys = self.MUTATORS[(cur[name][1], meth)]
            if len(args) != len(ptys):
                fail(s, "mutating call arity")
            ats = []
            for a, want in zip(args, ptys):
                t, ty = self.expr(a, cur)
                ats.append(self.coerce(t, ty, want, s))
            if okfn:
                self.guard(f"({okfn} {cur[name][0]} {' '.join(ats)})")
            pre, cur2 = self.bind_name(name, f"({fn} {cur[name][0]} {' '.join(ats)})", cur[name][1], cur, s)
            return pre + self.block(rest, cur2, tail, live)
        if isinstance(s, ast.Assert) and "dyn" in self.options and self.narrow(s.test, cur):
            name, pos, ctor, nty, other = self.narrow(s.test, cur)
            if not pos:
                fail(s, "negative narrowing assert")
            self.fresh += 1
            nv = f"{name}_v{self.fresh}"
            c = dict(cur)
            c[name] = (nv, nty)
            return f"match {cur[name][0]} with\n| {ctor} {nv} =>\n{self.block(rest, c, tail, live)}\n| {other} =>\nErr\nend"
        if isinstance(s, ast.Assert):
            if isinstance(s.test, ast.Constant) and s.test.value is False:
                return "Err"
            multi = self.narrow_conj(s.test, cur)
            if multi and all(pos for _, pos in multi):
                # assert X is not None and Y is not None: the continuation sees X, Y at their non-optional types
                return self.match_conj(multi, cur, lambda c: self.block(rest, c, tail, live), lambda c: "Err")
            t, ty = self.expr(s.test, cur)
            if ty != "bool":
                fail(s, "assert")
            return f"if {t} then\n{self.block(rest, cur, tail, live)}\nelse Err"
        if isinstance(s, ast.AnnAssign) and isinstance(s.target, ast.Name) and s.value is not None:
            t, ty = self.expr(s.value, cur)
            pre, cur2 = self.bind_name(s.target.id, t, ty, cur, s)
            return pre + self.block(rest, cur2, tail, live)
        if isinstance(s, ast.AugAssign) and isinstance(s.target, ast.Subscript) and isinstance(s.op, ast.Add) \
                and isinstance(s.target.value, ast.Name) \
                and ast.dump(s.target.slice) == dump(f"{s.target.value.id} < 0"):
            a, ta = self.expr(s.target.value, cur)
            c, tc = self.expr(s.value, cur)
            if ta != "vec" or tc != "int":
                fail(s, "masked augassign")
            pre, cur2 = self.bind_name(s.target.value.id, f"(np_wrap_neg {a} {c})", "vec", cur, s)
            return pre + self.block(rest, cur2, tail, live)
        if isinstance(s, ast.AugAssign) and isinstance(s.target, ast.Name):
            op = {ast.Add: "+", ast.Sub: "-", ast.Mult: "*", ast.FloorDiv: "/"}.get(type(s.op))
            l, tl = self.expr(s.target, cur)
            r, tr = self.expr(s.value, cur)
            if op is None or tl != "int" or tr != "int":
                fail(s, "augassign")
            pre, cur2 = self.bind_name(s.target.id, f"({l} {op} {r})", "int", cur, s)
            return pre + self.block(rest, cur2, tail, live)
        if isinstance(s, ast.Assign):
            return self.assign(s, rest, cur, tail, live)
        if isinstance(s, ast.If):
            return self.if_(s, rest, cur, tail, live)
        fail(s, "statement")


    @staticmethod
    def is_warn(s):
        return isinstance(s, ast.Expr) and isinstance(s.value, ast.Call) and ast.dump(s.value.func) == dump("warnings.warn")

    def m4_stmt(self, s, rest, cur, tail, live):
        """statement forms of the fourth batch; None = not one of them"""
        if self.is_warn(s):
            return self.block(rest, cur, tail, live)           # a warning has no effect on values
        if isinstance(s, ast.If) and not s.orelse and s.body and all(self.is_warn(x) for x in s.body):
            (t, ty), gs = self.scoped(lambda: self.expr(s.test, cur))
            if ty != "bool" or gs:
                fail(s, "test of a warning-only branch (must be a total boolean expression)")
            return self.block(rest, cur, tail, live)
        if isinstance(s, ast.Return) and s.value is None and "returns_self" in self.options:
            if self.loops:
                fail(s, "return inside a loop body")
            return f"Ok {cur['self'][0]}"
        if isinstance(s, ast.Expr) and self.mutator(s) is not None and self.mutator(s)[1] in self.oracles:
            name, meth, args = self.mutator(s)
            if name not in cur or cur[name][1] != "kt" or name != "self":
                fail(s, "oracle method call")
            ptys = self.oracles[meth]
            if len(args) != len(ptys):
                fail(s, "oracle call arity")
            ats = []
            for a, want in zip(args, ptys):
                t, ty = self.expr(a, cur)
                ats.append(self.coerce(t, ty, want, s))
            self.fresh += 1
            v = f"{name}_{self.fresh}"
            c2 = dict(cur)
            c2[name] = (v, "kt")
            return f"bind ({meth}_ {cur[name][0]}{''.join(' ' + a for a in ats)}) (fun {v} =>\n" + self.block(rest, c2, tail, live) + ")"
        if isinstance(s, ast.Assign) and len(s.targets) == 1 and isinstance(s.targets[0], ast.Attribute) \
                and isinstance(s.targets[0].value, ast.Name) and s.targets[0].value.id in cur \
                and cur[s.targets[0].value.id][1] == "kt" and s.targets[0].attr == "weights":
            name = s.targets[0].value.id
            v, tv = self.expr(s.value, cur)
            if tv != "vec":
                fail(s, "store into .weights")
            pre, cur2 = self.bind_name(name, f"(kt_set_weights {cur[name][0]} {v})", "kt", cur, s)
            return pre + self.block(rest, cur2, tail, live)
        if isinstance(s, ast.Assign) and len(s.targets) == 1 and isinstance(s.targets[0], ast.Name) and isinstance(s.value, ast.Call) \
                and not s.value.keywords and not any(isinstance(x, ast.Starred) for x in s.value.args):
            v = s.value
            callee, recv = None, None
            if isinstance(v.func, ast.Name) and v.func.id in self.known and v.func.id in self.known_coq:
                callee = v.func.id
            elif isinstance(v.func, ast.Attribute) and isinstance(v.func.value, ast.Name) and v.func.value.id == "self" \
                    and "self" in cur and cur["self"][1] == "spt" and ("sptensor." + v.func.attr) in self.known_coq:
                callee, recv = "sptensor." + v.func.attr, cur["self"][0]
            if callee is not None and len(self.known[callee][1]) == 1:
                ptys, rtys = self.known[callee]
                given = ([recv] if recv is not None else [])
                argn = list(v.args)
                if "m5" in self.options and recv is None and len(argn) < len(ptys):
                    # trailing parameters left to their defaults: the default expressions of the callee's signature are passed
                    missing = self.known_names.get(callee, [])[len(argn):]
                    if len(missing) == len(ptys) - len(argn) and all(m in self.known_defaults.get(callee, {}) for m in missing):
                        argn = argn + [self.known_defaults[callee][m] for m in missing]
                if len(given) + len(argn) != len(ptys):
                    fail(s, "known call arity")
                ats = list(given)
                for a_, want in zip(argn, ptys[len(given):]):
                    t, ty = self.expr(a_, cur)
                    ats.append(self.coerce(t, ty, want, s))
                name = s.targets[0].id
                if self.types.get(name) != rtys[0]:
                    fail(s, f"result type of {name}")
                self.fresh += 1
                vn = f"{name}_{self.fresh}"
                c2 = dict(cur)
                c2[name] = (vn, rtys[0])
                return f"bind ({self.known_coq[callee]} {' '.join(ats)}) (fun {vn} =>\n" + self.block(rest, c2, tail, live) + ")"
        tgt = s.targets[0] if isinstance(s, ast.Assign) and len(s.targets) == 1 else (s.target if isinstance(s, ast.AugAssign) else None)
        if tgt is not None and isinstance(tgt, ast.Subscript) and isinstance(tgt.value, ast.Attribute) \
                and tgt.value.attr == "factor_matrices" and isinstance(tgt.value.value, ast.Name) and tgt.value.value.id in cur \
                and cur[tgt.value.value.id][1] == "kt" and not isinstance(tgt.slice, (ast.Slice, ast.Tuple)):
            # X.factor_matrices[i] = M      /      X.factor_matrices[i] *= w   (columns scaled by the vector w)
            name = tgt.value.value.id
            k = cur[name][0]
            i, ti = self.expr(tgt.slice, cur)
            v, tv = self.expr(s.value, cur)
            if ti != "int":
                fail(s, "factor index")
            self.guard(f"(idx_ok (kt_factors {k}) {i})")
            if isinstance(s, ast.Assign) and tv == "mat":
                txt = f"(kt_set_factor {k} {i} {v})"
            elif isinstance(s, ast.AugAssign) and isinstance(s.op, ast.Mult) and tv == "vec":
                self.guard(f"(np_mul_cols_ok (znth [] (kt_factors {k}) {i}) {v})")
                txt = f"(kt_set_factor {k} {i} (np_mul_cols (znth [] (kt_factors {k}) {i}) {v}))"
            else:
                fail(s, "store into a factor matrix")
            pre, cur2 = self.bind_name(name, txt, "kt", cur, s)
            return pre + self.block(rest, cur2, tail, live)
        if isinstance(s, ast.Assign) and len(s.targets) == 1 and isinstance(s.targets[0], ast.Subscript) \
                and isinstance(s.targets[0].value, ast.Name) and self.plain_slice(s.targets[0].slice):
            # x[a:b] = v
            name = s.targets[0].value.id
            a, ta = self.expr(s.targets[0].value, cur)
            v, tv = self.expr(s.value, cur)
            if ta != "vec" or tv != "vec":
                fail(s, "slice store")
            sl = self.slice_text(s.targets[0].slice, cur)
            self.guard(f"(np_set_slice_ok {a} {sl} {v})")
            pre, cur2 = self.bind_name(name, f"(np_set_slice {a} {sl} {v})", "vec", cur, s)
            return pre + self.block(rest, cur2, tail, live)
        return None

    def assign(self, s, rest, cur, tail, live):
        tgt = s.targets[0]
        # chained  a = b = e
        if len(s.targets) > 1:
            if not all(isinstance(t, ast.Name) for t in s.targets):
                fail(s, "chained assign")
            t, ty = self.expr(s.value, cur)
            pre = ""
            for tg in s.targets:
                p, cur = self.bind_name(tg.id, t, ty, cur, s)
                pre += p
            return pre + self.block(rest, cur, tail, live)
        if "dyn" in self.options and isinstance(tgt, ast.Subscript) and len(s.targets) == 1 and self.store_root(tgt) in cur \
                and cur[self.store_root(tgt)][1] == "kt" and not isinstance(tgt.value, ast.Name):
            name = self.store_root(tgt)
            k = cur[name][0]
            txt = None
            # X.weights[r] = v
            if isinstance(tgt.value, ast.Attribute) and tgt.value.attr == "weights" and not isinstance(tgt.slice, (ast.Slice, ast.Tuple)):
                r, tr = self.expr(tgt.slice, cur)
                v, tv = self.expr(s.value, cur)
                if (tr, tv) != ("int", "int"):
                    fail(s, "weight store")
                self.guard(f"(idx_ok (kt_weights {k}) {r})")
                txt = f"(kt_set_weight {k} {r} {v})"
            # X.factor_matrices[m][:, [r]] = X.factor_matrices[m][:, [r]] * c     (one column scaled in place)
            elif isinstance(tgt.value, ast.Subscript) and isinstance(tgt.value.value, ast.Attribute) \
                    and tgt.value.value.attr == "factor_matrices" and isinstance(tgt.slice, ast.Tuple) and len(tgt.slice.elts) == 2 \
                    and isinstance(tgt.slice.elts[0], ast.Slice) and tgt.slice.elts[0].lower is None and tgt.slice.elts[0].upper is None \
                    and tgt.slice.elts[0].step is None and isinstance(tgt.slice.elts[1], ast.List) and len(tgt.slice.elts[1].elts) == 1 \
                    and isinstance(s.value, ast.BinOp) and isinstance(s.value.op, ast.Mult):
                load = ast.parse(ast.unparse(tgt), mode="eval").body
                if ast.dump(s.value.left) != ast.dump(load):
                    fail(s, "column scaling template: the factor column must be scaled in place")
                m, tm = self.expr(tgt.value.slice, cur)
                r, tr = self.expr(tgt.slice.elts[1].elts[0], cur)
                c, tc = self.expr(s.value.right, cur)
                if (tm, tr, tc) != ("int", "int", "int"):
                    fail(s, "column scaling template: types")
                self.guard(f"(kt_scale_col_ok {k} {m} {r})")
                txt = f"(kt_scale_col {k} {m} {r} {c})"
            if txt is None:
                fail(s, "store into a field of a ktensor")
            pre, cur2 = self.bind_name(name, txt, "kt", cur, s)
            return pre + self.block(rest, cur2, tail, live)
        if "dyn" in self.options and isinstance(tgt, ast.Subscript) and isinstance(tgt.value, ast.Name):
            ci = self.col_index(tgt.slice)
            a, ta = self.expr(tgt.value, cur)
            v, tv = self.expr(s.value, cur)
            txt = None
            if ci is not None:
                i, ti = self.expr(ci, cur)
                if (ta, ti, tv) == ("mat", "int", "vec"):
                    self.guard(f"(np_setcol_ok {a} {i} {v})")
                    txt = f"(np_setcol {a} {i} {v})"
            elif not isinstance(tgt.slice, (ast.Slice, ast.Tuple)):
                i, ti = self.expr(tgt.slice, cur)
                if (ta, ti, tv) in (("vec", "int", "int"), ("matlist", "int", "mat")):
                    self.guard(f"(idx_ok {a} {i})")
                    txt = f"(np_set {a} {i} {v})"
            if txt is not None:
                pre, cur2 = self.bind_name(tgt.value.id, txt, ta, cur, s)
                return pre + self.block(rest, cur2, tail, live)
            if ci is not None:
                fail(s, "column store")
        # a[idx] = v
        if isinstance(tgt, ast.Subscript) and isinstance(tgt.value, ast.Name):
            a, ta = self.expr(tgt.value, cur)
            i, ti = self.expr(tgt.slice, cur)
            v, tv = self.expr(s.value, cur)
            if ta == "vec" and ti == "vec" and tv == "vec":
                txt = f"(np_scatter {a} {i} {v})"
            elif ta == "bvec" and ti == "vec" and tv == "bool":
                txt = f"(np_scatter_const {a} {i} {v})"
            else:
                fail(s, "subscript assign")
            pre, cur2 = self.bind_name(tgt.value.id, txt, ta, cur, s)
            return pre + self.block(rest, cur2, tail, live)
        # tuple unpacking of whitelisted multi-result forms
        if isinstance(tgt, ast.Tuple) and "dyn" in self.options and any(isinstance(n, ast.Subscript) for n in tgt.elts) \
                and isinstance(s.value, ast.Call) and isinstance(s.value.func, ast.Name) and s.value.func.id in self.known:
            # X[...], Y[...] = f(...)  ==  t1, t2 = f(...); X[...] = t1; Y[...] = t2   (stores happen left to right)
            v = s.value
            ptys, rtys = self.known[v.func.id]
            if len(v.args) != len(ptys) or v.keywords or len(rtys) != len(tgt.elts):
                fail(s, "known call arity")
            args = []
            for a, want in zip(v.args, ptys):
                t, ty = self.expr(a, cur)
                args.append(self.coerce(t, ty, want, s))
            cur2 = dict(cur)
            vs, stores = [], []
            for n, rty in zip(tgt.elts, rtys):
                self.fresh += 1
                tmp = f"tmp_{self.fresh}"
                vs.append(tmp)
                cur2["%" + tmp] = (tmp, rty)
                if isinstance(n, ast.Name):
                    st = ast.Assign(targets=[n], value=ast.Name(id="%" + tmp, ctx=ast.Load()))
                elif isinstance(n, ast.Subscript):
                    st = ast.Assign(targets=[n], value=ast.Name(id="%" + tmp, ctx=ast.Load()))
                else:
                    fail(s, "tuple target")
                stores.append(ast.copy_location(st, s))
            pat = "'(" + ", ".join(vs) + ")" if len(vs) > 1 else vs[0]
            return f"bind ({v.func.id} {' '.join(args)}) (fun {pat} =>\n" + self.block(stores + rest, cur2, tail, live) + ")"
        if isinstance(tgt, ast.Tuple):
            names = []
            for n in tgt.elts:
                if not isinstance(n, ast.Name):
                    fail(s, "tuple target")
                names.append(n.id)
            d = ast.dump(s.value)
            v = s.value
            # np.unique(X, axis=0, return_index=True)
            if isinstance(v, ast.Call) and ast.dump(v.func) == dump("np.unique") and len(v.args) == 1 \
                    and {k.arg: ast.dump(k.value) for k in v.keywords} == {"axis": dump("0"), "return_index": dump("True")}:
                t, ty = self.expr(v.args[0], cur)
                if ty != "mat":
                    fail(s, "np.unique arg")
                self.fresh += 1
                tmp = f"u_{self.fresh}"
                pre = f"let {tmp} := np_unique_rows {t} in\n"
                p1, cur = self.bind_name(names[0], f"(fst {tmp})", "mat", cur, s)
                p2, cur = self.bind_name(names[1], f"(snd {tmp})", "vec", cur, s)
                return pre + p1 + p2 + self.block(rest, cur, tail, live)
            # (row_idx, col_idx) = np.nonzero(np.all(source == search[:, np.newaxis], axis=2))
            if isinstance(v, ast.Call) and ast.dump(v.func) == dump("np.nonzero") and len(v.args) == 1:
                inner = v.args[0]
                tmpl = dump("np.all(A == B[:, np.newaxis], axis=2)")
                if isinstance(inner, ast.Call) and isinstance(inner.args[0], ast.Compare):
                    cmp_ = inner.args[0]
                    src = cmp_.left
                    sea = cmp_.comparators[0]
                    if isinstance(src, ast.Name) and isinstance(sea, ast.Subscript) and isinstance(sea.value, ast.Name):
                        probe = dump(f"np.all({src.id} == {sea.value.id}[:, np.newaxis], axis=2)")
                        if ast.dump(inner) == probe:
                            a, ta = self.expr(src, cur)
                            b, tb = self.expr(sea.value, cur)
                            if ta == "mat" and tb == "mat":
                                self.fresh += 1
                                tmp = f"mp_{self.fresh}"
                                pre = f"let {tmp} := np_match_pairs {b} {a} in\n"
                                p1, cur = self.bind_name(names[0], f"(fst {tmp})", "vec", cur, s)
                                p2, cur = self.bind_name(names[1], f"(snd {tmp})", "vec", cur, s)
                                return pre + p1 + p2 + self.block(rest, cur, tail, live)
                fail(s, "np.nonzero template")
            # call of another translated function
            if isinstance(v, ast.Call) and isinstance(v.func, ast.Name) and v.func.id in self.known:
                ptys, rtys = self.known[v.func.id]
                if len(v.args) != len(ptys) or v.keywords or len(rtys) != len(names):
                    fail(s, "known call arity")
                args = []
                for a, want in zip(v.args, ptys):
                    t, ty = self.expr(a, cur)
                    args.append(self.coerce(t, ty, want, s))
                vs = []
                cur2 = dict(cur)
                for n, rty in zip(names, rtys):
                    if n != "_" and self.types.get(n) != rty:
                        fail(s, f"result type of {n}")
                    self.fresh += 1
                    vn = f"{n if n != '_' else 'ign'}_{self.fresh}"
                    vs.append(vn)
                    if n != "_":
                        cur2[n] = (vn, rty)
                pat = "'(" + ", ".join(vs) + ")" if len(vs) > 1 else vs[0]
                return f"bind ({v.func.id} {' '.join(args)}) (fun {pat} =>\n" + self.block(rest, cur2, tail, live) + ")"
            fail(s, "tuple assign")
        if isinstance(tgt, ast.Name) and isinstance(s.value, ast.Call) and ast.dump(s.value.func) == dump("np.ravel_multi_index"):
            v = s.value
            if len(v.args) == 2 and [k.arg for k in v.keywords] == ["order"] and isinstance(v.args[0], ast.Call) \
                    and ast.dump(v.args[0].func) == dump("tuple") and len(v.args[0].args) == 1:
                inner = v.args[0].args[0]
                if isinstance(inner, ast.Call) and isinstance(inner.func, ast.Attribute) and inner.func.attr == "transpose" and not inner.args:
                    m_, tm = self.expr(inner.func.value, cur)
                    sh_, tsh = self.expr(v.args[1], cur)
                    o_, to = self.expr(v.keywords[0].value, cur)
                    if tm == "mat" and tsh == "vec" and to == "order" and self.types.get(tgt.id) == "vec":
                        self.fresh += 1
                        vn = f"{tgt.id}_{self.fresh}"
                        cur2 = dict(cur)
                        cur2[tgt.id] = (vn, "vec")
                        return f"bind (np_ravel_multi_index {o_} {m_} {sh_}) (fun {vn} =>\n" + self.block(rest, cur2, tail, live) + ")"
            fail(s, "np.ravel_multi_index template")
        if isinstance(tgt, ast.Name):
            t, ty = self.expr(s.value, cur)
            pre, cur2 = self.bind_name(tgt.id, t, ty, cur, s)
            return pre + self.block(rest, cur2, tail, live)
        fail(s, "assign")

    def match_unravel(self, v, cur):
        """np.array(np.unravel_index(I, SH, order=O)).transpose()  ->  np_unravel_index O I SH  (already a res)"""
        if isinstance(v.func, ast.Attribute) and v.func.attr == "transpose" and not v.args and isinstance(v.func.value, ast.Call) \
                and ast.dump(v.func.value.func) == dump("np.array") and len(v.func.value.args) == 1:
            u = v.func.value.args[0]
            if isinstance(u, ast.Call) and ast.dump(u.func) == dump("np.unravel_index") and len(u.args) == 2 \
                    and [k.arg for k in u.keywords] == ["order"]:
                i_, ti = self.expr(u.args[0], cur)
                sh_, tsh = self.expr(u.args[1], cur)
                o_, to = self.expr(u.keywords[0].value, cur)
                if ti == "vec" and tsh == "vec" and to == "order":
                    return f"np_unravel_index {o_} {i_} {sh_}"
        return None

    def narrow(self, test, cur):
        """(name, positive?) when the test is exactly `X is not None` / `X is None` / isinstance(X, np.ndarray)
        on a variable whose current type is optional"""
        if isinstance(test, ast.Compare) and len(test.ops) == 1 and isinstance(test.left, ast.Name) \
                and isinstance(test.comparators[0], ast.Constant) and test.comparators[0].value is None \
                and isinstance(test.ops[0], (ast.Is, ast.IsNot)):
            n = test.left.id
            if n in cur and cur[n][1] in ("optvec", "optint"):
                return n, isinstance(test.ops[0], ast.IsNot), "Some", {"optvec": "vec", "optint": "int"}[cur[n][1]], "None"
        if isinstance(test, ast.Call) and isinstance(test.func, ast.Name) and test.func.id == "isinstance" \
                and isinstance(test.args[0], ast.Name) and ast.dump(test.args[1]) == dump("np.ndarray"):
            n = test.args[0].id
            if n in cur and cur[n][1] == "optvec":
                return n, True, "Some", "vec", "None"
        if "dyn" in self.options and isinstance(test, ast.Call) and isinstance(test.func, ast.Name) and test.func.id == "isinstance" \
                and len(test.args) == 2 and not test.keywords and isinstance(test.args[0], ast.Name):
            n = test.args[0].id
            if n in cur and cur[n][1] in UNION_CLASSES:
                cs = self.ctors_of(cur[n][1], test.args[1])
                if len(cs) == 1:       # exactly one constructor: the branch sees its argument at the narrowed type
                    return n, True, cs[0], UNION_CTORS[cs[0]][0], "_"
        return None

    NARROWED = {"optvec": "vec", "optint": "int", "optmat": "mat"}

    def narrow_conj(self, test, cur):
        """[(name, positive?), ...] when the test is a conjunction of >= 2 `X is [not] None` atoms on distinct
        optional-typed variables (translated to one simultaneous match)"""
        if "narrow_conj" not in self.options:      # opt-in per function (keeps the text of earlier units stable)
            return None
        if not (isinstance(test, ast.BoolOp) and isinstance(test.op, ast.And) and len(test.values) >= 2):
            return None
        out = []
        for v in test.values:
            if not (isinstance(v, ast.Compare) and len(v.ops) == 1 and isinstance(v.left, ast.Name)
                    and isinstance(v.comparators[0], ast.Constant) and v.comparators[0].value is None
                    and isinstance(v.ops[0], (ast.Is, ast.IsNot))):
                return None
            n = v.left.id
            if n not in cur or cur[n][1] not in self.NARROWED or n in [x for x, _ in out]:
                return None
            out.append((n, isinstance(v.ops[0], ast.IsNot)))
        return out

    def match_conj(self, multi, cur, true_fn, false_fn):
        c = dict(cur)
        pats = []
        for n, pos in multi:
            if pos:
                self.fresh += 1
                nv = f"{n}_v{self.fresh}"
                pats.append(f"Some {nv}")
                c[n] = (nv, self.NARROWED[cur[n][1]])
            else:
                pats.append("None")
        scrut = ", ".join(cur[n][0] for n, _ in multi)
        return (f"match {scrut} with\n| {', '.join(pats)} =>\n{true_fn(c)}\n| {', '.join('_' for _ in multi)} =>\n"
                f"{false_fn(cur)}\nend")

    def if_(self, s, rest, cur, tail, live):
        if "m5" in self.options and isinstance(s.test, ast.Call) and ast.dump(s.test.func) == dump("np.isscalar"):
            # a test decided by the TYPE of its argument (an ndarray is never a scalar): the dead branch is not translated,
            # the statement is its else-branch
            t, ty = self.expr(s.test, cur)
            if ty != "static_false":
                fail(s, "np.isscalar test")
            return self.block(s.orelse + rest, cur, tail, live)
        nar = self.narrow(s.test, cur)
        multi = None if nar else self.narrow_conj(s.test, cur)
        body, orelse = s.body, s.orelse
        if nar and not nar[1]:
            body, orelse = orelse, body          # `X is None`  ==  swap the branches of `X is not None`
        body_term = self.terminates(body)
        else_term = self.terminates(orelse)

        def narrowed(nv):
            c = dict(cur)
            name = nar[0]
            c[name] = (nv, nar[3])
            return c

        def mk(true_fn, false_fn):
            """true_fn / false_fn : env -> text"""
            if multi:
                return self.match_conj(multi, cur, true_fn, false_fn)
            if nar:
                otxt, _ = cur[nar[0]]
                self.fresh += 1
                nv = f"{nar[0]}_v{self.fresh}"
                return f"match {otxt} with\n| {nar[2]} {nv} =>\n{true_fn(narrowed(nv))}\n| {nar[4]} =>\n{false_fn(cur)}\nend"
            t, ty = self.expr(s.test, cur)
            if ty != "bool":
                fail(s, "if test type")
            return f"if {t} then\n{true_fn(cur)}\nelse\n{false_fn(cur)}"

        if body_term or else_term:
            # no join needed: the non-terminating side simply continues with `rest`
            return mk(lambda c: self.block(body + ([] if body_term else rest), c, tail, live),
                      lambda c: self.block(orelse + ([] if else_term else rest), c, tail, live))
        # join point over the variables assigned in either branch
        for x in ast.walk(ast.Module(body=body + orelse, type_ignores=[])):
            if isinstance(x, ast.Break):
                fail(x, "break inside a branch that continues to a join")
        live2 = frozenset(live | self.reads(rest))
        av = [n for n in dict.fromkeys(self.assigned(body) + self.assigned(orelse)) if n in live2]
        for n in av:
            if n not in self.types:
                fail(s, f"variable {n} missing from the type environment")

        jt = {n: self.types[n] for n in av}      # type of each variable at the join
        if any(self.types[n] in UNION_CLASSES or ("m5" in self.options and self.retypes.get(n)) for n in av):
            # union-typed variables: when every branch leaves the same narrowed type, the join keeps it.  Probe pass
            # (text discarded, counters and guards restored) to learn the types the branches end with.
            seen = {n: set() for n in av}

            def probe(c):
                for n in av:
                    if n not in c:
                        fail(s, f"{n} may be unbound at the join")
                    seen[n].add(c[n][1])
                return "Ok tt"
            saved = self.fresh
            self.scoped(lambda: mk(lambda c: self.block(body, c, probe, live2), lambda c: self.block(orelse, c, probe, live2)))
            self.fresh = saved
            for n in av:
                if self.types[n] in UNION_CLASSES and len(seen[n]) == 1:
                    ty1 = next(iter(seen[n]))
                    if (ty1, self.types[n]) in UNION_INJ:
                        jt[n] = ty1
                elif "m5" in self.options and len(seen[n]) == 1 and next(iter(seen[n])) in self.retypes.get(n, []):
                    jt[n] = next(iter(seen[n]))      # every branch rebinds the variable at the same declared retype: the join keeps it

        def endtuple(c):
            parts = []
            for n in av:
                if n not in c:
                    fail(s, f"{n} may be unbound at the join")
                t, ty = c[n]
                parts.append(self.coerce(t, ty, jt[n], s))
            return "Ok (" + ", ".join(parts) + ")" if len(parts) > 1 else f"Ok {parts[0]}"

        if not av:
            fail(s, "if statement without effect on live variables")
        head = mk(lambda c: self.block(body, c, endtuple, live2), lambda c: self.block(orelse, c, endtuple, live2))
        cur2 = dict(cur)
        vs = []
        for n in av:
            self.fresh += 1
            vn = f"{n}_{self.fresh}"
            vs.append(vn)
            cur2[n] = (vn, jt[n])
        pat = "'(" + ", ".join(vs) + ")" if len(vs) > 1 else vs[0]
        return f"bind ({head}) (fun {pat} =>\n" + self.block(rest, cur2, tail, live) + ")"

    @staticmethod
    def params(f):
        """positional parameters, then `*name` as ONE list-valued parameter, then keyword-only parameters
        (defaults are not applied: every parameter stays a parameter of the Gallina function)"""
        if f.args.kwarg or f.args.posonlyargs:
            fail(f, "parameters")
        return [a.arg for a in f.args.args] + ([f.args.vararg.arg] if f.args.vararg else []) \
            + [a.arg for a in f.args.kwonlyargs]

    def func(self, f, fenv):
        params = self.params(f)
        if f.args.vararg and self.types.get(f.args.vararg.arg) != "matlist":
            fail(f, "*args parameter must be declared as a list of matrices")
        cur = {}
        sig = []
        for p in params:
            if p not in self.types:
                fail(f, f"parameter {p} missing from the type environment")
            cur[p] = (p, self.types[p])
            sig.append(f"({p} : {coq_ty(self.types[p])})")
            if p in self.dtype_flags:
                if self.types[p] != "vec":
                    fail(f, "dtype flag of a parameter that is not an integer vector")
                sig.append(f"({self.dtype_flags[p]} : bool)")
        for p in self.dtype_flags:
            if p not in params:
                fail(f, f"dtype flag of {p}: not a parameter")
            keep = ast.dump(ast.parse(f"{p} = parse_one_d({p})").body[0])
            for n in ast.walk(f):
                if isinstance(n, ast.Name) and n.id in (p, "bool") and isinstance(n.ctx, (ast.Store, ast.Del)):
                    par = [m for m in ast.walk(f) if isinstance(m, ast.Assign) and len(m.targets) == 1 and m.targets[0] is n]
                    if n.id == "bool" or not par or ast.dump(par[0]) != keep:
                        fail(n, f"rebinding of {n.id}: the dtype flag of {p} would no longer describe it")
        rty = " * ".join(coq_ty(t) for t in self.ret)
        body = strip_doc(f.body)
        for o_, otys in self.oracles.items():      # methods called on self that are not translated: parameters of the definition
            sig.insert(0, f"({o_}_ : ktz -> {' '.join(coq_ty(t) + ' -> ' for t in otys)}res ktz)")

        def tail(c):
            if "returns_self" in self.options:     # a method that updates self in place and returns None: the model returns self
                return f"Ok {c['self'][0]}"
            fail(f, "control falls off the end of the function")
        txt = self.block(body, cur, tail, frozenset({"self"}) if "returns_self" in self.options else frozenset())
        return f"Definition {fenv.get('coqname', f.name)} {' '.join(sig)} : res ({rty}) :=\n{txt}.\n"


def param_names(f):
    """parameter names in the order of IntTr.params; the *args parameter is written "*" """
    return [a.arg for a in f.args.args] + (["*"] if f.args.vararg else []) + [a.arg for a in f.args.kwonlyargs]


def param_defaults(f):
    """defaults of positional and keyword-only parameters, as written in the signature"""
    out = {}
    pos = f.args.args
    for a, d in zip(pos[len(pos) - len(f.args.defaults):], f.args.defaults):
        out[a.arg] = d
    for a, d in zip(f.args.kwonlyargs, f.args.kw_defaults):
        if d is not None:
            out[a.arg] = d
    return out


def gen_utils(src_root, envpath, key="utils", title="pyttb/pyttb_utils.py", imports="Np.NpZ", extern=()):
    env = json.load(open(envpath))
    out = [f"(* GENERATED by tools/pyx2v.py from {title} — do not edit *)",
           "From Coq Require Import List ZArith Bool.", f"From PV Require Import {imports}.",
           "Import ListNotations.", "Local Open Scope Z_scope.", ""]
    known = {}
    names = []
    trees = {}
    info = {}
    emitted = []
    known_names = {}
    known_defaults = {}
    known_coq = {}
    for k2 in extern:        # functions translated into an imported unit: callable from this one
        for unit in env[k2]:
            path = os.path.join(src_root, unit["file"])
            if path not in trees:
                trees[path] = find_funcs(ast.parse(open(path).read()))
            if unit["name"] not in trees[path]:
                raise Unsupported(f"{unit['file']}: function {unit['name']} not found")
            known[unit["name"]] = ([unit["types"][a] for a in IntTr.params(trees[path][unit["name"]])], unit["returns"])
            known_names[unit["name"]] = param_names(trees[path][unit["name"]])
            known_defaults[unit["name"]] = param_defaults(trees[path][unit["name"]])
            known_coq[unit["name"]] = unit.get("coqname", unit["name"])
    for unit in env[key]:
        path = os.path.join(src_root, unit["file"])
        if path not in trees:
            trees[path] = find_funcs(ast.parse(open(path).read()))
        funcs = trees[path]
        name = unit["name"]
        if name not in funcs:
            raise Unsupported(f"{unit['file']}: function {name} not found")
        f = funcs[name]
        if path not in info:
            info[path] = module_info(ast.parse(open(path).read()))
        for en in unit.get("enums", []):      # enum classes the function mentions: emitted once, members as in the source
            if en not in info[path][0]:
                raise Unsupported(f"{unit['file']}: enum class {en} not found")
            if en not in emitted:
                emitted.append(en)
                out.append(f"Inductive {en} := " + " | ".join(info[path][0][en]) + ".\n")
        tr = IntTr(unit, known, {en: info[path][0][en] for en in unit.get("enums", [])}, info[path][1])
        tr.known_names = known_names
        tr.known_defaults = known_defaults
        tr.file_funcs = funcs
        tr.known_coq = known_coq
        # defaults: only the ones declared in the env are accepted (parameter fixed to its default is NOT done:
        # every parameter stays a parameter of the Gallina function)
        out.append(tr.func(f, unit))
        known[name] = ([unit["types"][a] for a in IntTr.params(f)], unit["returns"])
        known_names[name] = param_names(f)
        known_defaults[name] = param_defaults(f)
        known_coq[name] = unit.get("coqname", name)
        names.append(name)
    return "\n".join(out) + "\n", names



# --------------------------------------------------------------------------------------
# Option "m7": constructor argument checks (tenmat.__init__): a separate, small, fail-closed translator.
# Every statement / expression form is listed below; anything else aborts the unit.
# --------------------------------------------------------------------------------------
M7_TY = {"int": "Z", "bool": "bool", "vec": "vec", "optvec": "option vec", "pylist": "vec", "row2d": "vec",
         "nd": "ndz", "optnd": "option ndz", "shp": "pyshp", "optshp": "option pyshp", "tm": "tmz",
         "mat": "mat", "optmat": "option mat", "nz": "vec", "stm": "stmz"}
M7_NARROW = {"optvec": "vec", "optnd": "nd", "optshp": "shp", "optmat": "mat"}


class ChkTr:
    def __init__(self, unit, cls_funcs, known):
        if "m7" not in unit.get("options", []):
            raise Unsupported("m7 unit without option m7")
        self.types = unit["types"]
        self.fields = unit["fields"]            # ordered: [[attr, type], ...] = arguments of the record constructor
        self.ctor = unit["ctor"]
        self.numflags = unit.get("num_flags", {})
        self.oracles = unit.get("oracles", {})  # self.<m>(x) -> parameter <m>_ : ty -> bool
        self.cls_funcs = cls_funcs
        self.known = known                      # callee -> (coqname, [arg types], [ret types], ndefaults-as-None)
        self.module_imports = {}                # local name -> (module, original name) for `from m import a as b`
        self.n = 0

    def fresh(self, v):
        self.n += 1
        return f"{v}_{self.n}"

    @staticmethod
    def wrap(guards, text):
        if not guards:
            return text
        return f"if {' && '.join(guards)} then\n{text}\nelse Err"

    def self_order(self, e):
        """self.order, checked to be the constant "F" of the class"""
        if not (isinstance(e, ast.Attribute) and isinstance(e.value, ast.Name) and e.value.id == "self" and e.attr == "order"):
            return False
        f = self.cls_funcs.get("order")
        body = strip_doc(f.body) if f is not None else []
        if not (len(body) == 1 and isinstance(body[0], ast.Return) and isinstance(body[0].value, ast.Constant)
                and body[0].value.value == "F"):
            fail(e, "self.order is not the constant \"F\"")
        return True

    @staticmethod
    def is_none_test(e, env):
        if isinstance(e, ast.Compare) and len(e.ops) == 1 and isinstance(e.ops[0], (ast.Is, ast.IsNot)) \
                and isinstance(e.comparators[0], ast.Constant) and e.comparators[0].value is None \
                and isinstance(e.left, ast.Name) and e.left.id in env and env[e.left.id][1] in M7_NARROW:
            return e.left.id, isinstance(e.ops[0], ast.Is)
        return None

    def narrowed(self, env, x):
        v = self.fresh(x + "_v")
        env2 = dict(env)
        env2[x] = (v, M7_NARROW[env[x][1]])
        return v, env2

    # ---------------------------------------------------------------- expressions: (text, type, guards)
    def expr(self, e, env):
        if isinstance(e, ast.Name):
            if e.id not in env:
                fail(e, "unknown name")
            return env[e.id][0], env[e.id][1], []
        if isinstance(e, ast.Constant):
            if e.value is True or e.value is False:
                return ("true" if e.value else "false"), "bool", []
            if isinstance(e.value, int):
                return (str(e.value) if e.value >= 0 else f"({e.value})"), "int", []
            fail(e, "constant")
        if isinstance(e, ast.Tuple) and not e.elts:
            return "[]", "pylist", []
        if isinstance(e, ast.UnaryOp) and isinstance(e.op, ast.Not):
            t, ty, g = self.expr(e.operand, env)
            if ty != "bool":
                fail(e, "not of a non-bool")
            return f"(negb {t})", "bool", g
        if isinstance(e, ast.BoolOp):
            x = self.is_none_test(e.values[0], env)
            if x and x[1] and isinstance(e.op, ast.Or) and len(e.values) >= 2:
                rest = e.values[1] if len(e.values) == 2 else ast.BoolOp(op=ast.Or(), values=e.values[1:])
                v, env2 = self.narrowed(env, x[0])
                t, ty, g = self.expr(rest, env2)
                if ty != "bool":
                    fail(e, "or of a non-bool")
                gg = [f"match {env[x[0]][0]} with None => true | Some {v} => {' && '.join(g)} end"] if g else []
                return f"match {env[x[0]][0]} with None => true | Some {v} => {t} end", "bool", gg
            parts = [self.expr(v, env) for v in e.values]
            if any(ty != "bool" for _, ty, _ in parts):
                fail(e, "and / or of a non-bool (Python returns the operand)")
            is_or = isinstance(e.op, ast.Or)
            text, guards = parts[0][0], list(parts[0][2])
            for t, _, g in parts[1:]:          # short circuit: the guards of a later operand count only when it is evaluated
                guards += [f"({text if is_or else '(negb ' + text + ')'} || {x_})" for x_ in g]
                text = f"({text} || {t})" if is_or else f"({text} && {t})"
            return text, "bool", guards
        if isinstance(e, ast.BinOp) and isinstance(e.op, ast.Mult):
            a, ta, ga = self.expr(e.left, env)
            b, tb, gb = self.expr(e.right, env)
            if (ta, tb) != ("int", "int"):
                fail(e, "product of non-ints")
            return f"({a} * {b})", "int", ga + gb
        if isinstance(e, ast.Compare) and len(e.ops) == 1:
            x = self.is_none_test(e, env)
            if x:
                return (f"(negb (is_some {env[x[0]][0]}))" if x[1] else f"(is_some {env[x[0]][0]})"), "bool", []
            op, r = e.ops[0], e.comparators[0]
            if isinstance(op, ast.Gt):
                a, ta, ga = self.expr(e.left, env)
                b, tb, gb = self.expr(r, env)
                if (ta, tb) != ("int", "int"):
                    fail(e, "> of non-ints")
                return f"({a} >? {b})", "bool", ga + gb
            if not isinstance(op, (ast.Eq, ast.NotEq)):
                fail(e, "comparison")
            neg = (lambda t_: f"(negb {t_})") if isinstance(op, ast.NotEq) else (lambda t_: t_)
            a, ta, ga = self.expr(e.left, env)
            if ta == "shp" and isinstance(r, ast.Tuple) and not r.elts:
                return neg(f"(shp_eq_unit {a})"), "bool", ga + [f"(shp_eq_unit_ok {a})"]
            b, tb, gb = self.expr(r, env)
            if (ta, tb) == ("int", "int"):
                return neg(f"({a} =? {b})"), "bool", ga + gb
            fail(e, "comparison of these types")
        if isinstance(e, ast.Attribute):
            if self.self_order(e):
                fail(e, "self.order outside an order= argument")
            a, ta, ga = self.expr(e.value, env)
            if e.attr == "shape" and ta == "nd":
                return f"(nd7_shape {a})", "pylist", ga
            if e.attr == "size" and ta == "nd":
                return f"(nd7_size {a})", "int", ga
            if e.attr == "size" and ta == "vec":
                return f"(zlen {a})", "int", ga
            if e.attr == "size" and ta == "mat":
                return f"(np_size2 {a})", "int", ga
            fail(e, "attribute")
        if isinstance(e, ast.Subscript) and isinstance(e.value, ast.Attribute) and e.value.attr == "shape" \
                and isinstance(e.slice, ast.Constant) and e.slice.value == 0:
            a, ta, ga = self.expr(e.value.value, env)
            if ta == "mat":
                return f"(zlen {a})", "int", ga
        if isinstance(e, ast.Subscript):
            a, ta, ga = self.expr(e.value, env)
            if isinstance(e.slice, ast.Tuple) and len(e.slice.elts) == 2 and isinstance(e.slice.elts[0], ast.Slice) \
                    and e.slice.elts[0].lower is None and e.slice.elts[0].upper is None and e.slice.elts[0].step is None \
                    and isinstance(e.slice.elts[1], ast.Constant):
                k_ = e.slice.elts[1].value
                if ta == "mat" and isinstance(k_, int) and not isinstance(k_, bool) and k_ >= 0:
                    return f"(np7_col {a} {k_})", "vec", ga + [f"(np7_col_ok {a} {k_})"]
                if ta == "vec" and k_ is None:      # v[:, None]: 1-d / column shapes are not distinguished
                    return a, "vec", ga
                fail(e, "column subscript")
            if ta == "pylist" and isinstance(e.slice, ast.Constant) and isinstance(e.slice.value, int):
                return f"(znth 0 {a} {e.slice.value})", "int", ga + [f"(idx_ok {a} {e.slice.value})"]
            i, ti, gi = self.expr(e.slice, env)
            if ta == "vec" and ti in ("vec", "nz"):      # integer-array indexing of a 1-d array (negative entries count from the end)
                return f"(np_take 0 {a} {i})", "vec", ga + gi + [f"(np_take_ok {a} {i})"]
            if ta == "mat" and ti == "nz":       # rows at the positions np.nonzero returned
                return f"(np_take [] {a} {i})", "mat", ga + gi + [f"(np_take_ok {a} {i})"]
            fail(e, "subscript")
        if isinstance(e, ast.Call):
            return self.call(e, env)
        fail(e, "expression")

    def call(self, e, env):
        f = e.func
        fn = ast.unparse(f)
        kw = {k.arg: k.value for k in e.keywords}
        if None in kw:
            fail(e, "**kwargs")
        A = e.args
        if fn == "len" and len(A) == 1 and not kw:
            a, ta, g = self.expr(A[0], env)
            if ta in ("vec", "pylist"):
                return f"(zlen {a})", "int", g
        if fn == "prod" and len(A) == 1 and not kw:
            a, ta, g = self.expr(A[0], env)
            if ta in ("pylist", "vec"):
                return f"(zprod {a})", "int", g
        if fn == "np.prod" and len(A) == 1 and not kw:
            a, ta, g = self.expr(A[0], env)
            if ta == "vec":
                return f"(zprod {a})", "int", g
        if fn == "isinstance" and len(A) == 2 and not kw and ast.unparse(A[1]) == "np.ndarray":
            a, ta, g = self.expr(A[0], env)
            if ta == "nd":
                return "true", "bool", g
        if fn == "issubclass" and len(A) == 2 and not kw and ast.unparse(A[1]) == "np.number" \
                and isinstance(A[0], ast.Attribute) and A[0].attr == "type" and isinstance(A[0].value, ast.Attribute) \
                and A[0].value.attr == "dtype" and isinstance(A[0].value.value, ast.Name) and A[0].value.value.id in self.numflags:
            nm = A[0].value.value.id
            if env[nm][1] != "nd":
                fail(e, "dtype of a non-array")
            return self.numflags[nm], "bool", []
        if fn == "np.array" and len(A) == 1:
            if isinstance(A[0], ast.List) and not A[0].elts:
                if not kw:
                    return "[]", "vec", []
                is_int = lambda x_: isinstance(x_, ast.Name) and x_.id == "int"
                if set(kw) == {"dtype"} and is_int(kw["dtype"]):
                    return "[]", "vec", []
                if set(kw) == {"ndmin"} and isinstance(kw["ndmin"], ast.Constant) and kw["ndmin"].value == 2:
                    return "[]", "vec", []          # a (1, 0) array of values: no entries
                if set(kw) == {"ndmin", "dtype"} and isinstance(kw["ndmin"], ast.Constant) and kw["ndmin"].value == 2 and is_int(kw["dtype"]):
                    return "[@nil Z]", "mat", []    # a (1, 0) integer matrix: one row without columns
                if set(kw) == {"ndmin", "order"} and isinstance(kw["ndmin"], ast.Constant) and kw["ndmin"].value == 2 \
                        and self.self_order(kw["order"]):
                    return "nd7_empty2", "nd", []
            if not kw and isinstance(A[0], ast.List) and len(A[0].elts) == 1 and isinstance(A[0].elts[0], ast.Call) \
                    and ast.unparse(A[0].elts[0].func) == "range" and len(A[0].elts[0].args) == 1 and not A[0].elts[0].keywords:
                a, ta, g = self.expr(A[0].elts[0].args[0], env)
                if ta == "int":
                    return f"(np_arange 0 {a})", "row2d", g
            if not kw:
                a, ta, g = self.expr(A[0], env)
                if ta in ("vec", "pylist"):           # np.array of a tuple of ints (what parse_shape returns)
                    return a, "vec", g
        if fn == "np.sort" and len(A) == 1 and not kw:
            a, ta, g = self.expr(A[0], env)
            if ta == "vec":
                return f"(np_sort {a})", "vec", g
        if fn == "np.hstack" and len(A) == 1 and (not kw or (set(kw) == {"dtype"} and ast.unparse(kw["dtype"]) == "int")) \
                and isinstance(A[0], ast.List) and len(A[0].elts) == 2:
            a, ta, ga = self.expr(A[0].elts[0], env)
            b, tb, gb = self.expr(A[0].elts[1], env)
            if (ta, tb) == ("vec", "vec"):
                return f"({a} ++ {b})", "vec", ga + gb
        if isinstance(f, ast.Attribute) and f.attr == "copy" and not A and not kw:
            a, ta, g = self.expr(f.value, env)
            if ta in ("vec", "nd"):
                return a, ta, g
        if isinstance(f, ast.Attribute) and ((f.attr == "astype" and len(A) == 1 and ast.unparse(A[0]) == "int")
                                             or (f.attr == "flatten" and not A)) and not kw:
            a, ta, g = self.expr(f.value, env)
            if ta == "vec":
                return a, ta, g
        if fn == "np.max" and len(A) == 1 and not kw:
            a, ta, g = self.expr(A[0], env)
            if ta == "vec":
                return f"(np7_max {a})", "int", g + [f"(0 <? zlen {a})"]
        if fn == "np.squeeze" and len(A) == 1 and set(kw) == {"axis"} and isinstance(kw["axis"], ast.Constant) and kw["axis"].value == 1:
            a, ta, g = self.expr(A[0], env)
            if ta == "vec":               # a column of values: 1-d / column shapes are not distinguished
                return a, ta, g
        if fn == "np.nonzero" and len(A) == 1 and not kw:
            a, ta, g = self.expr(A[0], env)
            if ta == "vec":
                return f"(np7_nonzero {a})", "nz", g
        if fn == "accumarray" and len(A) == 2 and set(kw) == {"size", "func"} and ast.unparse(kw["func"]) == "sum" \
                and self.module_imports.get("accumarray") == ("numpy_groupies", "aggregate"):
            a, ta, ga = self.expr(A[0], env)
            b, tb, gb = self.expr(A[1], env)
            c, tc, gc = self.expr(kw["size"], env)
            if (ta, tb, tc) == ("vec", "vec", "int"):
                return f"(np7_accum_sum {a} {b} {c})", "vec", ga + gb + gc + [f"(np7_accum_ok {a} {b} {c})"]
        if isinstance(f, ast.Attribute) and f.attr == "all" and not A and not kw and isinstance(f.value, ast.Compare) \
                and len(f.value.ops) == 1 and isinstance(f.value.ops[0], ast.Eq):
            a, ta, ga = self.expr(f.value.left, env)
            b, tb, gb = self.expr(f.value.comparators[0], env)
            if (ta, tb) == ("row2d", "vec"):      # (1, n) against (m,): only m = n is modelled (other lengths: Err)
                return f"(vec_eqb {a} {b})", "bool", ga + gb + [f"(zlen {a} =? zlen {b})"]
        if fn == "np.reshape" and len(A) == 2 and set(kw) == {"order"} and self.self_order(kw["order"]) \
                and isinstance(A[1], ast.Tuple):
            a, ta, ga = self.expr(A[0], env)
            dims = [self.expr(d, env) for d in A[1].elts]
            if ta == "nd" and all(t_ == "int" for _, t_, _ in dims):
                s_ = "[" + "; ".join(d[0] for d in dims) + "]"
                return f"(nd7_reshapeF {a} {s_})", "nd", ga + [x_ for d in dims for x_ in d[2]] + [f"(nd7_reshapeF_ok {a} {s_})"]
        if fn == "to_memory_order" and len(A) == 2 and set(kw) == {"copy"} and self.self_order(A[1]):
            a, ta, ga = self.expr(A[0], env)
            c, tc, gc = self.expr(kw["copy"], env)
            if (ta, tc) == ("nd", "bool"):
                return f"(np_to_memory_order {a} {c})", "nd", ga + gc
        if isinstance(f, ast.Attribute) and isinstance(f.value, ast.Name) and f.value.id == "self" and f.attr in self.oracles \
                and len(A) == 1 and not kw:
            a, ta, g = self.expr(A[0], env)
            if ta == self.oracles[f.attr]:
                return f"({f.attr}_ {a})", "bool", g
        fail(e, "call")

    # ---------------------------------------------------------------- statements
    @classmethod
    def terminates(cls, stmts):
        if not stmts:
            return False
        s = stmts[-1]
        if isinstance(s, (ast.Return, ast.Raise)):
            return True
        if isinstance(s, ast.Assert) and isinstance(s.test, ast.Constant) and s.test.value is False:
            return True
        if isinstance(s, ast.If):
            return cls.terminates(s.body) and cls.terminates(s.orelse)
        return False

    @staticmethod
    def assigned(stmts):
        out = set()
        for s in stmts:
            for n in ast.walk(s):
                if isinstance(n, ast.Name) and isinstance(n.ctx, ast.Store):
                    out.add(n.id)
                if isinstance(n, ast.Attribute) and isinstance(n.ctx, ast.Store):
                    fail(n, "store to an attribute inside a branch that continues")
        return out

    def finish(self, flds, node):
        miss = [a for a, _ in self.fields if a not in flds]
        if miss:
            fail(node, f"return before the fields {miss} are set")
        return f"Ok ({self.ctor} {' '.join(flds[a] for a, _ in self.fields)})"

    def cond(self, test, env, A, B):
        """if test: A(env') else: B(env'), with `is None` narrowing"""
        if isinstance(test, ast.UnaryOp) and isinstance(test.op, ast.Not) and not self.is_none_test(test.operand, env):
            t, ty, g = self.expr(test, env)
            if ty != "bool":
                fail(test, "test is not a bool")
            return self.wrap(g, f"if {t} then\n{A(env)}\nelse\n{B(env)}")
        x = self.is_none_test(test, env)
        if x:
            v, env2 = self.narrowed(env, x[0])
            none_b, some_b = (A, B) if x[1] else (B, A)
            return f"match {env[x[0]][0]} with\n| None =>\n{none_b(env)}\n| Some {v} =>\n{some_b(env2)}\nend"
        if isinstance(test, ast.BoolOp) and isinstance(test.op, ast.Or) and len(test.values) >= 2:
            x = self.is_none_test(test.values[0], env)
            if x and x[1]:
                rest = test.values[1] if len(test.values) == 2 else ast.BoolOp(op=ast.Or(), values=test.values[1:])
                v, env2 = self.narrowed(env, x[0])
                return f"match {env[x[0]][0]} with\n| None =>\n{A(env)}\n| Some {v} =>\n{self.cond(rest, env2, A, B)}\nend"
        t, ty, g = self.expr(test, env)
        if ty != "bool":
            fail(test, "test is not a bool")
        return self.wrap(g, f"if {t} then\n{A(env)}\nelse\n{B(env)}")

    def blk(self, stmts, env, flds, k, node=None):
        if not stmts:
            return k(env, flds) if k else self.finish(flds, node)
        s, rest = stmts[0], stmts[1:]
        go = lambda env2, flds2=flds: self.blk(rest, env2, flds2, k, s)
        if isinstance(s, ast.Return):
            if s.value is not None:
                fail(s, "return with a value")
            return self.finish(flds, s)
        if isinstance(s, ast.Raise):
            return "Err"
        if isinstance(s, ast.Assert):
            if isinstance(s.test, ast.Constant) and s.test.value is False:
                return "Err"
            return self.cond(s.test, env, lambda e2: go(e2), lambda e2: "Err")
        if isinstance(s, ast.Expr):
            c = s.value
            if isinstance(c, ast.Call) and ast.unparse(c.func) == "logging.warning" and len(c.args) == 1 and not c.keywords \
                    and isinstance(c.args[0], (ast.JoinedStr, ast.Constant)):
                for n in ast.walk(c.args[0]):
                    if isinstance(n, ast.FormattedValue) and not self.self_order(n.value):
                        fail(n, "formatted value in a warning")
                return go(env)
            fail(s, "expression statement")
        if isinstance(s, ast.If):
            tA, tB = self.terminates(s.body), self.terminates(s.orelse)
            if tA or tB or (not rest and k is None):
                return self.cond(s.test, env, lambda e2: self.blk(s.body, e2, flds, go, s),
                                 lambda e2: self.blk(s.orelse, e2, flds, go, s))
            J0 = sorted(self.assigned(s.body) | self.assigned(s.orelse))
            bound = []
            n0 = self.n
            self.cond(s.test, env, lambda e2: self.blk(s.body, e2, flds, lambda e3, f3: bound.append(set(e3)) or "", s),
                      lambda e2: self.blk(s.orelse, e2, flds, lambda e3, f3: bound.append(set(e3)) or "", s))
            self.n = n0         # first pass: which names are bound on every path (a name bound on some paths only is dropped)
            J = [v for v in J0 if all(v in b_ for b_ in bound)]
            if not J:
                fail(s, "if without effect")
            seen = []

            def kj(e2, f2):
                seen.append(tuple(e2[v][1] for v in J))
                return "Ok (" + ", ".join(e2[v][0] for v in J) + ")"
            txt = self.cond(s.test, env, lambda e2: self.blk(s.body, e2, flds, kj, s), lambda e2: self.blk(s.orelse, e2, flds, kj, s))
            if len(set(seen)) != 1:
                fail(s, f"types at the join differ: {seen}")
            env2 = {k_: v_ for k_, v_ in env.items() if k_ not in J0}
            env2.update({k_: env[k_] for k_ in J0 if k_ in env and k_ not in self.assigned(s.body) | self.assigned(s.orelse)})
            names = []
            for v, ty in zip(J, seen[0]):
                nm = self.fresh(v)
                names.append(nm)
                env2[v] = (nm, ty)
            pat = names[0] if len(names) == 1 else "'(" + ", ".join(names) + ")"
            return f"bind ({txt}) (fun {pat} =>\n{go(env2)})"
        if isinstance(s, ast.AnnAssign) and s.value is not None:
            s = ast.Assign(targets=[s.target], value=s.value, lineno=s.lineno)
        if isinstance(s, ast.Assign) and len(s.targets) == 1:
            tg, val = s.targets[0], s.value
            if isinstance(val, ast.Call) and ast.unparse(val.func) in self.known and not val.keywords:
                cq, atys, rtys, extra = self.known[ast.unparse(val.func)]
                if len(val.args) + len(extra) != len(atys):
                    fail(s, "arity of a translated callee")
                args, guards = [], []
                for a_, want in zip(val.args, atys):
                    t, ty, g = self.expr(a_, env)
                    if ty == want:
                        pass
                    elif M7_NARROW.get(want) == ty:
                        t = f"(Some {t})"
                    elif (ty, want) == ("pylist", "shp"):
                        t = f"(shp_of_ints {t})"
                    else:
                        fail(a_, f"argument type {ty}, callee wants {want}")
                    args.append(t)
                    guards += g
                args += extra
                tgs = [tg] if isinstance(tg, ast.Name) else (tg.elts if isinstance(tg, ast.Tuple) else None)
                if tgs is None or len(tgs) != len(rtys) or not all(isinstance(x_, ast.Name) for x_ in tgs):
                    fail(s, "targets of a translated callee")
                env2 = dict(env)
                names = []
                for x_, ty in zip(tgs, rtys):
                    nm = self.fresh(x_.id)
                    names.append(nm)
                    env2[x_.id] = (nm, ty)
                pat = names[0] if len(names) == 1 else "'(" + ", ".join(names) + ")"
                return self.wrap(guards, f"bind ({cq} {' '.join(args)}) (fun {pat} =>\n{go(env2)})")
            if isinstance(val, ast.Call) and ast.unparse(val.func) == "np.unique" and len(val.args) == 1 \
                    and {k_.arg: ast.unparse(k_.value) for k_ in val.keywords} == {"axis": "0", "return_inverse": "True"} \
                    and isinstance(tg, ast.Tuple) and len(tg.elts) == 2 and all(isinstance(x_, ast.Name) for x_ in tg.elts):
                t, ty, g = self.expr(val.args[0], env)
                if ty != "mat":
                    fail(s, "np.unique(axis=0) of a non-matrix")
                n1, n2 = self.fresh(tg.elts[0].id), self.fresh(tg.elts[1].id)
                env2 = dict(env)
                env2[tg.elts[0].id] = (n1, "mat")
                env2[tg.elts[1].id] = (n2, "vec")
                return self.wrap(g + [f"(np7_rect {t})"], f"let '({n1}, {n2}) := np7_unique_rows_inv {t} in\n{go(env2)}")
            if isinstance(tg, ast.Name) and self.types.get(tg.id) == "mat" and ast.unparse(val) == "np.array([])":
                t, ty, g = "[]", "mat", []        # the empty 1-d array where a matrix is expected: no rows
            else:
                t, ty, g = self.expr(val, env)
            if isinstance(tg, ast.Attribute) and isinstance(tg.value, ast.Name) and tg.value.id == "self":
                want = dict(self.fields).get(tg.attr)
                if want is None or not (ty == want or (ty, want) == ("pylist", "vec")):
                    fail(s, f"field {tg.attr}: type {ty}")
                nm = self.fresh("self_" + tg.attr)
                f2 = dict(flds)
                f2[tg.attr] = nm
                return self.wrap(g, f"let {nm} := {t} in\n{go(env, f2)}")
            if isinstance(tg, ast.Name):
                if tg.id in self.types and self.types[tg.id] != ty and M7_NARROW.get(self.types[tg.id]) != ty \
                        and not (tg.id in env and env[tg.id][1] == ty):
                    declared = self.types[tg.id]
                    if (ty, declared) == ("pylist", "optshp"):      # a tuple of ints stored in a shape-typed variable
                        t, ty = f"(shp_of_ints {t})", "shp"
                    else:
                        fail(s, f"{tg.id}: type {ty}, declared {declared}")
                elif tg.id in self.types and (ty, self.types[tg.id]) == ("pylist", "optshp"):
                    t, ty = f"(shp_of_ints {t})", "shp"
                nm = self.fresh(tg.id)
                env2 = dict(env)
                env2[tg.id] = (nm, ty)
                return self.wrap(g, f"let {nm} := {t} in\n{go(env2)}")
        fail(s, "statement")

    def func(self, f, unit):
        if f.args.vararg or f.args.kwarg or f.args.kwonlyargs or f.args.posonlyargs:
            fail(f, "parameters")
        env, sig = {}, []
        for o_, ty in self.oracles.items():
            sig.append(f"({o_}_ : {M7_TY[ty]} -> bool)")
        for a in f.args.args:
            p = a.arg
            if p == "self":
                continue
            if p not in self.types:
                fail(f, f"parameter {p} missing from the type environment")
            env[p] = (p, self.types[p])
            sig.append(f"({p} : {M7_TY[self.types[p]]})")
            if p in self.numflags:
                sig.append(f"({self.numflags[p]} : bool)")
        for n in ast.walk(f):
            if isinstance(n, (ast.While, ast.For, ast.Try, ast.With, ast.Lambda, ast.Global, ast.Nonlocal, ast.NamedExpr,
                              ast.Yield, ast.Await, ast.Delete)):
                fail(n, "construct outside the m7 language")
        # the names the rules read as numpy / builtins / pyttb helpers must be exactly those: never rebound, imported as expected
        reserved = {"np", "len", "prod", "isinstance", "issubclass", "int", "sum", "range", "accumarray", "to_memory_order",
                    "logging", "parse_shape", "gather_wrap_dims", "self", "ValueError"}
        want = {"prod": ("math", "prod"), "to_memory_order": ("pyttb.pyttb_utils", "to_memory_order"),
                "parse_shape": ("pyttb.pyttb_utils", "parse_shape"), "gather_wrap_dims": ("pyttb.pyttb_utils", "gather_wrap_dims"),
                "accumarray": ("numpy_groupies", "aggregate")}
        for a in f.args.args:
            if a.arg in reserved - {"self"}:
                fail(f, f"parameter named {a.arg}")
        for n in ast.walk(f):
            if isinstance(n, ast.Name) and isinstance(n.ctx, ast.Store) and n.id in reserved:
                fail(n, f"rebinding of {n.id}")
            if isinstance(n, ast.Name) and isinstance(n.ctx, ast.Load) and n.id in want and self.module_imports.get(n.id) != want[n.id]:
                fail(n, f"{n.id} is not {'.'.join(want[n.id])}")
            if isinstance(n, ast.Name) and isinstance(n.ctx, ast.Load) and n.id == "np" and self.module_aliases.get("np") != "numpy":
                fail(n, "np is not numpy")
        txt = self.blk(strip_doc(f.body), env, {}, None, f)
        return f"Definition {unit['coqname']} {' '.join(sig)} : res ({M7_TY[unit['returns'][0]]}) :=\n{txt}.\n"


def gen_checks(src_root, envpath, key, title, imports):
    env = json.load(open(envpath))
    out = [f"(* GENERATED by tools/pyx2v.py from {title} — do not edit *)",
           "From Coq Require Import List ZArith Bool.", f"From PV Require Import {imports}.",
           "Import ListNotations.", "Local Open Scope Z_scope.", ""]
    names = []
    for unit in env[key]:
        path = os.path.join(src_root, unit["file"])
        tree = ast.parse(open(path).read())
        funcs = find_funcs(tree)
        if unit["name"] not in funcs:
            raise Unsupported(f"{unit['file']}: function {unit['name']} not found")
        cls = unit["name"].split(".")[0]
        cls_funcs = {k.split(".", 1)[1]: v for k, v in funcs.items() if k.startswith(cls + ".")}
        known = {}
        for cal, (ekey, extra) in unit.get("callees", {}).items():      # translated callees of other units (signature from the env)
            cu = [u for u in env[ekey] if u["name"] == cal]
            if len(cu) != 1:
                raise Unsupported(f"callee {cal} not in env unit {ekey}")
            cpath = os.path.join(src_root, cu[0]["file"])
            cf = find_funcs(ast.parse(open(cpath).read()))
            if cal not in cf:
                raise Unsupported(f"callee {cal} not found")
            ctys = [cu[0]["types"][a] for a in IntTr.params(cf[cal])]
            dflt = param_defaults(cf[cal])
            pn = IntTr.params(cf[cal])
            for nm_ in pn[len(pn) - len(extra):]:       # trailing parameters left at their default: must be None in the source
                if nm_ not in dflt or not (isinstance(dflt[nm_], ast.Constant) and dflt[nm_].value is None):
                    raise Unsupported(f"callee {cal}: default of {nm_} is not None")
            known[cal] = (cu[0].get("coqname", cal), ctys, cu[0]["returns"], list(extra))
        tr = ChkTr(unit, cls_funcs, known)
        tr.module_aliases = {}
        for n_ in tree.body:
            if isinstance(n_, ast.ImportFrom):
                for al in n_.names:
                    tr.module_imports[al.asname or al.name] = (n_.module, al.name)
            if isinstance(n_, ast.Import):
                for al in n_.names:
                    tr.module_aliases[al.asname or al.name] = al.name
        out.append(tr.func(funcs[unit["name"]], unit))
        names.append(unit["name"])
    return "\n".join(out) + "\n", names


def write_if_changed(path, text):
    old = open(path).read() if os.path.exists(path) else None
    if old != text:
        os.makedirs(os.path.dirname(path), exist_ok=True)
        with open(path, "w") as fh:
            fh.write(text)
        return True
    return False


def main():
    src = sys.argv[1] if len(sys.argv) > 1 else "/repo"
    outdir = sys.argv[2] if len(sys.argv) > 2 else os.path.join(os.path.dirname(__file__), "..", "coq", "theories", "Gen")
    here = os.path.dirname(os.path.abspath(__file__))
    status = {}
    envp = os.path.join(here, "pyx2v_env.json")
    for unit, fn in (("GenHandles", lambda: gen_handles(src)),
                     ("GenFgSetup", lambda: gen_fg_setup(src)),
                     ("GenUtils", lambda: gen_utils(src, envp)),
                     ("GenKernels", lambda: gen_utils(src, envp, "kernels", "pyttb/tensor.py (min_split), pyttb/khatrirao.py",
                                                      "Np.NpZ Np.NpZ2")),
                     ("GenUtils2", lambda: gen_utils(src, envp, "utils2", "pyttb/pyttb_utils.py (gather_wrap_dims, tt_union_rows)",
                                                     "Np.NpZ Np.NpZ2 Gen.GenUtils", extern=("utils",))),
                     ("GenUtils3", lambda: gen_utils(src, envp, "utils3", "pyttb/pyttb_utils.py (renumbering, key classification, "
                                                     "shape / subscript / value checks, mttkrp factor preparation)",
                                                     "Np.NpZ Np.NpZ2 Np.NpZ3")),
                     ("GenUtils3b", lambda: gen_utils(src, envp, "utils3b", "pyttb/pyttb_utils.py (parse_shape, parse_one_d)",
                                                      "Np.NpZ Np.NpZ2 Np.NpZ3 Np.NpZ3b")),
                     ("GenKernels3", lambda: gen_utils(src, envp, "kernels3", "pyttb/tensor.py (mttv_left, mttv_mid)",
                                                       "Np.NpZ Np.NpZ2 Np.NpZ3 Np.NpZ3c Gen.GenKernels", extern=("kernels",))),
                     ("GenMethods2", lambda: gen_utils(src, envp, "methods2", "pyttb/sptensor.py (sptensor.allsubs; `self` is a record parameter)",
                                                       "Np.NpZ Np.NpZ2 Np.NpZ3 Np.NpZ3c Np.NpZ3d Gen.GenKernels", extern=("kernels",))),
                     ("GenMethods3", lambda: gen_utils(src, envp, "methods3", "pyttb/ktensor.py (ktensor.redistribute; `self` is a record "
                                                       "parameter that the method updates and returns)", "Np.NpZ Np.NpZ2 Np.NpZ3 Np.NpZ3e")),
                     ("GenKtensor4", lambda: gen_utils(src, envp, "ktensor4", "pyttb/ktensor.py (whole methods: permute, extract, arrange, "
                                                       "tovec, update; `self` is a record parameter; methods called on self that are "
                                                       "not translated are parameters)", "Np.NpZ Np.NpZ2 Np.NpZ3 Np.NpZ3c Np.NpZ3d Np.NpZ3e Np.NpZ4")),
                     ("GenSptensor4", lambda: gen_utils(src, envp, "sptensor4", "pyttb/sptensor.py (whole methods: ones, permute, subdims; "
                                                        "`self` is a record parameter)", "Np.NpZ Np.NpZ2 Np.NpZ3 Np.NpZ3c Np.NpZ3d Np.NpZ3e Np.NpZ4 Np.NpZ4b")),
                     ("GenKtensor4b", lambda: gen_utils(src, envp, "ktensor4b", "pyttb/ktensor.py (classmethod from_vector; calls the "
                                                        "generated isvector / isrow)", "Np.NpZ Np.NpZ2 Np.NpZ3 Np.NpZ3c Np.NpZ3d Np.NpZ3e Np.NpZ4 Np.NpZ4c "
                                                        "Gen.GenUtils3", extern=("utils3",))),
                     ("GenSptensor4b", lambda: gen_utils(src, envp, "sptensor4b", "pyttb/sptensor.py (sptensor.squeeze: returns a tensor or a "
                                                         "number)", "Np.NpZ Np.NpZ2 Np.NpZ3 Np.NpZ3c Np.NpZ3d Np.NpZ3e Np.NpZ4 Np.NpZ4b Np.NpZ4d Np.NpZ4f")),
                     ("GenSptensor4c", lambda: gen_utils(src, envp, "sptensor4c", "pyttb/sptensor.py (sptensor.logical_not; calls the generated "
                                                         "sptensor.allsubs and tt_setdiff_rows)", "Np.NpZ Np.NpZ2 Np.NpZ3 Np.NpZ3c Np.NpZ3d Np.NpZ3e "
                                                         "Np.NpZ4 Np.NpZ4b Gen.GenUtils Gen.GenKernels Gen.GenMethods2", extern=("utils", "methods2"))),
                     ("GenSptensor4d", lambda: gen_utils(src, envp, "sptensor4d", "pyttb/sptensor.py (sptensor.reshape; calls the generated "
                                                         "tt_sub2ind / tt_ind2sub)", "Np.NpZ Np.NpZ2 Np.NpZ3 Np.NpZ3c Np.NpZ3d Np.NpZ3e "
                                                         "Np.NpZ4 Np.NpZ4b Np.NpZ4e Gen.GenUtils", extern=("utils",))),
                     ("GenMethods", lambda: gen_utils(src, envp, "methods", "simple methods / properties of pyttb classes "
                                                      "(`self` is a parameter: a record of the fields the method reads)",
                                                      "Np.NpZ Np.NpZ2 Np.NpZ3")),
                     ("GenTenmat7", lambda: gen_checks(src, envp, "tenmat7", "pyttb/tenmat.py (tenmat.__init__: argument checks and "
                                                       "stored fields; option m7)",
                                                       "Np.NpZ Np.NpZ2 Np.NpZ3 Np.NpZ3b Np.NpZ7 Gen.GenUtils Gen.GenUtils2 Gen.GenUtils3b")),
                     ("GenSptenmat7", lambda: gen_checks(src, envp, "sptenmat7", "pyttb/sptenmat.py (sptenmat.__init__: argument checks, "
                                                         "duplicate summation, stored fields; option m7)",
                                                         "Np.NpZ Np.NpZ2 Np.NpZ3 Np.NpZ3b Np.NpZ7 Np.NpZ7b Gen.GenUtils Gen.GenUtils2"))):
        try:
            text, names = fn()
            changed = write_if_changed(os.path.join(outdir, unit + ".v"), text)
            status[unit] = {"ok": True, "functions": names, "changed": changed}
        except Exception as ex:      # fail closed: whatever goes wrong, the unit is reported as not translated
            status[unit] = {"ok": False, "error": f"{type(ex).__name__}: {ex}"}
    print(json.dumps(status))
    return 0 if all(v["ok"] for v in status.values()) else 2


if __name__ == "__main__":
    sys.exit(main())
