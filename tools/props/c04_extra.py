"""c04_extra — wave-2 streams of property C04 (imported by c04.py):

  np_adv       dense tensor, ONE read or scalar write through a region key that contains an index list (the A-16 key class and
               its neighbours): pyttb must show either numpy's advanced-indexing behaviour (Model/C04Extra.v np_adv_*, the known
               finding A-16) or the outer product the property demands (repaired) — a third behaviour is a violation.
  tenmat_rw    history of reads/writes on a tenmat: a 2-way array of FIXED shape (rows, cols); out-of-range requests must raise.
  sptenmat_set history of writes on a sptenmat (it has no __getitem__): denotation + well-formedness after every step.
"""
import copy
import itertools
import json
import math
import os

import vcheck
from vcheck import Case, gz, gzlist, gnlist
import tgen
import c04_util as U

OPS = ("np_adv", "tenmat_rw", "sptenmat_set")


# ------------------------------------------------------------------------------------------------
# pure-Python reference: numpy advanced indexing on a region key (lists zipped, ints broadcast)
# ------------------------------------------------------------------------------------------------
def np_adv_ref(shape, es):
    """-> (result shape, [source subscript per result entry, F order]) following numpy's rules; None if not applicable"""
    lists = [U._elem_indices(d, e)[1] for d, e in zip(shape, es)]
    adv = [e[0] != "s" for e in es]
    L = max(len(l) for l, a in zip(lists, adv) if a)
    if any(a and len(l) not in (1, L) for l, a in zip(lists, adv)):
        return None
    advpos = [k for k, a in enumerate(adv) if a]
    adjacent = advpos == list(range(advpos[0], advpos[-1] + 1))
    sl = [l for l, a in zip(lists, adv) if not a]
    pos = sum(1 for k in range(advpos[0]) if not adv[k]) if adjacent else 0
    dims = [len(l) for l in sl[:pos]] + [L] + [len(l) for l in sl[pos:]]
    out = []
    for t in tgen.all_subs(dims):           # F order over the result
        j = t[pos]
        sv = iter([sl[k][x] for k, x in enumerate(t[:pos] + t[pos + 1:])])
        p = []
        for l, a in zip(lists, adv):
            p.append((l[0] if len(l) == 1 else l[j]) if a else next(sv))
        out.append(tuple(p))
    return tuple(dims), out


# ------------------------------------------------------------------------------------------------
# generators
# ------------------------------------------------------------------------------------------------
def _gen_adv_key(rng, shape, gen_slice, grow):
    n = len(shape)
    L = rng.choice([1, 2, 2, 3])
    pat = rng.choice(["ll", "ll", "lsl", "isl", "lsi", "lll", "l", "li", "1L"])
    kinds = []
    if n == 2:
        kinds = {"ll": ["l", "l"], "lll": ["l", "l"], "lsl": ["l", "l"], "isl": ["i", "l"], "lsi": ["l", "i"], "l": ["l", "s"],
                 "li": ["l", "i"], "1L": ["1", "l"]}[pat]
        if rng.random() < 0.3:
            kinds.reverse()
    else:
        kinds = {"ll": rng.choice([["l", "l", "s"], ["s", "l", "l"], ["l", "l", "i"]]), "lll": ["l", "l", "l"], "lsl": ["l", "s", "l"],
                 "isl": ["i", "s", "l"], "lsi": ["l", "s", "i"], "l": rng.choice([["l", "s", "s"], ["s", "l", "s"], ["s", "s", "l"]]),
                 "li": rng.choice([["l", "i", "s"], ["s", "i", "l"]]), "1L": rng.choice([["1", "l", "s"], ["1", "s", "l"]])}[pat]
        kinds = kinds + ["s"] * (n - 3)
    es = []
    for k, (d, kd) in enumerate(zip(shape, kinds)):
        if kd == "l":
            es.append(["l", [rng.randrange(d) for _ in range(L)]])
        elif kd == "1":
            es.append(["l", [rng.randrange(d)]])
        elif kd == "i":
            z = rng.randrange(d)
            es.append(["i", z - d if rng.random() < 0.2 else z])
        else:
            es.append(gen_slice(rng, d, False))
    if grow:
        cand = [k for k, e in enumerate(es) if e[0] == "l" and len(e[1]) >= 1 and shape[k] < 5]
        if cand:
            k = rng.choice(cand)
            es[k][1][rng.randrange(len(es[k][1]))] = shape[k]
    return es


def _gen_value_shape(rng, shape, es):
    """shape of a value array for T[es] = V: numpy's zipped result shape, the outer-product (kept) shape the property demands,
    broadcastable variants of the former (a dimension 1, leading dimensions dropped / added), rarely a mismatch"""
    try:
        s2, _ = U.resolve_set(tuple(shape), ["region", es], ["scalar", 1])
        outer = list(U.kept_shape_of(tuple(shape), ["region", es]))
    except U.Inadmissible:
        return None
    ref = np_adv_ref(s2, es)
    if ref is None:
        return None
    zipped = list(ref[0])
    r = rng.random()
    if r < 0.4:
        v = zipped
    elif r < 0.6:
        v = outer
    elif r < 0.75:
        v = list(zipped)
        v[rng.randrange(len(v))] = 1
    elif r < 0.85:
        v = zipped[rng.randint(1, len(zipped)):] if len(zipped) > 1 else [1]
        v = v or [1]
    elif r < 0.93:
        v = [1] + zipped
    else:
        v = list(zipped)
        k = rng.randrange(len(v))
        v[k] = v[k] + 1
    return v if v and math.prod(v) <= 48 else None


def np_bcast_ref(vshape, vals, oshape):
    """numpy's broadcast of a value array (F-order vals) to oshape: F-order list, or None when numpy raises"""
    vs = list(vshape)
    while len(vs) > len(oshape):
        if vs[0] != 1:
            return None
        vs = vs[1:]
    vs = [1] * (len(oshape) - len(vs)) + vs
    if any(dv not in (1, do) for dv, do in zip(vs, oshape)):
        return None
    out = []
    for j in tgen.all_subs(oshape):
        k, mul = 0, 1
        for dv, x in zip(vs, j):
            k += (0 if dv == 1 else x) * mul
            mul *= dv
        out.append(vals[k])
    return out


def _gen_mat_elem(rng, d, gen_slice, allow_list=True, oor=False, neg=True, rep=True):
    r = rng.random()
    if oor:
        return ["i", d + rng.randrange(2)]
    if r < 0.45:
        z = rng.randrange(d)
        return ["i", z - d if (neg and rng.random() < 0.2) else z]
    if r < 0.8 or not allow_list:
        return gen_slice(rng, d, False)
    l = rng.sample(range(d), rng.randint(1, min(d, 3)))
    if rep and rng.random() < 0.3:      # an index named twice
        l.insert(rng.randint(0, len(l)), rng.choice(l))
    return ["l", l]


def _partition(rng, n):
    modes = list(range(n))
    rng.shuffle(modes)
    k = rng.randint(0, n)
    return modes[:k], modes[k:]


TENMAT_MK = ["C", "direct_C", "direct_C_nocopy", "direct_F_nocopy", "direct_view", "from_read"]
SPTENMAT_MK = ["nocopy", "direct", "direct_rev", "direct_view", "computed"]
RV_MAT = ["C", "view", "int", "list"]


def _mat_positions(tshape, rd, cd, subs):
    """(row, col) of tensor subscripts under the mode split (rd, cd): first listed mode fastest"""
    out = []
    for p in subs:
        i = j = 0
        m = 1
        for k in rd:
            i += p[k] * m
            m *= tshape[k]
        m = 1
        for k in cd:
            j += p[k] * m
            m *= tshape[k]
        out.append((i, j))
    return out


def _apply(cur, shape, op):
    try:
        st2, _ = U.spec_step((tuple(shape), dict(cur)), op)
        return dict(st2[1]) if st2[0] == tuple(shape) else cur
    except U.Inadmissible:
        return cur


def _zero_stored_op(rng, shape, cur, val):
    """an assignment that writes zero onto stored entries — alone, together with other stored entries, together with new
    entries (zero or nonzero) — both sides of every "was anything appended / anything left" switch"""
    r, c = shape
    stored = sorted(cur)
    i, j = rng.choice(stored)
    kind = rng.randrange(6)
    if kind == 0:               # exactly one stored entry := 0, nothing new
        return ["set", ["region", [["i", i], ["i", j]]], ["scalar", 0]]
    if kind == 1:               # all stored entries of one column (no unstored position addressed): zeros and nonzeros mixed
        rows = [a for a, b in stored if b == j]
        rng.shuffle(rows)
        vs = [val(rng, 0.6) for _ in rows]
        vs[0] = 0
        return ["set", ["region", [["l", rows], ["i", j]]], ["values", vs]]
    if kind == 2:               # one row: zeros on the stored entries, nonzeros on (some of) the unstored ones
        vs = [0 if (i, b) in cur else val(rng, 0.3) for b in range(c)]
        return ["set", ["region", [["i", i], ["s", None, None, None]]], ["values", vs]]
    if kind == 3:               # one column: zeros everywhere (stored and unstored positions)
        return ["set", ["region", [["s", None, None, None], ["i", j]]], ["scalar", 0]]
    if kind == 4:               # every stored entry := 0 one call (whole matrix), ends with no entry at all
        return ["set", ["region", [["s", 0, r, None], ["s", 0, c, None]]], ["scalar", 0]]
    rows = [a for a, b in stored if b == j]      # the stored entries of one column keep / change their values, no zero
    return ["set", ["region", [["l", rows], ["i", j]]], ["values", [val(rng, 0.0) for _ in rows]]]


def _decorate_tenmat(rng, shape, data, tshape, rd, cd, ops):
    """layout variants of value right-hand sides, and values that are the array returned by the read just before"""
    import c04_w3 as W
    out = []
    cur = {p: v for p, v in zip(_mat_positions(tshape, rd, cd, tgen.all_subs(tshape)), data) if v != 0}
    for op in ops:
        if op[0] == "set":
            try:
                ks = U.kept_shape_of(tuple(shape), op[1])
                U.resolve_set(tuple(shape), op[1], op[2])
            except U.Inadmissible:
                ks = None
            if ks and rng.random() < 0.3:
                es = W._same_kept_src(rng, shape, ks)
                if es is not None and not U.key_is_a16(["region", es]):
                    src = ["get", ["region", es]]
                    vals = U.spec_step((tuple(shape), cur), src)[1][1]
                    out.append(src)
                    op = ["set", op[1], ["values", list(vals)], "prev"]
            elif ks and op[2][0] == "values" and rng.random() < 0.6:
                op = op + [rng.choice(RV_MAT)]
        out.append(op)
        cur = _apply(cur, shape, op)
    ops[:] = out


def gen_cases_extra(rng, tier, gen_slice, val):
    big = tier == "thorough"
    cases = []
    # ---- numpy advanced indexing
    for _ in range(700 if big else 90):
        shape = tgen.rand_shape(rng, maxn=3, maxcells=48, maxdim=4, minn=2)
        data = tgen.rand_dense(rng, shape, rng.choice([0.5, 1.0]))
        r = rng.random()
        if r < 0.45:
            es = _gen_adv_key(rng, shape, gen_slice, False)
            mode = ["get"]
        elif r < 0.7:
            es = _gen_adv_key(rng, shape, gen_slice, rng.random() < 0.25)
            mode = ["set", val(rng, 0.2)]
        else:
            # wave 4: a VALUE ARRAY through a key with index lists: numpy broadcasts it against the zipped selection
            es = _gen_adv_key(rng, shape, gen_slice, rng.random() < 0.25)
            vshape = _gen_value_shape(rng, shape, es)
            if vshape is None:
                mode = ["set", val(rng, 0.2)]
            else:
                mode = ["setv", vshape, [val(rng, 0.2) for _ in range(math.prod(vshape))]]
        cases.append(Case("np_adv", {"shape": list(shape), "data": data, "key": es, "mode": mode}, U.key_is_a16(["region", es])))
    # ---- tenmat / sptenmat histories
    for kind, cnt in (("tenmat_rw", 500 if big else 60), ("sptenmat_set", 600 if big else 70)):
        for q in range(cnt):
            tshape = tgen.rand_shape(rng, maxn=3, maxcells=24, maxdim=4)
            rd, cd = _partition(rng, len(tshape))
            r, c = math.prod(tshape[m] for m in rd), math.prod(tshape[m] for m in cd)
            data = tgen.rand_dense(rng, tshape, rng.choice([0.0, 0.4, 0.9]))
            subs, vals = tgen.dense_to_sparse(tshape, data, rng, rng.choice(["random", "sorted", "reversed"]))
            # C04-N08 / C04-N09 are repaired: zero values, negative and out-of-range subscripts are ordinary inputs now
            profile = "plain"
            if kind == "sptenmat_set" and q % 3 == 2:
                profile = "zero_stored"
            cur = None
            if kind == "sptenmat_set":
                cur = {tuple(p): v for p, v in zip(_mat_positions(tshape, rd, cd, subs), vals)}
            ops = []
            for k in range(rng.randint(1, 5)):
                if profile == "zero_stored" and cur:
                    op = _zero_stored_op(rng, (r, c), cur, val)
                    if op is not None:
                        ops.append(op)
                        cur = _apply(cur, (r, c), op)
                        continue
                bad = rng.random() < 0.08
                which = rng.randrange(2)
                # wave 4: tenmat keys with TWO index lists (numpy zips them: the A-16 class on tenmat) in some histories
                lists_ok = kind == "sptenmat_set" or (q % 5 == 3)
                # C04-N14 (sptenmat + repeated index) is repaired in /repo (8f8b86e): an ordinary input class
                rep = True
                e0 = _gen_mat_elem(rng, r, gen_slice, True, bad and which == 0, neg=True, rep=rep)
                e1 = _gen_mat_elem(rng, c, gen_slice, lists_ok or e0[0] != "l", bad and which == 1, neg=True, rep=rep)
                if kind == "tenmat_rw" and q % 5 == 3 and not bad and rng.random() < 0.5:
                    L = rng.choice([1, 2, 2, 3])
                    e0 = ["l", [rng.randrange(r) for _ in range(L)]]
                    e1 = ["l", [rng.randrange(c) for _ in range(rng.choice([1, L]))]]
                key = ["region", [e0, e1]]
                if kind == "tenmat_rw" and rng.random() < 0.45:
                    ops.append(["get", key])
                    continue
                zero_p = 0.35
                try:
                    _, asg = U.resolve_set((r, c), key, ["scalar", 1])
                    npos = len(asg)
                except U.Inadmissible:
                    npos = 0
                if kind == "sptenmat_set" and q % 9 == 4 and key[1][0][0] == "l" and not U.key_repeats(key):
                    key[1][0][1].append(key[1][0][1][0])
                    try:
                        npos = len(U.resolve_set((r, c), key, ["scalar", 1])[1])
                    except U.Inadmissible:
                        npos = 0
                if kind == "sptenmat_set" and U.key_repeats(key) and profile == "plain":
                    profile = "repeated"
                if npos and rng.random() < 0.5:
                    ops.append(["set", key, ["values", [val(rng, zero_p) for _ in range(npos)]]])
                else:
                    ops.append(["set", key, ["scalar", val(rng, zero_p)]])
                if cur is not None:
                    cur = _apply(cur, (r, c), ops[-1])
            if kind == "tenmat_rw":
                _decorate_tenmat(rng, (r, c), data, tshape, rd, cd, ops)
            args = {"tshape": list(tshape), "rdims": rd, "cdims": cd, "ops": ops}
            if rng.random() < 0.5:
                args["mk"] = rng.choice(TENMAT_MK if kind == "tenmat_rw" else SPTENMAT_MK)
            if kind == "tenmat_rw":
                args["data"] = data
            else:
                args["subs"], args["vals"] = subs, vals
            cases.append(Case(kind, args, True, {"profile": profile}))
    for fid, a in REGRESSION_EXTRA.items():
        if True:
            cases.append(Case("sptenmat_set", copy.deepcopy(a), True, {"profile": fid}))
    return cases


# ------------------------------------------------------------------------------------------------
# pyttb runner
# ------------------------------------------------------------------------------------------------
def _obs_mat_out(np, a):
    arr = np.asarray(a)
    if arr.ndim == 0:
        return ["vals", [tgen.exact(arr)]]
    return ["dense", [int(d) for d in arr.shape], [tgen.exact(x) for x in arr.ravel(order="F")]]


def _mat_rhs(np, shape2, key, rhs, column, variant=None):
    if rhs[0] == "scalar":
        return float(rhs[1])
    vals = [float(v) for v in rhs[1]]
    if column:
        return np.array(vals, dtype=float).reshape((len(vals), 1))
    ks = U.kept_shape_of(tuple(shape2), key)
    arr = np.array(vals, dtype=float).reshape(ks, order="F")
    if variant == "C":
        return np.ascontiguousarray(arr)
    if variant == "view":
        import c04_w3
        return c04_w3._noncontig(np, arr)
    if variant == "int":
        return np.ascontiguousarray(arr).astype(np.int64)
    if variant == "list":
        return arr.tolist()
    return arr


def _mk_tenmat(ttb, np, a, rd, cd):
    import c04_w3 as W
    mk = a.get("mk")
    arr = tgen.np_dense(np, a["tshape"], a["data"])
    if mk == "C":
        return ttb.tensor(np.ascontiguousarray(arr)).to_tenmat(rd, cd)
    M0 = tgen.mk_tensor(ttb, np, a["tshape"], a["data"]).to_tenmat(rd, cd)
    ts = tuple(a["tshape"])
    if mk == "direct_C":
        return ttb.tenmat(np.ascontiguousarray(M0.data), rd, cd, ts)
    if mk == "direct_C_nocopy":
        return ttb.tenmat(np.ascontiguousarray(M0.data), rd, cd, ts, copy=False)
    if mk == "direct_F_nocopy":
        return ttb.tenmat(np.asfortranarray(M0.data.copy()), rd, cd, ts, copy=False)
    if mk == "direct_view":
        return ttb.tenmat(W._noncontig(np, M0.data), rd, cd, ts, copy=False)
    if mk == "from_read":           # the matrix is the array returned by reading another tenmat
        return ttb.tenmat(M0[:, :], rd, cd, ts, copy=False)
    return M0


def _mk_sptenmat(ttb, np, a, rd, cd):
    mk = a.get("mk")
    ts = tuple(a["tshape"])
    if mk == "nocopy":
        s = np.array(a["subs"], dtype=int).reshape((len(a["subs"]), len(ts)))
        v = np.array(a["vals"], dtype=float).reshape((len(a["vals"]), 1))
        return ttb.sptensor(np.asfortranarray(s), v, ts, copy=False).to_sptenmat(rd, cd)
    M0 = tgen.mk_sptensor(ttb, np, a["tshape"], a["subs"], a["vals"]).to_sptenmat(rd, cd)
    if mk in ("direct", "direct_rev", "direct_view") and np.asarray(M0.subs).size:
        s = np.asarray(M0.subs).reshape((-1, 2)).copy()
        v = np.asarray(M0.vals).reshape((-1, 1)).copy()
        if mk == "direct_rev":
            s, v = s[::-1], v[::-1]
        if mk == "direct_view":
            bs = np.zeros((2 * len(s), 4), dtype=int)
            bs[::2, ::2] = s
            bv = np.full((2 * len(v), 2), 9.0)
            bv[::2, :1] = v
            s, v = bs[::2, ::2], bv[::2, :1]
        return ttb.sptenmat(s, v, rd, cd, ts, copy=(mk == "direct"))
    if mk == "computed":            # the sptensor behind it arises from a computation with exact cancellation
        S = tgen.mk_sptensor(ttb, np, a["tshape"], a["subs"], a["vals"])
        E = ttb.sptensor(np.zeros((1, len(ts)), dtype=int), np.array([[2.0]]), ts)
        return ((S + E) - E).to_sptenmat(rd, cd)
    return M0


def run_extra(c):
    import warnings
    import numpy as np
    import pyttb as ttb
    a = c.args
    if c.op == "np_adv":
        T = tgen.mk_tensor(ttb, np, a["shape"], a["data"])
        pk = U.py_key(np, ["region", copy.deepcopy(a["key"])])
        try:
            if a["mode"][0] == "get":
                r = T[pk]
                if isinstance(r, ttb.tensor):
                    o = tgen.obs_dense(np, r)
                    return {"out": ["dense", o["shape"], o["data"]]}
                return {"out": ["vals", [tgen.exact(x) for x in np.asarray(r).ravel(order="F")]]}
            if a["mode"][0] == "setv":
                V = np.array([float(v) for v in a["mode"][2]]).reshape(tuple(a["mode"][1]), order="F")
                snap = V.copy()
                exc = None
                try:
                    T[pk] = V
                except Exception as ex:      # noqa: BLE001
                    exc = type(ex).__name__ + ": " + str(ex)[:160]
                return {"state": tgen.obs_dense(np, T), "raised": exc, "rhs_changed": not np.array_equal(snap, V)}
            T[pk] = float(a["mode"][1])
            return {"state": tgen.obs_dense(np, T)}
        except Exception as ex:      # noqa: BLE001
            return {"exc": type(ex).__name__ + ": " + str(ex)[:160]}
    rd, cd = np.array(a["rdims"], dtype=int), np.array(a["cdims"], dtype=int)
    if c.op == "tenmat_rw":
        M = _mk_tenmat(ttb, np, a, rd, cd)

        def state():
            return {"shape": [int(d) for d in M.data.shape], "data": [tgen.exact(x) for x in M.data.ravel(order="F")],
                    "meta": [[int(x) for x in M.rindices], [int(x) for x in M.cindices], [int(x) for x in M.tshape]]}
    else:
        M = _mk_sptenmat(ttb, np, a, rd, cd)

        def state():
            subs = np.asarray(M.subs)
            rows = [] if subs.size == 0 else [[int(x) for x in r] for r in subs.reshape((-1, 2))]
            return {"shape": [int(d) for d in M.shape], "subs": rows, "vals": [tgen.exact(x) for x in np.asarray(M.vals).ravel()],
                    "nvals": int(np.asarray(M.vals).size),
                    "meta": [[int(x) for x in M.rdims], [int(x) for x in M.cdims], [int(x) for x in M.tshape]]}
    start = state()
    steps = []
    last = None
    for op in a["ops"]:
        out, exc = None, None
        try:
            with warnings.catch_warnings():
                warnings.simplefilter("ignore")
                pk = U.py_key(np, copy.deepcopy(op[1]))
                if op[0] == "get":
                    res = M[pk]
                    out = _obs_mat_out(np, res)
                    last = (res, out)
                else:
                    rv = op[3] if len(op) > 3 else None
                    if (rv == "prev" and last is not None and last[1][0] == "dense" and op[2][0] == "values"
                            and last[1][2] == list(op[2][1]) and tuple(last[1][1]) == tuple(U.kept_shape_of(tuple(start["shape"]), op[1]))):
                        M[pk] = last[0]
                    else:
                        M[pk] = _mat_rhs(np, start["shape"], op[1], op[2], c.op == "sptenmat_set", rv)
                    out = ["none"]
                    last = None
        except Exception as ex:      # noqa: BLE001
            exc = type(ex).__name__ + ": " + str(ex)[:120]
        try:
            st = state()
        except Exception as ex:      # noqa: BLE001
            st = {"broken": type(ex).__name__ + ": " + str(ex)[:120]}
        steps.append({"state": st, "out": out, "exc": exc})
        if "broken" in st:
            break
    return {"start": start, "steps": steps}


# ------------------------------------------------------------------------------------------------
# Coq cases
# ------------------------------------------------------------------------------------------------
def _ints(l):
    return all(isinstance(v, int) for v in l)


def _g_es(es):
    return "(@nil kelem)" if not es else "[" + "; ".join(U.g_elem(e) for e in es) + "]"


def check_extra(c, o):
    a = c.args
    if c.op == "np_adv":
        if "exc" in o:
            return "false"
        T = tgen.gdense(a["shape"], a["data"])
        if a["mode"][0] == "get":
            out = o["out"]
            if not _ints(out[-1]):
                return "false"
            return f"check_np_adv_get {T} {_g_es(a['key'])} {U.g_xout(out)[6:-1]}"
        st = o["state"]
        if not _ints(st["data"]):
            return "false"
        if a["mode"][0] == "setv":
            if o.get("rhs_changed"):
                return "false"
            return (f"check_np_adv_setv {T} {_g_es(a['key'])} {gnlist(a['mode'][1])} {gzlist(a['mode'][2])} "
                    f"{tgen.gdense(st['shape'], st['data'])} {'true' if o.get('raised') else 'false'}")
        return f"check_np_adv_set {T} {_g_es(a['key'])} {gz(a['mode'][1])} {tgen.gdense(st['shape'], st['data'])}"
    st0, steps = o["start"], o["steps"]
    if len(steps) != len(a["ops"]) or any("broken" in s["state"] for s in steps):
        return "false"
    for s in steps:
        if s["state"]["meta"] != st0["meta"] or s["state"]["shape"] != st0["shape"]:
            return "false"          # entry access must not touch the mode split / tensor shape / matrix shape
    if c.op == "tenmat_rw":
        for s in steps:
            if not _ints(s["state"]["data"]) or (s["out"] and s["out"][0] != "none" and not _ints(s["out"][-1])):
                return "false"
        obs = "[" + "; ".join(f"({tgen.gdense(s['state']['shape'], s['state']['data'])}, {U.g_xout(None if s['exc'] else s['out'])})"
                              for s in steps) + "]"
        g0 = tgen.gdense(st0['shape'], st0['data'])
        e = f"check_tenmat {g0} {U.g_ops(a['ops'])} {obs}"
        if any(U.key_is_a16(op[1]) for op in a["ops"]):
            # A-16 class on a tenmat: the fixed-shape specification (outer product) OR numpy's advanced indexing, consistently
            e = f"({e}) || (check_tenmat_np {g0} {U.g_ops(a['ops'])} {obs})"
        return e
    for s in [{"state": st0}] + steps:
        st = s["state"]
        if not _ints(st["vals"]) or st["nvals"] != len(st["subs"]):
            return "false"
    for s in steps:
        if any(x < 0 for r in s["state"]["subs"] for x in r):
            return "false"          # negative stored subscripts: ill-formed (cannot be written as nat literals)
    obs = "[" + "; ".join(f"({tgen.gsparse(s['state']['shape'], s['state']['subs'], s['state']['vals'])}, "
                          f"{'false' if s['exc'] else 'true'})" for s in steps) + "]"
    g0 = tgen.gsparse(st0['shape'], st0['subs'], st0['vals'])
    # (1) the executable specification (fixed-shape sparse step of the refinement theorems): denotation + well-formedness;
    # (2) wave 4: the TRANSLITERATION of sptenmat.__setitem__ (Model/C04SpMatImpl.v), stepped from the observed raw state:
    #     exactly the raw state pyttb shows next, stored order included
    return f"(check_sptenmat {g0} {U.g_ops(a['ops'])} {obs}) && (check_sptenmat_impl {g0} {U.g_ops(a['ops'])} {obs})"


# ------------------------------------------------------------------------------------------------
# brute-force oracle
# ------------------------------------------------------------------------------------------------
def _dense_dict(shape, data):
    return {tuple(p): v for p, v in zip(tgen.all_subs(shape), data)}


def _oracle_setv(a, o, shape, f, es):
    """T[es] = value array: numpy's zipped assignment with broadcasting (raises when not broadcastable, after growth), or the
    outer-product assignment of an exactly shaped value (every other shape rejected)"""
    vshape, vals = list(a["mode"][1]), list(a["mode"][2])
    if o.get("rhs_changed"):
        return "the assignment changed its right-hand-side array"
    s2, asg = U.resolve_set(shape, ["region", es], ["scalar", 1])
    g = {p + (0,) * (len(s2) - len(shape)): x for p, x in f.items()}
    st = o["state"]
    got = _dense_dict(st["shape"], st["data"])
    raised = bool(o.get("raised"))

    def same(w, wshape):
        return tuple(st["shape"]) == tuple(wshape) and all(got.get(p, 0) == w.get(p, 0) for p in itertools.chain(got, w))
    accepted = []
    # numpy
    ref = np_adv_ref(s2, es)
    if ref:
        bv = np_bcast_ref(vshape, vals, list(ref[0]))
        if bv is None:
            accepted.append(("numpy: not broadcastable, raises after growth", raised and same(g, s2)))
        else:
            z = dict(g)
            for p, x in zip(ref[1], bv):
                z[p] = x
            accepted.append(("numpy: zipped assignment", (not raised) and same(z, s2)))
    # property: outer product, exactly shaped value
    outer_shape = list(U.kept_shape_of(shape, ["region", es]))
    if vshape == outer_shape and len(vals) == len(asg):
        w = dict(g)
        for (p, _), x in zip(asg, vals):
            w[p] = x
        accepted.append(("outer product", (not raised) and same(w, s2)))
    else:
        accepted.append(("outer product: value of another shape is rejected",
                         raised and (same(g, s2) or same(dict(f), shape))))
    if any(ok for _, ok in accepted):
        return None
    return (f"T[{es}] = array of shape {vshape} {vals}: state {st} raised={o.get('raised')} is none of "
            f"{[n for n, _ in accepted]}")


def oracle_extra(c, o):
    a = c.args
    if c.op == "np_adv":
        if "exc" in o:
            return f"valid region key raised {o['exc']}"
        shape = tuple(a["shape"])
        f = _dense_dict(shape, a["data"])
        es = a["key"]
        if a["mode"][0] == "get":
            os_, ps = U.resolve_get(shape, ["region", es])
            want_outer = (list(os_), [f[p] for p in ps])
            ref = np_adv_ref(shape, es)
            want_np = (list(ref[0]), [f[p] for p in ref[1]]) if ref else None
            out = o["out"]
            got = (out[1], out[2]) if out[0] == "dense" else (None, out[1])
            for w in (want_outer, want_np):
                if w and got[1] == w[1] and (got[0] is None or got[0] == w[0]):
                    return None
            return (f"T[{es}] returned shape {got[0]} values {got[1]}: neither the outer product {want_outer} nor numpy's "
                    f"zipped selection {want_np}")
        if a["mode"][0] == "setv":
            return _oracle_setv(a, o, shape, f, es)
        v = a["mode"][1]
        s2, asg = U.resolve_set(shape, ["region", es], ["scalar", v])
        g = {p + (0,) * (len(s2) - len(shape)): x for p, x in f.items()}
        outer = dict(g)
        for p, x in asg:
            outer[p] = x
        ref = np_adv_ref(s2, es)
        zipped = dict(g)
        for p in (ref[1] if ref else []):
            zipped[p] = v
        st = o["state"]
        got = _dense_dict(st["shape"], st["data"])
        for w in (outer, zipped):
            if tuple(st["shape"]) == tuple(s2) and all(got.get(p, 0) == w.get(p, 0) for p in itertools.chain(got, w)):
                return None
        return f"T[{es}] = {v}: state {st} is neither the outer-product assignment nor numpy's zipped assignment"
    # ---- (sp)tenmat histories: 2-way array of fixed shape
    st0, steps = o["start"], o["steps"]
    shape = tuple(st0["shape"])
    if c.op == "tenmat_rw":
        f = {p: v for p, v in _dense_dict(shape, st0["data"]).items() if v != 0}
    else:
        f = {tuple(p): v for p, v in zip(st0["subs"], st0["vals"])}
    st = (shape, f)
    for k, (op, s) in enumerate(zip(a["ops"], steps)):
        try:
            st2, out = U.spec_step(st, op)
            if st2[0] != shape:
                raise U.Inadmissible("would resize")
            adm = True
        except U.Inadmissible:
            st2, out, adm = st, None, False
        where = f"{c.op} step {k} {op}: "
        if "broken" in s["state"]:
            return where + "state unreadable: " + s["state"]["broken"]
        if s["state"]["meta"] != st0["meta"] or s["state"]["shape"] != st0["shape"]:
            return where + "mode split / shape changed"
        if not adm and not s["exc"]:
            return where + "out-of-range request was accepted"
        if adm and s["exc"]:
            return where + f"admissible request raised {s['exc']}"
        if c.op == "tenmat_rw":
            got = {p: v for p, v in _dense_dict(shape, s["state"]["data"]).items() if v != 0}
        else:
            got = {}
            for p, v in zip(s["state"]["subs"], s["state"]["vals"]):
                p = tuple(p)
                if any(not 0 <= x < d for x, d in zip(p, shape)):
                    return where + f"stored subscript {list(p)} outside the matrix shape {list(shape)}"
                if p in got:
                    return where + f"duplicate stored subscript {list(p)}"
                if v == 0:
                    return where + f"explicit zero stored at {list(p)}"
                got[p] = v
        if got != st2[1]:
            diff = sorted(set(got.items()) ^ set(st2[1].items()))[:3]
            return where + f"contents differ from the array semantics at {diff}"
        if adm and op[0] == "get":
            ov = s["out"]
            vals = ov[2] if ov[0] == "dense" else ov[1]
            if vals != out[1] or (ov[0] == "dense" and tuple(ov[1]) != tuple(out[0])):
                return where + f"read returned {ov}, the array holds {out}"
        st = st2
    return None


# ------------------------------------------------------------------------------------------------
# findings on sptenmat.__setitem__ (new in wave 2)
# ------------------------------------------------------------------------------------------------
TRIGGERS_EXTRA = {}        # C04-N08 / C04-N09 / C04-N14 are repaired in /repo: their input classes are ordinary, their witnesses regression cases

_SPT = {"tshape": [2, 2, 2], "rdims": [0], "cdims": [1, 2], "subs": [[0, 0, 0], [1, 0, 1], [1, 1, 1]], "vals": [1, 3, 2]}
REGRESSION_EXTRA = {
    "C04-N08": dict(_SPT, ops=[["set", ["region", [["i", 0], ["i", 0]]], ["scalar", 0]]]),
    "C04-N09": dict(_SPT, ops=[["set", ["region", [["i", -1], ["i", 0]]], ["scalar", 9]],
                               ["set", ["region", [["i", 5], ["i", 7]]], ["scalar", 4]]]),
}


def _witness(args):
    def run():
        c = Case("sptenmat_set", copy.deepcopy(args), True)
        return oracle_extra(c, run_extra(c))
    return run


WITNESS_N14 = dict(_SPT, ops=[["set", ["region", [["l", [1, 1]], ["i", 1]]], ["values", [6, 8]]]])
REGRESSION_EXTRA["C04-N14"] = WITNESS_N14
REGRESSION_EXTRA["C04-N14b"] = dict(_SPT, ops=[["set", ["region", [["s", 0, 2, None], ["l", [1, 1]]]], ["scalar", 6]]])
WITNESSES_EXTRA = {}
