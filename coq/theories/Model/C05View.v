(* Model/C05View.v — executable numpy VIEW model for property C05.

   An array is a window (buffer id, offset, shape, element strides) onto a buffer of the store of Model/C05Store.v.
   The numpy operations pyttb's copying constructors and return paths are made of are modelled as functions on
   (heap, array): copy (C / F order), asfortranarray / ascontiguousarray, reshape(order=F), transpose, basic slicing,
   integer indexing, squeeze, fancy indexing, and "computed" results (arithmetic, matmul: a fresh buffer).
   Proved for all heaps / arrays / parameters:
     copy, fancy indexing, computed results   allocate a FRESH buffer (id >= every existing one), change no old buffer
     transpose, basic slicing, integer index, squeeze, reshape of an F-contiguous array   ALIAS (same buffer id, heap untouched)
     asfortranarray                          aliases iff the array is already F-contiguous
   and, from these, the may-alias verdict of the transliterated return paths of a dozen pyttb operations
   (end of file), which tools/props/c05.py compares with the measured verdict on every generated row.
   What is NOT modelled: negative strides, zero-size arrays' special contiguity, numpy's attempt to reshape a
   non-contiguous array without copying (the model copies; pyttb only reshapes F-contiguous data on these paths —
   the comparison with the measurement would show a divergence). *)
From Coq Require Import List Arith Bool Lia.
From PV Require Import Model.C05Store.
Import ListNotations.

Record arr := mkArr { abuf : loc; aoff : nat; ashape : list nat; astr : list nat }.

(* ---- shapes, strides, contiguity ------------------------------------------------------------------------- *)
Fixpoint fstr_from (acc : nat) (shape : list nat) : list nat :=
  match shape with [] => [] | d :: s => acc :: fstr_from (acc * d) s end.
Definition fstrides (s : list nat) : list nat := fstr_from 1 s.
Fixpoint prodl (s : list nat) : nat := match s with [] => 1 | d :: t => d * prodl t end.
Fixpoint cstrides (s : list nat) : list nat := match s with [] => [] | d :: t => prodl t :: cstrides t end.

(* numpy's contiguity flags ignore the stride of a mode of size 1 *)
Fixpoint contig_b (shape str ref : list nat) : bool :=
  match shape, str, ref with
  | [], [], [] => true
  | d :: s, t :: ts, r :: rs => ((d =? 1) || (t =? r)) && contig_b s ts rs
  | _, _, _ => false
  end.
Definition is_fcontig (a : arr) : bool := contig_b (ashape a) (astr a) (fstrides (ashape a)).
Definition is_ccontig (a : arr) : bool := contig_b (ashape a) (astr a) (cstrides (ashape a)).

Fixpoint list_eqb (l1 l2 : list nat) : bool :=
  match l1, l2 with
  | [], [] => true
  | x :: t1, y :: t2 => (x =? y) && list_eqb t1 t2
  | _, _ => false
  end.

Lemma fstr_from_length : forall s acc, length (fstr_from acc s) = length s.
Proof. induction s as [|d s IH]; intros acc; simpl; [reflexivity | rewrite IH; reflexivity]. Qed.

Lemma contig_b_refl : forall s ref, length ref = length s -> contig_b s ref ref = true.
Proof.
  induction s as [|d s IH]; intros [|r rs] H; simpl in *; try discriminate; [reflexivity|].
  rewrite Nat.eqb_refl, orb_true_r. simpl. apply IH. lia.
Qed.

Lemma fresh_is_fcontig : forall b o s, is_fcontig (mkArr b o s (fstrides s)) = true.
Proof. intros b o s. unfold is_fcontig. simpl. apply contig_b_refl. apply fstr_from_length. Qed.

(* element addresses, last listed mode fastest (C enumeration); F enumeration = the same on reversed lists *)
Fixpoint addrs (off : nat) (shape str : list nat) : list nat :=
  match shape, str with
  | d :: s, t :: ts => flat_map (fun i => addrs (off + i * t) s ts) (seq 0 d)
  | _, _ => [off]
  end.
Definition addrsC (a : arr) : list nat := addrs (aoff a) (ashape a) (astr a).
Definition addrsF (a : arr) : list nat := addrs (aoff a) (rev (ashape a)) (rev (astr a)).

(* a freshly laid-out array enumerates its buffer front to back *)
Lemma map_seq_shift : forall (f : nat -> nat) a b n, map f (seq (a + b) n) = map (fun k => f (a + k)) (seq b n).
Proof.
  intros f a b n. revert b. induction n as [|n IH]; intros b; simpl; [reflexivity|].
  f_equal. replace (S (a + b)) with (a + S b) by lia. apply IH.
Qed.

Lemma flat_blocks : forall P off d a,
  flat_map (fun i => map (fun k => off + i * P + k) (seq 0 P)) (seq a d) = map (fun k => off + k) (seq (a * P) (d * P)).
Proof.
  intros P off d. induction d as [|d IH]; intros a; [reflexivity|].
  change (seq a (S d)) with (a :: seq (S a) d). cbn [flat_map]. rewrite IH.
  replace (S d * P) with (P + d * P) by lia. rewrite seq_app, map_app. f_equal.
  - replace (a * P) with (a * P + 0) by lia. rewrite map_seq_shift. apply map_ext. intros k. lia.
  - f_equal. f_equal. lia.
Qed.

Lemma addrs_contig : forall s off, addrs off s (cstrides s) = map (fun k => off + k) (seq 0 (prodl s)).
Proof.
  induction s as [|d t IH]; intros off; simpl.
  - f_equal. lia.
  - rewrite (flat_map_ext _ (fun i => map (fun k => off + i * prodl t + k) (seq 0 (prodl t)))).
    + rewrite flat_blocks. reflexivity.
    + intros i. rewrite IH. reflexivity.
Qed.

Lemma prodl_snoc : forall s d, prodl (s ++ [d]) = prodl s * d.
Proof. induction s as [|x t IH]; intros d; simpl; [lia | rewrite IH; lia]. Qed.

Lemma cstrides_snoc : forall s d, cstrides (s ++ [d]) = map (fun x => x * d) (cstrides s) ++ [1].
Proof. induction s as [|x t IH]; intros d; simpl; [reflexivity | rewrite IH, prodl_snoc; reflexivity]. Qed.

Lemma fstr_from_scale : forall s acc, fstr_from acc s = map (fun x => x * acc) (fstr_from 1 s).
Proof.
  induction s as [|d t IH]; intros acc; [reflexivity|]. cbn [fstr_from map]. f_equal; [lia|].
  rewrite (IH (acc * d)), (IH (1 * d)), map_map. apply map_ext. intros x. lia.
Qed.

Lemma rev_fstrides : forall s, rev (fstrides s) = cstrides (rev s).
Proof.
  unfold fstrides. induction s as [|d t IH]; [reflexivity|]. cbn [fstr_from rev].
  rewrite cstrides_snoc, <- IH, (fstr_from_scale t (1 * d)), <- map_rev. f_equal.
  apply map_ext. intros x. lia.
Qed.

Lemma prodl_rev : forall s, prodl (rev s) = prodl s.
Proof. induction s as [|d t IH]; simpl; [reflexivity | rewrite prodl_snoc, IH; lia]. Qed.

Lemma addrs_length : forall s str off, length str = length s -> length (addrs off s str) = prodl s.
Proof.
  induction s as [|d t IH]; intros [|x xs] off H; simpl in *; try discriminate; [reflexivity|].
  assert (G : forall l, length (flat_map (fun i => addrs (off + i * x) t xs) l) = length l * prodl t).
  { induction l as [|i l IHl]; simpl; [reflexivity|]. rewrite app_length, IHl, IH by lia. reflexivity. }
  rewrite G, seq_length. reflexivity.
Qed.

(* ---- pure view operations (no heap involved: the result is a window onto the SAME buffer) ------------------ *)
Definition pick (p : list nat) (l : list nat) : list nat := map (fun i => nth i l 0) p.
Definition v_transpose (a : arr) (p : list nat) : arr :=
  mkArr (abuf a) (aoff a) (pick p (ashape a)) (pick p (astr a)).

(* basic slicing: per mode (start, count, step) *)
Definition sl := (nat * nat * nat)%type.
Fixpoint slice_off (str : list nat) (k : list sl) : nat :=
  match str, k with
  | t :: ts, (st, _, _) :: ks => st * t + slice_off ts ks
  | _, _ => 0
  end.
Definition v_slice (a : arr) (k : list sl) : arr :=
  mkArr (abuf a) (aoff a + slice_off (astr a) k)
        (map (fun x => snd (fst x)) k)
        (map (fun x => snd (snd x) * fst x) (combine (astr a) k)).

Fixpoint drop_nth {A} (n : nat) (l : list A) : list A :=
  match l, n with
  | [], _ => []
  | _ :: t, 0 => t
  | x :: t, S n' => x :: drop_nth n' t
  end.
(* integer index i on mode k *)
Definition v_int (a : arr) (k i : nat) : arr :=
  mkArr (abuf a) (aoff a + i * nth k (astr a) 0) (drop_nth k (ashape a)) (drop_nth k (astr a)).

Fixpoint squeeze_pairs (shape str : list nat) : list (nat * nat) :=
  match shape, str with
  | d :: s, t :: ts => if d =? 1 then squeeze_pairs s ts else (d, t) :: squeeze_pairs s ts
  | _, _ => []
  end.
Definition v_squeeze (a : arr) : arr :=
  mkArr (abuf a) (aoff a) (map fst (squeeze_pairs (ashape a) (astr a))) (map snd (squeeze_pairs (ashape a) (astr a))).

Lemma transpose_alias : forall a p, abuf (v_transpose a p) = abuf a.  Proof. reflexivity. Qed.
Lemma slice_alias : forall a k, abuf (v_slice a k) = abuf a.          Proof. reflexivity. Qed.
Lemma int_alias : forall a k i, abuf (v_int a k i) = abuf a.          Proof. reflexivity. Qed.
Lemma squeeze_alias : forall a, abuf (v_squeeze a) = abuf a.          Proof. reflexivity. Qed.

Lemma view_alias : forall a p k i j,
  abuf (v_transpose a p) = abuf a /\ abuf (v_slice a k) = abuf a /\ abuf (v_int a i j) = abuf a /\ abuf (v_squeeze a) = abuf a.
Proof. intros. repeat split. Qed.

Section Heap.
Context {V : Type}.
Notation heapV := (@heap V).

Definition wf_arr (h : heapV) (a : arr) : Prop := abuf a < hnext h.

(* h' extends h: nothing existing is touched *)
Definition ext (h h' : heapV) : Prop :=
  hnext h <= hnext h' /\ forall l, l < hnext h -> hst h' l = hst h l.
(* r lives in a buffer allocated between h and h' *)
Definition fresh_res (h h' : heapV) (r : arr) : Prop := hnext h <= abuf r < hnext h'.

Lemma ext_refl : forall h, ext h h.
Proof. intros h. split; [lia | reflexivity]. Qed.
Lemma ext_trans : forall h1 h2 h3, ext h1 h2 -> ext h2 h3 -> ext h1 h3.
Proof.
  intros h1 h2 h3 [L1 E1] [L2 E2]. split; [lia|]. intros l Hl. rewrite E2 by lia. apply E1. exact Hl.
Qed.
Lemma fresh_not_old : forall h h' r a, fresh_res h h' r -> wf_arr h a -> abuf r <> abuf a.
Proof. intros h h' r a [L _] W. unfold wf_arr in W. lia. Qed.
Lemma fresh_mono : forall h0 h h' r, ext h0 h -> fresh_res h h' r -> fresh_res h0 h' r.
Proof. intros h0 h h' r [L _] [A B]. split; lia. Qed.
Lemma fresh_keep : forall h h1 h2 r, fresh_res h h1 r -> ext h1 h2 -> fresh_res h h2 r.
Proof. intros h h1 h2 r [A B] [L _]. split; lia. Qed.
Lemma wf_mono : forall h h' a, ext h h' -> wf_arr h a -> wf_arr h' a.
Proof. intros h h' a [L _] W. unfold wf_arr in *. lia. Qed.
Lemma fresh_wf : forall h h' r, fresh_res h h' r -> wf_arr h' r.
Proof. intros h h' r [_ B]. exact B. Qed.

(* ---- allocation ------------------------------------------------------------------------------------------ *)
Definition alloc (h : heapV) (contents : list V) : heapV * loc :=
  (mkHeap (fun l => if l =? hnext h then contents else hst h l) (S (hnext h)), hnext h).

Lemma alloc_ext : forall h c, ext h (fst (alloc h c)).
Proof.
  intros h c. split; simpl; [lia|]. intros l Hl. destruct (Nat.eqb_spec l (hnext h)) as [E|E]; [lia|reflexivity].
Qed.

Definition gather (buf : list V) (ks : list nat) : list V :=
  flat_map (fun k => match nth_error buf k with Some v => [v] | None => [] end) ks.
Definition read (s : @store V) (a : arr) : list (option V) := map (nth_error (s (abuf a))) (addrsC a).

(* a new array with the given shape, strides and contents *)
Definition mk_fresh (h : heapV) (shape str : list nat) (contents : list V) : heapV * arr :=
  (fst (alloc h contents), mkArr (hnext h) 0 shape str).

Lemma mk_fresh_spec : forall h shape str c,
  ext h (fst (mk_fresh h shape str c)) /\ fresh_res h (fst (mk_fresh h shape str c)) (snd (mk_fresh h shape str c)).
Proof. intros h shape str c. split; [apply alloc_ext|]. unfold fresh_res. simpl. lia. Qed.

(* ndarray.copy(order) *)
Definition copyC (h : heapV) (a : arr) : heapV * arr :=
  mk_fresh h (ashape a) (cstrides (ashape a)) (gather (hst h (abuf a)) (addrsC a)).
Definition copyF (h : heapV) (a : arr) : heapV * arr :=
  mk_fresh h (ashape a) (fstrides (ashape a)) (gather (hst h (abuf a)) (addrsF a)).
(* advanced (integer-array) indexing: always a new array; `shape` is the result's shape, `ks` the picked addresses *)
Definition fancy (h : heapV) (a : arr) (shape : list nat) (ks : list nat) : heapV * arr :=
  mk_fresh h shape (cstrides shape) (gather (hst h (abuf a)) ks).
(* the result of an arithmetic / matmul / ufunc expression: a new array (contents irrelevant for aliasing) *)
Definition computed (h : heapV) (shape : list nat) (c : list V) : heapV * arr :=
  mk_fresh h shape (cstrides shape) c.

Definition asfortran (h : heapV) (a : arr) : heapV * arr := if is_fcontig a then (h, a) else copyF h a.
Definition ascontig (h : heapV) (a : arr) : heapV * arr := if is_ccontig a then (h, a) else copyC h a.

(* np.reshape(a, s, order="F"): same shape or F-contiguous -> a view; otherwise the model copies *)
Definition reshapeF (h : heapV) (a : arr) (s : list nat) : heapV * arr :=
  if list_eqb s (ashape a) then (h, a)
  else if is_fcontig a then (h, mkArr (abuf a) (aoff a) s (fstrides s))
  else let hc := copyF h a in (fst hc, mkArr (abuf (snd hc)) 0 s (fstrides s)).

(* result of a heap operation: either an alias of the argument in an untouched heap, or fresh in an extension *)
Definition alias_or_fresh (h : heapV) (a : arr) (hr : heapV * arr) : Prop :=
  ext h (fst hr) /\ ((fst hr = h /\ abuf (snd hr) = abuf a) \/ fresh_res h (fst hr) (snd hr)).

Lemma copyC_fresh : forall h a, ext h (fst (copyC h a)) /\ fresh_res h (fst (copyC h a)) (snd (copyC h a)).
Proof. intros h a. apply mk_fresh_spec. Qed.
Lemma copyF_fresh : forall h a, ext h (fst (copyF h a)) /\ fresh_res h (fst (copyF h a)) (snd (copyF h a)).
Proof. intros h a. apply mk_fresh_spec. Qed.
Lemma fancy_fresh : forall h a s ks, ext h (fst (fancy h a s ks)) /\ fresh_res h (fst (fancy h a s ks)) (snd (fancy h a s ks)).
Proof. intros h a s ks. apply mk_fresh_spec. Qed.
Lemma computed_fresh : forall h s c, ext h (fst (computed h s c)) /\ fresh_res h (fst (computed h s c)) (snd (computed h s c)).
Proof. intros h s c. apply mk_fresh_spec. Qed.

Lemma copy_fresh_both : forall h a,
  (ext h (fst (copyC h a)) /\ fresh_res h (fst (copyC h a)) (snd (copyC h a))) /\
  (ext h (fst (copyF h a)) /\ fresh_res h (fst (copyF h a)) (snd (copyF h a))).
Proof. intros h a. split; [apply copyC_fresh | apply copyF_fresh]. Qed.

Lemma copyF_shape : forall h a, ashape (snd (copyF h a)) = ashape a /\ is_fcontig (snd (copyF h a)) = true.
Proof. intros h a. split; [reflexivity|]. apply fresh_is_fcontig. Qed.

(* what a copy shows is what the original showed (element for element, in the enumeration order of the copy) *)
Definition readF (s : @store V) (a : arr) : list (option V) := map (nth_error (s (abuf a))) (addrsF a).
Definition inb (s : @store V) (a : arr) : Prop :=
  length (astr a) = length (ashape a) /\ forall k, In k (addrsC a) \/ In k (addrsF a) -> k < length (s (abuf a)).

Lemma gather_inb : forall (buf : list V) ks, (forall k, In k ks -> k < length buf) ->
  map (@Some V) (gather buf ks) = map (nth_error buf) ks.
Proof.
  intros buf ks. induction ks as [|k t IH]; intros H; simpl; [reflexivity|].
  destruct (nth_error buf k) eqn:E.
  - simpl. f_equal. apply IH. intros k' Hk. apply H. right. exact Hk.
  - exfalso. apply nth_error_None in E. specialize (H k (or_introl eq_refl)). lia.
Qed.

Lemma gather_length : forall (buf : list V) ks, (forall k, In k ks -> k < length buf) -> length (gather buf ks) = length ks.
Proof. intros buf ks H. rewrite <- (map_length (@Some V)), gather_inb by exact H. apply map_length. Qed.

Lemma nth_error_all : forall (l : list V), map (nth_error l) (seq 0 (length l)) = map (@Some V) l.
Proof.
  induction l as [|x t IH]; [reflexivity|]. cbn [length seq map nth_error]. f_equal.
  rewrite <- seq_shift, map_map. exact IH.
Qed.

Lemma copyC_contents : forall h a, inb (hst h) a ->
  read (hst (fst (copyC h a))) (snd (copyC h a)) = read (hst h) a.
Proof.
  intros h a [L B]. unfold read, copyC, mk_fresh, addrsC. simpl. rewrite Nat.eqb_refl.
  rewrite addrs_contig. rewrite (map_ext (fun k => 0 + k) (fun k => k)), map_id by reflexivity.
  assert (G : length (gather (hst h (abuf a)) (addrs (aoff a) (ashape a) (astr a))) = prodl (ashape a)).
  { rewrite gather_length; [apply addrs_length; exact L | intros k Hk; apply B; left; exact Hk]. }
  rewrite <- G, nth_error_all. apply gather_inb. intros k Hk. apply B. left. exact Hk.
Qed.

Lemma copyF_contents : forall h a, inb (hst h) a ->
  readF (hst (fst (copyF h a))) (snd (copyF h a)) = readF (hst h) a.
Proof.
  intros h a [L B]. unfold readF, copyF, mk_fresh, addrsF. simpl. rewrite Nat.eqb_refl.
  rewrite rev_fstrides, addrs_contig. rewrite (map_ext (fun k => 0 + k) (fun k => k)), map_id by reflexivity.
  assert (G : length (gather (hst h (abuf a)) (addrs (aoff a) (rev (ashape a)) (rev (astr a)))) = prodl (rev (ashape a))).
  { rewrite gather_length; [apply addrs_length; rewrite !rev_length; exact L | intros k Hk; apply B; right; exact Hk]. }
  rewrite <- G, nth_error_all. apply gather_inb. intros k Hk. apply B. right. exact Hk.
Qed.

Lemma copy_contents_both : forall h a, inb (hst h) a ->
  read (hst (fst (copyC h a))) (snd (copyC h a)) = read (hst h) a /\
  readF (hst (fst (copyF h a))) (snd (copyF h a)) = readF (hst h) a.
Proof. intros h a H. split; [apply copyC_contents | apply copyF_contents]; exact H. Qed.

Lemma asfortran_spec : forall h a,
  (is_fcontig a = true -> asfortran h a = (h, a)) /\
  (is_fcontig a = false -> ext h (fst (asfortran h a)) /\ fresh_res h (fst (asfortran h a)) (snd (asfortran h a))) /\
  is_fcontig (snd (asfortran h a)) = true.
Proof.
  intros h a. unfold asfortran. destruct (is_fcontig a) eqn:E.
  - split; [reflexivity|]. split; [discriminate|]. exact E.
  - split; [discriminate|]. split; [intros _; apply copyF_fresh|]. apply fresh_is_fcontig.
Qed.

Lemma asfortran_alias_iff : forall h a, wf_arr h a ->
  (abuf (snd (asfortran h a)) = abuf a <-> is_fcontig a = true).
Proof.
  intros h a W. destruct (asfortran_spec h a) as [Ht [Hf _]]. destruct (is_fcontig a) eqn:E.
  - rewrite (Ht eq_refl). simpl. split; reflexivity.
  - destruct (Hf eq_refl) as [_ Fr]. split; [|discriminate]. intro Eq. exfalso.
    exact (fresh_not_old _ _ _ _ Fr W Eq).
Qed.

Lemma asfortran_aof : forall h a, alias_or_fresh h a (asfortran h a).
Proof.
  intros h a. destruct (asfortran_spec h a) as [Ht [Hf _]]. destruct (is_fcontig a) eqn:E.
  - rewrite (Ht eq_refl). split; [apply ext_refl|]. left. split; reflexivity.
  - destruct (Hf eq_refl) as [Ex Fr]. split; [exact Ex|]. right. exact Fr.
Qed.

Lemma reshapeF_aof : forall h a s, alias_or_fresh h a (reshapeF h a s).
Proof.
  intros h a s. unfold reshapeF. destruct (list_eqb s (ashape a)).
  - split; [apply ext_refl|]. left. split; reflexivity.
  - destruct (is_fcontig a).
    + split; [apply ext_refl|]. left. split; reflexivity.
    + destruct (copyF_fresh h a) as [Ex Fr]. split; [exact Ex|]. right. exact Fr.
Qed.

Lemma reshapeF_view : forall h a s, (list_eqb s (ashape a) = true \/ is_fcontig a = true) ->
  fst (reshapeF h a s) = h /\ abuf (snd (reshapeF h a s)) = abuf a.
Proof.
  intros h a s H. unfold reshapeF. destruct (list_eqb s (ashape a)); [split; reflexivity|].
  destruct H as [H|H]; [discriminate|]. rewrite H. split; reflexivity.
Qed.

Lemma reshapeF_spec : forall h a s,
  alias_or_fresh h a (reshapeF h a s) /\
  ((list_eqb s (ashape a) = true \/ is_fcontig a = true) -> fst (reshapeF h a s) = h /\ abuf (snd (reshapeF h a s)) = abuf a).
Proof. intros h a s. split; [apply reshapeF_aof | apply reshapeF_view]. Qed.

(* ---- aliasing verdict -------------------------------------------------------------------------------------- *)
Definition aliases (opds res : list arr) : bool :=
  existsb (fun r => existsb (fun a => abuf r =? abuf a) opds) res.

Lemma aliases_false_intro : forall opds res,
  (forall r a, In r res -> In a opds -> abuf r <> abuf a) -> aliases opds res = false.
Proof.
  intros opds res H. unfold aliases. destruct (existsb _ res) eqn:E; [|reflexivity].
  apply existsb_exists in E. destruct E as [r [Hr E]]. apply existsb_exists in E. destruct E as [a [Ha E]].
  apply Nat.eqb_eq in E. exfalso. exact (H r a Hr Ha E).
Qed.

Lemma aliases_true_intro : forall opds res r a, In r res -> In a opds -> abuf r = abuf a -> aliases opds res = true.
Proof.
  intros opds res r a Hr Ha E. unfold aliases. apply existsb_exists. exists r. split; [exact Hr|].
  apply existsb_exists. exists a. split; [exact Ha|]. apply Nat.eqb_eq. exact E.
Qed.

Lemma aliases_disjoint : forall opds res, aliases opds res = false -> disjoint (map abuf res) (map abuf opds).
Proof.
  intros opds res H x Hr Ha. apply in_map_iff in Hr. destruct Hr as [r [Er Hr]]. apply in_map_iff in Ha.
  destruct Ha as [a [Ea Ha]]. subst x.
  rewrite (aliases_true_intro opds res r a Hr Ha (eq_sym Ea)) in H. discriminate.
Qed.

(* the link to the frame theorem of C05Store: what an array shows depends only on its buffer, so a result living in
   buffers disjoint from the operands' can be written at will without any operand noticing *)
Lemma read_frame : forall (s : @store V) (opds res : list arr) (ws : list (@wr V)),
  aliases opds res = false -> (forall w, In w ws -> In (wloc w) (map abuf res)) ->
  forall a, In a opds -> read (run s ws) a = read s a.
Proof.
  intros s opds res ws D T a Ha. unfold read.
  rewrite (inplace_footprint ws s (mkObj (map abuf res)) T (abuf a)); [reflexivity|].
  intro Hin. exact (aliases_disjoint opds res D (abuf a) Hin (in_map abuf opds a Ha)).
Qed.

(* ================================================================================================================
   Transliterated return paths of pyttb (the numpy calls that decide sharing, in source order).
   Index arrays (rdims/cdims/shape tuples) are rebuilt by every path and are not part of the model.
   ================================================================================================================ *)

(* ttb.tensor(data, shape, copy): np.reshape(data, shape, order="F"); copy -> data.copy("F") | to_memory_order(data, "F") *)
Definition tensor_init (h : heapV) (d : arr) (shape : list nat) (copy : bool) : heapV * arr :=
  let hr := reshapeF h d shape in
  if copy then copyF (fst hr) (snd hr) else asfortran (fst hr) (snd hr).

(* tensor.copy: ttb.tensor(self.data, self.shape, copy=True) *)
Definition tensor_copy (h : heapV) (X : arr) : heapV * arr := tensor_init h X (ashape X) true.

(* tensor.permute: order.size == 0 or all(order == 1) -> self.copy(); else ttb.tensor(np.transpose(self.data, order), copy=True) *)
Definition tensor_permute (h : heapV) (X : arr) (p : list nat) : heapV * arr :=
  if (length p =? 0) || forallb (Nat.eqb 1) p then tensor_copy h X
  else tensor_init h (v_transpose X p) (pick p (ashape X)) true.

(* tensor.reshape: ttb.tensor(self.data.reshape(shape, order="F"), shape, copy=True) *)
Definition tensor_reshape (h : heapV) (X : arr) (s : list nat) : heapV * arr :=
  let hr := reshapeF h X s in tensor_init (fst hr) (snd hr) s true.

(* tensor.squeeze (not all modes singleton): all > 1 -> self.copy(); else ttb.tensor(np.squeeze(self.data)) *)
Definition tensor_squeeze (h : heapV) (X : arr) : heapV * arr :=
  if forallb (fun d => 1 <? d) (ashape X) then tensor_copy h X
  else tensor_init h (v_squeeze X) (ashape (v_squeeze X)) true.

(* tensor.__getitem__, rectangular region: newdata = self.data[region]; ttb.tensor(newdata, copy=True).
   region of slices / integers = basic indexing (view); any list / array element = advanced indexing (new array) *)
Inductive keyel := KSlice (s : sl) | KInt (i : nat).
Fixpoint apply_key (a : arr) (pos : nat) (k : list keyel) : arr :=
  match k with
  | [] => a
  | KSlice s :: k' =>
      let a1 := mkArr (abuf a) (aoff a + fst (fst s) * nth pos (astr a) 0)
                      (firstn pos (ashape a) ++ snd (fst s) :: skipn (S pos) (ashape a))
                      (firstn pos (astr a) ++ (snd s * nth pos (astr a) 0) :: skipn (S pos) (astr a)) in
      apply_key a1 (S pos) k'
  | KInt i :: k' => apply_key (v_int a pos i) pos k'
  end.
Lemma apply_key_alias : forall k a pos, abuf (apply_key a pos k) = abuf a.
Proof. induction k as [|[s|i] k IH]; intros a pos; simpl; [reflexivity | rewrite IH; reflexivity | rewrite IH; reflexivity]. Qed.

Definition tensor_getitem_basic (h : heapV) (X : arr) (k : list keyel) : heapV * arr :=
  let v := apply_key X 0 k in tensor_init h v (ashape v) true.
Definition tensor_getitem_fancy (h : heapV) (X : arr) (shape ks : list nat) : heapV * arr :=
  let hr := fancy h X shape ks in tensor_init (fst hr) (snd hr) shape true.

(* ttb.tenmat(data, ..., copy): not copy and not F-ordered -> copy = True; self.data = to_memory_order(data, "F", copy=copy)
   to_memory_order(a, "F", copy): copy -> a = a.copy(); then np.asfortranarray(a) *)
Definition to_memory_order_F (h : heapV) (a : arr) (copy : bool) : heapV * arr :=
  if copy then let hc := copyC h a in asfortran (fst hc) (snd hc) else asfortran h a.
Definition tenmat_init (h : heapV) (d : arr) (copy : bool) : heapV * arr :=
  to_memory_order_F h d (copy || negb (is_fcontig d)).

(* tensor.to_tenmat: data = np.reshape(to_memory_order(np.transpose(self.data, dims), "F"), (rprod, cprod), order="F");
   ttb.tenmat(data, rdims, cdims, tshape, copy=copy) *)
Definition tensor_to_tenmat (h : heapV) (X : arr) (dims : list nat) (rprod cprod : nat) (copy : bool) : heapV * arr :=
  let h1 := asfortran h (v_transpose X dims) in
  let h2 := reshapeF (fst h1) (snd h1) [rprod; cprod] in
  tenmat_init (fst h2) (snd h2) copy.

(* tenmat.__getitem__: result = self.data[item]; result.copy() *)
Definition tenmat_getitem_basic (h : heapV) (D : arr) (k : list keyel) : heapV * arr := copyC h (apply_key D 0 k).
Definition tenmat_getitem_fancy (h : heapV) (D : arr) (shape ks : list nat) : heapV * arr :=
  let hr := fancy h D shape ks in copyC (fst hr) (snd hr).

(* sptensor.find: self.subs.copy(), self.vals.copy() *)
Definition sptensor_find (h : heapV) (subs vals : arr) : heapV * list arr :=
  let h1 := copyC h subs in let h2 := copyC (fst h1) vals in (fst h2, [snd h1; snd h2]).

(* ttb.sptensor(subs, vals, shape, copy): copy -> subs.copy(), vals.copy(); else the arrays as given *)
Definition sptensor_init (h : heapV) (subs vals : arr) (copy : bool) : heapV * list arr :=
  if copy then sptensor_find h subs vals else (h, [subs; vals]).
(* sptensor.copy: ttb.sptensor(self.subs, self.vals, self.shape, copy=True) *)
Definition sptensor_copy (h : heapV) (subs vals : arr) : heapV * list arr := sptensor_init h subs vals true.
(* tenmat.copy: ttb.tenmat(self.data, self.rindices, self.cindices, self.tshape, copy=True) *)
Definition tenmat_copy (h : heapV) (D : arr) : heapV * arr := tenmat_init h D true.

(* ttb.ktensor(factor_matrices, weights, copy) *)
Fixpoint map_heap (f : heapV -> arr -> heapV * arr) (h : heapV) (l : list arr) : heapV * list arr :=
  match l with
  | [] => (h, [])
  | a :: t => let hr := f h a in let ht := map_heap f (fst hr) t in (fst ht, snd hr :: snd ht)
  end.
Definition ktensor_init (h : heapV) (fms : list arr) (w : arr) (copy : bool) : heapV * list arr :=
  let hw := if copy then copyF h w else asfortran h w in
  let hf := if copy then map_heap copyF (fst hw) fms
            else if forallb is_fcontig fms then (fst hw, fms)
            else map_heap (fun h a => to_memory_order_F h a true) (fst hw) fms in
  (fst hf, snd hw :: snd hf).
(* ktensor.copy: ttb.ktensor(self.factor_matrices, self.weights, copy=True) *)
Definition ktensor_copy (h : heapV) (fms : list arr) (w : arr) : heapV * list arr := ktensor_init h fms w true.
(* ktensor.extract(idx): new_weights = self.weights[components]; fm[:, components] per mode; ttb.ktensor(new_fms, new_weights) *)
Definition ktensor_extract (h : heapV) (fms : list arr) (w : arr) (ncomp : nat) (ks : list nat) : heapV * list arr :=
  let hw := fancy h w [ncomp] ks in
  let hf := map_heap (fun h a => fancy h a [nth 0 (ashape a) 0; ncomp] ks) (fst hw) fms in
  ktensor_init (fst hf) (snd hf) (snd hw) true.
(* ktensor.tolist(): unit weights -> [fm.copy() ...]; otherwise every factor is the result of a matrix product *)
Definition ktensor_tolist (h : heapV) (fms : list arr) (unit_weights : bool) : heapV * list arr :=
  if unit_weights then map_heap copyC h fms
  else map_heap (fun h a => computed h (ashape a) []) h fms.
(* khatrirao(A): P = A.copy(); np.reshape(P, (-1, ncol), order="F")  (same shape: a view of the copy) *)
Definition khatrirao_single (h : heapV) (A : arr) : heapV * arr :=
  let hc := copyC h A in reshapeF (fst hc) (snd hc) (ashape A).

(* ---- verdicts, for all heaps / arrays / parameters --------------------------------------------------------------- *)
Lemma tensor_init_copy_fresh : forall h d s,
  ext h (fst (tensor_init h d s true)) /\ fresh_res h (fst (tensor_init h d s true)) (snd (tensor_init h d s true)).
Proof.
  intros h d s. unfold tensor_init. destruct (reshapeF_aof h d s) as [Ex _].
  destruct (copyF_fresh (fst (reshapeF h d s)) (snd (reshapeF h d s))) as [Ex2 Fr]. split.
  - exact (ext_trans _ _ _ Ex Ex2).
  - exact (fresh_mono _ _ _ _ Ex Fr).
Qed.

Lemma fresh1_verdict : forall h h' r opds, fresh_res h h' r -> (forall a, In a opds -> wf_arr h a) -> aliases opds [r] = false.
Proof.
  intros h h' r opds Fr W. apply aliases_false_intro. intros r0 a [E|[]] Ha. subst r0.
  exact (fresh_not_old _ _ _ _ Fr (W a Ha)).
Qed.

Theorem tensor_copy_verdict : forall h X, wf_arr h X -> aliases [X] [snd (tensor_copy h X)] = false.
Proof.
  intros h X W. destruct (tensor_init_copy_fresh h X (ashape X)) as [_ Fr].
  apply (fresh1_verdict _ _ _ _ Fr). intros a [E|[]]. subst a. exact W.
Qed.

Theorem tensor_permute_verdict : forall h X p, wf_arr h X -> aliases [X] [snd (tensor_permute h X p)] = false.
Proof.
  intros h X p W. unfold tensor_permute. destruct ((length p =? 0) || forallb (Nat.eqb 1) p).
  - apply tensor_copy_verdict. exact W.
  - destruct (tensor_init_copy_fresh h (v_transpose X p) (pick p (ashape X))) as [_ Fr].
    apply (fresh1_verdict _ _ _ _ Fr). intros a [E|[]]. subst a. exact W.
Qed.

Theorem tensor_reshape_verdict : forall h X s, wf_arr h X -> aliases [X] [snd (tensor_reshape h X s)] = false.
Proof.
  intros h X s W. unfold tensor_reshape. destruct (reshapeF_aof h X s) as [Ex _].
  destruct (tensor_init_copy_fresh (fst (reshapeF h X s)) (snd (reshapeF h X s)) s) as [_ Fr].
  apply (fresh1_verdict _ _ _ _ (fresh_mono _ _ _ _ Ex Fr)). intros a [E|[]]. subst a. exact W.
Qed.

Theorem tensor_squeeze_verdict : forall h X, wf_arr h X -> aliases [X] [snd (tensor_squeeze h X)] = false.
Proof.
  intros h X W. unfold tensor_squeeze. destruct (forallb _ (ashape X)).
  - apply tensor_copy_verdict. exact W.
  - destruct (tensor_init_copy_fresh h (v_squeeze X) (ashape (v_squeeze X))) as [_ Fr].
    apply (fresh1_verdict _ _ _ _ Fr). intros a [E|[]]. subst a. exact W.
Qed.

Theorem tensor_getitem_verdict : forall h X k shape ks, wf_arr h X ->
  aliases [X] [snd (tensor_getitem_basic h X k)] = false /\ aliases [X] [snd (tensor_getitem_fancy h X shape ks)] = false.
Proof.
  intros h X k shape ks W. split.
  - destruct (tensor_init_copy_fresh h (apply_key X 0 k) (ashape (apply_key X 0 k))) as [_ Fr].
    apply (fresh1_verdict _ _ _ _ Fr). intros a [E|[]]. subst a. exact W.
  - unfold tensor_getitem_fancy. destruct (fancy_fresh h X shape ks) as [Ex _].
    destruct (tensor_init_copy_fresh (fst (fancy h X shape ks)) (snd (fancy h X shape ks)) shape) as [_ Fr].
    apply (fresh1_verdict _ _ _ _ (fresh_mono _ _ _ _ Ex Fr)). intros a [E|[]]. subst a. exact W.
Qed.

(* the no-copy constructor shares exactly when the array handed over is already F-contiguous *)
Theorem tensor_init_nocopy_verdict : forall h d, wf_arr h d ->
  aliases [d] [snd (tensor_init h d (ashape d) false)] = is_fcontig d.
Proof.
  intros h d W. unfold tensor_init.
  destruct (reshapeF_view h d (ashape d)) as [E1 E2].
  { left. clear. induction (ashape d) as [|x t IH]; simpl; [reflexivity | rewrite Nat.eqb_refl; exact IH]. }
  assert (R : reshapeF h d (ashape d) = (h, d)).
  { unfold reshapeF. replace (list_eqb (ashape d) (ashape d)) with true; [reflexivity|].
    clear. induction (ashape d) as [|x t IH]; simpl; [reflexivity | rewrite Nat.eqb_refl; exact IH]. }
  rewrite R. simpl fst. simpl snd. destruct (is_fcontig d) eqn:F.
  - unfold asfortran. rewrite F. simpl. rewrite Nat.eqb_refl. reflexivity.
  - destruct (asfortran_spec h d) as [_ [Hf _]]. destruct (Hf F) as [_ Fr].
    apply (fresh1_verdict _ _ _ _ Fr). intros a [E|[]]. subst a. exact W.
Qed.

Lemma to_memory_order_copy_fresh : forall h a,
  ext h (fst (to_memory_order_F h a true)) /\ fresh_res h (fst (to_memory_order_F h a true)) (snd (to_memory_order_F h a true)).
Proof.
  intros h a. unfold to_memory_order_F. destruct (copyC_fresh h a) as [Ex Fr].
  destruct (asfortran_aof (fst (copyC h a)) (snd (copyC h a))) as [Ex2 [[Eh Eb]|Fr2]].
  - rewrite Eh. split; [exact Ex|]. unfold fresh_res in *. rewrite Eb. exact Fr.
  - split; [exact (ext_trans _ _ _ Ex Ex2) | exact (fresh_mono _ _ _ _ Ex Fr2)].
Qed.

Lemma tenmat_init_copy_fresh : forall h d,
  ext h (fst (tenmat_init h d true)) /\ fresh_res h (fst (tenmat_init h d true)) (snd (tenmat_init h d true)).
Proof. intros h d. unfold tenmat_init. simpl. apply to_memory_order_copy_fresh. Qed.

Theorem tensor_to_tenmat_copy_verdict : forall h X dims r c, wf_arr h X ->
  aliases [X] [snd (tensor_to_tenmat h X dims r c true)] = false.
Proof.
  intros h X dims r c W. unfold tensor_to_tenmat.
  destruct (asfortran_aof h (v_transpose X dims)) as [Ex1 _].
  destruct (reshapeF_aof (fst (asfortran h (v_transpose X dims))) (snd (asfortran h (v_transpose X dims))) [r; c]) as [Ex2 _].
  destruct (tenmat_init_copy_fresh (fst (reshapeF (fst (asfortran h (v_transpose X dims))) (snd (asfortran h (v_transpose X dims))) [r; c]))
              (snd (reshapeF (fst (asfortran h (v_transpose X dims))) (snd (asfortran h (v_transpose X dims))) [r; c]))) as [_ Fr].
  apply (fresh1_verdict _ _ _ _ (fresh_mono _ _ _ _ (ext_trans _ _ _ Ex1 Ex2) Fr)). intros a [E|[]]. subst a. exact W.
Qed.

Theorem tenmat_getitem_verdict : forall h D k shape ks, wf_arr h D ->
  aliases [D] [snd (tenmat_getitem_basic h D k)] = false /\ aliases [D] [snd (tenmat_getitem_fancy h D shape ks)] = false.
Proof.
  intros h D k shape ks W. split.
  - destruct (copyC_fresh h (apply_key D 0 k)) as [_ Fr].
    apply (fresh1_verdict _ _ _ _ Fr). intros a [E|[]]. subst a. exact W.
  - unfold tenmat_getitem_fancy. destruct (fancy_fresh h D shape ks) as [Ex _].
    destruct (copyC_fresh (fst (fancy h D shape ks)) (snd (fancy h D shape ks))) as [_ Fr].
    apply (fresh1_verdict _ _ _ _ (fresh_mono _ _ _ _ Ex Fr)). intros a [E|[]]. subst a. exact W.
Qed.

Theorem sptensor_find_verdict : forall h subs vals, wf_arr h subs -> wf_arr h vals ->
  aliases [subs; vals] (snd (sptensor_find h subs vals)) = false.
Proof.
  intros h subs vals Ws Wv. unfold sptensor_find. simpl snd.
  destruct (copyC_fresh h subs) as [Ex1 Fr1]. destruct (copyC_fresh (fst (copyC h subs)) vals) as [Ex2 Fr2].
  apply aliases_false_intro. intros r a Hr Ha.
  assert (Wa : wf_arr h a) by (destruct Ha as [E|[E|[]]]; subst a; assumption).
  destruct Hr as [E|[E|[]]]; subst r.
  - exact (fresh_not_old _ _ _ _ Fr1 Wa).
  - exact (fresh_not_old _ _ _ _ (fresh_mono _ _ _ _ Ex1 Fr2) Wa).
Qed.

Theorem sptensor_copy_verdict : forall h subs vals, wf_arr h subs -> wf_arr h vals ->
  aliases [subs; vals] (snd (sptensor_copy h subs vals)) = false.
Proof. intros h subs vals Ws Wv. exact (sptensor_find_verdict h subs vals Ws Wv). Qed.

Theorem sptensor_init_nocopy_verdict : forall h subs vals,
  aliases [subs; vals] (snd (sptensor_init h subs vals false)) = true.
Proof.
  intros h subs vals. unfold sptensor_init. cbn [snd].
  apply (aliases_true_intro _ _ subs subs); [left; reflexivity | left; reflexivity | reflexivity].
Qed.

Theorem tenmat_copy_verdict : forall h D, wf_arr h D -> aliases [D] [snd (tenmat_copy h D)] = false.
Proof.
  intros h D W. destruct (tenmat_init_copy_fresh h D) as [_ Fr].
  apply (fresh1_verdict _ _ _ _ Fr). intros a [E|[]]. subst a. exact W.
Qed.

(* the no-copy tenmat constructor shares exactly when the matrix handed over is F-contiguous *)
Theorem tenmat_init_nocopy_verdict : forall h d, wf_arr h d -> aliases [d] [snd (tenmat_init h d false)] = is_fcontig d.
Proof.
  intros h d W. unfold tenmat_init. destruct (is_fcontig d) eqn:F; cbn [orb negb].
  - unfold to_memory_order_F, asfortran. rewrite F. simpl. rewrite Nat.eqb_refl. reflexivity.
  - destruct (to_memory_order_copy_fresh h d) as [_ Fr].
    apply (fresh1_verdict _ _ _ _ Fr). intros a [E|[]]. subst a. exact W.
Qed.

(* map_heap of an always-fresh operation: every result is fresh w.r.t. the starting heap *)
Lemma map_heap_fresh : forall (f : heapV -> arr -> heapV * arr),
  (forall h a, ext h (fst (f h a)) /\ fresh_res h (fst (f h a)) (snd (f h a))) ->
  forall l h, ext h (fst (map_heap f h l)) /\ forall r, In r (snd (map_heap f h l)) -> fresh_res h (fst (map_heap f h l)) r.
Proof.
  intros f Hf. induction l as [|a t IH]; intros h; simpl.
  - split; [apply ext_refl | intros r []].
  - destruct (Hf h a) as [Ex Fr]. destruct (IH (fst (f h a))) as [Ex2 Fr2]. split.
    + exact (ext_trans _ _ _ Ex Ex2).
    + intros r [E|Hr].
      * subst r. exact (fresh_keep _ _ _ _ Fr Ex2).
      * exact (fresh_mono _ _ _ _ Ex (Fr2 r Hr)).
Qed.

Lemma ktensor_init_copy_fresh : forall h fms w,
  ext h (fst (ktensor_init h fms w true)) /\ forall r, In r (snd (ktensor_init h fms w true)) -> fresh_res h (fst (ktensor_init h fms w true)) r.
Proof.
  intros h fms w. unfold ktensor_init. simpl.
  destruct (copyF_fresh h w) as [Ex Fr]. destruct (map_heap_fresh copyF copyF_fresh fms (fst (copyF h w))) as [Ex2 Fr2]. split.
  - exact (ext_trans _ _ _ Ex Ex2).
  - intros r [E|Hr].
    + subst r. exact (fresh_keep _ _ _ _ Fr Ex2).
    + exact (fresh_mono _ _ _ _ Ex (Fr2 r Hr)).
Qed.

Lemma freshl_verdict : forall h h' res opds, (forall r, In r res -> fresh_res h h' r) -> (forall a, In a opds -> wf_arr h a) ->
  aliases opds res = false.
Proof.
  intros h h' res opds Fr W. apply aliases_false_intro. intros r a Hr Ha. exact (fresh_not_old _ _ _ _ (Fr r Hr) (W a Ha)).
Qed.

Theorem ktensor_copy_verdict : forall h fms w, (forall a, In a (w :: fms) -> wf_arr h a) ->
  aliases (w :: fms) (snd (ktensor_copy h fms w)) = false.
Proof.
  intros h fms w W. destruct (ktensor_init_copy_fresh h fms w) as [_ Fr]. exact (freshl_verdict _ _ _ _ Fr W).
Qed.

Theorem ktensor_extract_verdict : forall h fms w n ks, (forall a, In a (w :: fms) -> wf_arr h a) ->
  aliases (w :: fms) (snd (ktensor_extract h fms w n ks)) = false.
Proof.
  intros h fms w n ks W. unfold ktensor_extract.
  destruct (fancy_fresh h w [n] ks) as [Ex1 _].
  destruct (map_heap_fresh (fun h a => fancy h a [nth 0 (ashape a) 0; n] ks)
              (fun h a => fancy_fresh h a [nth 0 (ashape a) 0; n] ks) fms (fst (fancy h w [n] ks))) as [Ex2 _].
  set (h2 := fst (map_heap (fun h a => fancy h a [nth 0 (ashape a) 0; n] ks) (fst (fancy h w [n] ks)) fms)) in *.
  set (f2 := snd (map_heap (fun h a => fancy h a [nth 0 (ashape a) 0; n] ks) (fst (fancy h w [n] ks)) fms)).
  destruct (ktensor_init_copy_fresh h2 f2 (snd (fancy h w [n] ks))) as [_ Fr].
  apply (freshl_verdict h (fst (ktensor_init h2 f2 (snd (fancy h w [n] ks)) true))); [|exact W].
  intros r Hr. exact (fresh_mono _ _ _ _ (ext_trans _ _ _ Ex1 Ex2) (Fr r Hr)).
Qed.

Theorem ktensor_tolist_verdict : forall h fms w u, (forall a, In a (w :: fms) -> wf_arr h a) ->
  aliases (w :: fms) (snd (ktensor_tolist h fms u)) = false.
Proof.
  intros h fms w u W. unfold ktensor_tolist. destruct u.
  - destruct (map_heap_fresh copyC copyC_fresh fms h) as [_ Fr]. exact (freshl_verdict _ _ _ _ Fr W).
  - destruct (map_heap_fresh (fun h a => computed h (ashape a) []) (fun h a => computed_fresh h (ashape a) []) fms h) as [_ Fr].
    exact (freshl_verdict _ _ _ _ Fr W).
Qed.

(* ktensor(copy=False): the weights are shared iff F-contiguous (always, for a 1-d contiguous vector); the factor
   matrices are shared iff ALL of them are F-contiguous — one C-ordered factor makes the constructor copy every factor *)
Theorem ktensor_init_nocopy_factors_verdict : forall h fms w, (forall a, In a (w :: fms) -> wf_arr h a) -> fms <> [] ->
  aliases fms (tl (snd (ktensor_init h fms w false))) = forallb is_fcontig fms.
Proof.
  intros h fms w W NE. unfold ktensor_init. simpl tl.
  destruct (asfortran_aof h w) as [Exw _]. destruct (forallb is_fcontig fms) eqn:F.
  - simpl. destruct fms as [|a t]; [contradiction|]. apply (aliases_true_intro _ _ a a); [left; reflexivity | left; reflexivity | reflexivity].
  - destruct (map_heap_fresh (fun h a => to_memory_order_F h a true) to_memory_order_copy_fresh fms (fst (asfortran h w))) as [_ Fr].
    apply (freshl_verdict h (fst (map_heap (fun h a => to_memory_order_F h a true) (fst (asfortran h w)) fms))).
    + intros r Hr. exact (fresh_mono _ _ _ _ Exw (Fr r Hr)).
    + intros a Ha. apply W. right. exact Ha.
Qed.

Theorem khatrirao_single_verdict : forall h A, wf_arr h A -> aliases [A] [snd (khatrirao_single h A)] = false.
Proof.
  intros h A W. unfold khatrirao_single. destruct (copyC_fresh h A) as [Ex Fr].
  destruct (reshapeF_aof (fst (copyC h A)) (snd (copyC h A)) (ashape A)) as [Ex2 [[Eh Eb]|Fr2]].
  - apply aliases_false_intro. intros r a [E|[]] [E2|[]]. subst r a. rewrite Eb. exact (fresh_not_old _ _ _ _ Fr W).
  - apply (fresh1_verdict _ _ _ _ (fresh_mono _ _ _ _ Ex Fr2)). intros a [E|[]]. subst a. exact W.
Qed.

(* to_tenmat(copy=False): shares exactly when the transposed data is still F-contiguous *)
Theorem tensor_to_tenmat_nocopy_verdict : forall h X dims r c, wf_arr h X ->
  aliases [X] [snd (tensor_to_tenmat h X dims r c false)] = is_fcontig (v_transpose X dims).
Proof.
  intros h X dims r c W. unfold tensor_to_tenmat. set (t := v_transpose X dims).
  destruct (asfortran_spec h t) as [Ht [Hf Hc]]. destruct (is_fcontig t) eqn:F.
  - rewrite (Ht eq_refl). simpl fst. simpl snd.
    assert (G : abuf (snd (reshapeF h t [r; c])) = abuf X /\ fst (reshapeF h t [r; c]) = h /\ is_fcontig (snd (reshapeF h t [r; c])) = true).
    { unfold reshapeF. destruct (list_eqb [r; c] (ashape t)); [repeat split; exact F|]. rewrite F. repeat split. apply fresh_is_fcontig. }
    destruct G as [G1 [G2 G3]]. unfold tenmat_init, to_memory_order_F. rewrite G3. simpl. unfold asfortran. rewrite G3, G2. simpl.
    rewrite G1, Nat.eqb_refl. reflexivity.
  - destruct (Hf eq_refl) as [Ex1 Fr1].
    set (h1 := fst (asfortran h t)) in *. set (t1 := snd (asfortran h t)) in *.
    assert (G : ext h (fst (reshapeF h1 t1 [r; c])) /\ fresh_res h (fst (reshapeF h1 t1 [r; c])) (snd (reshapeF h1 t1 [r; c]))).
    { destruct (reshapeF_aof h1 t1 [r; c]) as [Ex2 [[Eh Eb]|Fr2]].
      - rewrite Eh. split; [exact Ex1|]. unfold fresh_res in *. rewrite Eb. exact Fr1.
      - split; [exact (ext_trans _ _ _ Ex1 Ex2) | exact (fresh_mono _ _ _ _ Ex1 Fr2)]. }
    destruct G as [Ex2 Fr2]. set (h2 := fst (reshapeF h1 t1 [r; c])) in *. set (t2 := snd (reshapeF h1 t1 [r; c])) in *.
    unfold tenmat_init, to_memory_order_F. destruct (false || negb (is_fcontig t2)) eqn:Cp.
    + destruct (copyC_fresh h2 t2) as [Ex3 Fr3].
      destruct (asfortran_aof (fst (copyC h2 t2)) (snd (copyC h2 t2))) as [Ex4 [[Eh Eb]|Fr4]].
      * apply aliases_false_intro. intros r0 a [E|[]] [E2|[]]. subst r0 a. rewrite Eb.
        exact (fresh_not_old _ _ _ _ (fresh_mono _ _ _ _ Ex2 Fr3) W).
      * apply (fresh1_verdict _ _ _ _ (fresh_mono _ _ _ _ (ext_trans _ _ _ Ex2 Ex3) Fr4)). intros a [E|[]]. subst a. exact W.
    + destruct (asfortran_aof h2 t2) as [Ex4 [[Eh Eb]|Fr4]].
      * apply aliases_false_intro. intros r0 a [E|[]] [E2|[]]. subst r0 a. rewrite Eb. exact (fresh_not_old _ _ _ _ Fr2 W).
      * apply (fresh1_verdict _ _ _ _ (fresh_mono _ _ _ _ Ex2 Fr4)). intros a [E|[]]. subst a. exact W.
Qed.

(* a fresh result may be written at will: no operand array shows a difference (frame theorem through the view model) *)
Theorem fresh_result_frame : forall (h : heapV) (opds res : list arr) (ws : list (@wr V)) (h' : heapV),
  aliases opds res = false -> (forall w, In w ws -> In (wloc w) (map abuf res)) ->
  forall a, In a opds -> read (run (hst h') ws) a = read (hst h') a.
Proof. intros h opds res ws h' D T a Ha. exact (read_frame (hst h') opds res ws D T a Ha). Qed.
End Heap.

(* ---- concrete instances (non-vacuity; used by the Examples of Props/C05.v and by the generated cases) ------------ *)
Definition h0 (n : nat) : @heap nat := mkHeap (fun l => map (fun k => 100 * l + k) (seq 0 24)) n.
(* a 2x3 F-ordered matrix in buffer 0, its transpose (a C-ordered 3x2 view), a row-strided view *)
Definition exF := mkArr 0 0 [2; 3] [1; 2].
Definition exT := v_transpose exF [1; 0].
Definition exS := mkArr 0 0 [2; 3] [6; 1].
