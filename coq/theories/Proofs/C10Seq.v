(* Proofs/C10Seq.v — sequential truncation stated on the tensors hosvd REALLY holds (wave 4).
   hosvd(sequential=True) shrinks Y <- Y x_k U_k^T after every mode, and computes the next Gram matrix / eigen-decomposition from the
   SHRUNK tensor.  Proofs/C10Rayleigh.v (eseq_ok) states the eigen-equations for the PROJECTED tensors Y x_k (U_k U_k^T) of the original
   shape.  Here: the projected tensor is the shrunk one expanded back by the isometries U_k (expand), mode products on different modes
   commute (C10Recon.ttm_comm_dense), an isometry in mode k does not change the Gram matrices of the other modes (C10Isometry.gram_isometry);
   hence the eigen-equations for the shrunk tensors (sseq_ok) imply those for the projected ones, and the end-to-end bound holds with the
   hypotheses stated exactly on what the code computes (concrete_hosvd_seq_bound). *)
From Coq Require Import List Arith Lia Bool ZArith Reals Lra RealField Ring Permutation.
From PV Require Import Base.Index Base.Sum Np.Array Np.NpR Model.Sparse Model.Repr Model.C10Tucker Model.C14Nvecs
                       Proofs.C14Sums Proofs.C14Split Proofs.C14GramSp Proofs.C10Ttm Proofs.C10Proofs Proofs.C10Spectral Proofs.C10Proj
                       Proofs.C10ProjR Proofs.C10Recon Proofs.C10Concrete Proofs.C10Rayleigh Proofs.C10Isometry.
Import ListNotations.

Section Expand.
Variable V : Type.
Variables (v0 v1 : V) (vadd vmul vsub : V -> V -> V) (vopp : V -> V).
Hypothesis Vring : ring_theory v0 v1 vadd vmul vsub vopp (@eq V).
Notation den := (den_dense v0).
Notation ttm := (ttm v0 vadd vmul).
Notation mproj := (mproj V v0 vadd vmul).
Notation uut := (uut V v0 vadd vmul).
Notation gspec := (gram_spec v0 vadd vmul).
Notation orthocols := (orthocols V v0 v1 vadd vmul).

(* Y x_{k1} U1 x_{k2} U2 ... for l = [(k1,U1); (k2,U2); ...] *)
Definition expand (l : list (nat * @matrix V)) (Y : dense V) : dense V := fold_left (fun Z p => ttm Z (fst p) (snd p)) l Y.

Lemma expand_cons k U l Y : expand ((k, U) :: l) Y = expand l (ttm Y k U).
Proof. reflexivity. Qed.

Definition modes_lt (l : list (nat * @matrix V)) (d : nat) : Prop := forall p, In p l -> fst p < d.

Lemma ndims_expand l : forall Y, modes_lt l (length (dshape Y)) -> length (dshape (expand l Y)) = length (dshape Y).
Proof.
  induction l as [|[k U] l IH]; intros Y H; [reflexivity|]. rewrite expand_cons.
  assert (Hk : k < length (dshape Y)) by (apply (H (k, U)); now left).
  rewrite IH; [now apply (ndims_ttm V v0 vadd vmul)|].
  intros p Hp. rewrite (ndims_ttm V v0 vadd vmul) by exact Hk. apply H. now right.
Qed.

Lemma nth_dshape_ttm_other (Y : dense V) k U m : k < length (dshape Y) -> m <> k ->
  nth m (dshape (ttm Y k U)) 0 = nth m (dshape Y) 0.
Proof.
  intros Hk Hne. rewrite (dshape_ttm V v0 vadd vmul), nth_set_nth by exact Hk.
  destruct (Nat.eqb_spec m k); [contradiction|reflexivity].
Qed.

Lemma nth_dshape_expand l : forall Y m, modes_lt l (length (dshape Y)) -> ~ In m (map fst l) ->
  nth m (dshape (expand l Y)) 0 = nth m (dshape Y) 0.
Proof.
  induction l as [|[k U] l IH]; intros Y m H Hm; [reflexivity|]. rewrite expand_cons.
  assert (Hk : k < length (dshape Y)) by (apply (H (k, U)); now left).
  cbn [map fst] in Hm.
  rewrite IH.
  - apply nth_dshape_ttm_other; [exact Hk|]. intros ->. apply Hm. now left.
  - intros p Hp. rewrite (ndims_ttm V v0 vadd vmul) by exact Hk. apply H. now right.
  - intros Hin. apply Hm. now right.
Qed.

(* a product along a mode not touched by l commutes with the expansion *)
Lemma expand_comm l : forall Y k M, ~ In k (map fst l) -> k < length (dshape Y) -> modes_lt l (length (dshape Y)) ->
  ttm (expand l Y) k M = expand l (ttm Y k M).
Proof.
  induction l as [|[k1 U1] l IH]; intros Y k M Hk Hkd H; [reflexivity|]. rewrite !expand_cons.
  assert (Hk1 : k1 < length (dshape Y)) by (apply (H (k1, U1)); now left).
  cbn [map fst] in Hk.
  rewrite IH.
  - f_equal. apply (ttm_comm_dense V v0 v1 vadd vmul vsub vopp Vring); auto. intros ->. apply Hk. now left.
  - intros Hin. apply Hk. now right.
  - now rewrite (ndims_ttm V v0 vadd vmul).
  - intros p Hp. rewrite (ndims_ttm V v0 vadd vmul) by exact Hk1. apply H. now right.
Qed.

(* every expanding matrix is an isometry of the mode it acts on *)
Definition wfexp (l : list (nat * @matrix V)) (Y : dense V) : Prop :=
  NoDup (map fst l) /\ forall k U, In (k, U) l -> k < length (dshape Y) /\ orthocols (nrows U) (nth k (dshape Y) 0) U.

Lemma wfexp_modes l Y : wfexp l Y -> modes_lt l (length (dshape Y)).
Proof. intros (_ & H) [k U] Hp. apply (H k U Hp). Qed.

Lemma wfexp_tail k U l Y : wfexp ((k, U) :: l) Y -> wfexp l (ttm Y k U).
Proof.
  intros (Hnd & H). cbn [map fst] in Hnd. inversion Hnd as [|? ? Hk Hnd']; subst.
  assert (Hkd : k < length (dshape Y)) by (apply (H k U); now left).
  split; [exact Hnd'|]. intros k' U' Hin. destruct (H k' U' (or_intror Hin)) as (H1 & H2).
  assert (Hne : k' <> k). { intros ->. apply Hk. change k with (fst (k, U')). now apply in_map. }
  rewrite (ndims_ttm V v0 vadd vmul) by exact Hkd. split; [exact H1|].
  now rewrite nth_dshape_ttm_other.
Qed.

(* the expansion has the Gram matrices of Y in every mode it does not touch *)
Theorem gram_expand l : forall Y m a b, wfexp l Y -> ~ In m (map fst l) -> m < length (dshape Y) ->
  a < nth m (dshape Y) 0 -> b < nth m (dshape Y) 0 ->
  gspec (dshape (expand l Y)) (den (expand l Y)) m a b = gspec (dshape Y) (den Y) m a b.
Proof.
  induction l as [|[k U] l IH]; intros Y m a b Hw Hm Hmd Ha Hb; [reflexivity|]. rewrite expand_cons.
  assert (Hkd : k < length (dshape Y) /\ orthocols (nrows U) (nth k (dshape Y) 0) U) by (apply (proj2 Hw k U); now left).
  destruct Hkd as (Hkd & Ho). cbn [map fst] in Hm.
  assert (Hne : m <> k) by (intros ->; apply Hm; now left).
  rewrite IH.
  - rewrite (dshape_ttm V v0 vadd vmul). apply (gram_isometry V v0 v1 vadd vmul vsub vopp Vring Y k m (nrows U) U a b); auto.
  - now apply wfexp_tail.
  - intros Hin. apply Hm. now right.
  - now rewrite (ndims_ttm V v0 vadd vmul).
  - now rewrite nth_dshape_ttm_other.
  - now rewrite nth_dshape_ttm_other.
Qed.

(* one sequential step: projecting the expansion in a fresh mode k = expanding the shrunk tensor by (k, U) as well *)
Theorem expand_step l (Y : dense V) (k r : nat) (U : @matrix V) :
  let Yh := expand l Y in
  ~ In k (map fst l) -> k < length (dshape Y) -> modes_lt l (length (dshape Y)) ->
  nrows U = nth k (dshape Yh) 0 ->
  mproj (dshape Yh) k (uut (nth k (dshape Yh) 0) r U) Yh =
  expand ((k, U) :: l) (ttm Y k (mtrans v0 U (nth k (dshape Yh) 0) r)).
Proof.
  intros Yh Hk Hkd Hl HU. rewrite expand_cons.
  assert (Hkh : k < length (dshape Yh)) by (unfold Yh; rewrite ndims_expand; auto).
  rewrite <- (ttm_ttm_uut V v0 v1 vadd vmul vsub vopp Vring Yh k r U Hkh HU).
  unfold Yh at 2. rewrite (expand_comm l Y k _ Hk Hkd Hl).
  rewrite expand_comm; auto.
  - now rewrite (ndims_ttm V v0 vadd vmul).
  - intros p Hp. rewrite (ndims_ttm V v0 vadd vmul) by exact Hkd. now apply Hl.
Qed.

Lemma orthocols_leading I r (W : @matrix V) : orthocols I r W -> orthocols I r (leading V r W).
Proof.
  intros H j l Hj Hl. rewrite <- (H j l Hj Hl). apply sum_n_ext. intros k _. now rewrite !(mget_leading V v0).
Qed.
End Expand.

(* ---------------------------------------------------------------------------------------- *)
(* over R                                                                                     *)
(* ---------------------------------------------------------------------------------------- *)
Local Open Scope R_scope.

Definition em_k (e : emode) : nat := cm_k (em_c e).
Definition em_U (e : emode) : @matrix R := leading R (cm_r (em_c e)) (cm_W (em_c e)).
(* Y.ttm(factor_matrices[k].transpose(), k) *)
Definition shrinkR (Y : dense R) (e : emode) : dense R :=
  ttm 0 Rplus Rmult Y (em_k e) (mtrans 0 (em_U e) (nth (em_k e) (dshape Y) 0%nat) (cm_r (em_c e))).

(* sequential hosvd as the code runs it: mode e looks at the SHRUNK tensor Y (its own shape), then Y is shrunk by U_e^T *)
Fixpoint sseq_ok (t : R) (Y : dense R) (es : list emode) : Prop :=
  match es with [] => True | e :: es' => emode_ok (dshape Y) t Y e /\ sseq_ok t (shrinkR Y e) es' end.

Notation expandR := (expand R 0 Rplus Rmult).
Notation wfexpR := (wfexp R 0 1 Rplus Rmult).

Lemma emode_ok_transfer (s : shape) (t : R) (l : list (nat * @matrix R)) (Y : dense R) (e : emode) :
  dshape (expandR l Y) = s -> wfexpR l Y -> ~ In (em_k e) (map fst l) ->
  emode_ok (dshape Y) t Y e -> emode_ok s t (expandR l Y) e.
Proof.
  intros Hs Hw Hk (H1 & H2 & H3 & H4 & H5 & H6). fold (em_k e) in *.
  pose proof (wfexp_modes R 0 1 Rplus Rmult l Y Hw) as Hl.
  assert (HI : nth (em_k e) s 0%nat = nth (em_k e) (dshape Y) 0%nat).
  { rewrite <- Hs. now apply (nth_dshape_expand R 0 Rplus Rmult). }
  assert (Hd : length s = length (dshape Y)) by (rewrite <- Hs; now apply (ndims_expand R 0 Rplus Rmult)).
  unfold emode_ok. fold (em_k e). rewrite HI, Hd. repeat split; try assumption.
  intros a j Ha Hj. rewrite HI in Ha, Hj. rewrite HI. rewrite <- (H5 a j Ha Hj).
  apply sum_n_ext. intros c Hc. f_equal. unfold gramR. rewrite <- Hs.
  apply (gram_expand R 0 1 Rplus Rmult Rminus Ropp RTheory l Y (em_k e) a c Hw Hk H1 Ha Hc).
Qed.

Theorem sseq_ok_eseq_ok (s : shape) (t : R) : 0 <= t -> forall es l Y,
  dshape (expandR l Y) = s -> wfexpR l Y -> NoDup (map fst l ++ map em_k es) ->
  (forall e, In e es -> nrows (cm_W (em_c e)) = nth (em_k e) s 0%nat) ->
  sseq_ok t Y es -> eseq_ok s t (expandR l Y) es.
Proof.
  intros Ht. induction es as [|e es IH]; intros l Y Hs Hw Hnd Hrows H; [exact I|].
  destruct H as (H0 & Hrest). cbn [map] in Hnd.
  assert (Hk : ~ In (em_k e) (map fst l)).
  { intros Hin. apply NoDup_remove_2 in Hnd. apply Hnd. apply in_or_app. now left. }
  pose proof (wfexp_modes R 0 1 Rplus Rmult l Y Hw) as Hl.
  pose proof (emode_ok_transfer s t l Y e Hs Hw Hk H0) as He.
  pose proof (cmode_ok_rank s t _ _ Ht (emode_ok_cmode_ok s t _ e He)) as Hr.
  destruct H0 as (Hkd & _). fold (em_k e) in Hkd.
  pose proof He as (Hks & Hoc & _). fold (em_k e) in Hks, Hoc, Hr.
  assert (HI : nth (em_k e) s 0%nat = nth (em_k e) (dshape Y) 0%nat).
  { rewrite <- Hs. now apply (nth_dshape_expand R 0 Rplus Rmult). }
  assert (HU : nrows (em_U e) = nth (em_k e) s 0%nat).
  { unfold em_U, leading, nrows. rewrite map_length. apply Hrows. now left. }
  cbn [eseq_ok]. split; [exact He|].
  (* the projected tensor is the expansion of the shrunk one *)
  assert (E : cm_proj s (em_c e) (expandR l Y) = expandR ((em_k e, em_U e) :: l) (shrinkR Y e)).
  { unfold cm_proj, truncproj, projR, uutR. fold (em_k e).
    rewrite <- (uut_leading R 0 Rplus Rmult). fold (em_U e).
    pose proof (expand_step R 0 1 Rplus Rmult Rminus Ropp RTheory l Y (em_k e) (cm_r (em_c e)) (em_U e)) as S.
    cbv zeta in S. rewrite Hs in S. rewrite S; auto. unfold shrinkR. now rewrite HI. }
  rewrite E. apply IH.
  - rewrite <- E. unfold cm_proj, truncproj, projR. apply (dshape_mproj R 0 Rplus Rmult).
  - (* wfexp of the longer expansion over the shrunk tensor *)
    assert (Hsh : dshape (shrinkR Y e) = set_nth (em_k e) (cm_r (em_c e)) (dshape Y)).
    { unfold shrinkR. rewrite (dshape_ttm R 0 Rplus Rmult). f_equal. unfold nrows, mtrans. now rewrite map_length, seq_length. }
    split.
    + cbn [map fst]. constructor; [exact Hk|exact (proj1 Hw)].
    + intros k U [Heq|Hin].
      * inversion Heq; subst k U. rewrite Hsh. rewrite length_set_nth by exact Hkd. split; [exact Hkd|].
        rewrite nth_set_nth_same by exact Hkd. rewrite HU.
        apply (orthocols_leading R 0 1 Rplus Rmult). apply (orthocols_le R 0 1 Rplus Rmult _ (nth (em_k e) s 0%nat)); [lia|exact Hoc].
      * destruct (proj2 Hw k U Hin) as (G1 & G2). rewrite Hsh. rewrite length_set_nth by exact Hkd. split; [exact G1|].
        assert (Hne : k <> em_k e). { intros ->. apply Hk. change (em_k e) with (fst (em_k e, U)). now apply in_map. }
        rewrite nth_set_nth by exact Hkd. destruct (Nat.eqb_spec k (em_k e)); [contradiction|exact G2].
  - cbn [map fst]. apply (Permutation_NoDup (l := map fst l ++ em_k e :: map em_k es)); [|exact Hnd].
    symmetry. apply Permutation_middle.
  - intros e' He'. apply Hrows. now right.
  - exact Hrest.
Qed.

(* END TO END for sequential hosvd, hypotheses on what the code computes: at every position of dimorder an orthogonal W with
   G W = W diag(mu) for the mode-k Gram matrix G of the tensor SHRUNK by the factors chosen so far, rank from the rule on mu with threshold
   tol^2 ||X||^2 / d, factor = leading columns; returned core = X x_n U_n^T  ==>  ||X - full(T)||^2 <= tol^2 ||X||^2 *)
Theorem concrete_hosvd_seq_bound (X : dense R) (es : list emode) (Us : list (@matrix R)) (tolsq : R) :
  let s := dshape X in
  es <> [] -> NoDup (map em_k es) -> length es = length s -> length Us = length s -> 0 <= tolsq ->
  (forall e, In e es -> nth (em_k e) Us [] = em_U e /\ nrows (cm_W (em_c e)) = nth (em_k e) s 0%nat /\ ncols (em_U e) = cm_r (em_c e)) ->
  sseq_ok (tolsq * nrm2 (dense R) (innerR s) X / INR (length es)) X es ->
  let T := mkT (ttm_all 0 Rplus Rmult X (transposed 0 Us)) Us in
  nrm2 (dense R) (innerR s) (subR s X (tfull_ttm 0 Rplus Rmult T)) <= tolsq * nrm2 (dense R) (innerR s) X.
Proof.
  intros s Hne Hnd Hle HlU Htol HUs Hok T.
  assert (Hb : 0 <= tolsq * nrm2 (dense R) (innerR s) X / INR (length es)).
  { apply (budget_nonneg (dense R) (innerR s) (innerR_pos s)); [exact Htol|]. destruct es; [contradiction|cbn; lia]. }
  apply (concrete_hosvd_eigen_bound true X es Us tolsq Hne Hnd Hle HlU Htol).
  - intros e He. cbv zeta. apply (HUs e He).
  - cbv zeta. fold s.
    apply (sseq_ok_eseq_ok s _ Hb es [] X); auto.
    + split; [constructor|]. intros k U [].
    + intros e He. apply (HUs e He).
Qed.

(* non-vacuity: SEQUENTIAL hosvd of the 2 x 3 array [[3,0,0],[0,1,0]], tol^2 = 1/2, dimorder (1, 0): mode 1 sees X (spectrum 9,1,0 -> rank 1),
   then X is shrunk to the 2 x 1 array [[3],[0]]; mode 0 sees that (spectrum 9,0 -> rank 1); error^2 = 1 <= 5 *)
Definition exEsSeq : list emode := [MkEMode (MkCMode 1 exI3 1) [9; 1; 0]; MkEMode (MkCMode 0 exI2 1) [9; 0]].

Example concrete_hosvd_seq_example :
  let s := [2; 3]%nat in
  let T := mkT (ttm_all 0 Rplus Rmult exX (transposed 0 exUs)) exUs in
  sseq_ok (1 / 2 * nrm2 (dense R) (innerR s) exX / INR (length exEsSeq)) exX exEsSeq /\
  dshape (shrinkR exX (MkEMode (MkCMode 1 exI3 1) [9; 1; 0])) = [2; 1]%nat /\
  nrm2 (dense R) (innerR s) (subR s exX (tfull_ttm 0 Rplus Rmult T)) <= 1 / 2 * nrm2 (dense R) (innerR s) exX.
Proof.
  intros s T.
  assert (Hn : nrm2 (dense R) (innerR s) exX = 10) by (unfold nrm2, innerR, dinner; cbn; lra).
  assert (O2 : orthocolsR 2 2 exI2).
  { intros j l Hj Hl. destruct j as [|[|j]], l as [|[|l]]; try lia; cbn; lra. }
  assert (R2 : orthorowsR 2 exI2).
  { intros j l Hj Hl. destruct j as [|[|j]], l as [|[|l]]; try lia; cbn; lra. }
  assert (O3 : orthocolsR 3 3 exI3).
  { intros j l Hj Hl. destruct j as [|[|[|j]]], l as [|[|[|l]]]; try lia; cbn; lra. }
  assert (R3 : orthorowsR 3 exI3).
  { intros j l Hj Hl. destruct j as [|[|[|j]]], l as [|[|[|l]]]; try lia; cbn; lra. }
  assert (E1 : eigen_eq s 1 exX exI3 [9; 1; 0]).
  { intros a j Ha Hj. cbn in Ha, Hj. destruct a as [|[|[|a]]], j as [|[|[|j]]]; try lia; unfold gramR, gram_spec; cbn; lra. }
  set (e1 := MkEMode (MkCMode 1 exI3 1) [9; 1; 0]).
  assert (Hsh : dshape (shrinkR exX e1) = [2; 1]%nat) by reflexivity.
  assert (E0 : eigen_eq [2; 1]%nat 0 (shrinkR exX e1) exI2 [9; 0]).
  { intros a j Ha Hj. cbn in Ha, Hj. destruct a as [|[|a]], j as [|[|j]]; try lia; unfold gramR, gram_spec; cbn; lra. }
  assert (Hok : sseq_ok (1 / 2 * nrm2 (dense R) (innerR s) exX / INR (length exEsSeq)) exX exEsSeq).
  { rewrite Hn. replace (1 / 2 * 10 / INR (length exEsSeq)) with (5 / 2) by (cbn; lra).
    cbn [sseq_ok exEsSeq]. fold e1. split; [|split; [|exact I]].
    - unfold emode_ok. cbn [em_c em_mu cm_k cm_W cm_r nth e1]. change (dshape exX) with s.
      split; [cbn; lia|]. split; [exact O3|]. split; [exact R3|]. split; [reflexivity|]. split; [exact E1|].
      apply auto_rank_1; [cbn; lra|repeat constructor; lra|cbn; lra].
    - rewrite Hsh. unfold emode_ok. cbn [em_c em_mu cm_k cm_W cm_r nth].
      split; [cbn; lia|]. split; [exact O2|]. split; [exact R2|]. split; [reflexivity|]. split; [exact E0|].
      apply auto_rank_1; [cbn; lra|repeat constructor; lra|cbn; lra]. }
  split; [exact Hok|]. split; [exact Hsh|].
  apply (concrete_hosvd_seq_bound exX exEsSeq exUs (1 / 2)).
  - discriminate.
  - cbn. repeat constructor; cbn; intuition lia.
  - reflexivity.
  - reflexivity.
  - lra.
  - intros e [<-|[<-|[]]]; cbn; repeat split; reflexivity.
  - exact Hok.
Qed.
