(* Model/C02SpMore.v — further sparse kernels of pyttb/sptensor.py at the level of the coordinate list (stored subscripts and values):
   ttm (one mode), collapse (sum), contract, scale, mask.  As for sptensor.ttv (Model/C02SpKernels.v) a result assembled by
   accumarray / from_aggregator / a scipy product is given by its value at each output subscript (the sum of the contributions
   with that subscript); scale and mask, which re-use the stored subscripts, are given as stored lists.
   Definitions only; proofs in Proofs/C02SpMoreProofs.v. *)
From Coq Require Import List Arith Lia Bool.
From PV Require Import Base.Index Base.Perm Base.Sum Np.Array Model.Sparse Model.Repr Model.C02Spec.
Import ListNotations.

Section SpM.
Context {V : Type} (v0 v1 : V) (vadd vmul : V -> V -> V) (isz : V -> bool).
Local Notation "x + y" := (vadd x y).
Local Notation "x * y" := (vmul x y).

(* sptensor.ttv over SEVERAL modes at once (sptensor.py:1996-2044): dims sorted, vs[k] the vector for mode dims[k];
     for n, dims_n in enumerate(dims): newvals = newvals * w_n[subs[:, dims_n]];   newsubs = subs[:, remdims];
   then np.sum (no mode left), accumarray (one mode left) or from_aggregator: the sum of the scaled values with equal projected
   subscripts.  The result is given by its value at each output subscript; both containers of the 50% switch denote it. *)
Fixpoint pprod (pairs : list (nat * list V)) (j : idx) : V :=
  match pairs with
  | [] => v1
  | (m, v) :: r => nth (nth m j 0) v v0 * pprod r j
  end.
Definition impl_ttv_sp (S : sparse V) (dims : list nat) (vs : list (list V)) (i' : idx) : V :=
  let rem := compl (length (sshape S)) dims in
  sum_over v0 vadd (entries S)
    (fun e => if idx_eqb (pick 0 rem (fst e)) i' then snd e * pprod (combine dims vs) (fst e) else v0).

(* sptensor.ttm, one mode n (sptensor.py:3550-3590): Xnt = self.to_sptenmat([n], "t") (rows: the other modes, columns: mode n);
   Z = Xnt.double().dot(matrices.T): Z[row, j] = Σ over the stored entries in that row of val * U[j, sub_n]  (U transposed first
   when transpose=True); folded back with mode n replaced by j *)
Definition impl_ttm_sp (S : sparse V) (n : nat) (U : @matrix V) (tr : bool) (i : idx) : V :=
  sum_over v0 vadd (entries S)
    (fun e => if idx_eqb (remove_at n (fst e)) (remove_at n i)
              then (if tr then mget v0 U (nth n (fst e) 0) (nth n i 0) else mget v0 U (nth n i 0) (nth n (fst e) 0)) * snd e
              else v0).

(* sptensor.collapse with the default reducer sum (sptensor.py:445): every mode: sum(vals); one mode left: accumarray(subs[:, rem],
   vals); otherwise from_aggregator(subs[:, remdims], vals): the sum of the values with equal projected subscripts *)
Definition impl_collapse_sp (S : sparse V) (dims : list nat) (i' : idx) : V :=
  let rem := compl (length (sshape S)) dims in
  sum_over v0 vadd (entries S) (fun e => if idx_eqb (pick 0 rem (fst e)) i' then snd e else v0).

(* sptensor.contract (sptensor.py:519): the stored entries on the diagonal subs[:, i0] == subs[:, i1], projected onto the remaining
   modes and summed (from_aggregator; sum(vals[tfidx]) for a matrix; nothing stored: 0 / an empty sptensor) *)
Definition impl_contract_sp (S : sparse V) (i1 i2 : nat) (i' : idx) : V :=
  let rem := compl (length (sshape S)) [i1; i2] in
  sum_over v0 vadd (entries S)
    (fun e => if Nat.eqb (nth i1 (fst e) 0) (nth i2 (fst e) 0) && idx_eqb (pick 0 rem (fst e)) i' then snd e else v0).

(* sptensor.scale (sptensor.py:1680): newvals = vals * factor[subs[:, dims]]; keep = newvals != 0;
   sptensor(subs[keep], newvals[keep], shape).  g is the array the factor denotes (tensor, sptensor or 1-d ndarray) *)
Definition impl_scale_sp (S : sparse V) (dims : list nat) (g : idx -> V) : sparse V :=
  let es := filter (fun e => negb (isz (snd e)))
              (map (fun e => (fst e, snd e * g (pick 0 dims (fst e)))) (entries S)) in
  mkSp (sshape S) (map fst es) (map snd es).

(* sptensor.mask (sptensor.py:1223): valid, idx = tt_ismember_rows(wsubs, self.subs); vals = zeros; vals[valid] = self.vals[idx[valid]] *)
Fixpoint find_row (w : idx) (subs : list idx) : option nat :=
  match subs with
  | [] => None
  | r :: subs' => if idx_eqb r w then Some 0 else option_map S (find_row w subs')
  end.
Definition impl_mask_sp (S : sparse V) (wsubs : list idx) : list V :=
  map (fun w => match find_row w (ssubs S) with Some k => nth k (svals S) v0 | None => v0 end) wsubs.

End SpM.
