(* Model/C07W5.v — fifth wave: the statements that /repo b27c529 and 9c8fdd5 put in front of sptensor.reshape / sptensor.permute
   (N-C07-3, N-C07-4, N-C07-5 repaired), transliterated, and boolean orders on the five holders.
   Source anchors (pyttb/sptensor.py reshape):
     old_modes is None -> old_modes = arange(ndims); keep_modes = []
     else old_modes = np.atleast_1d(old_modes);
          if np.any(old_modes < 0) or np.any(old_modes >= self.ndims): assert False        (b27c529)
          keep_modes = setdiff1d(arange(ndims), old_modes)
     new_shape = parse_shape(new_shape); if any(d < 0 for d in new_shape): assert False    (b27c529)
     size check; subs.size == 0 branch; tt_sub2ind / tt_ind2sub (Model/C07Gen.v reshape_sp_gen over the GENERATED helpers)
   pyttb/sptensor.py permute: `order.dtype == bool` -> "Invalid permutation order" (9c8fdd5); tensor.permute / ttensor.permute:
   np.transpose refuses booleans as axes (the `(order == 1).all()` shortcut of a one-mode tensor still answers order [True]);
   ktensor.permute indexes a Python list with the entries and sorts order.tolist(): True / False are read as 1 / 0.
   Definitions only; proofs in Proofs/C07W5.v. *)
From Coq Require Import List ZArith Arith Bool.
From PV Require Import Base.Index Base.Perm Np.NpZ Np.NpZ2 Np.NpZ3 Np.NpZ3b Gen.GenUtils Gen.GenUtils3b Np.Array Model.Sparse
  Model.Repr Model.C07Ops Model.C07Ops2 Model.C07Gen Model.C07Req.
Import ListNotations.

(* np.any(old_modes < 0) or np.any(old_modes >= ndims) *)
Definition bad_modes (N : nat) (oldz : list Z) : bool :=
  existsb (fun z => (z <? 0)%Z) oldz || existsb (fun z => (Z.of_nat N <=? z)%Z) oldz.

Section W5.
Context {V : Type} (v0 : V).

(* sptensor.reshape(new_shape, old_modes) as written; old_modes = None is the default *)
Definition reshape_sp_code (S : sparse V) (x : pyshp) (oldz : option (list Z)) : res (sparse V) :=
  let N := length (sshape S) in
  match (match oldz with
         | None => Ok (seq 0 N)
         | Some l => if bad_modes N l then Err else Ok (map Z.to_nat l)
         end) with
  | Err => Err
  | Ok old =>
      bind (parse_shape x) (fun nz =>
        if existsb (fun d => (d <? 0)%Z) nz then Err
        else match nz with
             | [] => Err        (* numpy: np.unravel_index refuses a 0-d target; np.concatenate((keep_shape, ())) is a float
                                   array, which the constructor refuses as a shape *)
             | _ => reshape_sp_gen S (map Z.to_nat nz) old
             end)
  end.

(* sptensor.squeeze as the property demands it on EVERY shape: like tensor.squeeze after 649a706 a mode of size 0 is no singleton
   and is kept (a sparse tensor with a size-0 mode comes out of tensor.to_sptensor(); the constructor refuses such a shape when
   it validates).  On positive sizes this is squeeze_sp of Model/C07Ops.v; pyttb's sptensor.squeeze up to /repo 6e4bb42 tests
   `shape > 1` (squeeze_sp_impl of Model/C07Impl.v: finding N-C07-7), the repaired text `shape != 1` (squeeze_sp_impl_ne of Model/C07Gen4.v) *)
Definition squeeze_sp_any (S : sparse V) : sq_res (V:=V) (sparse V) :=
  let s := sshape S in
  if forallb (fun d => negb (Nat.eqb d 1)) s then SqT S
  else match sqn s s with
       | [] => SqScalar (den_sp v0 S (repeat 0 (length s)))
       | s' => SqT (mkSp s' (map (sqn s) (ssubs S)) (svals S))
       end.

(* ---------------- boolean orders (np.array([True, False]), [True, False], (False, True), np.array(True)) *)
Definition nd_is_bool (a : ndarr) : bool := match nd_kind a with DBool => true | _ => false end.

(* parse_one_d(order) is a one-dimensional boolean array: its entries as 1 / 0 *)
Definition bool_order_of (x : pyshp) : option (list Z) :=
  match parse_one_d x with
  | Ok a => if nd_is_bool a && (nd_ndim a =? 1)%Z then Some (nd_ints a) else None
  | Err => None
  end.

(* sptensor.permute, ttensor.permute (dense or sparse core): a boolean order never reaches a result — these are
   permute_sp_req / permute_t_req / permute_st_req of Model/C07Req.v (order_of admits integer arrays only) *)

(* tensor.permute: the sort test is passed by mixed truth values, np.transpose then refuses the axes; only the one-mode
   shortcut `self.ndims == 1 and (order == 1).all()` returns (True == 1) *)
Definition permute_d_req5 (T : dense V) (x : pyshp) : option (dense V) :=
  match bool_order_of x with
  | Some pz => if Nat.eqb (length (dshape T)) 1 && Nat.eqb (length pz) 1 && forallb (Z.eqb 1) pz then Some T else None
  | None => permute_d_req v0 T x
  end.

(* ktensor.permute: `tuple(range(ndims)) != tuple(sorted(order.tolist()))` compares True / False as 1 / 0 and
   `self.factor_matrices[i]` indexes with them: the order is read as integers *)
Definition order_of_k (x : pyshp) : option (list Z) :=
  match bool_order_of x with Some pz => Some pz | None => order_of x end.
Definition permute_k_req5 (K : ktensor V) (x : pyshp) : option (ktensor V) :=
  match order_of_k x with Some pz => with_order_z (permute_k K) pz | None => None end.

End W5.
