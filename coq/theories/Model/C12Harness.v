(* Model/C12Harness.v — Z instances of the GCP evaluation model and the polynomial (loss, derivative) pairs
   used by the generated correspondence cases (integer data stay exact in float64). *)
From Coq Require Import List ZArith Bool Arith.
From PV Require Import Base.Index Base.Sum Np.Array Model.Sparse Model.Repr Model.Harness Model.C12Gcp.
Import ListNotations.
Local Open Scope Z_scope.

(* polynomial loss / derivative pairs, by number (the same table is in tools/props/c12.py) *)
Definition zf (id : nat) (x m : Z) : Z :=
  match id with
  | 0%nat => (m - x) * (m - x)
  | 1%nat => m * m * m - 3 * x * m
  | 2%nat => x * m * m + m
  | _ => m
  end.
Definition zg (id : nat) (x m : Z) : Z :=
  match id with
  | 0%nat => 2 * (m - x)
  | 1%nat => 3 * m * m - 3 * x
  | 2%nat => 2 * x * m + 1
  | _ => 1
  end.

Definition zeval_F (id : nat) := eval_F 0 1 Z.add Z.mul (zf id).
Definition zeval_G (id : nat) := eval_G 0 1 Z.add Z.mul (zg id).
Definition zest_F (id : nat) := est_F 0 1 Z.add Z.mul Z.sub (zf id).
Definition zest_G (id : nat) := est_G 0 1 Z.add Z.mul Z.sub (zg id).
Definition zmttkrp := mttkrp_den (V:=Z) 0 1 Z.add Z.mul.
Definition zmttkrps (T : dense Z) (As : list (list (list Z))) (R : nat) : list (list (list Z)) :=
  map (zmttkrp (dshape T) (den_dense 0 T) As R) (seq 0 (length (dshape T))).
Definition mats_eqb := list_eqb mat_eqb.
