(* Proofs/C12Wrap.v — the statements of Props/C12.v whose proofs are not a single library lemma (a conjunction of two lemmas,
   an instance, the unfolding of a definition): proved here so that Props/C12.v contains only `exact <lemma>` (audit B2). *)
From Coq Require Import Reals Lra List ZArith.
Set Warnings "-ambiguous-paths".
From Coquelicot Require Import Coquelicot.
From PV Require Import Np.NpR Gen.GenHandles Proofs.C12Handles.
From PV Require Import Base.Index Base.Sum Np.Array Model.Repr Model.C12Gcp Proofs.C12Tensor Proofs.C12TensorR Proofs.C12Setup Proofs.C12GenTie Proofs.C12Lambda.
From PV Require Gen.GenFgSetup.
Import List.
Import ListNotations.
Local Open Scope R_scope.

Section Wrap.
Variable V : Type.
Variables (v0 v1 : V) (vadd vmul vsub : V -> V -> V) (vopp : V -> V).
Hypothesis Vring : ring_theory v0 v1 vadd vmul vsub vopp (@eq V).

(* the model of fg.evaluate's objective IS the (optionally weighted) sum of the loss over all entries of the data array;
   the content of the clause is the correspondence of eval_F with fg.evaluate (ops evaluate / evaluate_struct / estimate_full) *)
Lemma eval_F_is_weighted_sum : forall (f : V -> V -> V) (K : ktensor V) (X : dense V) (w : option (dense V)),
  eval_F v0 v1 vadd vmul f K X w =
  sum_over v0 vadd (allsubs (dshape X))
    (fun i => vmul (f (den_dense v0 X i) (den_k v0 v1 vadd vmul K i)) (wget v0 v1 w i)).
Proof. reflexivity. Qed.

Lemma estimate_exact_FG : forall (f g : V -> V -> V) (As : list (list (list V))) (R : nat) (X : dense V),
  wf_dense X -> dshape X = map nrows As ->
  est_F v0 v1 vadd vmul vsub f As R (allsubs (dshape X)) (ddata X) (repeat v1 (size (dshape X))) nil =
    eval_F v0 v1 vadd vmul f (mkK (repeat v1 R) As) X None /\
  est_G v0 v1 vadd vmul vsub g As R (allsubs (dshape X)) (ddata X) (repeat v1 (size (dshape X))) nil (dshape X) =
    eval_G v0 v1 vadd vmul g (mkK (repeat v1 R) As) X None.
Proof.
  intros f g As R X W E.
  exact (conj (estimate_exact_F V v0 v1 vadd vmul vsub vopp Vring f As R X W E)
              (estimate_exact_G V v0 v1 vadd vmul vsub vopp Vring g As R X W E)).
Qed.

Lemma lambda_exact_FG : forall (f g : V -> V -> V) (cs : list (list V)) (As : list (list (list V))) (lam : list V),
  length cs = length As -> (forall r, (r < length lam)%nat -> cprod V v0 v1 vmul cs r = nth r lam v0) ->
  forall X : dense V, wf_dense X -> dshape X = map nrows As ->
  est_F v0 v1 vadd vmul vsub f (scale_all V vmul cs As) (length lam) (allsubs (dshape X)) (ddata X) (repeat v1 (size (dshape X))) nil =
    eval_F v0 v1 vadd vmul f (mkK lam As) X None /\
  est_G v0 v1 vadd vmul vsub g (scale_all V vmul cs As) (length lam) (allsubs (dshape X)) (ddata X) (repeat v1 (size (dshape X))) nil
        (dshape X) =
    map (mttkrp_den v0 v1 vadd vmul (dshape X) (eval_Y v0 v1 vadd vmul g (mkK lam As) X None) (scale_all V vmul cs As) (length lam))
        (seq 0 (length (dshape X))).
Proof.
  intros f g cs As lam Hc Hp X HX Hs.
  exact (conj (lambda_exact_F V v0 v1 vadd vmul vsub vopp Vring f cs As lam Hc Hp X HX Hs)
              (lambda_exact_G V v0 v1 vadd vmul vsub vopp Vring g cs As lam Hc Hp X HX Hs)).
Qed.
End Wrap.

Lemma eval_gradient_poisson : forall (K : ktensor R) (X : dense R) (w : option (dense R)) (k j r : nat),
  (forall i, inb (kshape K) i = true -> 0 <= den_k 0 1 Rplus Rmult K i) ->
  (forall q, (q < krank K)%nat -> nth q (kweights K) 0 = 1) ->
  wf_k K -> (k < length (kfactors K))%nat -> (j < nrows (nth k (kfactors K) nil))%nat -> (r < krank K)%nat ->
  dshape X = kshape K ->
  is_derive (fun t => eval_F 0 1 Rplus Rmult poisson (kset R K k (mset (nth k (kfactors K) nil) j r t)) X w)
            (mget 0 (nth k (kfactors K) nil) j r)
            (mget 0 (nth k (eval_G 0 1 Rplus Rmult poisson_grad K X w) nil) j r).
Proof. intros K X w k j r. exact (eval_gradient_lb 0 poisson poisson_grad K X w k j r (fun x m H => poisson_deriv x m H)). Qed.

Lemma setup_table_full :
  map bounded_below objectives = [false; true; false; true; false; true; true; false; true; true] /\
  map data_check objectives = [AnyData; Binary; Binary; Natural; Natural; Positive; Positive; AnyData; Positive; Positive] /\
  map needs_param objectives = [false; false; false; false; false; false; false; true; true; true] /\
  (forall d h, value_ok d false h = true -> valid_value d (IZR h / 2)).
Proof. exact (conj (proj1 setup_bounds_table) (conj (proj1 (proj2 setup_bounds_table)) (conj (proj2 (proj2 setup_bounds_table)) value_ok_sound))). Qed.

Lemma setup_table_generated_full : forall o p,
  (match GenFgSetup.setup (to_gen o) None (Some p) with
   | Some (fh, gh, lb) =>
       (forall x m, fh x m = loss o p x m) /\ (forall x m, gh x m = grad o p x m) /\
       lb = (if bounded_below o then GenFgSetup.Finite 0 else GenFgSetup.NegInf)
   | None => False
   end /\ (GenFgSetup.setup (to_gen o) None None = None <-> needs_param o = true)) /\
  (forall d : GenFgSetup.datachk,
     GenFgSetup.setup (to_gen o) (Some d) (Some p) = None <->
     match data_check o with
     | AnyData => true | Binary => GenFgSetup.valid_binary d | Natural => GenFgSetup.valid_natural d
     | Positive => GenFgSetup.valid_nonneg d
     end = false).
Proof. exact (fun o p => conj (hand_table_is_generated o p) (hand_data_check_is_generated o p)). Qed.
