(* Model/C08Inst3.v — wave 3b: Qc / Z instances of the literal column loop of fixsigns(other) (Model/C08Loop.v) and the
   exact comparer used by the generated cases (loop result = one-shot model result, entry by entry). *)
From Coq Require Import List ZArith QArith Qabs Qcanon Bool Arith.
From PV Require Import Base.Index Base.Perm Base.Sum Np.Array Model.Sparse Model.Repr Model.Harness Model.C08Kruskal
  Model.C08Inst Model.C08More Model.C08Inst2 Model.C08Loop.
Import ListNotations.

(* fixsigns(other): self.normalize(); other.copy().normalize(); the loop *)
Definition qk_py_fixsigns_other (A B : ktensor Qc) : ktensor Qc :=
  py_fixsigns_other_core q0 q1 Qcplus Qcmult Qcopp q_neg qleb
    (qk_normalize 2 WNone false None A) (qk_normalize 2 WNone false None B).
(* exact equality of two Kruskal tensors over Qc *)
Definition qk_eqb (A B : ktensor Qc) : bool :=
  list_eqb Qc_eq_bool (kweights A) (kweights B) && list_eqb (list_eqb (list_eqb Qc_eq_bool)) (kfactors A) (kfactors B).
(* the loop on already normalised integer operands (no division) *)
Definition zk_py_fso_core := @py_fixsigns_other_core Z 0%Z 1%Z Z.add Z.mul Z.opp (fun x => Z.ltb x 0) Z.leb.
Definition zk_fso_core := @k_fixsigns_other_core Z 0%Z 1%Z Z.add Z.mul Z.opp (fun x => Z.ltb x 0) Z.leb.

(* ---- comparers for inputs scaled by 2^-k / 2^k (magnitudes 1e-7 .. 1e7): the absolute floor of qclose (tol * max(1,|x|))
        is meaningless there.
        qrclose : purely relative, |obs - exact| <= 1e-9 * |exact|  (raw weights / factor entries: products and quotients only)
        m-close : relative to the largest magnitude of the compared vector / matrix / array (sums, where cancellation occurs) *)
Definition qrclose (obs exact : Qc) : bool := qleb (qabs (obs - exact)) (tol9 * qabs exact).
Definition qv_rclose (a b : list Qc) : bool := list_eqb qrclose a b.
Definition qmats_rclose (A B : list (list (list Qc))) : bool := list_eqb (list_eqb qv_rclose) A B.
Definition qk_rclose (A B : ktensor Qc) : bool := qv_rclose (kweights A) (kweights B) && qmats_rclose (kfactors A) (kfactors B).
Definition qmax_abs (l : list Qc) : Qc := fold_left qmax (map qabs l) q0.
Definition qmclose (m obs exact : Qc) : bool := qleb (qabs (obs - exact)) (tol9 * m).
Definition qv_mclose (a b : list Qc) : bool := list_eqb (qmclose (qmax_abs b)) a b.
Definition qmat_mclose (A B : list (list Qc)) : bool := list_eqb (list_eqb (qmclose (qmax_abs (concat B)))) A B.
Definition qk_mclose (A B : ktensor Qc) : bool := qv_mclose (kweights A) (kweights B) && list_eqb qmat_mclose (kfactors A) (kfactors B).
Definition all_idx (s : shape) : list idx := map (ind2sub s) (seq 0 (size s)).
(* the array denoted by the observed B is the array denoted by A, relative to its largest entry *)
Definition qk_den_mclose (s : shape) (A B : ktensor Qc) : bool :=
  nvec_eqb (kshape A) s && nvec_eqb (kshape B) s &&
  (let ea := map (qden_k A) (all_idx s) in qv_mclose (map (qden_k B) (all_idx s)) ea).
Definition qk_den_mrel (s : shape) (f : idx -> Qc) (O : ktensor Qc) : bool :=
  nvec_eqb (kshape O) s && qv_mclose (map (qden_k O) (all_idx s)) (map f (all_idx s)).
Definition qk_sorted_of_r (post : ktensor Qc -> ktensor Qc) (M O : ktensor Qc) : bool :=
  existsb (fun p => let G := qk_gather p M in q_desc_exact (kweights G) && qk_rclose (post G) O) (perms_of (seq 0 (krank M))).
Definition qk_sorted_pick_r (post : ktensor Qc -> ktensor Qc) (M O : ktensor Qc) : ktensor Qc :=
  match find (fun p => let G := qk_gather p M in q_desc_exact (kweights G) && qk_rclose (post G) O) (perms_of (seq 0 (krank M))) with
  | Some p => post (qk_gather p M)
  | None => post M
  end.
