(* Model/C11GenMu.v — the translator-GENERATED control-flow skeleton of pyttb/cp_apr.py::tt_cp_apr_mu (Gen/GenCpAprMu.v, regenerated from
   /repo on every run by tools/pyx2v_skel.py) with every numeric kernel instantiated by the executable operations of the C11 model
   (Model/C11Apr.v: redistribute, normalize_mode, kkt_mode, the Khatri-Rao product kprod / the Phi formula of calc_phi, maxlist).
   Value-generic (division, scaling, |.|, min, max, comparisons are parameters as in Model/C11Apr.v); the wall clock is an arbitrary
   state machine [clock : W -> W * V]; the logarithm of the objective is an arbitrary function.

   kernel                      Python text (cp_apr.py)                                         instance
   k_normalize                 M.normalize(normtype=1)                                          gk_normalize        every mode in turn
   k_zeros_like_factor         np.zeros(M.factor_matrices[n].shape)                             gk_zeros
   k_violation_mask            (Phi[n] > 0) & (M.factor_matrices[n] < kappatol)                 gk_mask             boolean matrix
   k_any                       np.any(V)                                                        gk_any
   k_add_kappa                 M.factor_matrices[n][V > 0] += kappa                             gk_add_kappa
   k_redistribute              M.redistribute(mode=n)                                           gk_redistribute     = C11Apr.redistribute
   k_calculate_pi              calculate_pi(input_tensor, M, rank, n, N)                        gk_pi               the other factors (Pi[i, r] = kprod)
   k_calculate_phi             calculate_phi(input_tensor, M, rank, n, Pi, epsDivZero)          gk_phi              formula of C11Apr.calc_phi, Pi as GIVEN
   k_kkt_mode                  np.max(np.abs(vectorize_for_mu(np.minimum(M[n], 1 - Phi[n]))))   gk_kkt              = C11Apr.kkt_mode
   k_mult_update               M.factor_matrices[n] *= Phi[n]                                   gk_mult
   k_normalize_mode            M.normalize(normtype=1, mode=n)                                  gk_normalize_mode   = C11Apr.normalize_mode
   k_max                       np.max(kktModeViolations)                                        maxlist
   k_normalize_sort            M.normalize(sort=True, normtype=1)                               gk_normalize_sort   every mode, then components by
                                                                                                                     descending weight (argsort()[::-1])
   k_loglikelihood             tt_loglikelihood(input_tensor, M)                                parameter
   c_leF a b                   a <= b                                                           negb (vltb b a)
   Not modelled: the sign flip of ktensor.normalize for negative weights (no-op for the non-negative models of C11). *)
From Coq Require Import String List Arith Lia Bool.
From PV Require Import Base.Index Base.Sum Np.Array Model.Sparse Model.Repr Model.C14Nvecs Model.C11Apr Model.W4SPrelude Gen.GenCpAprMu.
Import ListNotations.

Section GenMU.
Context {V : Type} (v0 v1 : V) (vadd vmul vsub : V -> V -> V).
Variable vdivmax_e : V -> V -> V -> V.      (* eps x v  |->  x / np.maximum(v, eps) *)
Variable vscale : V -> V -> V.
Variable vabs : V -> V.
Variable vmin vmax : V -> V -> V.
Variable vgt0 : V -> bool.
Variable vltb : V -> V -> bool.
Variable W : Type.
Variable clock : W -> W * V.                (* time.time() *)
Variable vloglik : dense V -> ktensor V -> V.
Notation matrix := (list (list V)).
Notation mg := (mget v0).

Definition pack (M : ktensor V) (Phi : list matrix) (km : list V) (cv : bool) : @state V := mkSt (kweights M) (kfactors M) Phi km cv.
Definition K_of (s : @state V) : ktensor V := mkK (sw s) (sA s).
Definition kfac (M : ktensor V) (n : nat) : matrix := nth n (kfactors M) [].

Definition gk_normalize_mode (M : ktensor V) (n nt : nat) : ktensor V := K_of (normalize_mode v0 vadd vmul vscale vabs n (pack M [] [] true)).
Definition gk_normalize (M : ktensor V) (nt : nat) : ktensor V :=
  fold_left (fun K n => gk_normalize_mode K n nt) (seq 0 (length (kfactors M))) M.
Definition gk_zeros (M : ktensor V) (n : nat) : matrix := mtab (length (kfac M n)) (krank M) (fun _ _ => v0).
Definition gk_mask (Phi : list matrix) (n : nat) (M : ktensor V) (kappatol : V) : list (list bool) :=
  map (fun a => map (fun r => vgt0 (mg (nth n Phi []) a r) && vltb (mg (kfac M n) a r) kappatol) (seq 0 (krank M))) (seq 0 (length (kfac M n))).
Definition gk_any (m : list (list bool)) : bool := existsb (existsb (fun b => b)) m.
Definition gk_add_kappa (M : ktensor V) (n : nat) (Vm : list (list bool)) (kappa : V) : ktensor V :=
  mkK (kweights M) (upd (kfactors M) n (mtab (length (kfac M n)) (krank M)
        (fun a r => if nth r (nth a Vm []) false then vadd (mg (kfac M n) a r) kappa else mg (kfac M n) a r))).
Definition gk_redistribute (M : ktensor V) (n : nat) : ktensor V := K_of (redistribute v0 v1 vmul n (pack M [] [] true)).
Definition gk_pi (X : dense V) (M : ktensor V) (rank n N : nat) : list matrix := remove_nth n (kfactors M).
(* Phi = (Xn / max(A Pi^T, eps)) Pi  with the rows of Pi indexed by the subscripts of the remaining modes *)
Definition phi_of (eps : V) (X : dense V) (n : nat) (A : matrix) (R : nat) (Pi : list matrix) : matrix :=
  mtab (length A) R (fun a r =>
    sum_over v0 vadd (allsubs (remove_nth n (dshape X))) (fun i =>
      vmul (vdivmax_e eps (den_dense v0 X (insert_at n a i)) (sum_n v0 vadd R (fun s => vmul (mg A a s) (kprod v0 v1 vmul Pi i s))))
           (kprod v0 v1 vmul Pi i r))).
Definition gk_phi (w : W) (X : dense V) (M : ktensor V) (rank n : nat) (Pi : list matrix) (eps : V) : W * matrix :=
  (w, phi_of eps X n (kfac M n) (krank M) Pi).
Definition gk_kkt (M : ktensor V) (n : nat) (Phi : list matrix) : V :=
  kkt_mode v0 v1 vsub vabs vmin vmax (kfac M n) (nth n Phi []) (krank M).
Definition gk_mult (M : ktensor V) (n : nat) (Phi : list matrix) : ktensor V :=
  mkK (kweights M) (upd (kfactors M) n (mtab (length (kfac M n)) (krank M) (fun a r => vmul (mg (kfac M n) a r) (mg (nth n Phi []) a r)))).
(* np.argsort(weights)[::-1] for fewer than 17 components (numpy sorts those by insertion: stable) *)
Fixpoint ins_asc (w : list V) (k : nat) (p : list nat) : list nat :=
  match p with
  | [] => [k]
  | j :: p' => if vltb (nth k w v0) (nth j w v0) then k :: j :: p' else j :: ins_asc w k p'
  end.
Definition argsort_asc (w : list V) : list nat := fold_left (fun p k => ins_asc w k p) (seq 0 (length w)) [].
Definition arrange (M : ktensor V) (p : list nat) : ktensor V :=
  mkK (map (fun r => nth r (kweights M) v0) p) (map (fun A => map (fun row => map (fun r => nth r row v0) p) A) (kfactors M)).
Definition gk_normalize_sort (M : ktensor V) (nt : nat) (srt : bool) : ktensor V :=
  let M1 := gk_normalize M nt in
  if srt && (1 <? krank M1) then arrange M1 (rev (argsort_asc (kweights M1))) else M1.
Definition g_leF (a b : V) : bool := negb (vltb b a).

Definition gen_mu := GenCpAprMu.cp_apr_mu W V matrix (list (list bool)) (ktensor V) (dense V) (list matrix)
  g_leF v0 (vsub v0 v1) vsub gk_normalize gk_zeros clock gk_mask gk_any gk_add_kappa gk_redistribute gk_pi gk_phi gk_kkt gk_mult
  gk_normalize_mode (maxlist v0 vmax) gk_normalize_sort vloglik.
End GenMU.
