(* Props/C04Gen.v — C04, wave 3b + wave 4 (all modes, dispatcher): the sparse region read of the hand model (Model/C04Model.v) stated over the functions the
   translator GENERATES from /repo/pyttb/pyttb_utils.py (Gen/GenUtils3.v, regenerated on every run).
   Only statements, `exact`, Print Assumptions (+ a concrete non-vacuity example). *)
From Coq Require Import List Arith ZArith Bool.
From PV Require Import Base.Index Np.NpZ Np.NpZ2 Np.NpZ3 Gen.GenUtils3 Model.W3Utils.
From PV Require Import Np.Array Model.Sparse Model.C04Model Proofs.C04RegionGet Proofs.C04GenBridge Proofs.C04GenRegion Proofs.C04AsIs.
From PV Require Gen.GenUtils Proofs.NpZProofs Proofs.C04GenLinear Model.C04AsIs.
Import ListNotations.

(* one mode of sptensor.__getitem__(region): e = the key element (integer incl. negative, slice with any bounds / step, index
   list), accepted by the specification on a mode of extent d with selection l (elem_indices) that does not repeat an index;
   idx = the stored subscripts of the mode after the subdims filter (all inside l).  The GENERATED tt_renumberdim, called as
   __getitem__ / tt_renumber call it (zkey: negative integers already normalised), returns exactly the position of every
   subscript inside the selection (index_of, what the model's renumber / renumber_all / sp_region_get use) and the extent of
   the renumbered mode (len l; 0 for an integer: the mode is dropped) *)
Theorem C04_gen_region_read_mode : forall (d : nat) (e : C04Model.kelem) kept (l idx : list nat),
  elem_indices d e = Some (kept, l) -> NoDup l -> (forall x, In x idx -> In x l) ->
  tt_renumberdim (zs idx) (Z.of_nat d) (zkey d e) =
    Ok (zs (map (fun x => index_of0 x l) idx), if kept then Z.of_nat (length l) else 0%Z).
Proof. exact gen_renumberdim_elem. Qed.
Print Assumptions C04_gen_region_read_mode.

(* the same for ANY key entry whose selection, as the reference of the generated text computes it, is a duplicate-free list *)
Theorem C04_gen_renumberdim_is_index_of : forall (d : nat) (nr : pyidx) (l idx : list nat),
  H_selection (Z.of_nat d) nr = Ok (zs l, zlen (zs l)) ->
  NoDup l -> (forall x, In x l -> x < d) -> (forall x, In x idx -> In x l) ->
  tt_renumberdim (zs idx) (Z.of_nat d) nr = Ok (zs (map (fun x => index_of0 x l) idx), Z.of_nat (length l)).
Proof. exact gen_renumberdim_index_of. Qed.
Print Assumptions C04_gen_renumberdim_is_index_of.

(* range(d)[a:b:c]: the Python slice semantics of the specification (C04Model.py_slice) and of the translator's numpy layer
   (NpZ3.py_slice on np.arange(0, d), used by the generated tt_renumberdim) are the same list, for all bounds and steps <> 0 *)
Theorem C04_gen_slice_selection : forall (d : nat) a b c, slice_ok (mkslice a b c) = true ->
  NpZ3.py_slice 0%Z (np_arange 0 (Z.of_nat d)) (mkslice a b c) = zs (C04Model.py_slice d a b c).
Proof. exact gen_slice_selection. Qed.
Print Assumptions C04_gen_slice_selection.

Theorem C04_slice_positions_in_range : forall (d : nat) a b c x, In x (C04Model.py_slice d a b c) -> x < d.
Proof. exact c04_slice_range. Qed.
Print Assumptions C04_slice_positions_in_range.

(* the link to the model: one mode of `renumber` is index_of0 on that mode *)
Theorem C04_renumber_mode : forall kept l ls x p, In x l ->
  renumber ((kept, l) :: ls) (x :: p) =
  match renumber ls p with Some r => Some (if kept then index_of0 x l :: r else r) | None => None end.
Proof. exact renumber_cons. Qed.
Print Assumptions C04_renumber_mode.

(* non-vacuity: a stepped negative slice, an index list in non-monotone order and a negative integer on modes of extent 5 *)
Example C04_gen_region_read_mode_example :
  tt_renumberdim (zs [4; 0; 2]) 5 (zkey 5 (C04Model.KSlice None None (Some (-2)%Z))) = Ok ([0; 2; 1]%Z, 3%Z) /\
  elem_indices 5 (C04Model.KSlice None None (Some (-2)%Z)) = Some (true, [4; 2; 0]) /\
  tt_renumberdim (zs [3; 1; 3]) 5 (zkey 5 (C04Model.KList [3; 0; 1]%Z)) = Ok ([0; 2; 0]%Z, 3%Z) /\
  tt_renumberdim (zs [3; 3]) 5 (zkey 5 (C04Model.KInt (-2)%Z)) = Ok ([0; 0]%Z, 0%Z).
Proof. repeat split; vm_compute; reflexivity. Qed.

(* ---- wave 4: ALL modes ---- *)
(* the mode loop of the GENERATED tt_renumber: for every shape s, every key es the specification accepts on s (integers incl.
   negative, slices with any bounds / step, index lists) whose lists do not repeat an index, and every non-empty list F of
   stored subscripts that passed the subdims filter, tt_renumber called as sptensor.__getitem__ calls it returns, for every
   entry and every mode, the position of the subscript inside the selection of the mode (renum0) and the extents
   (len l; 0 for an integer mode, which the caller drops) *)
Theorem C04_gen_renumber_region : forall (s : shape) (es : list C04Model.kelem) ls (F : list idx),
  region_lists s es = Some ls ->
  Forall (fun kl : bool * list nat => NoDup (snd kl)) ls ->
  F <> [] -> s <> [] ->
  (forall p, In p F -> inside ls p) ->
  tt_renumber (map zs F) (zs s) (zkeys s es) = Ok (map (fun p => zs (renum0 ls p)) F, new_sizes ls).
Proof. exact gen_renumber_region. Qed.
Print Assumptions C04_gen_renumber_region.

(* nothing stored inside the region: tt_renumber only computes sizes; the kept ones are the kept shape *)
Theorem C04_gen_renumber_region_empty : forall (s : shape) (es : list C04Model.kelem) ls,
  region_lists s es = Some ls ->
  tt_renumber [] (zs s) (zkeys s es) = Ok ([], esizes s es) /\ keepc ls (esizes s es) = zs (kept_shape ls).
Proof. exact gen_renumber_region_empty. Qed.
Print Assumptions C04_gen_renumber_region_empty.

(* C04_sparse_region_read over the GENERATED function: take the stored entries that pass the filter (F), renumber their
   subscripts with the generated tt_renumber, keep the columns / sizes of the kept modes (subs[:, kpdims], shape[kpdims]) and
   carry the values along: that object is the model's sp_region_get S es, has the kept shape and holds at EVERY subscript j
   inside it what S holds at the position j selects.  Value type, shape, number of modes and stored order arbitrary *)
Theorem C04_gen_sparse_region_read : forall {V : Type} (v0 : V) (S : sparse V) es ls ns nsh,
  region_lists (sshape S) es = Some ls ->
  Forall (fun x : bool * list nat => NoDup (snd x)) ls ->
  sshape S <> [] ->
  let F := filter (fun e : idx * V => insideb ls (fst e)) (entries S) in
  F <> [] ->
  tt_renumber (map zs (map fst F)) (zs (sshape S)) (zkeys (sshape S) es) = Ok (ns, nsh) ->
  let R := mkSp (unzs (keepc ls nsh)) (map (fun r => unzs (keepc ls r)) ns) (map snd F) in
  sp_region_get S es = Some R /\
  sshape R = kept_shape ls /\
  (forall j, inb (kept_shape ls) j = true -> den_sp v0 R j = den_sp v0 S (select ls j)).
Proof. exact @gen_sparse_region_read. Qed.
Print Assumptions C04_gen_sparse_region_read.

(* the filter predicate is region membership *)
Theorem C04_gen_filter_is_region : forall ls p, insideb ls p = true <-> inside ls p.
Proof. exact insideb_spec. Qed.
Print Assumptions C04_gen_filter_is_region.

(* the five key forms of the specification against the GENERATED dispatcher get_index_variant: each is sent to the branch the
   model describes (LINEAR: integer, slice, list of integers, 1-d integer array; SUBSCRIPTS: 2-d integer array; SUBTENSOR:
   tuple); the empty index list is refused by the dispatcher and by the specification *)
Theorem C04_gen_dispatch : forall (k : C04Model.key) as_array te,
  k <> KLinList [] \/ as_array = true ->
  get_index_variant (pykey_of k as_array te) = Ok (variant_of k).
Proof. exact gen_dispatch. Qed.
Print Assumptions C04_gen_dispatch.

Theorem C04_gen_dispatch_empty_list : forall s,
  get_index_variant (pykey_of (KLinList []) false []) = Err /\ resolve_get s (KLinList []) = None.
Proof. exact gen_dispatch_empty_list. Qed.
Print Assumptions C04_gen_dispatch_empty_list.

(* the trigger of the open finding C04-N04 is exact on all-slice keys: OUTSIDE it (every slice has start None or >= 0, stop None
   or > 0, step None or 1) the GENERATED tt_irenumber - the as-is code of sptensor.__setitem__ with a sparse right-hand side -
   sends every stored subscript y of the operand to the position the specification assigns it to (select ls y), for any number
   of modes, stored entries and stored order; a disagreement needs a step or a negative bound *)
Theorem C04_gen_irenumber_unit_slices : forall (s : shape) (es : list C04Model.kelem) ls (Ysubs : list idx) (vals shp : vec),
  forallb unit_sliceb es = true ->
  region_lists s es = Some ls -> Ysubs <> [] -> s <> [] ->
  (forall y, In y Ysubs -> inb (kept_shape ls) y = true) ->
  tt_irenumber (mkspt (map zs Ysubs) vals shp) (zs s) (zkeys s es) = Ok (map (fun y => zs (select ls y)) Ysubs).
Proof. exact asis_agrees_unit_slices. Qed.
Print Assumptions C04_gen_irenumber_unit_slices.

Example C04_gen_irenumber_unit_slices_example :
  tt_irenumber (mkspt (map zs [[1; 0]; [0; 2]]) [7; 8]%Z [2; 3]%Z) (zs [4; 5]) (zkeys [4; 5] [C04Model.KSlice (Some 1%Z) (Some 3%Z) None; C04Model.KSlice (Some 2%Z) None (Some 1%Z)])
  = Ok [[2; 2]; [1; 4]]%Z /\
  select [(true, [1; 2]); (true, [2; 3; 4])] [0; 2] = [1; 4].
Proof. split; vm_compute; reflexivity. Qed.

(* LINEAR keys over the GENERATED tt_ind2sub (Gen/GenUtils.v; tensor.__getitem__ / _set_linear and sptensor.__getitem__ convert
   linear indices with it): for every shape and every linear key the specification accepts - integer, list / 1-d array of
   integers (negative ones count from the end), slice of range(prod(shape)) with any bounds / step - the generated function
   returns exactly the positions of the specification (first index fastest), in the order of the key *)
Theorem C04_gen_linear_positions : forall (s : shape) (k : C04Model.key) os ps,
  C04GenLinear.is_linear k = true -> resolve_get s k = Some (os, ps) ->
  GenUtils.tt_ind2sub (NpZProofs.zs s) (C04GenLinear.lin_indices s k) OrdF = Ok (map NpZProofs.zs ps).
Proof. exact C04GenLinear.gen_linear_positions. Qed.
Print Assumptions C04_gen_linear_positions.

(* an index outside [-size, size) is refused by the generated function and by the specification *)
Theorem C04_gen_linear_rejects : forall (s : shape) (l : list Z),
  (exists z, In z l /\ (Z.of_nat (size s) <= z \/ z < - Z.of_nat (size s))%Z) ->
  GenUtils.tt_ind2sub (NpZProofs.zs s) l OrdF = Err /\ resolve_get s (KLinList l) = None.
Proof. exact C04GenLinear.gen_linear_rejects. Qed.
Print Assumptions C04_gen_linear_rejects.

Example C04_gen_sparse_region_read_example :
  let S := mkSp [4; 3; 5] [[3; 2; 4]; [0; 2; 0]; [1; 1; 4]; [3; 0; 2]] [7; 8; 9; 6]%Z in
  let es := [C04Model.KList [3; 1]%Z; C04Model.KInt (-1); C04Model.KSlice (Some 4%Z) None (Some (-2)%Z)] in
  tt_renumber (map zs [[3; 2; 4]]) (zs [4; 3; 5]) (zkeys [4; 3; 5] es) = Ok ([[0; 0; 0]%Z], [2; 0; 3]%Z) /\
  sp_region_get S es = Some (mkSp [2; 3] [[0; 0]] [7%Z]).
Proof. exact gen_sparse_region_read_example. Qed.

(* INSIDE the trigger the as-is code and the specification differ (open finding C04-N04): the as-is model built from the generated
   tt_irenumber (Model/C04AsIs.v) on the witness S[0, 0:3:2] = <7, 8> puts 8 at (0,1); the specified sparse step puts it at (0,2) *)
Example C04_asis_n04_witness :
  C04AsIs.asis_set (mkSp [2; 3] [[1; 1]; [0; 0]; [0; 2]] [1; 2; 3]%Z) [C04Model.KInt 0; C04Model.KSlice (Some 0%Z) (Some 3%Z) (Some 2%Z)]
           (mkSp [2] [[0]; [1]] [7; 8]%Z)
  = Some (C04AsIs.mkRaw [2; 3]%Z [[1; 1]; [0; 0]; [0; 1]]%Z [1; 7; 8]%Z, false) /\
  option_map fst (step_sparse 0%Z (Z.eqb 0) (mkSp [2; 3] [[1; 1]; [0; 0]; [0; 2]] [1; 2; 3]%Z)
     (OSet (KRegion [C04Model.KInt 0; C04Model.KSlice (Some 0%Z) (Some 3%Z) (Some 2%Z)]) (RValues [7; 8]%Z)))
  = Some (mkSp [2; 3] [[1; 1]; [0; 0]; [0; 2]] [1; 7; 8]%Z).
Proof. split; vm_compute; reflexivity. Qed.
