(* Alg/C13Samplers.v — the GCP samplers with the random draws as INPUTS (DESIGN §C13).
   Source anchors: pyttb/gcp/samplers.py::uniform, nonzeros, zeros, stratified, semistrat.
   A draw u in [0,1) is the exact rational a / D (numpy's doubles: D = 2^53); the products u*d are taken in exact
   arithmetic (the rounding of the float product is not modelled).  Subscripts are integers (Z), as observed.
   All samplers draw subscripts as floor(u*d) (the earlier ceil(u*d)-1 / ceil(u*(d-1)) forms were finding A-48, repaired). *)
From Coq Require Import List ZArith Lia Bool Arith.
From PV Require Import Base.Index Np.Array Model.Sparse.
Import ListNotations.
Local Open Scope Z_scope.

Fixpoint zip2 {A B C} (h : A -> B -> C) (l1 : list A) (l2 : list B) : list C :=
  match l1, l2 with a :: l1', b :: l2' => h a b :: zip2 h l1' l2' | _, _ => [] end.

Lemma zip2_length {A B C} (h : A -> B -> C) l1 l2 : length l1 = length l2 -> length (zip2 h l1 l2) = length l1.
Proof. revert l2; induction l1 as [|a l1 IH]; intros [|b l2] H; cbn in *; try discriminate; auto. Qed.

Definition zshape (s : shape) : list Z := map Z.of_nat s.
Definition zidx (i : idx) : list Z := map Z.of_nat i.
(* all subscripts of a row inside the shape *)
Fixpoint in_rangeZ (s : shape) (row : list Z) : Prop :=
  match s, row with
  | [], [] => True
  | d :: s', x :: row' => 0 <= x < Z.of_nat d /\ in_rangeZ s' row'
  | _, _ => False
  end.
Fixpoint in_rangeZb (s : shape) (row : list Z) : bool :=
  match s, row with
  | [], [] => true
  | d :: s', x :: row' => (0 <=? x) && (x <? Z.of_nat d) && in_rangeZb s' row'
  | _, _ => false
  end.
(* tt_sub2ind on integer rows: first subscript fastest *)
Fixpoint zlin (s : shape) (row : list Z) : Z :=
  match s, row with
  | d :: s', x :: row' => x + Z.of_nat d * zlin s' row'
  | _, _ => 0
  end.

Lemma in_rangeZ_nat s row : in_rangeZ s row -> exists i, row = zidx i /\ inb s i = true.
Proof.
  revert row; induction s as [|d s IH]; intros [|x row] H; cbn in H; try contradiction.
  - exists []. split; reflexivity.
  - destruct H as [Hx Hr]. destruct (IH _ Hr) as (i & -> & Hi).
    exists (Z.to_nat x :: i). split.
    + cbn. now rewrite Z2Nat.id by lia.
    + cbn. rewrite Hi, andb_true_r. apply Nat.ltb_lt. lia.
Qed.

Lemma zlin_nat s i : inb s i = true -> zlin s (zidx i) = Z.of_nat (sub2ind s i).
Proof.
  revert i; induction s as [|d s IH]; intros [|x i] H; cbn in H; try discriminate; auto.
  apply andb_true_iff in H as [_ H]. cbn [zidx map zlin sub2ind]. fold (zidx i). rewrite IH by auto. lia.
Qed.

Lemma in_rangeZb_spec s row : in_rangeZb s row = true <-> in_rangeZ s row.
Proof.
  revert row; induction s as [|d s IH]; intros [|x row]; cbn; try (split; [discriminate|contradiction]); [tauto|].
  rewrite !andb_true_iff, IH, Z.leb_le, Z.ltb_lt. tauto.
Qed.

(* ---------------------------------------------------------------------------------------- *)
Section Draw.
Variable D : Z.
Hypothesis Dpos : 0 < D.

(* uniform / zeros / semistrat: np.floor(u * d).astype(int) with u = a / D *)
Definition draw_sub (a d : Z) : Z := (a * d) / D.

(* every draw u in [0,1) — u = 0.0 included — gives a subscript inside the mode *)
Lemma draw_sub_range a d : 0 <= a < D -> 0 < d -> 0 <= draw_sub a d < d.
Proof.
  intros Ha Hd. unfold draw_sub. split.
  - apply Z.div_pos; nia.
  - apply Z.div_lt_upper_bound; nia.
Qed.

(* ... and every index of the mode is reachable (in particular the first one and the last one), as long as the mode is
   not longer than the resolution of the draws *)
Lemma draw_sub_onto d j : 0 < d <= D -> 0 <= j < d -> exists a, 0 <= a < D /\ draw_sub a d = j.
Proof.
  intros Hd Hj. exists ((j * D + d - 1) / d).
  pose proof (Z.div_mod (j * D + d - 1) d ltac:(lia)) as Hdm.
  pose proof (Z.mod_pos_bound (j * D + d - 1) d ltac:(lia)) as Hr.
  set (a := (j * D + d - 1) / d) in *. set (r := (j * D + d - 1) mod d) in *.
  assert (Ha0 : 0 <= a) by (apply Z.div_pos; nia).
  assert (HaD : a < D) by (apply Z.div_lt_upper_bound; nia).
  split; [lia|]. unfold draw_sub.
  symmetry. apply Z.div_unique with (r := a * d - j * D); nia.
Qed.

Lemma draw_sub_first d : 0 < d -> draw_sub 0 d = 0.
Proof. intros _. unfold draw_sub. rewrite Z.mul_0_l. apply Z.div_0_l. lia. Qed.
Lemma draw_sub_last d : 0 < d <= D -> draw_sub (D - 1) d = d - 1.
Proof.
  intros Hd. unfold draw_sub. symmetry. apply Z.div_unique with (r := D - d); nia.
Qed.

Definition draw_row (s : shape) (row : list Z) : list Z := zip2 draw_sub row (zshape s).
(* a row of draws of the right length, every draw in [0, 1) *)
Definition unit_draws (s : shape) (row : list Z) : Prop := length row = length s /\ Forall (fun a => 0 <= a < D) row.
Definition pos_shape (s : shape) : Prop := Forall (fun d => (0 < d)%nat) s.

Lemma draw_row_in_range s row : pos_shape s -> unit_draws s row -> in_rangeZ s (draw_row s row).
Proof.
  unfold draw_row, unit_draws, pos_shape. revert row; induction s as [|d s IH]; intros [|a row] Hs [Hl Hf]; cbn in *; try discriminate; auto.
  inversion Hs; subst. inversion Hf; subst. split.
  - apply draw_sub_range; [auto|lia].
  - apply IH; auto.
Qed.

(* ---------------------------------------------------------------------------------------- *)
Section Samplers.
Context {V : Type} (v0 : V) (isz : V -> bool).

(* numpy's reading of a negative index *)
Definition wrap (d x : Z) : Z := if x <? 0 then x + d else x.
Definition read_dense (X : dense V) (row : list Z) : V :=
  den_dense v0 X (map Z.to_nat (zip2 wrap (zshape (dshape X)) row)).

Lemma read_dense_in_range X row : in_rangeZ (dshape X) row ->
  exists i, row = zidx i /\ inb (dshape X) i = true /\ read_dense X row = den_dense v0 X i.
Proof.
  intros H. destruct (in_rangeZ_nat _ _ H) as (i & -> & Hi). exists i. repeat split; auto.
  unfold read_dense. f_equal. clear H.
  revert i Hi. generalize (dshape X). intros s. induction s as [|d s IH]; intros [|x i] Hi; cbn in *; try discriminate; auto.
  apply andb_true_iff in Hi as [_ Hi]. unfold wrap at 1.
  destruct (Z.ltb_spec (Z.of_nat x) 0); [lia|]. rewrite Nat2Z.id. f_equal. now apply IH.
Qed.

(* samplers.uniform(data, samples): one row of draws per sample *)
Definition uniform_subs (s : shape) (draws : list (list Z)) : list (list Z) := map (draw_row s) draws.
Definition uniform_vals (X : dense V) (draws : list (list Z)) : list V :=
  map (read_dense X) (uniform_subs (dshape X) draws).

(* samplers.nonzeros: stored entries at the drawn positions *)
Definition nz_subs (S : sparse V) (nidx : list nat) : list (list Z) := map (fun k => zidx (nth k (ssubs S) [])) nidx.
Definition nz_vals (S : sparse V) (nidx : list nat) : list V := map (fun k => nth k (svals S) v0) nidx.

(* samplers.zeros: draw subscripts, keep those whose linear index is not a nonzero's, trim to the request *)
Definition is_zero_row (s : shape) (nzidx : list Z) (row : list Z) : bool :=
  negb (existsb (Z.eqb (zlin s row)) nzidx).
Definition zero_subs (s : shape) (nzidx : list Z) (draws : list (list Z)) (req : nat) : list (list Z) :=
  firstn req (filter (is_zero_row s nzidx) (map (draw_row s) draws)).

(* samplers.stratified: nonzero samples then zero samples; values and weights are sized by the REQUEST *)
Definition strat_subs (S : sparse V) (nzidx : list Z) (nidx : list nat) (draws : list (list Z)) (num_zeros : nat) :=
  nz_subs S nidx ++ zero_subs (sshape S) nzidx draws num_zeros.
Definition strat_vals (S : sparse V) (nidx : list nat) (num_zeros : nat) : list V :=
  nz_vals S nidx ++ repeat v0 num_zeros.
(* finding C13-S1 (open): what a repaired sampler would return — values (and weights) sized by the zero subscripts actually obtained *)
Definition strat_vals_fixed (S : sparse V) (nzidx : list Z) (nidx : list nat) (draws : list (list Z)) (num_zeros : nat) :=
  nz_vals S nidx ++ repeat v0 (length (zero_subs (sshape S) nzidx draws num_zeros)).

(* samplers.semistrat: nonzero samples, then unchecked "zero" subscripts *)
Definition semi_subs (S : sparse V) (nidx : list nat) (draws : list (list Z)) : list (list Z) :=
  nz_subs S nidx ++ map (draw_row (sshape S)) draws.
Definition semi_vals (S : sparse V) (nidx : list nat) (draws : list (list Z)) : list V :=
  nz_vals S nidx ++ repeat v0 (length draws).

(* the sorted linear indices handed to the samplers describe exactly the stored subscripts *)
Definition nzidx_ok (S : sparse V) (nzidx : list Z) : Prop :=
  forall j, In j (ssubs S) -> In (Z.of_nat (sub2ind (sshape S) j)) nzidx.

(* ---- laws ---- *)
Lemma uniform_lengths X draws :
  length (uniform_subs (dshape X) draws) = length draws /\ length (uniform_vals X draws) = length draws.
Proof. unfold uniform_vals, uniform_subs. now rewrite !map_length. Qed.

Lemma uniform_in_range s draws : pos_shape s -> Forall (unit_draws s) draws ->
  Forall (in_rangeZ s) (uniform_subs s draws).
Proof.
  intros Hs Hd. unfold uniform_subs. apply Forall_map. eapply Forall_impl; [|exact Hd].
  intros row Hr. now apply draw_row_in_range.
Qed.

Lemma uniform_values X draws : pos_shape (dshape X) -> Forall (unit_draws (dshape X)) draws ->
  Forall2 (fun row v => exists i, row = zidx i /\ inb (dshape X) i = true /\ v = den_dense v0 X i)
          (uniform_subs (dshape X) draws) (uniform_vals X draws).
Proof.
  intros Hs Hd. pose proof (uniform_in_range _ _ Hs Hd) as Hr. unfold uniform_vals.
  induction (uniform_subs (dshape X) draws) as [|row l IH]; cbn; constructor.
  - inversion Hr; subst. destruct (read_dense_in_range X row) as (i & E & Hi & Hv); auto. exists i. auto.
  - inversion Hr; subst. auto.
Qed.

Lemma nz_lengths S nidx : length (nz_subs S nidx) = length nidx /\ length (nz_vals S nidx) = length nidx.
Proof. unfold nz_subs, nz_vals. now rewrite !map_length. Qed.

(* nonzero samples: stored subscripts (inside the tensor) with their stored values = the data there *)
Lemma nz_values S nidx : wf_sp isz S -> Forall (fun k => (k < nnz S)%nat) nidx ->
  Forall2 (fun row v => exists i, row = zidx i /\ inb (sshape S) i = true /\ v = den_sp v0 S i /\ isz v = false)
          (nz_subs S nidx) (nz_vals S nidx).
Proof.
  intros W Hk. unfold nz_subs, nz_vals. induction nidx as [|k l IH]; cbn; constructor.
  - inversion Hk as [|? ? Hk1 Hk2]; subst. unfold nnz in Hk1.
    destruct W as (Hl & Hn & Hb & Hz).
    exists (nth k (ssubs S) []). repeat split.
    + rewrite Forall_forall in Hb. apply Hb. now apply nth_In.
    + symmetry. apply (den_sp_in v0 isz); [repeat split; auto|].
      unfold entries. rewrite <- (combine_nth (ssubs S) (svals S) k [] v0) by auto.
      apply nth_In. rewrite combine_length. lia.
    + rewrite Forall_forall in Hz. apply Hz. apply nth_In. lia.
  - inversion Hk; subst. auto.
Qed.

Lemma zero_subs_length s nzidx draws req : (length (zero_subs s nzidx draws req) <= req)%nat.
Proof. unfold zero_subs. rewrite firstn_length. lia. Qed.

Lemma zero_subs_length_eq s nzidx draws req :
  length (zero_subs s nzidx draws req) = Nat.min req (length (filter (is_zero_row s nzidx) (map (draw_row s) draws))).
Proof. unfold zero_subs. now rewrite firstn_length. Qed.

(* zero samples of `zeros` (hence of `stratified`) are inside the tensor and are TRUE zeros *)
Lemma zero_subs_true_zeros S nzidx draws req :
  pos_shape (sshape S) -> Forall (unit_draws (sshape S)) draws -> nzidx_ok S nzidx ->
  Forall (fun row => exists i, row = zidx i /\ inb (sshape S) i = true /\ den_sp v0 S i = v0)
         (zero_subs (sshape S) nzidx draws req).
Proof.
  intros Hs Hd Hok. apply Forall_forall. intros row Hin. unfold zero_subs in Hin.
  assert (Hin' : In row (filter (is_zero_row (sshape S) nzidx) (map (draw_row (sshape S)) draws))).
  { rewrite <- (firstn_skipn req). apply in_or_app. now left. }
  clear Hin. rename Hin' into Hin.
  apply filter_In in Hin as [Hin Hz]. apply in_map_iff in Hin as (dr & <- & Hdr).
  rewrite Forall_forall in Hd. pose proof (draw_row_in_range _ _ Hs (Hd _ Hdr)) as Hr.
  destruct (in_rangeZ_nat _ _ Hr) as (i & E & Hi). exists i. repeat split; auto.
  apply den_sp_notin. intros Hmem. apply Hok in Hmem.
  unfold is_zero_row in Hz. apply negb_true_iff in Hz.
  assert (Hex : existsb (Z.eqb (zlin (sshape S) (draw_row (sshape S) dr))) nzidx = true).
  { apply existsb_exists. exists (Z.of_nat (sub2ind (sshape S) i)). split; auto.
    rewrite E, zlin_nat by auto. apply Z.eqb_refl. }
  congruence.
Qed.

Lemma strat_lengths S nzidx nidx draws num_zeros :
  length (strat_subs S nzidx nidx draws num_zeros) =
    (length nidx + Nat.min num_zeros (length (filter (is_zero_row (sshape S) nzidx) (map (draw_row (sshape S)) draws))))%nat /\
  length (strat_vals S nidx num_zeros) = (length nidx + num_zeros)%nat.
Proof.
  unfold strat_subs, strat_vals. rewrite !app_length, repeat_length, zero_subs_length_eq.
  destruct (nz_lengths S nidx) as [-> ->]. auto.
Qed.

(* |subs| = |vals| exactly when enough of the drawn rows are zeros *)
Lemma strat_lengths_agree S nzidx nidx draws num_zeros :
  (num_zeros <= length (filter (is_zero_row (sshape S) nzidx) (map (draw_row (sshape S)) draws)))%nat ->
  length (strat_subs S nzidx nidx draws num_zeros) = length (strat_vals S nidx num_zeros).
Proof. intros H. destruct (strat_lengths S nzidx nidx draws num_zeros) as [-> ->]. lia. Qed.

Lemma strat_fixed_lengths_agree S nzidx nidx draws num_zeros :
  length (strat_subs S nzidx nidx draws num_zeros) = length (strat_vals_fixed S nzidx nidx draws num_zeros).
Proof.
  unfold strat_subs, strat_vals_fixed. rewrite !app_length, repeat_length.
  destruct (nz_lengths S nidx) as [-> ->]. reflexivity.
Qed.

Lemma semi_lengths S nidx draws :
  length (semi_subs S nidx draws) = (length nidx + length draws)%nat /\
  length (semi_vals S nidx draws) = (length nidx + length draws)%nat.
Proof.
  unfold semi_subs, semi_vals. rewrite !app_length, repeat_length, map_length.
  destruct (nz_lengths S nidx) as [-> ->]. auto.
Qed.

Lemma semi_in_range (S : sparse V) draws : pos_shape (sshape S) -> Forall (unit_draws (sshape S)) draws ->
  Forall (in_rangeZ (sshape S)) (map (draw_row (sshape S)) draws).
Proof.
  intros Hs Hd. apply Forall_map. eapply Forall_impl; [|exact Hd]. intros row Hr. now apply draw_row_in_range.
Qed.

End Samplers.
End Draw.
