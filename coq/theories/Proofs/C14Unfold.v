(* Proofs/C14Unfold.v — the unfoldings inside tensor.nvecs / ttensor.nvecs (dense core) derived from C01's theorem about
   tensor.to_tenmat (to_tenmat_correct) and from the GENERATED gather_wrap_dims (Proofs/GenWrapDims.v):
   gram_dense_tm X n = Some (gram_dense_impl X n)   and   gram_t_tm T n = Some (gram_t_impl T n),
   hence (C14_gram_dense / C14_gram_tucker) both are gram_spec of the denotation. *)
From Coq Require Import List Arith Lia Bool ZArith Ring Permutation.
From PV Require Import Base.Index Base.Perm Base.Sum Np.Array Np.NpZ Np.NpZ2 Proofs.NpZProofs Model.Sparse Model.Repr Model.C07Ops
  Model.C01Conv Model.C01Unique Model.C01Coo Model.C02Spec Model.C02Dense Model.C01Ttm Gen.GenUtils Proofs.UtilsProofs Gen.GenUtils2
  Proofs.GenWrapDims Proofs.C01Proofs Proofs.C01Ttm Proofs.C01Unique Proofs.C01Converse Proofs.C01Coo Model.C14Nvecs Model.C14Gram Model.C14Unfold Proofs.C14Sums Proofs.C14Split
  Proofs.C14GramSp Proofs.C14GramT.
Import ListNotations.

(* ---------------------------------------------------------------- list facts *)
Lemma filter_all {A} (f : A -> bool) l : (forall x, In x l -> f x = true) -> filter f l = l.
Proof.
  induction l as [|x l IH]; intros H; [reflexivity|]. cbn [filter]. rewrite (H x) by (left; reflexivity).
  f_equal. apply IH. intros y Hy. apply H. now right.
Qed.

Lemma filter_neq_seq n N : n < N -> filter (fun k => negb (k =? n)) (seq 0 N) = rest_modes N n.
Proof.
  intros H. unfold rest_modes.
  replace N with (n + S (N - S n)) at 1 by lia.
  rewrite seq_app, filter_app. cbn [seq filter Nat.add]. rewrite Nat.eqb_refl. cbn [negb].
  rewrite !filter_all; [reflexivity| |].
  - intros x Hx. apply in_seq in Hx. apply negb_true_iff, Nat.eqb_neq. lia.
  - intros x Hx. apply in_seq in Hx. apply negb_true_iff, Nat.eqb_neq. lia.
Qed.

Lemma filter_map_comm {A B} (f : B -> bool) (g : A -> B) l : filter f (map g l) = map g (filter (fun x => f (g x)) l).
Proof. induction l as [|x l IH]; [reflexivity|]. cbn [map filter]. destruct (f (g x)); cbn [map]; now rewrite IH. Qed.

Lemma complement_single N n : n < N -> map Z.to_nat (complement (Z.of_nat N) [Z.of_nat n]) = rest_modes N n.
Proof.
  intros H. unfold complement, np_arange. rewrite filter_map_comm, map_map.
  replace (Z.to_nat (Z.of_nat N - 0)) with N by lia.
  rewrite <- (filter_neq_seq n N H).
  erewrite map_ext; [rewrite map_id|intros k; cbn beta; lia].
  apply filter_ext. intros k. unfold zmem. cbn [existsb]. rewrite orb_false_r. f_equal.
  destruct (Nat.eqb_spec k n) as [->|Hk]; [apply Z.eqb_refl|apply Z.eqb_neq; lia].
Qed.

Lemma dims_rows N n : n < N -> dims_of_gen N (Some [n]) None None = Some ([n], rest_modes N n).
Proof.
  intros H. unfold dims_of_gen. cbn [option_map map]. rewrite gwd_rows by (left; reflexivity).
  rewrite complement_single by exact H. cbn [map]. now rewrite Nat2Z.id.
Qed.

Lemma dims_cols N n : n < N -> dims_of_gen N None (Some [n]) None = Some (rest_modes N n, [n]).
Proof.
  intros H. unfold dims_of_gen. cbn [option_map map]. rewrite gwd_cols.
  rewrite complement_single by exact H. cbn [map]. now rewrite Nat2Z.id.
Qed.

Lemma dims_t N n : n < N -> dims_of_gen N (Some [n]) None (Some NpZ2.CycT) = Some (rest_modes N n, [n]).
Proof.
  intros H. unfold dims_of_gen. cbn [option_map map]. rewrite gwd_t.
  rewrite complement_single by exact H. cbn [map]. now rewrite Nat2Z.id.
Qed.

Lemma setdiff_single N n : n < N -> setdiff_modes N [n] = rest_modes N n.
Proof.
  intros H. unfold setdiff_modes. rewrite <- (filter_neq_seq n N H). apply filter_ext. intros k. cbn [existsb].
  now rewrite orb_false_r.
Qed.

Lemma rest_perm N n : n < N -> is_perm ([n] ++ rest_modes N n) N /\ is_perm (rest_modes N n ++ [n]) N.
Proof.
  intros H. rewrite <- (setdiff_single N n H).
  assert (P := setdiff_perm N [n]). destruct P as [P1 P2].
  - repeat constructor. intros [].
  - intros k [<-|[]]. exact H.
  - split; assumption.
Qed.

Lemma skipn_cons_nth {A} (d : A) : forall a (l : list A), a < length l -> skipn a l = nth a l d :: skipn (S a) l.
Proof.
  induction a as [|a IH]; intros [|x l] H; cbn in H; try lia; [reflexivity|].
  cbn [skipn nth]. rewrite IH by lia. reflexivity.
Qed.

Lemma pick_seq_range {A} (d : A) (l : list A) k : forall a, a + k <= length l -> pick d (seq a k) l = firstn k (skipn a l).
Proof.
  induction k as [|k IH]; intros a H; [reflexivity|].
  cbn [seq]. unfold pick in *. cbn [map]. rewrite (skipn_cons_nth d a l) by lia. cbn [firstn]. f_equal. apply IH. lia.
Qed.

Lemma pick_rest {A} (d : A) (l : list A) N n : length l = N -> n < N -> pick d (rest_modes N n) l = remove_nth n l.
Proof.
  intros HL H. unfold rest_modes, remove_nth. unfold pick. rewrite map_app.
  fold (pick d (seq 0 n) l). fold (pick d (seq (S n) (N - S n)) l).
  rewrite !pick_seq_range by lia. change (skipn 0 l) with l. f_equal. apply firstn_all2. rewrite skipn_length. lia.
Qed.

Section Unfold.
Variable V : Type.
Variables (v0 v1 : V) (vadd vmul vsub : V -> V -> V) (vopp : V -> V).
Hypothesis Vring : ring_theory v0 v1 vadd vmul vsub vopp (@eq V).
Add Ring Vr14u : Vring.
Notation "x + y" := (vadd x y).
Notation "x * y" := (vmul x y).
Notation SO := (sum_over v0 vadd).
Notation SN := (sum_n v0 vadd).
Notation mat := (list (list V)).

Lemma mtab_ext m k (f g : nat -> nat -> V) : (forall a b, a < m -> b < k -> f a b = g a b) -> mtab m k f = mtab m k g.
Proof.
  intros H. unfold mtab. apply map_ext_in. intros a Ha. apply in_seq in Ha. apply map_ext_in. intros b Hb. apply in_seq in Hb.
  apply H; lia.
Qed.

(* the entry of the unfolding that holds X(a at mode n; the c-th subscript of the other modes in F order) — both orientations *)
Lemma tm_pos_rows (s : shape) n a c : n < length s -> a < nth n s 0 -> c < size (remove_nth n s) ->
  tm_pos s [n] (rest_modes (length s) n) (insert_at n a (ind2sub (remove_nth n s) c)) = [a; c].
Proof.
  intros Hn Ha Hc. unfold tm_pos. set (j := ind2sub (remove_nth n s) c).
  assert (Lj : length j = length s - 1) by (unfold j; rewrite ind2sub_length; now apply remove_nth_length).
  rewrite (pick_rest 0 s (length s) n eq_refl Hn).
  rewrite (pick_rest 0 (insert_at n a j) (length s) n) by (rewrite ?length_insert_at; lia).
  rewrite remove_insert by lia. unfold pick. cbn [map]. rewrite nth_insert_at by lia.
  unfold j. rewrite sub2ind_ind2sub by exact Hc. cbn [sub2ind]. f_equal. lia.
Qed.

Lemma tenmat_rows (X : dense V) n : wf_dense X -> n < length (dshape X) ->
  exists Xn, tenmat_double_gen v0 X (Some [n]) None = Some Xn /\
    dshape Xn = [nth n (dshape X) 0; size (remove_nth n (dshape X))] /\
    forall a c, a < nth n (dshape X) 0 -> c < size (remove_nth n (dshape X)) ->
      den_dense v0 Xn [a; c] = den_dense v0 X (insert_at n a (ind2sub (remove_nth n (dshape X)) c)).
Proof.
  intros W Hn. set (s := dshape X) in *.
  destruct (to_tenmat_correct v0 X [n] (rest_modes (length s) n) W (proj1 (rest_perm _ _ Hn)))
    as (M & E & Hr & Hc & Hts & _ & Hsh & Hden & _).
  exists (tm_data M). unfold tenmat_double_gen. fold s. rewrite (dims_rows _ _ Hn), E. split; [reflexivity|]. split.
  - rewrite Hsh. fold s. rewrite (pick_rest 0 s (length s) n eq_refl Hn). unfold pick. cbn [map size fold_right]. f_equal. lia.
  - intros a c Ha Hc'. set (i := insert_at n a (ind2sub (remove_nth n s) c)).
    assert (Hi : inb s i = true).
    { apply inb_insert; auto. now apply inb_ind2sub. }
    destruct (Hden i Hi) as [_ Hd]. rewrite <- Hd. unfold den_tenmat. rewrite Hr, Hc, Hts. fold s. unfold i.
    now rewrite tm_pos_rows.
Qed.

Lemma tm_pos_cols (s : shape) n a c : n < length s -> a < nth n s 0 -> c < size (remove_nth n s) ->
  tm_pos s (rest_modes (length s) n) [n] (insert_at n a (ind2sub (remove_nth n s) c)) = [c; a].
Proof.
  intros Hn Ha Hc. unfold tm_pos. set (j := ind2sub (remove_nth n s) c).
  assert (Lj : length j = length s - 1) by (unfold j; rewrite ind2sub_length; now apply remove_nth_length).
  rewrite (pick_rest 0 s (length s) n eq_refl Hn).
  rewrite (pick_rest 0 (insert_at n a j) (length s) n) by (rewrite ?length_insert_at; lia).
  rewrite remove_insert by lia. unfold pick. cbn [map]. rewrite nth_insert_at by lia.
  unfold j. rewrite sub2ind_ind2sub by exact Hc. cbn [sub2ind]. f_equal. f_equal. lia.
Qed.

Lemma tenmat_cols (X : dense V) n : wf_dense X -> n < length (dshape X) ->
  exists XnT, tenmat_double_gen v0 X None (Some [n]) = Some XnT /\
    dshape XnT = [size (remove_nth n (dshape X)); nth n (dshape X) 0] /\
    forall a c, a < nth n (dshape X) 0 -> c < size (remove_nth n (dshape X)) ->
      den_dense v0 XnT [c; a] = den_dense v0 X (insert_at n a (ind2sub (remove_nth n (dshape X)) c)).
Proof.
  intros W Hn. set (s := dshape X) in *.
  destruct (to_tenmat_correct v0 X (rest_modes (length s) n) [n] W (proj2 (rest_perm _ _ Hn)))
    as (M & E & Hr & Hc & Hts & _ & Hsh & Hden & _).
  exists (tm_data M). unfold tenmat_double_gen. fold s. rewrite (dims_cols _ _ Hn), E. split; [reflexivity|]. split.
  - rewrite Hsh. fold s. rewrite (pick_rest 0 s (length s) n eq_refl Hn). unfold pick. cbn [map size fold_right]. f_equal. f_equal. lia.
  - intros a c Ha Hc'. set (i := insert_at n a (ind2sub (remove_nth n s) c)).
    assert (Hi : inb s i = true).
    { apply inb_insert; auto. now apply inb_ind2sub. }
    destruct (Hden i Hi) as [_ Hd]. rewrite <- Hd. unfold den_tenmat. rewrite Hr, Hc, Hts. fold s. unfold i.
    now rewrite tm_pos_cols.
Qed.

(* ---------------------------------------------------------------- tensor.nvecs *)
Theorem gram_dense_tm_eq (X : dense V) (n : nat) : wf_dense X -> n < length (dshape X) ->
  gram_dense_tm v0 vadd vmul X n = Some (gram_dense_impl v0 vadd vmul X n).
Proof.
  intros W Hn. destruct (tenmat_rows X n W Hn) as (Xn & E & Hsh & Hd).
  unfold gram_dense_tm. rewrite E. f_equal.
  assert (ER : rows_of v0 Xn = unfold_n v0 X n).
  { unfold rows_of, unfold_n. rewrite Hsh. cbn [nth]. apply mtab_ext. intros a c Ha Hc. now apply Hd. }
  rewrite ER, Hsh. reflexivity.
Qed.

Theorem gram_dense_tm_spec (X : dense V) (n a b : nat) : wf_dense X -> n < length (dshape X) ->
  a < nth n (dshape X) 0 -> b < nth n (dshape X) 0 ->
  exists Y, gram_dense_tm v0 vadd vmul X n = Some Y /\
    mget v0 Y a b = gram_spec v0 vadd vmul (dshape X) (den_dense v0 X) n a b.
Proof.
  intros W Hn Ha Hb. exists (gram_dense_impl v0 vadd vmul X n). split; [now apply gram_dense_tm_eq|].
  now apply (gram_dense V v0 vadd vmul).
Qed.

(* tensor.nvecs on a holder of any element type B (after /repo 08011d5): the conversion comes first, so the matrix handed to the solver
   is the Gram matrix, in V, of the CONVERTED denotation — whatever B's own arithmetic would do with the products *)
Lemma t_double_den {B : Type} (b0 : B) (dbl : B -> V) (X : dense B) : dbl b0 = v0 ->
  forall i, den_dense v0 (t_double dbl X) i = dbl (den_dense b0 X i).
Proof.
  intros H0 i. unfold den_dense, t_double. cbn [dshape ddata].
  destruct (inb (dshape X) i); [|now rewrite H0]. rewrite <- H0. apply map_nth.
Qed.

Theorem gram_dense_held_spec {B : Type} (b0 : B) (dbl : B -> V) (X : dense B) (n a b : nat) :
  dbl b0 = v0 -> wf_dense X -> n < length (dshape X) -> a < nth n (dshape X) 0 -> b < nth n (dshape X) 0 ->
  exists Y, gram_dense_held v0 vadd vmul dbl X n = Some Y /\
    Y = gram_dense_impl v0 vadd vmul (t_double dbl X) n /\
    mget v0 Y a b = gram_spec v0 vadd vmul (dshape X) (fun i => dbl (den_dense b0 X i)) n a b.
Proof.
  intros H0 W Hn Ha Hb.
  assert (W' : wf_dense (t_double dbl X)) by (unfold wf_dense, t_double; cbn [dshape ddata]; rewrite map_length; exact W).
  exists (gram_dense_impl v0 vadd vmul (t_double dbl X) n). split; [apply (gram_dense_tm_eq (t_double dbl X) n W' Hn)|].
  split; [reflexivity|].
  rewrite (gram_dense V v0 vadd vmul (t_double dbl X) n a b Ha Hb). unfold gram_spec. cbn [t_double dshape].
  apply sum_over_ext. intros i _. now rewrite !(t_double_den b0 dbl X H0).
Qed.

(* ---------------------------------------------------------------- ttensor.nvecs, dense core *)
Lemma sum_allsubs_as_sum_n (s : shape) (f : idx -> V) : SO (allsubs s) f = SN (size s) (fun c => f (ind2sub s c)).
Proof. unfold allsubs. now rewrite sum_over_map. Qed.

Theorem gram_t_tm_eq (T : ttensor V) (n : nat) : wf_dense (tcore T) -> wf_tucker V T -> n < length (tfactors T) ->
  gram_t_tm v0 vadd vmul T n = Some (gram_t_impl v0 v1 vadd vmul T n).
Proof.
  intros WG (HN & HJ) Hn.
  set (Us := tfactors T) in *. set (G := tcore T) in *. set (J := dshape G) in *.
  set (Vs := tucker_vs v0 vadd vmul Us n). set (T' := mkT G Vs).
  destruct (tucker_vs_facts V v0 vadd vmul n Us Hn) as (Vn & Vrest & VL). fold Vs in Vn, Vrest, VL.
  assert (HN' : length (dshape (tcore T')) = length (tfactors T')) by (unfold T'; cbn [tcore tfactors]; fold J; exact (eq_trans HN (eq_sym VL))).
  destruct (ttensor_full_impl_correct V v0 v1 vadd vmul vsub vopp Vring T' WG HN') as (_ & WH & HshH & HdenH).
  set (H := ttensor_full_impl v0 vadd vmul T') in *.
  assert (HnJ : n < length J) by lia.
  assert (SH : dshape H = map (@nrows V) Vs) by exact HshH.
  assert (SHn : nth n (dshape H) 0 = nrows (nth n Us [])).
  { rewrite SH. rewrite (nth_indep _ 0 (@nrows V [])) by (rewrite map_length; unfold matrix in *; lia). rewrite map_nth. exact (f_equal (@nrows V) Vn). }
  assert (SHr : remove_nth n (dshape H) = remove_nth n J).
  { rewrite SH, remove_nth_map. unfold matrix in *. rewrite Vrest, map_map. rewrite <- HJ, remove_nth_map.
    apply map_ext. intros U. apply (nrows_utu V v0 vadd vmul). }
  assert (LH : n < length (dshape H)) by (rewrite SH, map_length; unfold matrix in *; lia).
  destruct (tenmat_cols H n WH LH) as (HnT & EH & HshHn & HdH).
  destruct (tenmat_cols G n WG HnJ) as (GnT & EG & HshGn & HdG).
  unfold gram_t_tm. fold Us G Vs T' H. rewrite EH, EG. f_equal.
  unfold gram_t_impl. fold Us G J. rewrite HshGn. cbn [nth]. fold J.
  apply mtab_ext. intros a b Ha Hb.
  rewrite sum_allsubs_as_sum_n. apply sum_n_ext. intros c Hc. f_equal.
  - rewrite HdH by (rewrite ?SHn, ?SHr; assumption). rewrite SHr. unfold tucker_H. fold Us G Vs T'. apply HdenH.
  - apply sum_n_ext. intros q Hq. rewrite HdG by assumption. fold J. ring.
Qed.

Theorem gram_t_tm_spec (T : ttensor V) (n a b : nat) : wf_dense (tcore T) -> wf_tucker V T -> n < length (tfactors T) ->
  a < nrows (nth n (tfactors T) []) -> b < nrows (nth n (tfactors T) []) ->
  exists Y, gram_t_tm v0 vadd vmul T n = Some Y /\
    mget v0 Y a b = gram_spec v0 vadd vmul (tshape T) (den_t v0 v1 vadd vmul T) n a b.
Proof.
  intros WG WT Hn Ha Hb. exists (gram_t_impl v0 v1 vadd vmul T n). split; [now apply gram_t_tm_eq|].
  now apply (gram_tucker V v0 v1 vadd vmul vsub vopp Vring).
Qed.
(* ---------------------------------------------------------------- ttensor.nvecs, sparse core *)
Variable isz : V -> bool.
Hypothesis isz_spec : forall v, isz v = true <-> v = v0.

Lemma sptenmat_cols (S : sparse V) n : wf_sp isz S -> n < length (sshape S) ->
  exists C, sptenmat_double_gen vadd isz S n = Some C /\
    coo_shape C = [size (remove_nth n (sshape S)); nth n (sshape S) 0] /\
    forall a c, a < nth n (sshape S) 0 -> c < size (remove_nth n (sshape S)) ->
      den_coo v0 vadd C [c; a] = den_sp v0 S (insert_at n a (ind2sub (remove_nth n (sshape S)) c)).
Proof.
  intros W Hn. pose proof W as (HL & _ & Hb & _). set (s := sshape S) in *.
  destruct (to_sptenmat_sorted_correct V v0 v1 vadd vmul vsub vopp isz Vring isz_spec S (rest_modes (length s) n) [n]
              (proj2 (rest_perm _ _ Hn)) Hb HL) as (M0 & M & _ & E & _ & Hr & Hc & Hts & _ & WM & _ & Hwf).
  destruct (Hwf W) as (_ & _ & Hden & _).
  destruct WM as (ML & MND & Mb & _). cbn [stm_sp ssubs svals sshape] in ML, MND, Mb.
  destruct (stm_double_correct V v0 v1 vadd vmul vsub vopp Vring M ML MND Mb) as (Csh & _ & Cden).
  exists (stm_double M). unfold sptenmat_double_gen. fold s. rewrite (dims_t _ _ Hn), E. split; [reflexivity|]. split.
  - rewrite Csh. unfold stm_shape. rewrite Hr, Hc, Hts. fold s. rewrite (pick_rest 0 s (length s) n eq_refl Hn).
    unfold pick. cbn [map size fold_right]. f_equal. f_equal. lia.
  - intros a c Ha Hc'. rewrite Cden. set (i := insert_at n a (ind2sub (remove_nth n s) c)).
    assert (Hi : inb s i = true).
    { apply inb_insert; auto. now apply inb_ind2sub. }
    rewrite <- (Hden i Hi). unfold den_sptenmat. rewrite Hr, Hc, Hts. fold s. unfold i. now rewrite tm_pos_cols.
Qed.

Lemma hnT_cols (H : @hrepr V) n : hwf isz H -> n < length (hshape H) ->
  exists h, hnT v0 vadd isz H n = Some h /\
    forall a c, a < nth n (hshape H) 0 -> c < size (remove_nth n (hshape H)) ->
      h [c; a] = hden v0 H (insert_at n a (ind2sub (remove_nth n (hshape H)) c)).
Proof.
  destruct H as [D|Sp]; cbn [hwf hshape hden hnT]; intros W Hn.
  - destruct (tenmat_cols D n W Hn) as (X & E & _ & Hd). rewrite E. eexists; split; [reflexivity|]. exact Hd.
  - destruct (sptenmat_cols Sp n W Hn) as (C & E & _ & Hd). rewrite E. eexists; split; [reflexivity|]. exact Hd.
Qed.

(* H is any well-formed dense or sparse tensor that holds core x_m V_m (sptensor.ttm returns either; the single-mode product is
   C02_ttm_sparse / C02_ttm_dense) *)
Theorem gram_tsp_tm_eq (H : @hrepr V) (GS : sparse V) (Us : list mat) (n : nat) :
  let T := mkT (full v0 GS) Us in
  wf_sp isz GS -> wf_tucker V T -> n < length Us ->
  hwf isz H -> hshape H = map (@nrows V) (tucker_vs v0 vadd vmul Us n) ->
  (forall i, inb (hshape H) i = true -> hden v0 H i = tucker_H v0 v1 vadd vmul T n i) ->
  gram_tsp_tm v0 vadd vmul isz H GS (nth n Us []) n = Some (gram_t_impl v0 v1 vadd vmul T n).
Proof.
  intros T WG (HN & HJ) Hn WH SH HdenH.
  change (dshape (tcore T)) with (sshape GS) in HN, HJ. change (tfactors T) with Us in HN, HJ.
  set (J := sshape GS) in *. set (Vs := tucker_vs v0 vadd vmul Us n) in *.
  destruct (tucker_vs_facts V v0 vadd vmul n Us Hn) as (Vn & Vrest & VL). fold Vs in Vn, Vrest, VL.
  assert (HnJ : n < length J) by (unfold matrix in *; lia).
  assert (SHn : nth n (hshape H) 0 = nrows (nth n Us [])).
  { rewrite SH. rewrite (nth_indep _ 0 (@nrows V [])) by (rewrite map_length; unfold matrix in *; lia). rewrite map_nth.
    exact (f_equal (@nrows V) Vn). }
  assert (SHr : remove_nth n (hshape H) = remove_nth n J).
  { rewrite SH, remove_nth_map. unfold matrix in *. rewrite Vrest, map_map. rewrite <- HJ, remove_nth_map.
    apply map_ext. intros U. apply (nrows_utu V v0 vadd vmul). }
  assert (LH : n < length (hshape H)) by (rewrite SH, map_length; unfold matrix in *; lia).
  destruct (hnT_cols H n WH LH) as (h & EH & HdH).
  destruct (sptenmat_cols GS n WG HnJ) as (GnT & EG & HshGn & HdG).
  unfold gram_tsp_tm. rewrite EH, EG. f_equal.
  unfold gram_t_impl. change (dshape (tcore T)) with J. change (tfactors T) with Us. rewrite HshGn. cbn [nth]. fold J.
  apply mtab_ext. intros a b Ha Hb.
  rewrite sum_allsubs_as_sum_n. apply sum_n_ext. intros c Hc. f_equal.
  - rewrite HdH by (rewrite ?SHn, ?SHr; assumption). rewrite SHr. apply HdenH.
    rewrite <- SHr. apply inb_insert; [exact LH|rewrite SHn; exact Ha|]. apply inb_ind2sub. rewrite SHr. exact Hc.
  - apply sum_n_ext. intros q Hq. rewrite HdG by assumption. fold J.
    change (tcore T) with (full v0 GS). rewrite den_full by (apply WG). apply (Rmul_comm Vring).
Qed.

Theorem gram_tsp_tm_spec (H : @hrepr V) (GS : sparse V) (Us : list mat) (n a b : nat) :
  let T := mkT (full v0 GS) Us in
  wf_sp isz GS -> wf_tucker V T -> n < length Us ->
  hwf isz H -> hshape H = map (@nrows V) (tucker_vs v0 vadd vmul Us n) ->
  (forall i, inb (hshape H) i = true -> hden v0 H i = tucker_H v0 v1 vadd vmul T n i) ->
  a < nrows (nth n Us []) -> b < nrows (nth n Us []) ->
  exists Y, gram_tsp_tm v0 vadd vmul isz H GS (nth n Us []) n = Some Y /\
    mget v0 Y a b = gram_spec v0 vadd vmul (tshape T) (den_t v0 v1 vadd vmul T) n a b.
Proof.
  intros T WG WT Hn WH SH HdenH Ha Hb. exists (gram_t_impl v0 v1 vadd vmul T n). split; [now apply gram_tsp_tm_eq|].
  now apply (gram_tucker V v0 v1 vadd vmul vsub vopp Vring).
Qed.
End Unfold.

(* non-vacuity: a 2x3 matrix (mode 0 and mode 1) and a Tucker tensor with a 2x1x2 core, through the generated gather_wrap_dims *)
Example gram_tm_example :
  gram_dense_tm 0 Nat.add Nat.mul (mkDense [2; 3] [6; 8; 0; 2; 2; 2]) 0 = Some [[40; 52]; [52; 72]] /\
  gram_dense_tm 0 Nat.add Nat.mul (mkDense [2; 3] [6; 8; 0; 2; 2; 2]) 1 = Some [[100; 16; 28]; [16; 4; 4]; [28; 4; 8]] /\
  tenmat_double_gen 0 (mkDense [2; 3; 2] (seq 0 12)) (Some [1]) None = Some (mkDense [3; 4] [0; 2; 4; 1; 3; 5; 6; 8; 10; 7; 9; 11]) /\
  dims_of_gen 4 None (Some [2]) None = Some ([0; 1; 3], [2]) /\
  (let T := mkT (mkDense [2; 1; 2] [1; 2; 0; 3]) [[[1; 0]; [2; 1]; [0; 1]]; [[2]; [1]]; [[1; 1]; [0; 2]]] in
   gram_t_tm 0 Nat.add Nat.mul T 1 = Some [[588; 294]; [294; 147]] /\
   gram_t_tm 0 Nat.add Nat.mul T 0 = Some (gram_t_impl 0 1 Nat.add Nat.mul T 0)).
Proof. vm_compute. repeat split. Qed.

(* non-vacuity, sparse core: H held sparse and held dense *)
Example gram_tsp_example :
  let GS := mkSp [2; 1; 2] [[1; 0; 1]; [0; 0; 0]; [1; 0; 0]] [3; 1; 2] in
  let Us := [[[1; 0]; [2; 1]; [0; 1]]; [[2]; [1]]; [[1; 1]; [0; 2]]] in
  let Hd := fun n => ttensor_full_impl 0 Nat.add Nat.mul (mkT (full 0 GS) (tucker_vs 0 Nat.add Nat.mul Us n)) in
  gram_tsp_tm 0 Nat.add Nat.mul (Nat.eqb 0) (HSparse (to_sptensor 0 (Nat.eqb 0) (Hd 1))) GS (nth 1 Us []) 1 = Some [[588; 294]; [294; 147]] /\
  gram_tsp_tm 0 Nat.add Nat.mul (Nat.eqb 0) (HDense (Hd 1)) GS (nth 1 Us []) 1 = Some [[588; 294]; [294; 147]] /\
  gram_tsp_tm 0 Nat.add Nat.mul (Nat.eqb 0) (HSparse (to_sptensor 0 (Nat.eqb 0) (Hd 0))) GS (nth 0 Us []) 0
    = Some (gram_t_impl 0 1 Nat.add Nat.mul (mkT (full 0 GS) Us) 0) /\
  option_map (@coo_subs nat) (sptenmat_double_gen Nat.add (Nat.eqb 0) GS 0) = Some [[0; 0]; [0; 1]; [1; 1]].
Proof. vm_compute. repeat split. Qed.

Example gram_held_example :
  gram_dense_held 0%Z Z.add Z.mul (fun b : bool => if b then 1%Z else 0%Z) (mkDense [2; 2] [true; false; true; true]) 0 = Some [[2; 1]; [1; 1]]%Z /\
  gram_dense_held 0%Z Z.add Z.mul (fun x : Z => x) (mkDense [2; 2] [200; 3; 100; 7]%Z) 0 = Some [[50000; 1300]; [1300; 58]]%Z /\
  gram_dense_tm 0%Z (fun x y => (x + y) mod 256)%Z (fun x y => (x * y) mod 256)%Z (mkDense [2; 2] [200; 3; 100; 7]%Z) 0 = Some [[80; 20]; [20; 58]]%Z.
Proof. vm_compute. repeat split. Qed.
