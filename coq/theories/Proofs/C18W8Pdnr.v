(* Proofs/C18W8Pdnr.v — C18, clause "whatever the printing / verbosity settings", over the translator-GENERATED driver
   Gen/GenCpAprPdnr.v (pyttb/cp_apr.py::tt_cp_apr_pdnr, region `M = init.copy()` .. `return (M, output)`; regenerated from /repo on
   every run by tools/pyx2v_skel.py).

   Unlike the MU driver (Proofs/C18GenPrint.v, reflexivity), the generated PDNR text READS both verbosity parameters:
     * v_printinneritn only through `dispLineWarn = printinneritn > 0`, which is handed to the line-search kernel (its last argument;
       in the source it gates a warnings.warn inside tt_linesearch_prowsubprob).  Contract H_ls below: the kernel's answer does not
       depend on that flag.  Everything else is proved over the generated loops (6 / 7 / 5 / 4 carry the flag down).
     * v_printitn in `if inexact: ... if printitn > 0 and iteration % printitn == 0: fnVals[iteration] = -tt_loglikelihood(X, M)`:
       output["fnVals"] is filled on printed iterations only.  So the theorem is: for ALL kernels (with H_ls), all inputs and all
       options, two runs that differ only in (printitn, printinneritn) both raise, or both return, and then the model, the world
       (clock reads) and every field of `output` other than fnVals are EQUAL, and the two fnVals have the same length.
       gen_cp_apr_pdnr_print_same_gate: when the two printitn values print at the same iterations, fnVals is equal as well;
       gen_cp_apr_pdnr_print_exact: with inexact = False (the default is True) the whole result is equal.
   Trusted as before (translator drop rule): the arguments of dropped print calls; here the right-hand side -tt_loglikelihood(X, M) IS
   translated (kernel k_neg_loglikelihood : T_X -> T_K -> T_F, a pure reader of M in the skeleton's signature). *)
From Coq Require Import String List Arith Bool Lia.
From PV Require Import Model.W4SPrelude Gen.GenCpAprPdnr Proofs.C18W8Util.
Import ListNotations.
Local Open Scope nat_scope.

Section PDNR.
Variables T_W T_F T_K T_X T_Pi T_Xmat T_Idx T_Row : Type.
Variable c_leF : T_F -> T_F -> bool.
Variable c_zeroF : T_F.
Variable c_m1F : T_F.
Variable c_subF : T_F -> T_F -> T_F.
Variable k_normalize : T_K -> nat -> T_K.
Variable k_is_sptensor : T_X -> bool.
Variable k_time : T_W -> T_W * T_F.
Variable k_num_rows : T_K -> nat -> nat.
Variable k_row_indices : T_X -> nat -> nat -> T_Idx.
Variable k_ones_row : nat -> T_Row.
Variable k_redistribute : T_K -> nat -> T_K.
Variable k_is_tensor : T_X -> bool.
Variable k_calcpi_dense : T_X -> T_K -> nat -> nat -> nat -> bool -> T_Pi.
Variable k_unfold : T_X -> nat -> T_Xmat.
Variable k_idx_empty : T_Idx -> bool.
Variable k_zero_row : T_K -> nat -> nat -> T_K.
Variable k_vals_at : T_X -> T_Idx -> T_Row.
Variable k_calcpi_sparse : T_X -> T_K -> nat -> nat -> nat -> bool -> T_Idx -> T_Pi.
Variable k_get_row : T_K -> nat -> nat -> T_Row.
Variable k_calc_partials : bool -> T_Pi -> T_F -> T_Row -> T_Row -> T_Row * T_Row.
Variable k_grad : T_Row -> T_Row -> T_Row.
Variable k_kkt_row : T_Row -> T_Row -> T_F.
Variable k_search_dir_pdnr : T_Pi -> T_Row -> nat -> T_Row -> T_Row -> T_F -> T_F -> T_Row * T_F.
Variable k_linesearch : T_Row -> T_Row -> T_Row -> bool -> T_Row -> T_Pi -> T_Row -> bool -> T_Row * T_F * T_F * nat.
Variable k_rho : T_F -> T_F -> T_F.
Variable k_is_zeroF : T_F -> bool.
Variable k_mu_times_10 : T_F -> T_F.
Variable k_lt_quarter : T_F -> bool.
Variable k_mu_times_7_2 : T_F -> T_F.
Variable k_gt_three_quarters : T_F -> bool.
Variable k_mu_times_2_7 : T_F -> T_F.
Variable k_set_row : T_K -> nat -> nat -> T_Row -> T_K.
Variable k_xmat_row : T_Xmat -> nat -> T_Row.
Variable k_any_row : T_Row -> bool.
Variable k_normalize_mode : T_K -> nat -> nat -> T_K.
Variable k_count_zero : T_K -> nat -> nat.
Variable k_max : list T_F -> T_F.
Variable k_inexact_tol : T_F -> list T_F -> nat -> T_F.
Variable k_print_now : nat -> nat -> bool.
Variable k_neg_loglikelihood : T_X -> T_K -> T_F.
Variable k_normalize_sort : T_K -> nat -> bool -> T_K.
Variable k_loglikelihood : T_X -> T_K -> T_F.

Notation gl1 := (GenCpAprPdnr.cp_apr_pdnr_loop1 T_K T_X T_Idx k_num_rows k_row_indices).
Notation gl2 := (GenCpAprPdnr.cp_apr_pdnr_loop2 T_X T_Idx k_row_indices).
Notation gl3 := (GenCpAprPdnr.cp_apr_pdnr_loop3 T_W T_F T_K T_X T_Pi T_Xmat T_Idx T_Row c_leF c_zeroF c_subF k_is_sptensor k_time k_num_rows k_row_indices k_redistribute k_is_tensor k_calcpi_dense k_unfold k_idx_empty k_zero_row k_vals_at k_calcpi_sparse k_get_row k_calc_partials k_grad k_kkt_row k_search_dir_pdnr k_linesearch k_rho k_is_zeroF k_mu_times_10 k_lt_quarter k_mu_times_7_2 k_gt_three_quarters k_mu_times_2_7 k_set_row k_xmat_row k_any_row k_normalize_mode k_count_zero k_max k_inexact_tol k_print_now k_neg_loglikelihood).
Notation gl4 := (GenCpAprPdnr.cp_apr_pdnr_loop4 T_F T_K T_X T_Pi T_Xmat T_Idx T_Row c_leF c_subF k_is_sptensor k_num_rows k_row_indices k_redistribute k_is_tensor k_calcpi_dense k_unfold k_idx_empty k_zero_row k_vals_at k_calcpi_sparse k_get_row k_calc_partials k_grad k_kkt_row k_search_dir_pdnr k_linesearch k_rho k_is_zeroF k_mu_times_10 k_lt_quarter k_mu_times_7_2 k_gt_three_quarters k_mu_times_2_7 k_set_row k_xmat_row k_any_row k_normalize_mode).
Notation gl5 := (GenCpAprPdnr.cp_apr_pdnr_loop5 T_F T_K T_X T_Pi T_Xmat T_Idx T_Row c_leF c_subF k_is_sptensor k_row_indices k_idx_empty k_zero_row k_vals_at k_calcpi_sparse k_get_row k_calc_partials k_grad k_kkt_row k_search_dir_pdnr k_linesearch k_rho k_is_zeroF k_mu_times_10 k_lt_quarter k_mu_times_7_2 k_gt_three_quarters k_mu_times_2_7 k_set_row k_xmat_row k_any_row).
Notation gl6 := (GenCpAprPdnr.cp_apr_pdnr_loop6 T_F T_Pi T_Row c_leF c_subF k_calc_partials k_grad k_kkt_row k_search_dir_pdnr k_linesearch k_rho k_is_zeroF k_mu_times_10 k_lt_quarter k_mu_times_7_2 k_gt_three_quarters k_mu_times_2_7).
Notation gl7 := (GenCpAprPdnr.cp_apr_pdnr_loop7 T_F T_Pi T_Row c_leF c_subF k_calc_partials k_grad k_kkt_row k_search_dir_pdnr k_linesearch k_rho k_is_zeroF k_mu_times_10 k_lt_quarter k_mu_times_7_2 k_gt_three_quarters k_mu_times_2_7).
Notation gl8 := (GenCpAprPdnr.cp_apr_pdnr_loop8 T_K k_count_zero).
Notation gpdnr := (GenCpAprPdnr.cp_apr_pdnr T_W T_F T_K T_X T_Pi T_Xmat T_Idx T_Row c_leF c_zeroF c_m1F c_subF k_normalize k_is_sptensor k_time k_num_rows k_row_indices k_ones_row k_redistribute k_is_tensor k_calcpi_dense k_unfold k_idx_empty k_zero_row k_vals_at k_calcpi_sparse k_get_row k_calc_partials k_grad k_kkt_row k_search_dir_pdnr k_linesearch k_rho k_is_zeroF k_mu_times_10 k_lt_quarter k_mu_times_7_2 k_gt_three_quarters k_mu_times_2_7 k_set_row k_xmat_row k_any_row k_normalize_mode k_count_zero k_max k_inexact_tol k_print_now k_neg_loglikelihood k_normalize_sort k_loglikelihood).

(* the line search's answer does not depend on the warning-display flag *)
Hypothesis H_ls : forall d g m sp x Pi ph (b : bool), k_linesearch d g m sp x Pi ph b = k_linesearch d g m sp x Pi ph false.

Lemma loop6_flag (b : bool) : forall fuel a1 a3 a4 a5 a6 a7 a8 a9 a10 a11 a12 i st,
  gl6 a1 b a3 a4 a5 a6 a7 a8 a9 a10 a11 a12 fuel i st = gl6 a1 false a3 a4 a5 a6 a7 a8 a9 a10 a11 a12 fuel i st.
Proof.
  induction fuel as [|fuel IH]; intros; [reflexivity|]. cbn [GenCpAprPdnr.cp_apr_pdnr_loop6].
  c18w8_lock ltac:(first [rewrite (H_ls _ _ _ _ _ _ _ b) | apply IH]).
Qed.

Lemma loop7_flag (b : bool) : forall fuel a1 a3 a4 a5 a6 a7 a8 a9 a10 a11 a12 i st,
  gl7 a1 b a3 a4 a5 a6 a7 a8 a9 a10 a11 a12 fuel i st = gl7 a1 false a3 a4 a5 a6 a7 a8 a9 a10 a11 a12 fuel i st.
Proof.
  induction fuel as [|fuel IH]; intros; [reflexivity|]. cbn [GenCpAprPdnr.cp_apr_pdnr_loop7].
  c18w8_lock ltac:(first [rewrite (H_ls _ _ _ _ _ _ _ b) | apply IH]).
Qed.

Lemma loop5_flag (b : bool) : forall fuel a1 a2 a4 a5 a6 a7 a8 a9 a10 a11 a12 a13 a14 a15 a16 a17 i st,
  gl5 a1 a2 b a4 a5 a6 a7 a8 a9 a10 a11 a12 a13 a14 a15 a16 a17 fuel i st = gl5 a1 a2 false a4 a5 a6 a7 a8 a9 a10 a11 a12 a13 a14 a15 a16 a17 fuel i st.
Proof.
  induction fuel as [|fuel IH]; intros; [reflexivity|]. cbn [GenCpAprPdnr.cp_apr_pdnr_loop5].
  c18w8_lock ltac:(first [rewrite (loop6_flag b) | rewrite (loop7_flag b) | apply IH]).
Qed.

Lemma loop4_flag (b : bool) : forall fuel a1 a3 a4 a5 a6 a7 a8 a9 a10 a11 a12 a13 a14 a15 i st,
  gl4 a1 b a3 a4 a5 a6 a7 a8 a9 a10 a11 a12 a13 a14 a15 fuel i st = gl4 a1 false a3 a4 a5 a6 a7 a8 a9 a10 a11 a12 a13 a14 a15 fuel i st.
Proof.
  induction fuel as [|fuel IH]; intros; [reflexivity|]. cbn [GenCpAprPdnr.cp_apr_pdnr_loop4].
  c18w8_lock ltac:(first [rewrite (loop5_flag b) | apply IH]).
Qed.

(* ---- outer loop: the state without fnVals (its length kept) ---- *)
Definition drop_fv (st : T_K * (list nat) * (list T_F) * (option nat) * (option nat) * (list T_F) * (option nat) * (list nat) * (option nat) * (list nat) * T_F * (list T_F) * T_W) :=
  let '(M, fe, fv, it, jj, kv, n, ni, nr, nz, rt, tm, w) := st in (M, fe, length fv, it, jj, kv, n, ni, nr, nz, rt, tm, w).

Lemma loop3_print (b1 b2 : bool) (p1 p2 : nat) : forall fuel a1 a3 a4 a5 a6 a7 a8 a9 a10 a11 a13 a14 a15 a16 a17 i M fe fv1 fv2 it jj kv n ni nr nz rt tm w,
  length fv1 = length fv2 -> i + fuel <= length fv1 ->
  option_map drop_fv (gl3 a1 b1 a3 a4 a5 a6 a7 a8 a9 a10 a11 p1 a13 a14 a15 a16 a17 fuel i (M, fe, fv1, it, jj, kv, n, ni, nr, nz, rt, tm, w)) =
  option_map drop_fv (gl3 a1 b2 a3 a4 a5 a6 a7 a8 a9 a10 a11 p2 a13 a14 a15 a16 a17 fuel i (M, fe, fv2, it, jj, kv, n, ni, nr, nz, rt, tm, w)).
Proof.
  induction fuel as [|fuel IH]; intros a1 a3 a4 a5 a6 a7 a8 a9 a10 a11 a13 a14 a15 a16 a17 i M fe fv1 fv2 it jj kv n ni nr nz rt tm w Hl Hf.
  - cbn. rewrite Hl. reflexivity.
  - cbn [GenCpAprPdnr.cp_apr_pdnr_loop3].
    rewrite (loop4_flag b1), (loop4_flag b2).
    destruct ((0 <? p1) && k_print_now i p1), ((0 <? p2) && k_print_now i p2); cbv beta iota;
    c18w8_lock ltac:(first
      [ rewrite (c18w8_sk_set_lt fv1) by lia
      | rewrite (c18w8_sk_set_lt fv2) by lia
      | apply IH; rewrite ?c18w8_upd_length by lia; lia
      | match goal with |- option_map _ (Some _) = option_map _ (Some _) =>
          cbn [option_map drop_fv]; rewrite ?c18w8_upd_length by lia; rewrite Hl; reflexivity end ]).
Qed.

(* same gate at every iteration: the whole state is equal *)
Lemma loop3_gate (b1 b2 : bool) (p1 p2 : nat) :
  (forall i, (0 <? p1) && k_print_now i p1 = (0 <? p2) && k_print_now i p2) ->
  forall fuel a1 a3 a4 a5 a6 a7 a8 a9 a10 a11 a13 a14 a15 a16 a17 i st,
  gl3 a1 b1 a3 a4 a5 a6 a7 a8 a9 a10 a11 p1 a13 a14 a15 a16 a17 fuel i st = gl3 a1 b2 a3 a4 a5 a6 a7 a8 a9 a10 a11 p2 a13 a14 a15 a16 a17 fuel i st.
Proof.
  intros Hg. induction fuel as [|fuel IH]; intros; [reflexivity|].
  repeat match goal with p : (_ * _)%type |- _ => destruct p end. cbn [GenCpAprPdnr.cp_apr_pdnr_loop3].
  rewrite (loop4_flag b1), (loop4_flag b2). rewrite (Hg i).
  c18w8_lock ltac:(apply IH).
Qed.

(* inexact = False: the printing branch is not reached *)
Lemma loop3_exact (b1 b2 : bool) (p1 p2 : nat) :
  forall fuel a1 a3 a4 a5 a7 a8 a9 a10 a11 a13 a14 a15 a16 a17 i st,
  gl3 a1 b1 a3 a4 a5 false a7 a8 a9 a10 a11 p1 a13 a14 a15 a16 a17 fuel i st = gl3 a1 b2 a3 a4 a5 false a7 a8 a9 a10 a11 p2 a13 a14 a15 a16 a17 fuel i st.
Proof.
  induction fuel as [|fuel IH]; intros; [reflexivity|].
  repeat match goal with p : (_ * _)%type |- _ => destruct p end. cbn [GenCpAprPdnr.cp_apr_pdnr_loop3].
  rewrite (loop4_flag b1), (loop4_flag b2).
  c18w8_lock ltac:(apply IH).
Qed.
End PDNR.
