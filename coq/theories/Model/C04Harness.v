(* Model/C04Harness.v — Z instance of the C04 models and the history comparers used by generated cases. *)
From Coq Require Import List ZArith Bool Arith.
From PV Require Import Base.Index Np.Array Model.Sparse Model.Harness Model.C04Model.
Import ListNotations.

(* what pyttb returned for one read (raw) *)
Inductive xout := XNone | XVals (l : list Z) | XDense (T : dense Z) | XSparse (S : sparse Z).

Definition zop := op Z.
Definition zstep_dense := step_dense 0%Z.
Definition zstep_sparse := step_sparse 0%Z zisz.

Definition is_region_get (o : zop) : option (list kelem) :=
  match o with OGet (KRegion es) => Some es | _ => None end.

(* model output (shape, F-order values) against the raw observation *)
Definition out_ok (o : outv (V:=Z)) (x : xout) : bool :=
  match x with
  | XNone => match snd o with [] => true | _ => false end
  | XVals l => vec_eqb (snd o) l
  | XDense T => dense_eqb (mkDense (fst o) (snd o)) T
  | XSparse R => sp_denotes R (mkDense (fst o) (snd o))
  end.

(* a sparse region read additionally has the stored order of the faithful filter+renumber model *)
Definition sp_out_raw_ok (S : sparse Z) (o : zop) (x : xout) : bool :=
  match is_region_get o, x with
  | Some es, XSparse R => match sp_region_get S es with Some R' => sp_raw_eqb R R' | None => false end
  | _, _ => true
  end.

(* observation per step: the raw state afterwards and, unless pyttb raised, what was returned *)
Fixpoint check_dense (T : dense Z) (ops : list zop) (obs : list (dense Z * option xout)) : bool :=
  match ops, obs with
  | [], [] => true
  | o :: ops', (T2, xo) :: obs' =>
      match zstep_dense T o, xo with
      | Some (T1, out), Some x => dense_eqb T1 T2 && out_ok out x && check_dense T1 ops' obs'
      | None, None => dense_eqb T T2 && check_dense T ops' obs'       (* rejected: state unchanged *)
      | _, _ => false
      end
  | _, _ => false
  end.

Fixpoint check_sparse (S : sparse Z) (ops : list zop) (obs : list (sparse Z * option xout)) : bool :=
  match ops, obs with
  | [], [] => true
  | o :: ops', (S2, xo) :: obs' =>
      match zstep_sparse S o, xo with
      | Some (S1, out), Some x => sp_raw_eqb S1 S2 && wf_spb zisz S2 && out_ok out x && sp_out_raw_ok S o x
                                  && check_sparse S1 ops' obs'
      | None, None => sp_raw_eqb S S2 && check_sparse S ops' obs'
      | _, _ => false
      end
  | _, _ => false
  end.

(* index of the first step at which the comparison fails (diagnostics) *)
Fixpoint first_bad_dense (T : dense Z) (ops : list zop) (obs : list (dense Z * option xout)) (k : nat) : option nat :=
  match ops, obs with
  | [], [] => None
  | o :: ops', (T2, xo) :: obs' =>
      match zstep_dense T o, xo with
      | Some (T1, out), Some x => if dense_eqb T1 T2 && out_ok out x then first_bad_dense T1 ops' obs' (S k) else Some k
      | None, None => if dense_eqb T T2 then first_bad_dense T ops' obs' (S k) else Some k
      | _, _ => Some k
      end
  | _, _ => Some k
  end.
Fixpoint first_bad_sparse (S : sparse Z) (ops : list zop) (obs : list (sparse Z * option xout)) (k : nat) : option nat :=
  match ops, obs with
  | [], [] => None
  | o :: ops', (S2, xo) :: obs' =>
      match zstep_sparse S o, xo with
      | Some (S1, out), Some x => if sp_raw_eqb S1 S2 && wf_spb zisz S2 && out_ok out x && sp_out_raw_ok S o x
                                  then first_bad_sparse S1 ops' obs' (Datatypes.S k) else Some k
      | None, None => if sp_raw_eqb S S2 then first_bad_sparse S ops' obs' (Datatypes.S k) else Some k
      | _, _ => Some k
      end
  | _, _ => Some k
  end.
