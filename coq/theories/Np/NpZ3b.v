(* Np/NpZ3b.v — primitives for the flexible shape / vector arguments of parse_shape and parse_one_d (Gen/GenUtils3b.v):
   an argument is an int, an ndarray, a list or a tuple (entries: ints or lists of ints).  Definitions only; validated by
   the primitive-level differential stream of tools/props/w3gen.py (ops named prim3b_...). *)
From Coq Require Import List ZArith Bool Lia.
From PV Require Import Np.NpZ Np.NpZ2 Np.NpZ3.
Import ListNotations.
Local Open Scope Z_scope.

Inductive pyshp := SInt (k : Z) | SArr (a : ndarr) | STuple (l : list pyelem) | SList (l : list pyelem).

Definition shp_is_int (x : pyshp) : bool := match x with SInt _ => true | _ => false end.
Definition shp_is_arr (x : pyshp) : bool := match x with SArr _ => true | _ => false end.
Definition shp_is_tuple (x : pyshp) : bool := match x with STuple _ => true | _ => false end.
Definition shp_is_list (x : pyshp) : bool := match x with SList _ => true | _ => false end.
(* tuple(x): TypeError for an int; an ndarray is outside this use (the code handles arrays before) *)
Definition shp_iter_ok (x : pyshp) : bool := match x with STuple _ | SList _ => true | _ => false end.
Definition shp_elems (x : pyshp) : list pyelem := match x with STuple l | SList l => l | _ => [] end.

(* a tuple of Python ints read as an integer vector (guarded by elems_all_int) *)
Definition elems_ints (l : list pyelem) : vec := map (fun e => match e with EInt k => k | EList _ => 0 end) l.

(* np.array(x): int -> 0-d; list / tuple of ints -> 1-d; of equally long int lists -> 2-d (C order); ragged -> ValueError *)
Definition shp_asarray_ok (x : pyshp) : bool :=
  match x with
  | STuple l | SList l => elems_all_int l || is_some (elems_rows l)
  | _ => true
  end.
Definition shp_asarray (x : pyshp) : ndarr :=
  match x with
  | SInt k => mknd [] DInt [NFin k]
  | SArr a => a
  | STuple l | SList l => key_asarray (KList l)
  end.

(* a.squeeze(): axes of length 1 removed, data unchanged *)
Definition nd_squeeze (a : ndarr) : ndarr := mknd (filter (fun d => negb (d =? 1)) (nd_shape a)) (nd_kind a) (nd_data a).
(* int(a) for an array with exactly one entry *)
Definition nd_int0 (a : ndarr) : Z := match nd_data a with NFin z :: _ => z | _ => 0 end.
(* tuple(map(int, a)) for a 1-d array *)
Definition nd_ints (a : ndarr) : vec := map (fun x => match x with NFin z => z | _ => 0 end) (nd_data a).
(* np.array([k1, ..., kn]) for Python ints *)
Definition nd_of_ints (l : vec) : ndarr := mknd [zlen l] DInt (map NFin l).
(* a[None]: a new leading axis of length 1 *)
Definition nd_expand0 (a : ndarr) : ndarr := mknd (1 :: nd_shape a) (nd_kind a) (nd_data a).
