(* Proofs/C08Gen2.v — wave 4: the ABSORB branch of the generated ktensor.arrange (Gen/GenKtensor4.v, regenerated from
   /repo/pyttb/ktensor.py on every run; `self.normalize()` is an oracle parameter nz) — arrange(weight_factor=n):
   whatever normalize returns is re-ordered by the descending argsort permutation and its weights are multiplied into factor n
   (a negative n wraps like a Python index): the result is k_redistribute m (k_gather p k1) of Model/C08Kruskal.v, all weights
   are one and the denoted array is that of normalize's result.  Complements Props/W4C08.v (permutation branch, sort branch)
   so that all three branches of arrange are stated over the generated text.  No well-formedness hypothesis: the gather
   produces rows with one entry per weight by construction. *)
From Coq Require Import List ZArith Arith Bool Lia Permutation Ring.
From PV Require Import Base.Index Base.Perm Base.Sum Np.NpZ Np.NpZ2 Np.NpZ3 Np.NpZ3c Np.NpZ3d Np.NpZ3e Np.NpZ4 Proofs.NpZProofs
  Model.Repr Model.C08Kruskal Proofs.C08Proofs Model.W4Ktensor Proofs.W4Ktensor Proofs.W4KtensorLaws Gen.GenKtensor4 Proofs.C08Gen.
Import ListNotations.
Local Open Scope Z_scope.

Lemma zmap2_is_zipmul : forall a b : vec, zmap2 Z.mul a b = zipmul Z.mul a b.
Proof. induction a as [|x a IH]; intros [|y b]; cbn; auto. f_equal. apply IH. Qed.

(* m *= w on a matrix whose rows have one entry per weight is the column scaling of the hand model *)
Lemma np_mul_cols_scale (m : mat) (w : vec) : Forall (fun r => length r = length w) m -> np_mul_cols m w = scale_cols Z.mul w m.
Proof.
  intros H. unfold np_mul_cols, scale_cols. apply map_ext_in. intros r Hr. rewrite Forall_forall in H. specialize (H r Hr).
  unfold zlen. rewrite H. destruct (Z.eqb_spec (Z.of_nat (length w)) 1); cbn [andb negb]; apply zmap2_is_zipmul.
Qed.

Lemma wrap_idx {A} (l : list A) (n : Z) : idx_ok l n = true ->
  let m := Z.to_nat (if n <? 0 then n + zlen l else n) in (m < length l)%nat.
Proof.
  unfold idx_ok, zlen. intros H. apply andb_true_iff in H as [H1 H2]. apply Z.leb_le in H1. apply Z.ltb_lt in H2.
  cbv zeta. destruct (Z.ltb_spec n 0); lia.
Qed.

Lemma np_set_upd_nth {A} (f : A -> A) (d : A) (l : list A) (n : Z) : idx_ok l n = true ->
  np_set l n (f (znth d l n)) = upd_nth (Z.to_nat (if n <? 0 then n + zlen l else n)) f l.
Proof.
  intros H. pose proof (wrap_idx l n H) as Hm. cbv zeta in Hm. unfold np_set, znth.
  set (k := if n <? 0 then n + zlen l else n) in *.
  assert (Hk : 0 <= k).
  { unfold idx_ok, zlen in H. apply andb_true_iff in H as [H1 H2]. apply Z.leb_le in H1. unfold k, zlen. destruct (Z.ltb_spec n 0); lia. }
  replace (k <? 0) with false by (symmetry; apply Z.ltb_ge; exact Hk).
  apply (upd_is_upd_nth f d l (Z.to_nat k) Hm).
Qed.

Theorem gen_arrange_absorb (nz : ktz -> res ktz) (self k' : ktz) (n : Z) :
  ktensor_arrange nz self (Some n) IxNone = Ok k' ->
  exists k1, nz self = Ok k1 /\
    let p := nats (rev (np_argsort (kt_weights k1))) in
    let m := Z.to_nat (if n <? 0 then n + zlen (kt_factors k1) else n) in
    (m < length (kt_factors k1))%nat /\
    to_K k' = k_redistribute 1 Z.mul m (k_gather 0 p (to_K k1)) /\
    kt_weights k' = map (fun _ => 1) (kt_weights k1) /\
    forall i, den_k 0 1 Z.add Z.mul (to_K k') i = den_k 0 1 Z.add Z.mul (to_K k1) i.
Proof.
  intros E. rewrite arrange_bridge in E. unfold H_arrange in E. cbn [ix_is_none negb andb ix_is_list ix_is_arr orb is_some] in E.
  destruct (nz self) as [k1|]; [|discriminate]. cbn [bind] in E. exists k1. split; [reflexivity|].
  set (pz := rev (np_argsort (kt_weights k1))) in *.
  destruct (H_gather_ok k1 pz); [|discriminate].
  assert (Hnn : forall x, In x pz -> 0 <= x).
  { intros x Hx. unfold pz in Hx. apply in_rev in Hx. apply (Permutation_in x (np_argsort_perm _)) in Hx.
    apply in_map_iff in Hx as (j & <- & _). lia. }
  pose proof (H_gather_model k1 pz Hnn) as HG. set (G := H_gather k1 pz) in *.
  unfold H_absorb in E.
  destruct (idx_ok (kt_factors G) n) eqn:Ei; [|discriminate]. cbn [andb] in E.
  destruct (np_mul_cols_ok (znth [] (kt_factors G) n) (kt_weights G)); [|discriminate]. injection E as <-.
  assert (HlenF : length (kt_factors G) = length (kt_factors k1)) by (unfold G, H_gather; cbn [kt_factors]; now rewrite map_length).
  assert (HlenW : length (kt_weights G) = length pz) by (unfold G, H_gather, np_take; cbn [kt_weights]; now rewrite map_length).
  assert (Hperm : is_perm (nats pz) (length (kt_weights k1))) by (apply argsort_is_perm).
  assert (Hlenp : length pz = length (kt_weights k1)).
  { pose proof (Permutation_length Hperm) as L. unfold nats in L. now rewrite map_length, seq_length in L. }
  assert (Hrows : forall A, In A (kt_factors G) -> Forall (fun r => length r = length (kt_weights G)) A).
  { intros A HA. unfold G, H_gather in HA. cbn [kt_factors] in HA. apply in_map_iff in HA as (f & <- & _).
    unfold np_cols, np_take. apply Forall_forall. intros r Hr. apply in_map_iff in Hr as (r0 & <- & _). rewrite map_length. lia. }
  pose proof (wrap_idx (kt_factors G) n Ei) as Hm. cbv zeta in Hm.
  assert (Ezl : zlen (kt_factors G) = zlen (kt_factors k1)) by (unfold zlen; now rewrite HlenF).
  cbv zeta. rewrite <- Ezl. set (m := Z.to_nat (if n <? 0 then n + zlen (kt_factors G) else n)) in *.
  assert (HK : to_K (mkkt (map (fun _ => 1) (kt_weights G))
                       (np_set (kt_factors G) n (np_mul_cols (znth [] (kt_factors G) n) (kt_weights G)))) =
               k_redistribute 1 Z.mul m (to_K G)).
  { unfold to_K, k_redistribute, ones. cbn [kt_weights kt_factors kweights kfactors]. f_equal. unfold m.
    transitivity (np_set (kt_factors G) n (scale_cols Z.mul (kt_weights G) (znth [] (kt_factors G) n)));
      [|exact (np_set_upd_nth (scale_cols Z.mul (kt_weights G)) [] (kt_factors G) n Ei)].
    f_equal.
    apply np_mul_cols_scale. apply Hrows. unfold znth.
    assert (Hk : 0 <= (if n <? 0 then n + zlen (kt_factors G) else n)).
    { unfold idx_ok, zlen in Ei. apply andb_true_iff in Ei as [H1 H2]. apply Z.leb_le in H1. unfold zlen. destruct (Z.ltb_spec n 0); lia. }
    match goal with |- In (if ?c then _ else _) _ => replace c with false by (symmetry; apply Z.ltb_ge; exact Hk) end.
    apply nth_In. exact Hm. }
  split; [lia|]. split; [rewrite <- HG; exact HK|]. split.
  - cbn [kt_weights]. unfold G, H_gather, np_take. cbn [kt_weights]. rewrite map_map.
    clear - Hlenp. revert Hlenp. generalize (kt_weights k1). generalize pz. clear.
    induction pz as [|x pz IH]; intros [|y w] H; cbn in *; try discriminate; auto. f_equal. apply IH. lia.
  - intros i. etransitivity; [exact (f_equal (fun K => den_k 0 1 Z.add Z.mul K i) HK)|]. cbv beta.
    rewrite (den_redistribute Z 0 1 Z.add Z.mul Z.sub Z.opp Zth m (to_K G)) by (unfold to_K; cbn [kfactors]; exact Hm).
    rewrite HG. apply (den_gather_perm Z 0 1 Z.add Z.mul Z.sub Z.opp Zth). exact Hperm.
Qed.
