(* Proofs/C15Proofs.v — symmetrisation and the symmetry test: theorems for all shapes/groups/values. *)
From Coq Require Import List Arith Lia Bool Permutation Ring.
From PV Require Import Base.Index Base.Perm Base.Sum Np.Array Model.Repr Model.C15Sym.
Import ListNotations.

(* ---- exchanging adjacent entries generates every rearrangement ---- *)
Lemma adj_perm_pre {A} (f : list nat -> A) :
  (forall pre a b post, f (pre ++ a :: b :: post) = f (pre ++ b :: a :: post)) ->
  forall l l', Permutation l l' -> forall pre, f (pre ++ l) = f (pre ++ l').
Proof.
  intros H l l' P. induction P as [|x l l' _ IH|x y l|l l' l'' _ IH1 _ IH2]; intros pre; auto.
  - replace (pre ++ x :: l) with ((pre ++ [x]) ++ l) by (now rewrite <- app_assoc).
    replace (pre ++ x :: l') with ((pre ++ [x]) ++ l') by (now rewrite <- app_assoc). apply IH.
  - rewrite IH1. apply IH2.
Qed.

Lemma adj_perm {A} (f : list nat -> A) :
  (forall pre a b post, f (pre ++ a :: b :: post) = f (pre ++ b :: a :: post)) ->
  forall l l', Permutation l l' -> f l = f l'.
Proof. intros H l l' P. exact (adj_perm_pre f H l l' P []). Qed.

(* ---- perms enumerates rearrangements ---- *)
Lemma insert_all_sound x l y : In y (insert_all x l) -> Permutation (x :: l) y.
Proof.
  revert y; induction l as [|a l IH]; intros y Hy; cbn in Hy.
  - destruct Hy as [<-|[]]. apply Permutation_refl.
  - destruct Hy as [<-|Hy]; [apply Permutation_refl|].
    apply in_map_iff in Hy as (z & <- & Hz). specialize (IH z Hz).
    eapply perm_trans; [apply perm_swap|]. now apply perm_skip.
Qed.

Lemma perms_sound l y : In y (perms l) -> Permutation l y.
Proof.
  revert y; induction l as [|x l IH]; intros y Hy; cbn in Hy.
  - destruct Hy as [<-|[]]. constructor.
  - apply in_flat_map in Hy as (z & Hz & Hy). apply insert_all_sound in Hy.
    eapply perm_trans; [apply perm_skip, IH, Hz|exact Hy].
Qed.

Lemma perms_id l : In l (perms l).
Proof.
  induction l as [|x l IH]; cbn; auto. apply in_flat_map. exists l. split; auto.
  destruct l; cbn; auto.
Qed.

Lemma perms_nonempty l : length (perms l) <> 0.
Proof. pose proof (perms_id l) as H. destruct (perms l); [contradiction|cbn; lia]. Qed.

Section P15.
Variable V : Type.
Variables (v0 v1 : V) (vadd vmul vsub : V -> V -> V) (vopp vinv : V -> V) (veqb : V -> V -> bool).
Hypothesis Vring : ring_theory v0 v1 vadd vmul vsub vopp (@eq V).
Add Ring Vr15 : Vring.
Notation "x + y" := (vadd x y).
Notation "x * y" := (vmul x y).
Notation ofn := (of_nat v0 v1 vadd).

(* a tensor X is symmetric in the group g when rearranging the subscripts at the positions g never changes the value *)
Definition sym_in (X : idx -> V) (g : list nat) : Prop :=
  forall i vals, Permutation (pick 0 g i) vals -> X (put g vals i) = X i.

(* it suffices to check exchanges of two adjacent group positions *)
Lemma adjacent_suffices (X : idx -> V) g i :
  (forall pre a b post, X (put g (pre ++ a :: b :: post) i) = X (put g (pre ++ b :: a :: post) i)) ->
  forall vals vals', Permutation vals vals' -> X (put g vals i) = X (put g vals' i).
Proof. intros H. exact (adj_perm (fun vals => X (put g vals i)) H). Qed.

Lemma sum_const {A} (l : list A) c : sum_over v0 vadd l (fun _ => c) = ofn (length l) * c.
Proof. induction l as [|a l IH]; cbn; [ring|]. change (sumv v0 vadd (map (fun _ => c) l)) with (sum_over v0 vadd l (fun _ : A => c)). rewrite IH. ring. Qed.

(* characteristic 0 and a partial inverse *)
Hypothesis char0 : forall n, n <> 0 -> ofn n <> v0.
Hypothesis vinv_l : forall x, x <> v0 -> vinv x * x = v1.

(* symmetrising fixes every value at which the tensor is already invariant under the group's rearrangements *)
Lemma sym_group_fixes (X : idx -> V) g i :
  (forall vals, Permutation (pick 0 g i) vals -> X (put g vals i) = X i) ->
  sym_group v0 v1 vadd vmul vinv X g i = X i.
Proof.
  intros H. unfold sym_group.
  rewrite (sum_over_ext V v0 vadd _ _ (fun _ => X i)).
  - rewrite sum_const. set (n := ofn (length (perms (pick 0 g i)))).
    transitivity ((vinv n * n) * X i); [ring|]. unfold n. rewrite vinv_l by (apply char0, perms_nonempty). ring.
  - intros vals Hv. apply H. now apply perms_sound.
Qed.

Lemma sym_group_fixes_symmetric (X : idx -> V) g : sym_in X g -> forall i, sym_group v0 v1 vadd vmul vinv X g i = X i.
Proof. intros H i. apply sym_group_fixes. intros vals Hv. now apply H. Qed.

(* several groups: a tensor symmetric in every group is a fixed point of spec_sym *)
Lemma spec_sym_fixes_symmetric G : forall (X : idx -> V), (forall g, In g G -> sym_in X g) ->
  forall i, spec_sym v0 v1 vadd vmul vinv X G i = X i.
Proof.
  induction G as [|g G IH]; intros X H i; cbn; auto.
  unfold spec_sym in IH. rewrite IH.
  - apply sym_group_fixes_symmetric. apply H. now left.
  - intros g' Hg' j vals Hp. rewrite !sym_group_fixes_symmetric by (apply H; now left). apply H; auto. now right.
Qed.

(* ---- the boolean symmetry test says exactly: cubical groups, and no adjacent exchange changes a stored value ---- *)
Hypothesis veqb_spec : forall a b, veqb a b = true <-> a = b.

Lemma spec_issym_correct s (X : idx -> V) G :
  spec_issym veqb s X G = true <->
  (forall g, In g G -> group_cubical s g = true) /\
  (forall i, inb s i = true -> forall g, In g G -> forall j, j < length g - 1 ->
     X (put g (swap_adj j (pick 0 g i)) i) = X i).
Proof.
  unfold spec_issym, adj_ok. rewrite andb_true_iff, !forallb_forall. split.
  - intros [Hc Ha]. split; auto. intros i Hi g Hg j Hj.
    assert (Hk : In (sub2ind s i) (seq 0 (size s))) by (apply in_seq; pose proof (sub2ind_lt s i Hi); lia).
    specialize (Ha _ Hk). rewrite forallb_forall in Ha. specialize (Ha g Hg). rewrite forallb_forall in Ha.
    rewrite ind2sub_sub2ind in Ha by auto. apply veqb_spec. apply Ha. apply in_seq. lia.
  - intros [Hc Ha]. split; auto. intros k Hk. apply in_seq in Hk. rewrite forallb_forall. intros g Hg.
    rewrite forallb_forall. intros j Hj. apply in_seq in Hj. apply veqb_spec. apply Ha; auto; [|lia].
    apply inb_ind2sub. lia.
Qed.

(* ---- Kruskal tensors with identical factors are symmetric in all modes ---- *)
Notation den := (den_k v0 v1 vadd vmul).

Lemma prodv_perm l l' : Permutation l l' -> prodv v1 vmul l = prodv v1 vmul l'.
Proof. induction 1 as [|a l l' _ IH|a b l|l l' l'' _ IH1 _ IH2]; cbn; auto; [rewrite IH; ring|ring|congruence]. Qed.

Lemma kprod_repeat (A : list (list V)) N i r : length i = N ->
  kprod v0 v1 vmul (repeat A N) i r = prodv v1 vmul (map (fun x => mget v0 A x r) i).
Proof. revert i; induction N as [|N IH]; intros [|x i] H; cbn in *; try lia; auto. now rewrite IH by lia. Qed.

Lemma inb_repeat d N i : inb (repeat d N) i = Nat.eqb (length i) N && forallb (fun x => x <? d) i.
Proof.
  revert i; induction N as [|N IH]; intros [|x i]; cbn [repeat inb length forallb Nat.eqb]; auto.
  rewrite IH. destruct (x <? d), (length i =? N), (forallb (fun x => x <? d) i); reflexivity.
Qed.

Lemma forallb_perm {A} (p : A -> bool) l l' : Permutation l l' -> forallb p l = forallb p l'.
Proof. induction 1 as [|a l l' _ IH|a b l|l l' l'' _ IH1 _ IH2]; cbn; auto; [now rewrite IH|destruct (p a), (p b); auto|congruence]. Qed.

Lemma kshape_repeat w (A : list (list V)) N : kshape (mkK w (repeat A N)) = repeat (nrows A) N.
Proof. unfold kshape. cbn. induction N; cbn; auto. now f_equal. Qed.

Lemma den_identical_factors_symmetric w (A : list (list V)) N i i' : Permutation i i' ->
  den (mkK w (repeat A N)) i = den (mkK w (repeat A N)) i'.
Proof.
  intros P. unfold den_k. rewrite kshape_repeat, !inb_repeat.
  rewrite (Permutation_length P), (forallb_perm _ _ _ P).
  destruct (Nat.eqb_spec (length i') N) as [HL|]; cbn [andb]; auto.
  destruct (forallb _ i'); auto. cbn [kfactors kweights]. apply sum_n_ext. intros r _. f_equal.
  rewrite !kprod_repeat by (rewrite ?(Permutation_length P); auto).
  apply prodv_perm. now apply Permutation_map.
Qed.

End P15.
