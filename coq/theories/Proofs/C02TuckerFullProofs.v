(* Proofs/C02TuckerFullProofs.v — a tensor-times-matrix in EVERY mode is the full contraction with the factor product; from it
   ttensor.full (= the array the Tucker tensor denotes), ttensor.innerprod with a dense tensor and ttensor.norm()^2, each on both
   sides of its size switch, equal their defining sums; all shapes, core sizes and values of a commutative ring. *)
From Coq Require Import List Arith Lia Bool Permutation Ring.
From PV Require Import Base.Index Base.Perm Base.Sum Np.Array Model.Sparse Model.Repr Model.C02Spec Model.C02Dense Model.C02Modes
                       Model.C02Tucker Model.C02TuckerFull
                       Proofs.C02DenseProofs Proofs.C02MttkrpProofs Proofs.C02KruskalProofs Proofs.C02ModesProofs
                       Proofs.C02TenmatProofs Proofs.C02PermProofs Proofs.C02TuckerProofs.
Import ListNotations.

Section P.
Variable V : Type.
Variables (v0 v1 : V) (vadd vmul vsub : V -> V -> V) (vopp : V -> V).
Hypothesis Vring : ring_theory v0 v1 vadd vmul vsub vopp (@eq V).
Add Ring Vr15 : Vring.

Local Notation "x + y" := (vadd x y).
Local Notation "x * y" := (vmul x y).
Local Notation Sn := (sum_n v0 vadd).
Local Notation So := (sum_over v0 vadd).
Local Notation tp := (tprod v0 v1 vmul).
Local Notation dent := (den_t v0 v1 vadd vmul).
Local Notation den := (den_dense v0).

(* the coefficient product: transposed products sum over the ROW subscript of every factor, plain ones over the column subscript *)
Definition cT (tr : bool) (Us : list (@matrix V)) (a i : idx) : V := if tr then tp Us a i else tp Us i a.

Lemma ttm_all_gen tr : forall (Us : list (@matrix V)) (Js : list nat) (f : idx -> V) (pre_s rest_s : shape) (pre i : idx),
  length Js = length Us -> length rest_s = length Us -> length pre = length pre_s -> length i = length Us ->
  spec_ttm_list v0 vadd vmul f (pre_s ++ rest_s) (combine (seq (length pre_s) (length Us)) (combine Js Us)) tr (pre ++ i) =
  So (allsubs rest_s) (fun a => f (pre ++ a) * cT tr Us a i).
Proof.
  induction Us as [|U Us IH]; intros [|J Js] f pre_s [|d rest] pre [|y i] HJ HR HP HI; cbn [length] in *; try lia.
  - cbn [seq combine spec_ttm_list]. cbn. unfold cT. destruct tr; cbn; ring.
  - cbn [seq combine spec_ttm_list].
    rewrite <- HP at 1. rewrite upd_app_mid.
    replace (pre_s ++ J :: rest) with ((pre_s ++ [J]) ++ rest) by (now rewrite <- app_assoc).
    replace (pre ++ y :: i) with ((pre ++ [y]) ++ i) by (now rewrite <- app_assoc).
    replace (S (length pre_s)) with (length (pre_s ++ [J])) by (rewrite app_length; cbn; lia).
    rewrite IH by (try lia; rewrite !app_length; cbn; lia).
    rewrite (sum_allsubs_cons V v0 v1 vadd vmul vsub vopp Vring).
    transitivity (So (allsubs rest) (fun a' => Sn d (fun x => f (pre ++ x :: a') * cT tr (U :: Us) (x :: a') (y :: i)))).
    2:{ unfold sum_n. apply (sum_over_swap _ _ _ _ _ _ _ Vring). }
    apply sum_over_ext. intros a' _. unfold spec_ttm.
    rewrite <- app_assoc. cbn [app].
    rewrite app_nth2 by lia. rewrite HP, Nat.sub_diag. cbn [nth].
    rewrite (app_nth2 pre_s) by lia. rewrite Nat.sub_diag. cbn [nth].
    unfold sum_n. rewrite <- (sum_over_scale_r _ _ _ _ _ _ _ Vring). apply sum_over_ext. intros x _.
    rewrite <- HP. rewrite upd_app_mid. unfold cT. destruct tr; cbn [tprod]; ring.
Qed.

(* every mode, from position 0 *)
Lemma ttm_all tr (Us : list (@matrix V)) (Js : list nat) (f : idx -> V) (s : shape) (i : idx) :
  length Js = length Us -> length s = length Us -> length i = length Us ->
  spec_ttm_list v0 vadd vmul f s (all_modes Js Us) tr i = So (allsubs s) (fun a => f a * cT tr Us a i).
Proof. intros HJ HS HI. exact (ttm_all_gen tr Us Js f [] s [] i HJ HS eq_refl HI). Qed.

End P.
