"""C17 — index arithmetic, mode-selection preprocessing, row-set helpers, Khatri-Rao (DESIGN §C17)."""
import itertools
from vcheck import Case, gz, gzlist, gzmat, gopt, gblist

PROP = "C17"
LEVEL = "proof"
GEN_UNITS = ["GenUtils", "GenKernels", "GenUtils2", "GenHandles", "GenFgSetup"]
COQ_TARGETS = ["Props/C17.vo", "Props/C17Fg.vo", "Model/Harness.vo"]
THEOREM_FILES = ["Props/C17.v", "Props/C17Fg.v"]
COQ_IMPORTS = ("From Coq Require Import Reals List ZArith Bool.\n"
               "From PV Require Gen.GenFgSetup.\n"
               "From PV Require Import Np.NpZ Np.NpZ2 Gen.GenUtils Gen.GenKernels Gen.GenUtils2 Model.Harness Proofs.KhatriRao.\n")
RULE = ("exhaustive over small shapes/index sets + seeded random stream; a case is non-trivial unless the shape is "
        "1-cell or the request is empty; distinct = distinct (op, arguments)")
EXPLANATION = ("Theorems are stated over Gen/GenUtils.v, regenerated from pyttb_utils.py on this run; the correspondence "
               "stream additionally runs the same generated functions against pyttb on explicit inputs (guards the translator).")


def shapes_upto(cells, maxn=4):
    out = []

    def rec(prefix, prod):
        if prefix:
            out.append(tuple(prefix))
        if len(prefix) == maxn:
            return
        for d in range(1, cells + 1):
            if prod * d <= cells:
                rec(prefix + [d], prod * d)
    rec([], 1)
    return out


def gen_cases(rng, tier):
    import math
    cases = []
    big = tier == "thorough"
    # --- sub2ind / ind2sub: exhaustive over shapes with <= 12 cells (thorough) / <= 8 (quick)
    for shp in shapes_upto(12 if big else 8):
        n = math.prod(shp)
        allidx = list(range(n))
        subs = [list(x)[::-1] for x in itertools.product(*[range(d) for d in shp[::-1]])]   # F order
        rng.shuffle(allidx)
        cases.append(Case("ind2sub", {"shape": list(shp), "idx": allidx}, n > 1))
        sh = subs[:]
        rng.shuffle(sh)
        cases.append(Case("sub2ind", {"shape": list(shp), "subs": sh}, n > 1))
        # negative indices and out-of-range (malformed stream)
        cases.append(Case("ind2sub", {"shape": list(shp), "idx": [-1, -n, 0]}, n > 1))
        cases.append(Case("ind2sub", {"shape": list(shp), "idx": [n]}, True))
        cases.append(Case("ind2sub", {"shape": list(shp), "idx": [-n - 1]}, True))
        bad = list(subs[rng.randrange(len(subs))])
        k = rng.randrange(len(shp))
        bad[k] = shp[k]
        cases.append(Case("sub2ind", {"shape": list(shp), "subs": [subs[0], bad]}, True))
        bad2 = list(subs[0])
        bad2[k] = -1
        cases.append(Case("sub2ind", {"shape": list(shp), "subs": [bad2]}, True))
    cases.append(Case("sub2ind", {"shape": [2, 3], "subs": []}, False))
    cases.append(Case("ind2sub", {"shape": [2, 3], "idx": []}, False))
    for _ in range(200 if big else 40):
        shp = [rng.randint(1, 5) for _ in range(rng.randint(1, 5))]
        n = math.prod(shp)
        idx = [rng.randrange(-n, n) for _ in range(rng.randint(1, 6))]
        cases.append(Case("ind2sub", {"shape": shp, "idx": idx}, n > 1))
        subs = [[rng.randrange(d) for d in shp] for _ in range(rng.randint(1, 6))]
        cases.append(Case("sub2ind", {"shape": shp, "subs": subs}, n > 1))
    # --- dimscheck: all N <= 4 (5 thorough), all subsets in all orders, both conventions, all M
    maxN = 5 if big else 4
    for N in range(1, maxN + 1):
        for r in range(0, N + 1):
            for comb in itertools.permutations(range(N), r):
                if r > 3 and not big and rng.random() < 0.5:
                    continue
                for M in {None, r, N, N + 1, max(0, r - 1)}:
                    cases.append(Case("dimscheck", {"N": N, "M": M, "dims": list(comb), "excl": None}, r > 0))
                    cases.append(Case("dimscheck", {"N": N, "M": M, "dims": None, "excl": list(comb)}, r > 0))
        for M in (None, N, 1):
            cases.append(Case("dimscheck", {"N": N, "M": M, "dims": None, "excl": None}, True))
        cases.append(Case("dimscheck", {"N": N, "M": None, "dims": [0], "excl": [0]}, True))
    # malformed: negative, out of range, repeated
    for _ in range(300 if big else 80):
        N = rng.randint(1, 5)
        d = [rng.randint(-2, N + 1) for _ in range(rng.randint(1, 4))]
        M = rng.choice([None, len(d), N, rng.randint(0, 6)])
        if rng.random() < 0.5:
            cases.append(Case("dimscheck", {"N": N, "M": M, "dims": d, "excl": None}, True))
        else:
            cases.append(Case("dimscheck", {"N": N, "M": M, "dims": None, "excl": d}, True))
    # --- row-set helpers
    for _ in range(1500 if big else 300):
        k = rng.randint(1, 3)
        hi = rng.choice([1, 2, 3])
        a = [[rng.randint(0, hi) for _ in range(k)] for _ in range(rng.randint(0, 5))]
        b = [[rng.randint(0, hi) for _ in range(k)] for _ in range(rng.randint(0, 5))]
        if rng.random() < 0.4:       # distinct rows (the well-formed sparse case)
            a = [list(x) for x in dict.fromkeys(map(tuple, a))]
            b = [list(x) for x in dict.fromkeys(map(tuple, b))]
        for op in ("ismember", "intersect", "setdiff", "union"):
            cases.append(Case(op, {"a": a, "b": b, "k": k}, bool(a) and bool(b)))
    for _ in range(600 if big else 150):     # union with the second argument in lexicographic row order (the in-repo use)
        k = rng.randint(1, 3)
        a = [list(x) for x in dict.fromkeys(tuple(rng.randint(0, 2) for _ in range(k)) for _ in range(rng.randint(0, 5)))]
        b = [list(x) for x in sorted({tuple(rng.randint(0, 2) for _ in range(k)) for _ in range(rng.randint(0, 6))})]
        cases.append(Case("union", {"a": a, "b": b, "k": k}, bool(a) and bool(b)))
    # --- Khatri-Rao: tuples of 1..4 matrices with a common column count, both orders; column mismatch (malformed)
    for _ in range(600 if big else 150):
        R = rng.randint(1, 3)
        k = rng.randint(1, 4)
        mats = [[[rng.randint(-3, 4) for _ in range(R)] for _ in range(rng.randint(1, 3))] for _ in range(k)]
        if rng.random() < 0.15 and k > 1:
            j = rng.randrange(k)
            mats[j] = [row + [1] for row in mats[j]]       # one matrix with a different column count
        cases.append(Case("khatrirao", {"mats": mats, "reverse": rng.random() < 0.5}, k > 1))
    for k in range(0, 4):          # no matrices at all; matrices with zero columns (generated model only)
        for rows in ([1], [2, 3], [1, 2, 2]):
            mats = [[[] for _ in range(rows[j % len(rows)])] for j in range(k)]
            cases.append(Case("khatrirao_zero", {"mats": mats, "reverse": bool(k % 2)}, k > 0))
    # --- min_split (Gen/GenKernels.v): exhaustive over all shapes with <= 5 (6 thorough) modes of sizes 1..3 (1..4 up to
    #     4 modes), plus empty / zero-size / large random shapes
    for n in range(0, (7 if big else 6)):
        for shp in itertools.product(range(1, 4), repeat=n):
            cases.append(Case("min_split", {"shape": list(shp)}, n >= 2))
    for n in range(1, 5):
        for shp in itertools.product(range(0, 5), repeat=n):
            if 0 in shp or 4 in shp:
                cases.append(Case("min_split", {"shape": list(shp)}, n >= 2))
    for _ in range(400 if big else 100):
        shp = [rng.choice([1, 2, 3, 5, 7, 10, 30, 100]) for _ in range(rng.randint(2, 8))]
        cases.append(Case("min_split", {"shape": shp}, True))
    # --- gather_wrap_dims (Gen/GenUtils2.v): N <= 4, every ordered mode subset as rows / columns, every ordered
    #     partition as (rows, columns), all cyclic options incl. an unrecognised string; ill-formed requests
    for N in range(1, 5):
        subs = [list(p) for r in range(0, N + 1) for p in itertools.permutations(range(N), r)]
        for d in subs:
            for cy in (None, "fc", "bc", "t", "zz"):
                cases.append(Case("wrapdims", {"N": N, "rd": d, "cd": None, "cy": cy}, True))
            for cy in (None, "fc"):
                cases.append(Case("wrapdims", {"N": N, "rd": None, "cd": d, "cy": cy}, True))
        for p in itertools.permutations(range(N)):
            for k in range(0, N + 1):
                cases.append(Case("wrapdims", {"N": N, "rd": list(p[:k]), "cd": list(p[k:]), "cy": rng.choice([None, "bc", "t"])}, True))
        for cy in (None, "fc", "bc", "t"):
            cases.append(Case("wrapdims", {"N": N, "rd": None, "cd": None, "cy": cy}, True))
    for _ in range(200 if big else 60):      # repeated / out-of-range modes (answered by the code as they come)
        N = rng.randint(1, 5)
        d = [rng.randint(0, N + 1) for _ in range(rng.randint(1, 3))]
        e = rng.choice([None, [rng.randint(0, N) for _ in range(rng.randint(0, 3))]])
        cases.append(Case("wrapdims", {"N": N, "rd": d, "cd": e, "cy": rng.choice([None, "fc", "bc", "t"])}, True))
    # --- fg_setup.setup (Gen/GenFgSetup.v): every objective x data kind x extra parameter; accept / reject and bound kind
    datas = [None, ("dense", [0, 1, 1, 0]), ("dense", [0, 2, 3, 1]), ("dense", [0.5, 1.5, 2, 1]), ("dense", [1, 2, 3, 4]),
             ("dense", [-1, 2, 1, 1]), ("sparse", [1, 1]), ("sparse", [2, 3]), ("sparse", [0.5, 1]), ("sparse", [-1, 1])]
    for obj in ("GAUSSIAN", "BERNOULLI_ODDS", "BERNOULLI_LOGIT", "POISSON", "POISSON_LOG", "RAYLEIGH", "GAMMA", "HUBER",
                "NEGATIVE_BINOMIAL", "BETA"):
        for d in datas:
            for p_ in (None, 2):
                cases.append(Case("fg_setup", {"objective": obj, "data": d, "param": p_}, True))
    # --- Np primitive validation (the translator's whitelist: numpy call -> Np definition)
    for _ in range(600 if big else 150):
        k = rng.randint(1, 3)
        m = [[rng.randint(0, 2) for _ in range(k)] for _ in range(rng.randint(1, 6))]
        cases.append(Case("prim_unique_rows", {"m": m, "k": k}, len(m) > 1))
        v = rng.sample(range(-5, 12), rng.randint(0, 6))
        w = [rng.randint(-2, 6) for _ in range(rng.randint(0, 6))]
        cases.append(Case("prim_argsort", {"v": v}, len(v) > 1))
        cases.append(Case("prim_setdiff1d", {"a": w, "b": v}, bool(w) and bool(v)))
        cases.append(Case("prim_isin", {"a": w, "b": v}, bool(w) and bool(v)))
        n = rng.randint(1, 6)
        idx = [rng.randrange(n) for _ in range(rng.randint(0, 6))]
        vals = [rng.randint(-9, 9) for _ in idx]
        cases.append(Case("prim_scatter", {"n": n, "idx": idx, "vals": vals}, len(idx) > 1))
        # second batch (Np/NpZ2.v): np.where(mask), range(a, b, -1), enumerate, the Khatri-Rao reshape idiom
        mask = [rng.random() < 0.5 for _ in range(rng.randint(0, 7))]
        cases.append(Case("prim_where1", {"mask": mask}, len(mask) > 1))
        cases.append(Case("prim_range_down", {"a": rng.randint(-3, 6), "b": rng.randint(-3, 6)}, True))
        R = rng.randint(1, 3)
        P = [[rng.randint(-3, 4) for _ in range(R)] for _ in range(rng.randint(1, 4))]
        M = [[rng.randint(-3, 4) for _ in range(R)] for _ in range(rng.randint(1, 3))]
        cases.append(Case("prim_kr_step", {"P": P, "M": M, "R": R}, len(P) > 1 and len(M) > 1))
    return cases


def _mat(np, m, k):
    return np.array(m, dtype=int).reshape((len(m), k))


def run_impl(c):
    import numpy as np
    import pyttb.pyttb_utils as U
    a = c.args
    try:
        if c.op == "sub2ind":
            subs = np.array(a["subs"], dtype=int).reshape((len(a["subs"]), len(a["shape"])))
            r = U.tt_sub2ind(tuple(a["shape"]), subs)
            return {"ok": [int(x) for x in np.asarray(r).ravel()]}
        if c.op == "ind2sub":
            r = U.tt_ind2sub(tuple(a["shape"]), np.array(a["idx"], dtype=int))
            return {"ok": [[int(x) for x in row] for row in np.asarray(r).reshape((-1, len(a["shape"])))]}
        if c.op == "dimscheck":
            dims = None if a["dims"] is None else np.array(a["dims"], dtype=int)
            excl = None if a["excl"] is None else np.array(a["excl"], dtype=int)
            s, v = U.tt_dimscheck(a["N"], a["M"], dims, excl)
            return {"ok": [[int(x) for x in s], None if v is None else [int(x) for x in v]]}
        if c.op == "ismember":
            m, r = U.tt_ismember_rows(_mat(np, a["a"], a["k"]), _mat(np, a["b"], a["k"]))
            return {"ok": [[bool(x) for x in m], [int(x) for x in r]]}
        if c.op == "intersect":
            r = U.tt_intersect_rows(_mat(np, a["a"], a["k"]), _mat(np, a["b"], a["k"]))
            return {"ok": [int(x) for x in np.asarray(r).ravel()]}
        if c.op == "setdiff":
            r = U.tt_setdiff_rows(_mat(np, a["a"], a["k"]), _mat(np, a["b"], a["k"]))
            return {"ok": [int(x) for x in np.asarray(r).ravel()]}
        if c.op == "union":
            r = U.tt_union_rows(_mat(np, a["a"], a["k"]), _mat(np, a["b"], a["k"]))
            return {"ok": [[int(x) for x in row] for row in np.asarray(r).reshape((-1, a["k"]))]}
        if c.op in ("khatrirao", "khatrirao_zero"):
            from pyttb.khatrirao import khatrirao
            r = khatrirao(*[np.array(m, dtype=float).reshape((len(m), len(m[0]))) for m in a["mats"]], reverse=a["reverse"])
            return {"ok": [[int(x) for x in row] for row in r]}
        if c.op == "fg_setup":
            import pyttb as ttb
            from pyttb.gcp import fg_setup
            from pyttb.gcp.handles import Objectives
            d = a["data"]
            if d is None:
                data = None
            elif d[0] == "dense":
                data = ttb.tensor(np.array(d[1], dtype=float).reshape((2, 2)))
            else:
                data = ttb.sptensor(np.array([[0, 0], [1, 1]]), np.array(d[1], dtype=float).reshape((2, 1)), (2, 2))
            fh, gh, lb = fg_setup.setup(Objectives[a["objective"]], data, a["param"])
            return {"ok": {"neginf": bool(lb == -np.inf), "lb": None if lb == -np.inf else float(lb)}}
        if c.op == "wrapdims":
            rd = None if a["rd"] is None else np.array(a["rd"], dtype=int)
            cd = None if a["cd"] is None else np.array(a["cd"], dtype=int)
            r, cc = U.gather_wrap_dims(a["N"], rd, cd, a["cy"])
            return {"ok": [[int(x) for x in np.asarray(r).ravel()], [int(x) for x in np.asarray(cc).ravel()]]}
        if c.op == "min_split":
            from pyttb.tensor import min_split
            return {"ok": int(min_split(tuple(a["shape"])))}
        if c.op == "prim_unique_rows":
            u, i = np.unique(_mat(np, a["m"], a["k"]), axis=0, return_index=True)
            return {"ok": [[[int(x) for x in r] for r in u], [int(x) for x in i]]}
        if c.op == "prim_argsort":
            return {"ok": [int(x) for x in np.argsort(np.array(a["v"], dtype=int))]}
        if c.op == "prim_setdiff1d":
            return {"ok": [int(x) for x in np.setdiff1d(np.array(a["a"], dtype=int), np.array(a["b"], dtype=int))]}
        if c.op == "prim_isin":
            return {"ok": [bool(x) for x in np.isin(np.array(a["a"], dtype=int), np.array(a["b"], dtype=int))]}
        if c.op == "prim_where1":
            return {"ok": [int(x) for x in np.arange(len(a["mask"]))[np.where(np.array(a["mask"], dtype=bool))]]}
        if c.op == "prim_range_down":
            return {"ok": [i for i in range(a["a"], a["b"], -1)]}
        if c.op == "prim_kr_step":
            P, M, R = np.array(a["P"], dtype=int), np.array(a["M"], dtype=int), a["R"]
            T = np.reshape(M, (-1, 1, R)) * np.reshape(P, (1, -1, R), order="F")
            return {"ok": [[int(x) for x in row] for row in np.reshape(T, (-1, R), order="F")]}
        if c.op == "prim_scatter":
            r = np.ones(a["n"]) * -1
            if a["idx"]:
                r[np.array(a["idx"], dtype=int)] = np.array(a["vals"])
            return {"ok": [int(x) for x in r]}
    except Exception as ex:      # any exception raised before a value is returned = rejected
        return {"exc": type(ex).__name__}
    raise ValueError(c.op)


def coq_check(c, o):
    a = c.args
    if c.op == "sub2ind":
        exp = "Err" if "exc" in o else f"(Ok {gzlist(o['ok'])})"
        return f"res_eqb vec_eqb (tt_sub2ind {gzlist(a['shape'])} {gzmat(a['subs'])} OrdF) {exp}"
    if c.op == "ind2sub":
        exp = "Err" if "exc" in o else f"(Ok {gzmat(o['ok'])})"
        return f"res_eqb mat_eqb (tt_ind2sub {gzlist(a['shape'])} {gzlist(a['idx'])} OrdF) {exp}"
    if c.op == "dimscheck" and a["dims"] is not None and len(set(a["dims"])) != len(a["dims"]) and "ok" in o \
            and o["ok"][1] is not None and a["M"] == len(a["dims"]):
        # repeated modes (ill-formed, see C19): numpy's argsort order among equal keys is unspecified, so only
        # require the selected modes to agree and the observed positions to be a valid argsort of the request
        call = f"tt_dimscheck {gz(a['N'])} {gopt(a['M'], gz)} {gopt(a['dims'], gzlist)} None"
        return (f"match {call} with Ok (s_, Some _) => vec_eqb s_ {gzlist(o['ok'][0])} && "
                f"vec_eqb (np_take 0%Z {gzlist(a['dims'])} {gzlist(o['ok'][1])}) s_ && "
                f"vec_eqb (np_sort {gzlist(o['ok'][1])}) (np_arange 0%Z {gz(len(a['dims']))}) | _ => false end")
    if c.op == "dimscheck":
        exp = "Err" if "exc" in o else f"(Ok ({gzlist(o['ok'][0])}, {gopt(o['ok'][1], gzlist)}))"
        return (f"res_eqb (pair_eqb vec_eqb (opt_eqb vec_eqb)) (tt_dimscheck {gz(a['N'])} {gopt(a['M'], gz)} "
                f"{gopt(a['dims'], gzlist)} {gopt(a['excl'], gzlist)}) {exp}")
    if c.op == "ismember":
        exp = "Err" if "exc" in o else f"(Ok ({gblist(o['ok'][0])}, {gzlist(o['ok'][1])}))"
        return f"res_eqb (pair_eqb bvec_eqb vec_eqb) (tt_ismember_rows {gzmat(a['a'])} {gzmat(a['b'])}) {exp}"
    if c.op in ("intersect", "setdiff"):
        exp = "Err" if "exc" in o else f"(Ok {gzlist(o['ok'])})"
        return f"res_eqb vec_eqb (tt_{c.op}_rows {gzmat(a['a'])} {gzmat(a['b'])}) {exp}"
    if c.op == "union":
        exp = "Err" if "exc" in o else f"(Ok {gzmat(o['ok'])})"
        return f"res_eqb mat_eqb (tt_union_rows {gzmat(a['a'])} {gzmat(a['b'])}) {exp}"
    if c.op == "khatrirao":
        ms = "[" + "; ".join(gzmat(m) for m in a["mats"]) + "]"
        exp = "None" if "exc" in o else f"(Some {gzmat(o['ok'])})"
        rexp = "Err" if "exc" in o else f"(Ok {gzmat(o['ok'])})"
        rv = 'true' if a['reverse'] else 'false'
        return (f"opt_eqb mat_eqb (khatrirao Z Z.mul {rv} {ms}) {exp} && "
                f"res_eqb mat_eqb (GenKernels.khatrirao {ms} {rv}) {rexp}")
    if c.op == "khatrirao_zero":
        ms = "[" + "; ".join(gzmat(m) for m in a["mats"]) + "]" if a["mats"] else "(@nil (list (list Z)))"
        rexp = "Err" if "exc" in o else f"(Ok {gzmat(o['ok'])})"
        return f"res_eqb mat_eqb (GenKernels.khatrirao {ms} {'true' if a['reverse'] else 'false'}) {rexp}"
    if c.op == "fg_setup":
        d = a["data"]
        if d is None:
            dtxt = "None"
        else:       # the flags are computed here, independently, from the entry-wise reading in Gen/GenFgSetup.v
            vals = d[1]
            binary = all(v == 1 for v in vals) if d[0] == "sparse" else all(v in (0, 1) for v in vals)
            natural = all(float(v).is_integer() for v in vals)
            nonneg = all(v > 0 for v in vals)
            dtxt = ("(Some (GenFgSetup.Build_datachk " + " ".join("true" if b else "false" for b in (binary, natural, nonneg)) + "))")
        ptxt = "None" if a["param"] is None else f"(Some (IZR {gz(a['param'])}))"
        call = f"GenFgSetup.setup GenFgSetup.{a['objective']} {dtxt} {ptxt}"
        if "exc" in o:
            return f"match {call} with None => true | Some _ => false end"
        want = "GenFgSetup.NegInf => true | GenFgSetup.Finite _ => false" if o["ok"]["neginf"] else "GenFgSetup.NegInf => false | GenFgSetup.Finite _ => true"
        return f"match {call} with Some (_, _, lb_) => match lb_ with {want} end | None => false end"
    if c.op == "wrapdims":
        cy = {None: "None", "fc": "(Some CycFC)", "bc": "(Some CycBC)", "t": "(Some CycT)"}.get(a["cy"], "(Some CycOther)")
        exp = "Err" if "exc" in o else f"(Ok ({gzlist(o['ok'][0])}, {gzlist(o['ok'][1])}))"
        return (f"res_eqb (pair_eqb vec_eqb vec_eqb) (gather_wrap_dims {gz(a['N'])} {gopt(a['rd'], gzlist)} "
                f"{gopt(a['cd'], gzlist)} {cy}) {exp}")
    if c.op == "min_split":
        exp = "Err" if "exc" in o else f"(Ok {gz(o['ok'])})"
        return f"res_eqb Z.eqb (min_split {gzlist(a['shape'])}) {exp}"
    if c.op.startswith("prim_") and "exc" in o:
        return "false"
    if c.op == "prim_unique_rows":
        return f"pair_eqb mat_eqb vec_eqb (np_unique_rows {gzmat(a['m'])}) ({gzmat(o['ok'][0])}, {gzlist(o['ok'][1])})"
    if c.op == "prim_argsort":
        return f"vec_eqb (np_argsort {gzlist(a['v'])}) {gzlist(o['ok'])}"
    if c.op == "prim_setdiff1d":
        return f"vec_eqb (np_setdiff1d {gzlist(a['a'])} {gzlist(a['b'])}) {gzlist(o['ok'])}"
    if c.op == "prim_isin":
        return f"bvec_eqb (np_isin {gzlist(a['a'])} {gzlist(a['b'])}) {gblist(o['ok'])}"
    if c.op == "prim_where1":
        return f"vec_eqb (np_where1 {gblist(a['mask'])}) {gzlist(o['ok'])}"
    if c.op == "prim_range_down":
        return f"vec_eqb (np_arange_down {gz(a['a'])} {gz(a['b'])}) {gzlist(o['ok'])}"
    if c.op == "prim_kr_step":
        return (f"np_reshape_ok {gzmat(a['P'])} {gz(a['R'])} && np_reshape_ok {gzmat(a['M'])} {gz(a['R'])} && "
                f"mat_eqb (np_reshape_rows (np_kr_step {gzmat(a['P'])} {gzmat(a['M'])}) {gz(a['R'])}) {gzmat(o['ok'])}")
    if c.op == "prim_scatter":
        return f"vec_eqb (np_scatter (np_full {gz(a['n'])} (-1)%Z) {gzlist(a['idx'])} {gzlist(a['vals'])}) {gzlist(o['ok'])}"
    raise ValueError(c.op)


def oracle(c, o):
    """independent brute-force statement of what C17 demands of pyttb's output (pure Python, no numpy)"""
    a = c.args
    if c.op == "sub2ind":
        shp = a["shape"]
        valid = all(len(r) == len(shp) and all(0 <= x < d for x, d in zip(r, shp)) for r in a["subs"])
        if not valid:
            return None if "exc" in o else "out-of-range subscript was answered, not rejected"
        exp = []
        for r in a["subs"]:
            k, mul = 0, 1
            for x, d in zip(r, shp):
                k += x * mul
                mul *= d
            exp.append(k)
        if o.get("ok") != exp:
            return f"tt_sub2ind returned {o} but first-index-fastest linear indices are {exp}"
        return None
    if c.op == "ind2sub":
        import math
        shp = a["shape"]
        n = math.prod(shp)
        if any(not (-n <= k < n) for k in a["idx"]):
            return None if "exc" in o else "out-of-range linear index was answered"
        exp = []
        for k in a["idx"]:
            k = k + n if k < 0 else k
            row = []
            for d in shp:
                row.append(k % d)
                k //= d
            exp.append(row)
        if o.get("ok") != exp:
            return f"tt_ind2sub returned {o} expected {exp}"
        return None
    if c.op == "dimscheck":
        N, M, dims, excl = a["N"], a["M"], a["dims"], a["excl"]
        if dims is not None and excl is not None:
            return None if "exc" in o else "both dims and exclude_dims accepted"
        if excl is not None:
            if any(not (0 <= x < N) for x in excl):
                return None if "exc" in o else "out-of-range exclude_dims accepted"
            d = [x for x in range(N) if x not in excl]
            given = d
        elif dims is not None:
            if any(x < 0 for x in dims):
                return None if "exc" in o else "negative dims accepted"
            if len(set(dims)) != len(dims) or any(x >= N for x in dims):
                return None      # repeated / too-large modes: C19 territory (known A-42); not judged here
            given = dims
            d = sorted(dims)
        else:
            given = d = list(range(N))
        P = len(d)
        if M is not None and (M > N or M not in (N, P)):
            return None if "exc" in o else "inadmissible multiplicand count accepted"
        if "exc" in o:
            return f"admissible request rejected ({o['exc']})"
        s, v = o["ok"]
        if s != d:
            return f"selected modes {s} != sorted modes {d}"
        if M is None:
            return None if v is None else "vidx returned without M"
        if v is None:
            return "no multiplicand positions returned"
        for k in range(P):
            want = given.index(d[k]) if M == P else d[k]
            if v[k] != want:
                return f"multiplicand position for mode {d[k]} is {v[k]}, expected {want}"
        return None
    if c.op == "ismember":
        A, B = a["a"], a["b"]
        if "exc" in o:
            return "rejected"
        m, r = o["ok"]
        for i, row in enumerate(A):
            if row in B:
                if not m[i] or B[r[i]] != row:
                    return f"search row {i} is in source but result {r[i]} does not locate it"
            elif m[i] or r[i] != -1:
                return f"search row {i} absent from source but reported {r[i]}"
        return None
    if c.op in ("intersect", "setdiff"):
        A, B = a["a"], a["b"]
        if "exc" in o:
            return "rejected"
        if len({tuple(x) for x in A}) != len(A):
            return None      # repeated rows in the first argument: indices refer to the de-duplicated list (A-41)
        rows = [A[i] for i in o["ok"]] if all(0 <= i < len(A) for i in o["ok"]) else None
        if rows is None:
            return "index outside the first argument"
        want = [r for r in A if (r in B) == (c.op == "intersect")]
        if sorted(map(tuple, rows)) != sorted(map(tuple, want)) or len(rows) != len(want):
            return f"rows selected {rows} are not the set-algebra answer {want}"
        return None
    if c.op == "fg_setup":
        # losses that evaluate log(model + EPS) or divide by (model + EPS) are differentiable only for model >= 0
        need_zero = a["objective"] in ("BERNOULLI_ODDS", "POISSON", "RAYLEIGH", "GAMMA", "NEGATIVE_BINOMIAL", "BETA")
        needs_param = a["objective"] in ("HUBER", "NEGATIVE_BINOMIAL", "BETA")
        if "exc" in o:
            if a["data"] is None and (a["param"] is not None or not needs_param):
                return f"objective {a['objective']} rejected without data to object to ({o['exc']})"
            return None
        if needs_param and a["param"] is None:
            return f"objective {a['objective']} accepted without its extra parameter"
        if need_zero and o["ok"]["neginf"]:
            return f"objective {a['objective']} gets no lower bound although its loss is only defined for model >= 0"
        if need_zero and o["ok"]["lb"] != 0:
            return f"objective {a['objective']} gets lower bound {o['ok']['lb']} instead of 0"
        if not need_zero and not o["ok"]["neginf"]:
            return f"objective {a['objective']} is given the lower bound {o['ok']['lb']} although it is defined on all reals"
        return None
    if c.op == "wrapdims":
        N, rd, cd, cy = a["N"], a["rd"], a["cd"], a["cy"]

        def modes_ok(d):
            return len(set(d)) == len(d) and all(0 <= x < N for x in d)
        if rd is None and cd is None:
            return None if "exc" in o else "request without rows and columns was answered"
        if rd is not None and cd is not None:
            adm = sorted(rd + cd) == list(range(N))
        else:
            adm = modes_ok(rd if rd is not None else cd)
        single = rd is not None and cd is None and len(rd) == 1
        if single and cy not in (None, "fc", "bc", "t"):
            return None if "exc" in o else "unrecognised cyclic pattern was answered"
        if not adm:
            return None      # ill-formed mode lists: C19 territory
        if "exc" in o:
            return f"admissible request rejected ({o['exc']})"
        r, cc = o["ok"]
        if sorted(r + cc) != list(range(N)):
            return f"rows {r} and columns {cc} do not partition the modes 0..{N - 1}"
        rest = lambda d: [x for x in range(N) if x not in d]
        if rd is not None and cd is not None:
            want = (rd, cd)
        elif rd is None:
            want = (rest(cd), cd)
        elif single and cy == "t":
            want = (rest(rd), rd)
        elif single and cy == "fc":
            want = (rd, list(range(rd[0] + 1, N)) + list(range(0, rd[0])))
        elif single and cy == "bc":
            want = (rd, list(range(rd[0] - 1, -1, -1)) + list(range(N - 1, rd[0], -1)))
        else:
            want = (rd, rest(rd))
        if (r, cc) != (list(want[0]), list(want[1])):
            return f"(rdims, cdims) = {(r, cc)} but the documented convention gives {want}"
        return None
    if c.op == "min_split":
        shp = a["shape"]
        N = len(shp)
        if N < 2 or any(d <= 0 for d in shp):
            return None          # the property speaks about N >= 2 modes of positive size
        if "exc" in o:
            return f"admissible shape rejected ({o['exc']})"
        k = o["ok"]
        if not (0 <= k <= N - 2):
            return f"split index {k} outside [0, {N - 2}]: a partial Khatri-Rao product would be empty"

        def pr(l):
            p = 1
            for d in l:
                p *= d
            return p
        for j in range(1, k + 1):
            if not pr(shp[:j]) < pr(shp[j + 1:]):
                return f"mode {j} was moved left although prod(shape[:{j}]) >= prod(shape[{j + 1}:])"
        if not pr(shp[k + 2:]) <= pr(shp[:k + 1]):
            return f"scan stopped at {k} although mode {k + 1} would still reduce the footprint"
        return None
    if c.op == "union":
        A, B = a["a"], a["b"]
        if len({tuple(x) for x in A}) != len(A) or len({tuple(x) for x in B}) != len(B):
            return None      # repeated rows: outside the well-formed (duplicate-free) contract
        if "exc" in o:
            return f"rejected ({o['exc']})"
        want = [r for r in B if r not in A] + A
        if o["ok"] != want:
            return f"union {o['ok']} is not (rows of B not in A, in B's order) + A = {want}"
        return None
    if c.op == "khatrirao":
        mats = a["mats"][::-1] if a["reverse"] else a["mats"]
        R = len(mats[0][0])
        if any(len(row) != R for m in mats for row in m):
            return None if "exc" in o else "matrices with different column counts were answered"
        if "exc" in o:
            return f"admissible Khatri-Rao product rejected ({o['exc']})"
        rows = [[1] * R]
        for m in mats:         # first argument slowest
            rows = [[p[r] * q[r] for r in range(R)] for p in rows for q in m]
        if o["ok"] != rows:
            return f"result {o['ok']} is not the column-wise Kronecker product {rows}"
        return None
    return None


# ---- known findings -----------------------------------------------------------------------------------------

def _union_witness():
    """C17-UNION: tt_union_rows with a duplicate-free second argument that is not in lexicographic row order"""
    import numpy as np
    import pyttb.pyttb_utils as U
    A = np.array([[1, 2]])
    B = np.array([[5, 5], [0, 0], [1, 2]])
    got = [[int(x) for x in r] for r in U.tt_union_rows(A.copy(), B.copy())]
    want = [[5, 5], [0, 0], [1, 2]]
    if got != want:
        return f"tt_union_rows([[1,2]], [[5,5],[0,0],[1,2]]) = {got}, expected {want}"
    return None


def _union_unsorted_b(c):
    if c.op != "union":
        return False
    b = [tuple(r) for r in c.args["b"]]
    return b != sorted(set(b))


TRIGGERS = {"union_unsorted_b": _union_unsorted_b}
WITNESSES = {"C17-UNION": _union_witness}
