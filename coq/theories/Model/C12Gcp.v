(* Model/C12Gcp.v — executable model of the tensor-level GCP evaluation (DESIGN §C12, T2).
   Source anchors: pyttb/gcp/fg.py::evaluate, pyttb/gcp/fg_est.py::estimate / estimate_helper,
   pyttb/tensor.py::mttkrps.  Ring-generic: values in V, element-wise loss f and derivative g abstract. *)
From Coq Require Import List Arith Lia Bool.
From PV Require Import Base.Index Base.Sum Np.Array Model.Sparse Model.Repr.
Import ListNotations.

Section Gcp.
Context {V : Type} (v0 v1 : V) (vadd vmul vsub : V -> V -> V).
Variables f g : V -> V -> V.

Notation mat := (list (list V)).
Notation kp := (kprod v0 v1 vmul).
Notation msum := (sum_over v0 vadd).

(* Π_{l <> k} A_l[i_l, r] *)
Fixpoint kprod_skip (As : list mat) (i : idx) (r k : nat) : V :=
  match As, i with
  | A :: As', x :: i' =>
      match k with
      | O => kp As' i' r
      | S k' => vmul (mget v0 A x r) (kprod_skip As' i' r k')
      end
  | _, _ => v1
  end.

(* ---------------- fg.evaluate ---------------------------------------------------------- *)
(* weights=None -> no factor; otherwise an array of the data's shape *)
Definition wget (w : option (dense V)) (i : idx) : V :=
  match w with None => v1 | Some W => den_dense v0 W i end.

(* F = sum(f(data, full(model)) * weights) *)
Definition eval_F (K : ktensor V) (X : dense V) (w : option (dense V)) : V :=
  msum (allsubs (dshape X))
       (fun i => vmul (f (den_dense v0 X i) (den_k v0 v1 vadd vmul K i)) (wget w i)).

(* Y = g(data, full(model)) * weights, as a function of the subscript *)
Definition eval_Y (K : ktensor V) (X : dense V) (w : option (dense V)) (i : idx) : V :=
  vmul (g (den_dense v0 X i) (den_k v0 v1 vadd vmul K i)) (wget w i).

(* matricised-tensor-times-Khatri-Rao of the array Y (given by its denotation on shape s) with all factor
   matrices but the k-th: entry (j, r) = sum over subscripts i with i_k = j of Y[i] * Π_{l<>k} A_l[i_l, r] *)
Definition mttkrp_den (s : shape) (Y : idx -> V) (As : list mat) (R k : nat) : mat :=
  map (fun j => map (fun r =>
      msum (filter (fun i => Nat.eqb (nth k i 0) j) (allsubs s))
           (fun i => vmul (Y i) (kprod_skip As i r k))) (seq 0 R))
    (seq 0 (nth k s 0)).

(* G = tensor(Y).mttkrps(model.factor_matrices): one matrix per mode; the model's weights are NOT used *)
Definition eval_G (K : ktensor V) (X : dense V) (w : option (dense V)) : list mat :=
  map (mttkrp_den (dshape X) (eval_Y K X w) (kfactors K) (krank K)) (seq 0 (length (dshape X))).

(* ---------------- fg_est.estimate (lambda_check = False) --------------------------------- *)
(* estimate_helper: model value at a subscript from the factor matrices alone *)
Definition fac_val (As : list mat) (R : nat) (i : idx) : V := sum_n v0 vadd R (fun r => kp As i r).

(* the leave-one-out products of estimate_helper for one sample and one component:
   a forward pass of prefix products and a backward pass of suffix products *)
Fixpoint prefixes (acc : V) (u : list V) : list V :=
  match u with [] => [] | x :: u' => acc :: prefixes (vmul acc x) u' end.
Fixpoint suffixes (u : list V) : list V * V :=
  match u with
  | [] => ([], v1)
  | x :: u' => let (l, p) := suffixes u' in (p :: l, vmul x p)
  end.
Fixpoint map2 {A B C} (h : A -> B -> C) (l1 : list A) (l2 : list B) : list C :=
  match l1, l2 with a :: l1', b :: l2' => h a b :: map2 h l1' l2' | _, _ => [] end.
Definition loo_alg (u : list V) : list V := map2 vmul (prefixes v1 u) (fst (suffixes u)).
(* Uexp[k][s, r] for one sample *)
Definition urow (As : list mat) (i : idx) (r : nat) : list V := map2 (fun A x => mget v0 A x r) As i.

Definition inl (s : nat) (l : list nat) : bool := existsb (Nat.eqb s) l.

Section Est.
Variables (As : list mat) (R : nat) (subs : list idx) (xs ws : list V) (crng : list nat).
Definition est_m (s : nat) : V := fac_val As R (nth s subs []).
(* F = sum(weights * Y), Y = f(vals, mvals), Y[crng] -= f(0, mvals[crng]) *)
Definition est_F : V :=
  msum (seq 0 (length subs)) (fun s =>
    vmul (nth s ws v0)
         (if inl s crng then vsub (f (nth s xs v0) (est_m s)) (f v0 (est_m s)) else f (nth s xs v0) (est_m s))).
(* Y = weights * g(vals, mvals); Y[crng] -= weights[crng] * g(0, mvals[crng]) *)
Definition est_Y (s : nat) : V :=
  let y := vmul (nth s ws v0) (g (nth s xs v0) (est_m s)) in
  if inl s crng then vsub y (vmul (nth s ws v0) (g v0 (est_m s))) else y.
(* G[k] = S.dot(Zexp[k]) with S the (I_k x nsamples) matrix holding Y[s] at (subs[s][k], s) *)
Definition est_Gk (s : shape) (k : nat) : mat :=
  map (fun j => map (fun r =>
      msum (filter (fun q => Nat.eqb (nth k (nth q subs []) 0) j) (seq 0 (length subs)))
           (fun q => vmul (est_Y q) (nth k (loo_alg (urow As (nth q subs []) r)) v0))) (seq 0 R))
    (seq 0 (nth k s 0)).
Definition est_G (s : shape) : list mat := map (est_Gk s) (seq 0 (length s)).
End Est.

End Gcp.
