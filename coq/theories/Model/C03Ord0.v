(* Model/C03Ord0.v — order-0 operands (wave 4).  pyttb's tensor of shape () is THE EMPTY TENSOR: sptensor(shape=()) stores
   no row, tensor() holds no data, allsubs() lists no subscript — there is no cell (numpy's 0-d array has one; Base/Index.v
   follows numpy: size [] = 1, allsubs [] = [[]]).  "At every position" is therefore vacuous for order 0 and every operator
   must hand back an empty container.  Checkers of the generated order-0 cases, and the enumeration as pyttb has it. *)
From Coq Require Import List Arith Bool.
From PV Require Import Base.Index Np.Array Model.Sparse Model.Harness.
Import ListNotations.

(* pyttb's allsubs(): no row for the empty shape *)
Definition allsubsP (s : shape) : list idx := match s with [] => [] | _ => allsubs s end.

(* a sparse / dense result over an order-0 operand: shape (), nothing stored (dense results of tensor.py come back with
   data of shape (0,), and so does the same operator applied to the expanded operands: both spellings of "no cell") *)
Definition ord0_sp_ok {V} (S : sparse V) : bool :=
  nvec_eqb (sshape S) [] && Nat.eqb (length (ssubs S)) 0 && Nat.eqb (length (svals S)) 0.
Definition ord0_dense_ok {V} (T : dense V) : bool :=
  (nvec_eqb (dshape T) [] || nvec_eqb (dshape T) [0]) && Nat.eqb (length (ddata T)) 0.
