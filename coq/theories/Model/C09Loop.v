(* C09 / C18 : the OUTER LOOP and epilogue of pyttb.cp_als (cp_als.py, `for iteration in range(maxiters):`
   ... `return M, init, output`) as an executable state machine.  The numerics are abstract oracles:
   one sweep over `for n in dimorder:`, the two fit formulas, the comparison |fitold - fit| < stoptol,
   arrange and fixsigns.  Everything about control flow, the reported quantities and printing is
   transliterated statement by statement (from the REPAIRED source: `if maxiters == 0:` block = cpals_entry). *)
From Coq Require Import List Arith Bool Lia.
Import ListNotations.

Set Implicit Arguments.

Section CpAlsLoop.

Variable St : Type.                        (* numeric state after a sweep: U, weights, saved mttkrp *)
Variable F : Type.                         (* fit values *)
Variable sweep : nat -> St -> St.          (* body of `for n in dimorder:` at iteration k (2-norm at k = 0, max-norm later) *)
Variable fit_mttkrp : St -> F * F.         (* (normresidual, fit) from normX, M.norm(), saved mttkrp  (lines 237-250) *)
Variable fit_innerprod : St -> F * F.      (* (normresidual, fit) from input_tensor.innerprod(M)      (lines 272-283) *)
Variable fchange_lt : F -> F -> F -> bool. (* fchange_lt fitold fit stoptol = (|fitold - fit| < stoptol) *)
Variable fit0 : F.                         (* the literal 0 of `fit = 0` *)
Variable arrange : St -> St.               (* M.arrange() *)
Variable fixsigns : St -> St.              (* M.fixsigns() *)

(* what is printed *)
Inductive event : Type :=
| EvHeader : event                                   (* "CP_ALS:" *)
| EvIter (k : nat) (fit fitold : F) : event          (* " Iter k: f = fit f-delta = |fitold - fit|" *)
| EvFinal (fit : F) : event.                         (* " Final f = fit" *)

Record result : Type := mkResult {
  r_state : St;            (* returned model, after arrange / fixsigns *)
  r_iters : nat;           (* output["iters"] = loop variable `iteration` at exit (0-based index of the last executed iteration) *)
  r_normres : F;           (* output["normresidual"] *)
  r_fit : F;               (* output["fit"] *)
  r_log : list event;      (* printed lines in order *)
  r_trace : list F         (* fit computed in each executed iteration, in order *)
}.

(* values of the Python locals when the loop is left *)
Record loopout : Type := mkLoopout {
  lo_state : St;           (* U, weights, U_mttkrp, i.e. M before arrange *)
  lo_iter : nat;           (* iteration *)
  lo_nr : F;               (* normresidual *)
  lo_fit : F;              (* fit *)
  lo_log : list event;     (* iteration lines printed by the iterations still to run *)
  lo_trace : list F        (* fits computed by the iterations still to run *)
}.

Section Run.
Variable stoptol : F.
Variable printitn : nat.   (* Python int; every test is `printitn > 0`, so values <= 0 behave as 0 *)

(*   if (printitn > 0) and ((divmod(iteration, printitn)[1] == 0) or (flag == 0)): print(...)   *)
Definition cpals_iter_events (k : nat) (fit fitold : F) (flag0 : bool) : list event :=
  if (0 <? printitn) && ((k mod printitn =? 0) || flag0) then [EvIter k fit fitold] else [].

(* rem  = iterations that range(maxiters) still yields;   k = the next value of `iteration`;
   s    = current U / weights / U_mttkrp;                 fit = current value of the local `fit`;
   last = Some (iteration, normresidual) once these locals (and M) are bound, None before the first iteration. *)
Fixpoint cpals_loop (rem k : nat) (s : St) (fit : F) (last : option (nat * F)) : option loopout :=
  match rem with
  | 0 =>                                      (* range exhausted: fall out of the for statement *)
      match last with
      | None => None                          (* no iteration ran and nothing was bound before the loop: unreachable from
                                                 cpals_run (the `if maxiters == 0:` block binds them), see cpals_run_total *)
      | Some (it, nr) => Some (mkLoopout s it nr fit [] [])
      end
  | S rem' =>
      let fitold := fit in                                            (* fitold = fit *)
      let s' := sweep k s in                                          (* for n in dimorder: ...; M = ktensor(U, weights) *)
      let nr := fst (fit_mttkrp s') in                                (* normresidual = ... *)
      let fit' := snd (fit_mttkrp s') in                              (* fit = ... *)
      let flag0 := (0 <? k) && fchange_lt fitold fit' stoptol in      (* flag == 0 *)
      let ev := cpals_iter_events k fit' fitold flag0 in
      if flag0
      then Some (mkLoopout s' k nr fit' ev [fit'])                    (* break *)
      else match cpals_loop rem' (S k) s' fit' (Some (k, nr)) with
           | None => None
           | Some o => Some (mkLoopout (lo_state o) (lo_iter o) (lo_nr o) (lo_fit o)
                                       (ev ++ lo_log o) (fit' :: lo_trace o))
           end
  end.

(* M.arrange(); if fixsigns: M = M.fixsigns() *)
Definition cpals_finish (dofix : bool) (s : St) : St :=
  (if dofix then fixsigns else @id St) (arrange s).

(* state of the locals (fit, iteration/normresidual) when the `for` statement is entered:
     if maxiters == 0:                      # no sweep is executed: report the initial guess itself
         iteration = 0;  M = ktensor(U, init.weights.copy())
         normresidual, fit = <innerprod formula on M>          (cp_als.py, block before the main loop) *)
Definition cpals_entry (s0 : St) (maxiters : nat) : F * option (nat * F) :=
  match maxiters with
  | 0 => (snd (fit_innerprod s0), Some (0, fst (fit_innerprod s0)))
  | S _ => (fit0, None)
  end.

Definition cpals_run (s0 : St) (maxiters : nat) (dofix : bool) : option result :=
  let hdr := if 0 <? printitn then [EvHeader] else [] in              (* if printitn > 0: print("CP_ALS:") *)
  let en := cpals_entry s0 maxiters in
  match cpals_loop maxiters 0 s0 (fst en) (snd en) with
  | None => None
  | Some o =>
      let m := cpals_finish dofix (lo_state o) in
      if 0 <? printitn
      then let nf := fit_innerprod m in                               (* recomputed only when printing (A-43) *)
           Some (mkResult m (lo_iter o) (fst nf) (snd nf)
                          (hdr ++ lo_log o ++ [EvFinal (snd nf)]) (lo_trace o))
      else Some (mkResult m (lo_iter o) (lo_nr o) (lo_fit o) (hdr ++ lo_log o) (lo_trace o))
  end.

End Run.

(* ---------- specification-level vocabulary ---------- *)

(* iter_sweep n s = sweep (n-1) (... (sweep 1 (sweep 0 s))) : the first n sweeps, in order *)
Fixpoint iter_sweep (n : nat) (s : St) : St :=
  match n with
  | 0 => s
  | S j => sweep j (iter_sweep j s)
  end.

(* fit computed in iteration k (0-based) of a run started at s0 *)
Definition fit_at (s0 : St) (k : nat) : F := snd (fit_mttkrp (iter_sweep (S k) s0)).

(* value of `fitold` in iteration k *)
Definition fit_before (s0 : St) (k : nat) : F :=
  match k with 0 => fit0 | S j => fit_at s0 j end.

(* the convergence test of iteration k fires *)
Definition cpals_trig (s0 : St) (stoptol : F) (k : nat) : bool :=
  (0 <? k) && fchange_lt (fit_before s0 k) (fit_at s0 k) stoptol.

(* index of the last executed iteration when `rem` iterations k, k+1, ... remain:
   the first j in [k, k+rem) whose test fires, else k+rem-1 *)
Fixpoint cpals_stop_from (s0 : St) (stoptol : F) (rem k : nat) : nat :=
  match rem with
  | 0 => k - 1
  | S rem' => if cpals_trig s0 stoptol k then k else cpals_stop_from s0 stoptol rem' (S k)
  end.

Definition cpals_stop_index (s0 : St) (stoptol : F) (maxiters : nat) : nat :=
  cpals_stop_from s0 stoptol maxiters 0.

(* iteration lines printed by iterations 0..n *)
Definition cpals_iter_log (s0 : St) (stoptol : F) (printitn n : nat) : list event :=
  flat_map (fun j => cpals_iter_events printitn j (fit_at s0 j) (fit_before s0 j) (cpals_trig s0 stoptol j))
           (seq 0 (S n)).

End CpAlsLoop.

Arguments EvHeader {F}.
Arguments EvIter {F} k fit fitold.
Arguments EvFinal {F} fit.

(* ---------- concrete runs (non-vacuity) ---------- *)
From Coq Require Import ZArith.

Module C09LoopExamples.
Local Open Scope Z_scope.

(* state = a Z that is halved by every sweep (k-th sweep also adds k mod 2 to make sweeps depend on k);
   fit = 100 - state, normresidual = state;  |a - b| < tol on Z. *)
Definition ex_sweep (k : nat) (s : Z) : Z := s / 2 + Z.of_nat (k mod 2).
Definition ex_fit (s : Z) : Z * Z := (s, 100 - s).
Definition ex_fit_ip (s : Z) : Z * Z := (s + 1000, 1100 - s).   (* deliberately different: shows A-43 *)
Definition ex_lt (a b tol : Z) : bool := Z.abs (a - b) <? tol.
Definition ex_run := cpals_run ex_sweep ex_fit ex_fit_ip ex_lt 0 (fun s => s + 10000) (fun s => - s).

(* stops early by the rule: fits 60, 79, 90, 94 (|90-94| < 5) -> iters = 3 although maxiters = 10 *)
Example ex_early :
  ex_run 5 0%nat 80 10%nat false
  = Some (mkResult 10006 3%nat 6 94 [] [60; 79; 90; 94]).
Proof. vm_compute. reflexivity. Qed.

(* same run, printing every 2nd iteration and fixing signs: identical state up to fixsigns, iters, trace;
   the reported fit comes from the other formula *)
Example ex_early_print :
  ex_run 5 2%nat 80 10%nat true
  = Some (mkResult (-10006) 3%nat (-9006) 11106
            [EvHeader; EvIter 0 60 0; EvIter 2 90 79; EvIter 3 94 90; EvFinal 11106] [60; 79; 90; 94]).
Proof. vm_compute. reflexivity. Qed.

(* hits the limit: maxiters = 3 -> iters = 2 *)
Example ex_limit :
  ex_run 5 0%nat 80 3%nat false
  = Some (mkResult 10010 2%nat 10 90 [] [60; 79; 90]).
Proof. vm_compute. reflexivity. Qed.

(* the test is not applied at iteration 0: stoptol = 1000 stops at iteration 1, not 0 *)
Example ex_never_at_zero :
  ex_run 1000 1%nat 80 10%nat false
  = Some (mkResult 10021 1%nat 11021 (-8921)
            [EvHeader; EvIter 0 60 0; EvIter 1 79 60; EvFinal (-8921)] [60; 79]).
Proof. vm_compute. reflexivity. Qed.

(* maxiters = 0 (repaired code, fix of A-30): no sweep; the start model is arranged / sign-fixed and reported with the
   innerprod formula — evaluated on the start itself when silent, on the arranged model when printing *)
Example ex_zero_silent :
  ex_run 5 0%nat 80 0%nat false = Some (mkResult 10080 0%nat 1080 1020 [] []).
Proof. vm_compute. reflexivity. Qed.

Example ex_zero_print :
  ex_run 5 1%nat 80 0%nat true
  = Some (mkResult (-10080) 0%nat (-9080) 11180 [EvHeader; EvFinal 11180] []).
Proof. vm_compute. reflexivity. Qed.

End C09LoopExamples.
