(* Model/W4FromVector.v — hand reference for the classmethod ktensor.from_vector(data, shape, contains_weights) as generated
   into Gen/GenKtensor4b.v, for a 1-d data array: R = len(data) / (sum(shape) [+ 1]) must be whole; the weights are the
   first R entries (or ones); factor n is the F-order reshape of the block that starts after the blocks of the earlier
   modes. *)
From Coq Require Import List ZArith Arith Bool Lia.
From PV Require Import Np.NpZ Np.NpZ2 Np.NpZ3 Np.NpZ3c Np.NpZ3d Np.NpZ3e Np.NpZ4 Np.NpZ4c.
Import ListNotations.
Local Open Scope Z_scope.

Definition H_fv_chunk (data shape : vec) (R shift n : Z) : vec :=
  py_slice 0 data (mkslice (Some (R * zsum (py_slice 0 shape (mkslice (Some 0) (Some n) None)) + shift))
                           (Some (R * zsum (py_slice 0 shape (mkslice (Some 0) (Some (n + 1)) None)) + shift)) None).
Definition H_from_vector (data shape : vec) (contains_weights : bool) : res ktz :=
  let d := zsum shape + (if contains_weights then 1 else 0) in
  if d =? 0 then Err
  else if negb (zlen data mod d =? 0) then Err
  else
    let R := zlen data / d in
    if negb contains_weights && negb (0 <=? R) then Err
    else
      let shift := if contains_weights then R else 0 in
      let w := if contains_weights then py_slice 0 data (mkslice (Some 0) (Some R) None) else np_full R 1 in
      let ns := np_enumerate 0 shape in
      if forallb (fun p => np_reshape2_ok (H_fv_chunk data shape R shift (fst p)) (snd p) R) ns then
        let fs := map (fun p => np_reshape2 OrdF (H_fv_chunk data shape R shift (fst p)) (snd p) R) ns in
        if kt_make_ok fs w then Ok (mkkt w fs) else Err
      else Err.
