(* Proofs/C10Recon.v — the Tucker tensor hosvd / tucker_als RETURN, reconstructed, is the product of the mode projectors (wave 4).
   For factors U_0..U_{d-1} (U_n : I_n x r_n, any entries) and data X of shape s:
       core = X x_0 U_0^T x_1 U_1^T ...        (the core relation of the property; Model.C10Tucker.ttm_all X (transposed Us))
       full = core x_0 U_0 x_1 U_1 ...          (ttensor.full; Model.C10Tucker.tfull_ttm)
       full = P_{d-1} (... P_1 (P_0 X))         with P_n Y = Y x_n (U_n U_n^T) on arrays of shape s
   Every commutative ring, every shape, every number of modes, no orthonormality needed.  Ingredients: mode products along
   different modes commute on DENSE arrays of changing shape (lift of Proofs/C10Ttm.ttm_den_comm), and
   (Y x_n U^T) x_n U = Y x_n (U U^T) (Proofs/C10Proj.ttm_ttm_uut). *)
From Coq Require Import List Arith Lia Bool Ring.
From PV Require Import Base.Index Base.Sum Np.Array Model.Sparse Model.Repr Model.C10Tucker Model.C14Nvecs
                       Proofs.C14Sums Proofs.C14Split Proofs.C14GramSp Proofs.C10Ttm Proofs.C10Proj.
Import ListNotations.

Section Recon.
Variable V : Type.
Variables (v0 v1 : V) (vadd vmul vsub : V -> V -> V) (vopp : V -> V).
Hypothesis Vring : ring_theory v0 v1 vadd vmul vsub vopp (@eq V).
Notation den := (den_dense v0).
Notation ttmd := (ttm_den v0 vadd vmul).
Notation ttm := (ttm v0 vadd vmul).
Notation ttm_from := (ttm_from v0 vadd vmul).
Notation mproj := (mproj V v0 vadd vmul).
Notation uut := (uut V v0 vadd vmul).

Lemma dshape_ttm (X : dense V) n M : dshape (ttm X n M) = set_nth n (nrows M) (dshape X).
Proof. unfold C10Tucker.ttm. now rewrite dshape_tabulate. Qed.

Lemma ndims_ttm (X : dense V) n M : n < length (dshape X) -> length (dshape (ttm X n M)) = length (dshape X).
Proof. intros H. rewrite dshape_ttm. now apply length_set_nth. Qed.

Lemma den_ttm (X : dense V) n M i : inb (set_nth n (nrows M) (dshape X)) i = true ->
  den (ttm X n M) i = ttmd (den X) (nth n (dshape X) 0) n M i.
Proof. intros H. unfold C10Tucker.ttm. now rewrite den_tabulate. Qed.

(* ttm_den evaluated in bounds of the NEW shape only reads in-bounds values of the old one *)
Lemma ttmd_ext_shape s n r M (f g : idx -> V) i : n < length s -> inb (set_nth n r s) i = true ->
  (forall j, inb s j = true -> f j = g j) -> ttmd f (nth n s 0) n M i = ttmd g (nth n s 0) n M i.
Proof.
  intros Hn Hi H. unfold ttm_den. apply sum_n_ext. intros k Hk. f_equal. apply H.
  assert (Hl : n < length (set_nth n r s)) by (rewrite length_set_nth; auto).
  pose proof (inb_set_nth_both n (set_nth n r s) i (nth n s 0) k Hl Hi Hk) as Hb.
  rewrite set_nth_set_nth in Hb by exact Hn. now rewrite set_nth_self in Hb by exact Hn.
Qed.

(* products along different modes commute on dense arrays, whatever the matrices do to the mode sizes *)
Theorem ttm_comm_dense (X : dense V) m n A B : m <> n -> m < length (dshape X) -> n < length (dshape X) ->
  ttm (ttm X m A) n B = ttm (ttm X n B) m A.
Proof.
  intros Hne Hm Hn. set (s := dshape X).
  unfold C10Tucker.ttm at 1 3. rewrite !dshape_ttm. fold s.
  rewrite !nth_set_nth by assumption.
  destruct (Nat.eqb_spec n m) as [E|_]; [lia|]. destruct (Nat.eqb_spec m n) as [E|_]; [lia|].
  rewrite (set_nth_comm n m (nrows B) (nrows A) s) by auto.
  apply tabulate_ext. intros i Hi. pose proof (inb_length _ _ Hi) as L.
  rewrite !length_set_nth in L by (try rewrite length_set_nth; auto).
  assert (Hi' : inb (set_nth n (nrows B) (set_nth m (nrows A) s)) i = true).
  { now rewrite (set_nth_comm n m (nrows B) (nrows A) s) by auto. }
  (* left: outer mode n over the array of shape set_nth m _ s *)
  replace (nth n s 0) with (nth n (set_nth m (nrows A) s) 0) at 1
    by (rewrite nth_set_nth by exact Hm; destruct (Nat.eqb_spec n m); [lia|reflexivity]).
  rewrite (ttmd_ext_shape (set_nth m (nrows A) s) n (nrows B) B (den (ttm X m A)) (ttmd (den X) (nth m s 0) m A) i).
  2:{ rewrite length_set_nth; auto. } 2:{ exact Hi'. } 2:{ intros j Hj. apply den_ttm. exact Hj. }
  replace (nth m s 0) with (nth m (set_nth n (nrows B) s) 0) at 2
    by (rewrite nth_set_nth by exact Hn; destruct (Nat.eqb_spec m n); [lia|reflexivity]).
  rewrite (ttmd_ext_shape (set_nth n (nrows B) s) m (nrows A) A (den (ttm X n B)) (ttmd (den X) (nth n s 0) n B) i).
  2:{ rewrite length_set_nth; auto. } 2:{ exact Hi. } 2:{ intros j Hj. apply den_ttm. exact Hj. }
  rewrite !nth_set_nth by assumption.
  destruct (Nat.eqb_spec n m) as [E|_]; [lia|]. destruct (Nat.eqb_spec m n) as [E|_]; [lia|].
  unfold s in L. symmetry. apply (ttm_den_comm V v0 v1 vadd vmul vsub vopp Vring); auto; lia.
Qed.

Lemma ndims_ttm_from Ms : forall (Z : dense V) n, n + length Ms <= length (dshape Z) ->
  length (dshape (ttm_from Z n Ms)) = length (dshape Z).
Proof.
  induction Ms as [|M Ms IH]; intros Z n H; cbn [C10Tucker.ttm_from]; [reflexivity|]. cbn [length] in H.
  rewrite IH by (rewrite ndims_ttm; lia). apply ndims_ttm. lia.
Qed.

(* a product along mode p commutes with a chain of products along the modes n, n+1, ... > p *)
Lemma ttm_from_comm Ms : forall (Z : dense V) n p U, p < n -> n + length Ms <= length (dshape Z) ->
  ttm (ttm_from Z n Ms) p U = ttm_from (ttm Z p U) n Ms.
Proof.
  induction Ms as [|M Ms IH]; intros Z n p U Hp H; cbn [C10Tucker.ttm_from]; [reflexivity|]. cbn [length] in H.
  rewrite IH by (try rewrite ndims_ttm; lia). f_equal. apply ttm_comm_dense; lia.
Qed.

(* P_{n+len-1} (... (P_n Y)) over arrays of shape s *)
Fixpoint proj_from (s : shape) (n : nat) (Us : list (@matrix V)) (Y : dense V) : dense V :=
  match Us with
  | [] => Y
  | U :: Us' => proj_from s (S n) Us' (mproj s n (uut (nth n s 0) (ncols U) U) Y)
  end.

Lemma dshape_mproj s n M (Y : dense V) : dshape (mproj s n M Y) = s.
Proof. unfold C10Proj.mproj. now rewrite dshape_tabulate. Qed.

(* core relation followed by reconstruction = product of the projectors, modes n, n+1, ... *)
Theorem recon_from Us : forall (Y : dense V) n, n + length Us <= length (dshape Y) ->
  (forall q U, nth_error Us q = Some U -> nrows U = nth (n + q) (dshape Y) 0) ->
  ttm_from (ttm_from Y n (transposed v0 Us)) n Us = proj_from (dshape Y) n Us Y.
Proof.
  induction Us as [|U Us IH]; intros Y n H HU; [reflexivity|]. cbn [length] in H.
  cbn [transposed map C10Tucker.ttm_from proj_from].
  assert (HU0 : nrows U = nth n (dshape Y) 0) by (rewrite (HU 0 U eq_refl); f_equal; lia).
  fold (transposed v0 Us).
  rewrite ttm_from_comm.
  2:{ lia. } 2:{ unfold transposed. rewrite map_length, ndims_ttm; lia. }
  rewrite HU0. rewrite (ttm_ttm_uut V v0 v1 vadd vmul vsub vopp Vring Y n (ncols U) U) by (auto; lia).
  set (Y' := mproj (dshape Y) n (uut (nth n (dshape Y) 0) (ncols U) U) Y).
  assert (HS : dshape Y' = dshape Y) by apply dshape_mproj.
  rewrite <- HS. apply IH.
  - rewrite HS. lia.
  - intros q U' Hq. rewrite HS. rewrite (HU (S q) U' Hq). f_equal. lia.
Qed.

(* the statement for a returned Tucker tensor: core = X x_n U_n^T (all modes)  ==>  full = product of the projectors *)
Theorem recon_is_projection (X : dense V) (Us : list (@matrix V)) : length Us = length (dshape X) ->
  (forall q U, nth_error Us q = Some U -> nrows U = nth q (dshape X) 0) ->
  tfull_ttm v0 vadd vmul (mkT (ttm_all v0 vadd vmul X (transposed v0 Us)) Us) = proj_from (dshape X) 0 Us X.
Proof.
  intros HL HU. unfold tfull_ttm, ttm_all. cbn [tcore tfactors]. apply recon_from; [lia|exact HU].
Qed.
End Recon.
