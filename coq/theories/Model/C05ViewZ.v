(* Model/C05ViewZ.v — wave 5: NEGATIVE STRIDES in the numpy view model of property C05.

   Model/C05View.v keeps strides in nat, so a reversed view (a[::-1], what the "negstride" layout of the harness hands to
   pyttb) had no model.  Here a window is (buffer, offset : Z, shape, strides : list Z):
     embed                 the nat-stride arrays of C05View are the windows with non-negative strides; on them the contiguity
                           flags, the address lists and the transliterated numpy steps / constructors of this file coincide
                           with the ones of C05View (z_*_embed): the signed model is a conservative extension
     z_flip / z_slice1     slicing with a negative step is a VIEW (same buffer); flipping a mode shows exactly the cells of
                           the base (flip_cells), flipping twice gives the base back
     neg_not_contig        a window with a negative stride on a mode of size <> 1 is neither F- nor C-contiguous
   hence (for all heaps, windows, shapes): asfortranarray / to_memory_order / reshape(order=F) of such a window ALLOCATE, and
   the no-copy constructors of pyttb that insist on F order (tensor, tenmat, ktensor: copy=False) give an INDEPENDENT object
   for a negative-stride argument (z_*_neg_verdict), while sptensor(copy=False) keeps the caller's arrays whatever their strides.
   Writes through a reversed view land in cells of the base: z_flip_subwin joins this file to the cell-level frame theorems
   of Model/C05Frame.v. *)
From Coq Require Import List Arith Bool Lia ZArith.
From PV Require Import Model.C05Store Model.C05View Model.C05Frame.
Import ListNotations.

Record zarr := mkZArr { zbuf : loc; zoff : Z; zshape : list nat; zstr : list Z }.
Definition embed (a : arr) : zarr := mkZArr (abuf a) (Z.of_nat (aoff a)) (ashape a) (map Z.of_nat (astr a)).

(* numpy's contiguity flags (stride of a size-1 mode ignored), strides signed *)
Fixpoint contig_z (shape : list nat) (str : list Z) (ref : list nat) : bool :=
  match shape, str, ref with
  | [], [], [] => true
  | d :: s, t :: ts, r :: rs => ((d =? 1) || (t =? Z.of_nat r)%Z) && contig_z s ts rs
  | _, _, _ => false
  end.
Definition z_fcontig (a : zarr) : bool := contig_z (zshape a) (zstr a) (fstrides (zshape a)).
Definition z_ccontig (a : zarr) : bool := contig_z (zshape a) (zstr a) (cstrides (zshape a)).

Lemma contig_z_embed : forall s str ref, contig_z s (map Z.of_nat str) ref = contig_b s str ref.
Proof.
  induction s as [|d s IH]; intros [|t ts] [|r rs]; simpl; try reflexivity.
  rewrite IH. f_equal. f_equal.
  destruct (Nat.eqb_spec t r) as [E|E]; destruct (Z.eqb_spec (Z.of_nat t) (Z.of_nat r)) as [F|F]; try reflexivity; exfalso; lia.
Qed.
Lemma embed_fcontig : forall a, z_fcontig (embed a) = is_fcontig a.
Proof. intros a. unfold z_fcontig, is_fcontig. simpl. apply contig_z_embed. Qed.
Lemma embed_ccontig : forall a, z_ccontig (embed a) = is_ccontig a.
Proof. intros a. unfold z_ccontig, is_ccontig. simpl. apply contig_z_embed. Qed.

(* a mode of size <> 1 walked backwards *)
Definition neg_mode (a : zarr) : Prop := exists k, nth k (zshape a) 1 <> 1 /\ (nth k (zstr a) 0 < 0)%Z.

Lemma contig_z_neg : forall s str ref, (exists k, nth k s 1 <> 1 /\ (nth k str 0 < 0)%Z) -> contig_z s str ref = false.
Proof.
  induction s as [|d s IH]; intros str ref [k [Hd Ht]].
  - exfalso. destruct k; simpl in Hd; congruence.
  - destruct str as [|t ts]; [reflexivity|]. destruct ref as [|r rs]; [reflexivity|]. simpl. destruct k as [|k].
    + simpl in Hd, Ht. destruct (Nat.eqb_spec d 1) as [E|E]; [congruence|].
      destruct (Z.eqb_spec t (Z.of_nat r)) as [F|F]; [exfalso; lia | reflexivity].
    + rewrite (IH ts rs); [apply andb_false_r|]. exists k. split; assumption.
Qed.
Theorem neg_not_contig : forall a, neg_mode a -> z_fcontig a = false /\ z_ccontig a = false.
Proof. intros a H. split; apply contig_z_neg; exact H. Qed.

(* element addresses (C enumeration), signed *)
Fixpoint addrsz (off : Z) (shape : list nat) (str : list Z) : list Z :=
  match shape, str with
  | d :: s, t :: ts => flat_map (fun i => addrsz (off + Z.of_nat i * t) s ts) (seq 0 d)
  | _, _ => [off]
  end.
Definition zaddrsC (a : zarr) : list Z := addrsz (zoff a) (zshape a) (zstr a).
Definition zaddrsF (a : zarr) : list Z := addrsz (zoff a) (rev (zshape a)) (rev (zstr a)).
Definition zcells (a : zarr) : list nat := map Z.to_nat (zaddrsC a).

Lemma addrsz_embed : forall s str off, addrsz (Z.of_nat off) s (map Z.of_nat str) = map Z.of_nat (addrs off s str).
Proof.
  induction s as [|d s IH]; intros [|t ts] off; simpl; try reflexivity.
  generalize (seq 0 d). intros l. induction l as [|i l IHl]; simpl; [reflexivity|].
  rewrite map_app, <- IHl. f_equal.
  replace (Z.of_nat off + Z.of_nat i * Z.of_nat t)%Z with (Z.of_nat (off + i * t)) by lia. apply IH.
Qed.
Lemma to_nat_of_nat_list : forall l, map Z.to_nat (map Z.of_nat l) = l.
Proof. induction l as [|x l IH]; simpl; [reflexivity | rewrite Nat2Z.id, IH; reflexivity]. Qed.
Lemma zcells_embed : forall a, zcells (embed a) = cells a.
Proof. intros a. unfold zcells, zaddrsC, cells, addrsC. simpl. rewrite addrsz_embed. apply to_nat_of_nat_list. Qed.
Lemma zaddrsF_embed : forall a, map Z.to_nat (zaddrsF (embed a)) = addrsF a.
Proof. intros a. unfold zaddrsF, addrsF. simpl. rewrite <- map_rev, addrsz_embed. apply to_nat_of_nat_list. Qed.

(* ---- views --------------------------------------------------------------------------------------------------- *)
Definition zpick (p : list nat) (l : list Z) : list Z := map (fun i => nth i l 0%Z) p.
Definition z_transpose (a : zarr) (p : list nat) : zarr :=
  mkZArr (zbuf a) (zoff a) (pick p (zshape a)) (zpick p (zstr a)).
(* basic slicing of mode k: start, count, SIGNED step *)
Fixpoint set_nth {A} (k : nat) (x : A) (l : list A) : list A :=
  match l, k with
  | [], _ => []
  | _ :: t, 0 => x :: t
  | y :: t, S k' => y :: set_nth k' x t
  end.
Definition z_slice1 (a : zarr) (k : nat) (start : Z) (cnt : nat) (step : Z) : zarr :=
  mkZArr (zbuf a) (zoff a + start * nth k (zstr a) 0)%Z (set_nth k cnt (zshape a)) (set_nth k (step * nth k (zstr a) 0)%Z (zstr a)).
(* a[..., ::-1, ...] on mode k *)
Fixpoint flip_str (k : nat) (shape : list nat) (str : list Z) : Z * list Z :=
  match k, shape, str with
  | 0, d :: _, t :: ts => (((Z.of_nat d - 1) * t)%Z, (- t)%Z :: ts)
  | S k', _ :: s, t :: ts => (fst (flip_str k' s ts), t :: snd (flip_str k' s ts))
  | _, _, _ => (0%Z, str)
  end.
Definition z_flip (a : zarr) (k : nat) : zarr :=
  mkZArr (zbuf a) (zoff a + fst (flip_str k (zshape a) (zstr a)))%Z (zshape a) (snd (flip_str k (zshape a) (zstr a))).

Lemma z_view_alias : forall a p k st c sp, zbuf (z_transpose a p) = zbuf a /\ zbuf (z_slice1 a k st c sp) = zbuf a /\ zbuf (z_flip a k) = zbuf a.
Proof. intros. repeat split. Qed.

(* the flipped window is the slice (start = size-1, count = size, step = -1) *)
Lemma flip_is_slice : forall k s str, k < length s -> length str = length s ->
  fst (flip_str k s str) = ((Z.of_nat (nth k s 0%nat) - 1) * nth k str 0)%Z /\
  snd (flip_str k s str) = set_nth k (-1 * nth k str 0)%Z str.
Proof.
  induction k as [|k IH]; intros [|d s] [|t ts] Hk Hl; simpl in *; try lia; try discriminate.
  - split; reflexivity.
  - destruct (IH s ts) as [A B]; [lia | lia |]. split; [exact A | rewrite B; reflexivity].
Qed.
Lemma set_nth_same : forall {A} k (l : list A) d, set_nth k (nth k l d) l = l.
Proof. induction k as [|k IH]; intros [|y t] d; simpl; try reflexivity. rewrite IH. reflexivity. Qed.
Theorem z_flip_is_slice : forall a k, k < length (zshape a) -> length (zstr a) = length (zshape a) ->
  z_flip a k = z_slice1 a k (Z.of_nat (nth k (zshape a) 0%nat) - 1)%Z (nth k (zshape a) 0%nat) (-1)%Z.
Proof.
  intros a k Hk Hl. unfold z_flip, z_slice1. destruct (flip_is_slice k (zshape a) (zstr a) Hk Hl) as [A B].
  rewrite A, B, set_nth_same. reflexivity.
Qed.

(* the flipped window shows exactly the cells of the base *)
Lemma flip_cells : forall k s str off x,
  In x (addrsz (off + fst (flip_str k s str)) s (snd (flip_str k s str))) <-> In x (addrsz off s str).
Proof.
  induction k as [|k IH]; intros [|d s] [|t ts] off x; simpl; try (rewrite Z.add_0_r; reflexivity).
  - rewrite !in_flat_map. split; intros [i [Hi Hx]]; apply in_seq in Hi; exists (d - 1 - i); (split; [apply in_seq; lia|]).
    + replace (off + Z.of_nat (d - 1 - i) * t)%Z with (off + (Z.of_nat d - 1) * t + Z.of_nat i * - t)%Z; [exact Hx|].
      replace (Z.of_nat (d - 1 - i)) with (Z.of_nat d - 1 - Z.of_nat i)%Z by lia. ring.
    + replace (off + (Z.of_nat d - 1) * t + Z.of_nat (d - 1 - i) * - t)%Z with (off + Z.of_nat i * t)%Z; [exact Hx|].
      replace (Z.of_nat (d - 1 - i)) with (Z.of_nat d - 1 - Z.of_nat i)%Z by lia. ring.
  - rewrite !in_flat_map. split; intros [i [Hi Hx]]; exists i; (split; [exact Hi|]).
    + apply (IH s ts (off + Z.of_nat i * t)%Z x).
      replace (off + Z.of_nat i * t + fst (flip_str k s ts))%Z with (off + fst (flip_str k s ts) + Z.of_nat i * t)%Z by ring. exact Hx.
    + replace (off + fst (flip_str k s ts) + Z.of_nat i * t)%Z with (off + Z.of_nat i * t + fst (flip_str k s ts))%Z by ring.
      apply (IH s ts (off + Z.of_nat i * t)%Z x). exact Hx.
Qed.
Theorem z_flip_cells : forall a k x, In x (zaddrsC (z_flip a k)) <-> In x (zaddrsC a).
Proof. intros a k x. unfold zaddrsC, z_flip. simpl. apply flip_cells. Qed.

Lemma flip_str_twice : forall k s str, (forall i, nth i s 1 <> 0) ->
  (fst (flip_str k s str) + fst (flip_str k s (snd (flip_str k s str))) = 0)%Z /\ snd (flip_str k s (snd (flip_str k s str))) = str.
Proof.
  induction k as [|k IH]; intros [|d s] [|t ts] H; simpl; try (split; reflexivity).
  - split; [ring | rewrite Z.opp_involutive; reflexivity].
  - destruct (IH s ts) as [A B]; [intros i; exact (H (S i))|]. split; [exact A | rewrite B; reflexivity].
Qed.
Theorem z_flip_involutive : forall a k, (forall i, nth i (zshape a) 1 <> 0) -> z_flip (z_flip a k) k = a.
Proof.
  intros [b o s str] k H. unfold z_flip. simpl in *. destruct (flip_str_twice k s str H) as [A B]. rewrite B. f_equal. lia.
Qed.

(* reversing a mode of a nat-stride window: the signed window and the cells it shows *)
Definition zsubwin (v : zarr) (a : arr) : Prop := zbuf v = abuf a /\ incl (zcells v) (cells a).
Theorem z_flip_subwin : forall a k, zsubwin (z_flip (embed a) k) a.
Proof.
  intros a k. split; [reflexivity|]. intros x Hx. unfold zcells in Hx. apply in_map_iff in Hx. destruct Hx as [z [Ez Hz]].
  apply z_flip_cells in Hz. rewrite <- zcells_embed. unfold zcells. apply in_map_iff. exists z. split; assumption.
Qed.
(* ... and conversely every cell of the base is shown by the reversed view: a sentinel write through the base is seen *)
Theorem z_flip_covers : forall a k, incl (cells a) (zcells (z_flip (embed a) k)).
Proof.
  intros a k x Hx. rewrite <- zcells_embed in Hx. unfold zcells in *. apply in_map_iff in Hx. destruct Hx as [z [Ez Hz]].
  apply in_map_iff. exists z. split; [exact Ez|]. apply z_flip_cells. exact Hz.
Qed.

Section HeapZ.
Context {V : Type}.
Notation heapV := (@heap V).

Definition z_wf (h : heapV) (a : zarr) : Prop := zbuf a < hnext h.
Definition zfresh_res (h h' : heapV) (r : zarr) : Prop := hnext h <= zbuf r < hnext h'.
Definition z_aof (h : heapV) (a : zarr) (hr : heapV * zarr) : Prop :=
  ext h (fst hr) /\ ((fst hr = h /\ zbuf (snd hr) = zbuf a) \/ zfresh_res h (fst hr) (snd hr)).

Definition z_fresh (h : heapV) (shape str : list nat) (contents : list V) : heapV * zarr :=
  (fst (alloc h contents), mkZArr (hnext h) 0 shape (map Z.of_nat str)).
Definition z_copyC (h : heapV) (a : zarr) : heapV * zarr :=
  z_fresh h (zshape a) (cstrides (zshape a)) (gather (hst h (zbuf a)) (map Z.to_nat (zaddrsC a))).
Definition z_copyF (h : heapV) (a : zarr) : heapV * zarr :=
  z_fresh h (zshape a) (fstrides (zshape a)) (gather (hst h (zbuf a)) (map Z.to_nat (zaddrsF a))).
Definition z_asfortran (h : heapV) (a : zarr) : heapV * zarr := if z_fcontig a then (h, a) else z_copyF h a.
Definition z_reshapeF (h : heapV) (a : zarr) (s : list nat) : heapV * zarr :=
  if list_eqb s (zshape a) then (h, a)
  else if z_fcontig a then (h, mkZArr (zbuf a) (zoff a) s (map Z.of_nat (fstrides s)))
  else let hc := z_copyF h a in (fst hc, mkZArr (zbuf (snd hc)) 0 s (map Z.of_nat (fstrides s))).
Definition z_to_memory_order_F (h : heapV) (a : zarr) (copy : bool) : heapV * zarr :=
  if copy then let hc := z_copyC h a in z_asfortran (fst hc) (snd hc) else z_asfortran h a.

(* the constructors, transliterated as in C05View (same texts of pyttb) *)
Definition z_tensor_init (h : heapV) (d : zarr) (shape : list nat) (copy : bool) : heapV * zarr :=
  let hr := z_reshapeF h d shape in
  if copy then z_copyF (fst hr) (snd hr) else z_asfortran (fst hr) (snd hr).
Definition z_tenmat_init (h : heapV) (d : zarr) (copy : bool) : heapV * zarr :=
  z_to_memory_order_F h d (copy || negb (z_fcontig d)).
Definition z_sptensor_init (h : heapV) (subs vals : zarr) (copy : bool) : heapV * list zarr :=
  if copy then let h1 := z_copyC h subs in let h2 := z_copyC (fst h1) vals in (fst h2, [snd h1; snd h2]) else (h, [subs; vals]).
Fixpoint z_map_heap (f : heapV -> zarr -> heapV * zarr) (h : heapV) (l : list zarr) : heapV * list zarr :=
  match l with
  | [] => (h, [])
  | a :: t => let hr := f h a in let ht := z_map_heap f (fst hr) t in (fst ht, snd hr :: snd ht)
  end.
Definition z_ktensor_init (h : heapV) (fms : list zarr) (w : zarr) (copy : bool) : heapV * list zarr :=
  let hw := if copy then z_copyF h w else z_asfortran h w in
  let hf := if copy then z_map_heap z_copyF (fst hw) fms
            else if forallb z_fcontig fms then (fst hw, fms)
            else z_map_heap (fun h a => z_to_memory_order_F h a true) (fst hw) fms in
  (fst hf, snd hw :: snd hf).
Definition z_khatrirao_single (h : heapV) (A : zarr) : heapV * zarr :=
  let hc := z_copyC h A in z_reshapeF (fst hc) (snd hc) (zshape A).

Definition zaliases (opds res : list zarr) : bool :=
  existsb (fun r => existsb (fun a => zbuf r =? zbuf a) opds) res.

(* ---- conservative extension: on nat-stride windows the signed steps ARE the steps of C05View ----------------- *)
Definition lift (hr : heapV * arr) : heapV * zarr := (fst hr, embed (snd hr)).

Lemma z_copyF_embed : forall h a, z_copyF h (embed a) = lift (copyF h a).
Proof. intros h a. unfold z_copyF, copyF, lift, z_fresh, mk_fresh. rewrite (zaddrsF_embed a). reflexivity. Qed.
Lemma z_copyC_embed : forall h a, z_copyC h (embed a) = lift (copyC h a).
Proof.
  intros h a. unfold z_copyC, copyC, lift, z_fresh, mk_fresh.
  change (map Z.to_nat (zaddrsC (embed a))) with (zcells (embed a)). rewrite zcells_embed. reflexivity.
Qed.
Lemma z_asfortran_embed : forall h a, z_asfortran h (embed a) = lift (asfortran h a).
Proof.
  intros h a. unfold z_asfortran, asfortran. rewrite embed_fcontig. destruct (is_fcontig a); [reflexivity | apply z_copyF_embed].
Qed.
Lemma z_reshapeF_embed : forall h a s, z_reshapeF h (embed a) s = lift (reshapeF h a s).
Proof.
  intros h a s. unfold z_reshapeF, reshapeF. rewrite embed_fcontig. simpl zshape.
  destruct (list_eqb s (ashape a)); [reflexivity|]. destruct (is_fcontig a); [reflexivity|].
  rewrite z_copyF_embed. reflexivity.
Qed.
Theorem z_tensor_init_embed : forall h d s c, z_tensor_init h (embed d) s c = lift (tensor_init h d s c).
Proof.
  intros h d s c. unfold z_tensor_init, tensor_init. rewrite z_reshapeF_embed. unfold lift at 1 2. simpl fst. simpl snd.
  destruct c; [apply z_copyF_embed | apply z_asfortran_embed].
Qed.
Theorem z_tenmat_init_embed : forall h d c, z_tenmat_init h (embed d) c = lift (tenmat_init h d c).
Proof.
  intros h d c. unfold z_tenmat_init, tenmat_init, z_to_memory_order_F, to_memory_order_F. rewrite embed_fcontig.
  destruct (c || negb (is_fcontig d)); [|apply z_asfortran_embed].
  rewrite z_copyC_embed. unfold lift at 1 2. simpl fst. simpl snd. apply z_asfortran_embed.
Qed.

(* ---- fresh / alias ---------------------------------------------------------------------------------------------- *)
Lemma z_fresh_spec : forall h s str c, ext h (fst (z_fresh h s str c)) /\ zfresh_res h (fst (z_fresh h s str c)) (snd (z_fresh h s str c)).
Proof. intros h s str c. split; [apply alloc_ext|]. unfold zfresh_res. simpl. lia. Qed.
Lemma z_copyF_fresh : forall h a, ext h (fst (z_copyF h a)) /\ zfresh_res h (fst (z_copyF h a)) (snd (z_copyF h a)).
Proof. intros. apply z_fresh_spec. Qed.
Lemma z_copyC_fresh : forall h a, ext h (fst (z_copyC h a)) /\ zfresh_res h (fst (z_copyC h a)) (snd (z_copyC h a)).
Proof. intros. apply z_fresh_spec. Qed.
Lemma zfresh_mono : forall (h0 h h' : heapV) r, ext h0 h -> zfresh_res h h' r -> zfresh_res h0 h' r.
Proof. intros h0 h h' r [L _] [A B]. split; lia. Qed.
Lemma zfresh_keep : forall (h h1 h2 : heapV) r, zfresh_res h h1 r -> ext h1 h2 -> zfresh_res h h2 r.
Proof. intros h h1 h2 r [A B] [L _]. split; lia. Qed.

Lemma z_fresh_fcontig : forall b o s, z_fcontig (mkZArr b o s (map Z.of_nat (fstrides s))) = true.
Proof. intros b o s. unfold z_fcontig. simpl. rewrite contig_z_embed. apply contig_b_refl. apply fstr_from_length. Qed.

Lemma z_asfortran_aof : forall h a, z_aof h a (z_asfortran h a).
Proof.
  intros h a. unfold z_asfortran. destruct (z_fcontig a).
  - split; [apply ext_refl|]. left. split; reflexivity.
  - destruct (z_copyF_fresh h a) as [Ex Fr]. split; [exact Ex|]. right. exact Fr.
Qed.
(* asfortranarray of a window walked backwards allocates *)
Theorem z_asfortran_neg : forall h a, neg_mode a ->
  ext h (fst (z_asfortran h a)) /\ zfresh_res h (fst (z_asfortran h a)) (snd (z_asfortran h a)).
Proof. intros h a N. unfold z_asfortran. destruct (neg_not_contig a N) as [F _]. rewrite F. apply z_copyF_fresh. Qed.
(* reshape(order=F) to ANOTHER shape of a window walked backwards allocates; to the same shape it is the window itself *)
Theorem z_reshapeF_neg : forall h a s, neg_mode a -> list_eqb s (zshape a) = false ->
  ext h (fst (z_reshapeF h a s)) /\ zfresh_res h (fst (z_reshapeF h a s)) (snd (z_reshapeF h a s)) /\ z_fcontig (snd (z_reshapeF h a s)) = true.
Proof.
  intros h a s N E. unfold z_reshapeF. rewrite E. destruct (neg_not_contig a N) as [F _]. rewrite F. simpl.
  destruct (z_copyF_fresh h a) as [Ex Fr]. split; [exact Ex|]. split; [exact Fr | apply z_fresh_fcontig].
Qed.
Lemma z_to_memory_order_copy_fresh : forall h a,
  ext h (fst (z_to_memory_order_F h a true)) /\ zfresh_res h (fst (z_to_memory_order_F h a true)) (snd (z_to_memory_order_F h a true)).
Proof.
  intros h a. unfold z_to_memory_order_F. destruct (z_copyC_fresh h a) as [Ex Fr].
  destruct (z_asfortran_aof (fst (z_copyC h a)) (snd (z_copyC h a))) as [Ex2 [[Eh Eb]|Fr2]].
  - rewrite Eh. split; [exact Ex|]. unfold zfresh_res in *. rewrite Eb. exact Fr.
  - split; [exact (ext_trans _ _ _ Ex Ex2) | exact (zfresh_mono _ _ _ _ Ex Fr2)].
Qed.

Lemma zfresh1_verdict : forall (h h' : heapV) r opds, zfresh_res h h' r -> (forall a, In a opds -> z_wf h a) -> zaliases opds [r] = false.
Proof.
  intros h h' r opds [L _] W. unfold zaliases. simpl. rewrite orb_false_r.
  destruct (existsb (fun a => zbuf r =? zbuf a) opds) eqn:E; [|reflexivity].
  apply existsb_exists in E. destruct E as [a [Ha E]]. apply Nat.eqb_eq in E. specialize (W a Ha). unfold z_wf in W. exfalso. lia.
Qed.
Lemma zfreshl_verdict : forall (h h' : heapV) res opds, (forall r, In r res -> zfresh_res h h' r) -> (forall a, In a opds -> z_wf h a) ->
  zaliases opds res = false.
Proof.
  intros h h' res opds Fr W. unfold zaliases. destruct (existsb _ res) eqn:E; [|reflexivity].
  apply existsb_exists in E. destruct E as [r [Hr E]]. apply existsb_exists in E. destruct E as [a [Ha E]]. apply Nat.eqb_eq in E.
  destruct (Fr r Hr) as [L _]. specialize (W a Ha). unfold z_wf in W. exfalso. lia.
Qed.

(* ---- verdicts for negative-stride arguments, all heaps / windows / shapes ------------------------------------------ *)
Theorem z_tensor_init_copy_verdict : forall h d s, z_wf h d -> zaliases [d] [snd (z_tensor_init h d s true)] = false.
Proof.
  intros h d s W. unfold z_tensor_init.
  assert (Ex : ext h (fst (z_reshapeF h d s))).
  { unfold z_reshapeF. destruct (list_eqb s (zshape d)); [apply ext_refl|]. destruct (z_fcontig d); [apply ext_refl|]. apply z_copyF_fresh. }
  destruct (z_copyF_fresh (fst (z_reshapeF h d s)) (snd (z_reshapeF h d s))) as [_ Fr].
  apply (zfresh1_verdict _ _ _ _ (zfresh_mono _ _ _ _ Ex Fr)). intros a [E|[]]. subst a. exact W.
Qed.
(* ttb.tensor(d, shape, copy=False) on a window walked backwards: an independent tensor, whatever the shape asked for *)
Theorem z_tensor_init_nocopy_neg_verdict : forall h d s, z_wf h d -> neg_mode d ->
  zaliases [d] [snd (z_tensor_init h d s false)] = false.
Proof.
  intros h d s W N. unfold z_tensor_init. destruct (list_eqb s (zshape d)) eqn:E.
  - unfold z_reshapeF. rewrite E. cbn [fst snd]. destruct (z_asfortran_neg h d N) as [_ Fr].
    apply (zfresh1_verdict _ _ _ _ Fr). intros a [Ea|[]]. subst a. exact W.
  - destruct (z_reshapeF_neg h d s N E) as [Ex [Fr Fc]]. unfold z_asfortran. rewrite Fc. cbn [fst snd].
    apply (zfresh1_verdict _ _ _ _ Fr). intros a [Ea|[]]. subst a. exact W.
Qed.
(* and on any window: same shape => shares iff F-contiguous (the statement of C05View, strides signed) *)
Lemma list_eqb_refl : forall s, list_eqb s s = true.
Proof. induction s as [|x t IH]; simpl; [reflexivity | rewrite Nat.eqb_refl; exact IH]. Qed.
Theorem z_tensor_init_nocopy_verdict : forall h d, z_wf h d ->
  zaliases [d] [snd (z_tensor_init h d (zshape d) false)] = z_fcontig d.
Proof.
  intros h d W. unfold z_tensor_init, z_reshapeF. rewrite list_eqb_refl. cbn [fst snd]. unfold z_asfortran. destruct (z_fcontig d) eqn:F.
  - unfold zaliases. simpl. rewrite Nat.eqb_refl. reflexivity.
  - destruct (z_copyF_fresh h d) as [_ Fr]. apply (zfresh1_verdict _ _ _ _ Fr). intros a [Ea|[]]. subst a. exact W.
Qed.
(* ttb.tenmat(d, ..., copy=False / True): independent for a window walked backwards *)
Theorem z_tenmat_init_neg_verdict : forall h d c, z_wf h d -> neg_mode d -> zaliases [d] [snd (z_tenmat_init h d c)] = false.
Proof.
  intros h d c W N. unfold z_tenmat_init. destruct (neg_not_contig d N) as [F _]. rewrite F. cbn [negb]. rewrite orb_true_r.
  destruct (z_to_memory_order_copy_fresh h d) as [_ Fr]. apply (zfresh1_verdict _ _ _ _ Fr). intros a [Ea|[]]. subst a. exact W.
Qed.
(* ttb.sptensor(subs, vals, copy=False): the caller's arrays, whatever their strides *)
Theorem z_sptensor_init_nocopy_verdict : forall h s v, zaliases [s; v] (snd (z_sptensor_init h s v false)) = true.
Proof. intros h s v. unfold zaliases. simpl. rewrite Nat.eqb_refl. reflexivity. Qed.
Theorem z_sptensor_init_copy_verdict : forall h s v, z_wf h s -> z_wf h v -> zaliases [s; v] (snd (z_sptensor_init h s v true)) = false.
Proof.
  intros h s v Ws Wv. unfold z_sptensor_init. cbn [fst snd].
  destruct (z_copyC_fresh h s) as [Ex1 Fr1]. destruct (z_copyC_fresh (fst (z_copyC h s)) v) as [Ex2 Fr2].
  apply (zfreshl_verdict h (fst (z_copyC (fst (z_copyC h s)) v))).
  - intros r [E|[E|[]]]; subst r; [exact (zfresh_keep _ _ _ _ Fr1 Ex2) | exact (zfresh_mono _ _ _ _ Ex1 Fr2)].
  - intros a [E|[E|[]]]; subst a; assumption.
Qed.

Lemma z_map_heap_fresh : forall (f : heapV -> zarr -> heapV * zarr),
  (forall h a, ext h (fst (f h a)) /\ zfresh_res h (fst (f h a)) (snd (f h a))) ->
  forall l h, ext h (fst (z_map_heap f h l)) /\ forall r, In r (snd (z_map_heap f h l)) -> zfresh_res h (fst (z_map_heap f h l)) r.
Proof.
  intros f Hf. induction l as [|a t IH]; intros h; simpl.
  - split; [apply ext_refl | intros r []].
  - destruct (Hf h a) as [Ex Fr]. destruct (IH (fst (f h a))) as [Ex2 Fr2]. split; [exact (ext_trans _ _ _ Ex Ex2)|].
    intros r [E|Hr]; [subst r; exact (zfresh_keep _ _ _ _ Fr Ex2) | exact (zfresh_mono _ _ _ _ Ex (Fr2 r Hr))].
Qed.
(* ttb.ktensor(fms, w, copy=False): as soon as ONE factor is walked backwards every factor matrix is re-laid-out (fresh);
   a weight vector walked backwards (size <> 1) is copied too: the no-copy ktensor shares nothing with the caller *)
Theorem z_ktensor_init_nocopy_neg_verdict : forall h fms w, z_wf h w -> (forall a, In a fms -> z_wf h a) ->
  (exists f, In f fms /\ neg_mode f) ->
  zaliases fms (tl (snd (z_ktensor_init h fms w false))) = false /\
  (neg_mode w -> zaliases (w :: fms) (snd (z_ktensor_init h fms w false)) = false).
Proof.
  intros h fms w Ww Wf [f [Hf N]]. unfold z_ktensor_init.
  assert (NF : forallb z_fcontig fms = false).
  { destruct (forallb z_fcontig fms) eqn:E; [|reflexivity]. rewrite forallb_forall in E. specialize (E f Hf).
    destruct (neg_not_contig f N) as [F _]. congruence. }
  rewrite NF. cbn [fst snd].
  destruct (z_asfortran_aof h w) as [Exw _].
  destruct (z_map_heap_fresh (fun h a => z_to_memory_order_F h a true) z_to_memory_order_copy_fresh fms (fst (z_asfortran h w))) as [Ex2 Fr2].
  split.
  - apply (zfreshl_verdict h (fst (z_map_heap (fun h a => z_to_memory_order_F h a true) (fst (z_asfortran h w)) fms))).
    + intros r Hr. exact (zfresh_mono _ _ _ _ Exw (Fr2 r Hr)).
    + exact Wf.
  - intros Nw. destruct (z_asfortran_neg h w Nw) as [_ Frw].
    apply (zfreshl_verdict h (fst (z_map_heap (fun h a => z_to_memory_order_F h a true) (fst (z_asfortran h w)) fms))).
    + intros r [E|Hr]; [subst r; exact (zfresh_keep _ _ _ _ Frw Ex2) | exact (zfresh_mono _ _ _ _ Exw (Fr2 r Hr))].
    + intros a [E|Ha]; [subst a; exact Ww | exact (Wf a Ha)].
Qed.
Theorem z_ktensor_init_copy_verdict : forall h fms w, z_wf h w -> (forall a, In a fms -> z_wf h a) ->
  zaliases (w :: fms) (snd (z_ktensor_init h fms w true)) = false.
Proof.
  intros h fms w Ww Wf. unfold z_ktensor_init. cbn [fst snd].
  destruct (z_copyF_fresh h w) as [Ex Fr]. destruct (z_map_heap_fresh z_copyF z_copyF_fresh fms (fst (z_copyF h w))) as [Ex2 Fr2].
  apply (zfreshl_verdict h (fst (z_map_heap z_copyF (fst (z_copyF h w)) fms))).
  - intros r [E|Hr]; [subst r; exact (zfresh_keep _ _ _ _ Fr Ex2) | exact (zfresh_mono _ _ _ _ Ex (Fr2 r Hr))].
  - intros a [E|Ha]; [subst a; exact Ww | exact (Wf a Ha)].
Qed.
Theorem z_khatrirao_single_verdict : forall h A, z_wf h A -> zaliases [A] [snd (z_khatrirao_single h A)] = false.
Proof.
  intros h A W. unfold z_khatrirao_single. destruct (z_copyC_fresh h A) as [Ex Fr].
  unfold z_reshapeF. change (zshape (snd (z_copyC h A))) with (zshape A). rewrite list_eqb_refl. cbn [fst snd].
  apply (zfresh1_verdict _ _ _ _ Fr). intros a [Ea|[]]. subst a. exact W.
Qed.
End HeapZ.

(* ---- concrete, non-symmetric instances --------------------------------------------------------------------------- *)
(* a 2 x 3 C-ordered matrix in buffer 0 and its row-reversed view M[::-1] (what tools/props/c05_util.lay "negstride" builds) *)
Definition exM : arr := mkArr 0 0 [2; 3] [3; 1].
Definition exMrev : zarr := z_flip (embed exM) 0.
Example exMrev_window : exMrev = mkZArr 0 3 [2; 3] [(-3)%Z; 1%Z]. Proof. reflexivity. Qed.
Example exMrev_cells : zcells exMrev = [3; 4; 5; 0; 1; 2] /\ cells exM = [0; 1; 2; 3; 4; 5]. Proof. split; reflexivity. Qed.
Example exMrev_flags : z_fcontig exMrev = false /\ z_ccontig exMrev = false /\ z_ccontig (embed exM) = true. Proof. repeat split. Qed.
Example exMrev_neg : neg_mode exMrev. Proof. exists 0. simpl. split; [discriminate | lia]. Qed.
Definition hz0 (n : nat) : @heap nat := mkHeap (fun l => map (fun k => 100 * l + k) (seq 0 24)) n.
Example exMrev_tensor_nocopy : zaliases [exMrev] [snd (z_tensor_init (hz0 1) exMrev [2; 3] false)] = false
                            /\ zaliases [embed (v_transpose exM [1; 0])] [snd (z_tensor_init (hz0 1) (embed (v_transpose exM [1; 0])) [3; 2] false)] = true.
Proof. split; reflexivity. Qed.
(* the copy made for the reversed view holds the rows in the view's order (F enumeration of [[103,104,105],[100,101,102]]) *)
Example exMrev_copy_contents : hst (fst (z_copyF (hz0 1) exMrev)) 1 = [3; 0; 4; 1; 5; 2]. Proof. reflexivity. Qed.
