(* Proofs/C03Hist.v — the element assignment of Model/C03Hist.v keeps the coordinate list fully well-formed, grows the shape
   monotonically, and denotes the point update. *)
From Coq Require Import List Arith Lia Bool ZArith.
From PV Require Import Base.Index Np.Array Model.Sparse Model.Harness Model.C03Ops Model.C03Gen Model.C03Chk Model.C03Hist
                       Proofs.C03Lemmas Proofs.C03Proofs.
Import ListNotations.

Lemma inb_grow s sub i : length sub = length s -> inb s i = true -> inb (grow_shape s sub) i = true.
Proof.
  revert sub i; induction s as [|d s IH]; intros [|x sub] [|y i] HL H; cbn in *; try discriminate; auto.
  apply andb_true_iff in H as [Hy Hi]. apply andb_true_iff; split.
  - apply Nat.ltb_lt in Hy. apply Nat.ltb_lt. lia.
  - apply IH; auto.
Qed.

Lemma inb_grow_self s sub : length sub = length s -> inb (grow_shape s sub) sub = true.
Proof.
  revert sub; induction s as [|d s IH]; intros [|x sub] HL; cbn in *; try discriminate; auto.
  apply andb_true_iff; split; [apply Nat.ltb_lt; lia|apply IH; auto].
Qed.

Lemma grow_length s sub : length sub = length s -> length (grow_shape s sub) = length s.
Proof. revert sub; induction s as [|d s IH]; intros [|x sub] HL; cbn in *; try discriminate; auto. Qed.

Lemma NoDup_snoc {A} (l : list A) a : NoDup l -> ~ In a l -> NoDup (l ++ [a]).
Proof.
  induction l as [|x l IH]; cbn; intros Hn Hin; [constructor; [tauto|constructor]|].
  inversion Hn as [|? ? Hx Hr]; subst. constructor.
  - intros H. apply in_app_or in H as [H|[H|[]]]; auto.
  - apply IH; auto.
Qed.

Section AssignProofs.
Context {V : Type} (v0 : V) (isz : V -> bool).
Hypothesis isz_spec : forall v, isz v = true <-> v = v0.

Lemma map_fst_replace (es : list (idx * V)) sub v :
  map fst (map (fun e : idx * V => if idx_eqb (fst e) sub then (fst e, v) else e) es) = map fst es.
Proof. rewrite map_map. apply map_ext. intros [j w]; cbn. destruct (idx_eqb j sub); reflexivity. Qed.

Lemma in_map_fst_filter (f : idx * V -> bool) es i : In i (map fst (filter f es)) -> In i (map fst es).
Proof. intros H. apply in_map_iff in H as (e & E & He). apply filter_In in He as [He _]. apply in_map_iff. eauto. Qed.

Lemma NoDup_map_fst_filter (f : idx * V -> bool) es : NoDup (map fst es) -> NoDup (map fst (filter f es)).
Proof.
  induction es as [|e es IH]; cbn; intros H; [constructor|]. inversion H as [|? ? Hn Hr]; subst.
  destruct (f e); cbn; auto. constructor; auto. intros Hin. apply Hn. eapply in_map_fst_filter; eauto.
Qed.

Lemma es_assign_fst es sub v i : In i (map fst (es_assign isz es sub v)) -> In i (map fst es) \/ i = sub.
Proof.
  unfold es_assign. destruct (mem sub (map fst es)); destruct (isz v); intros H; auto.
  - left. eapply in_map_fst_filter; eauto.
  - left. now rewrite map_fst_replace in H.
  - rewrite map_app in H. apply in_app_or in H as [H|H]; auto. cbn in H. destruct H as [H|[]]; auto.
Qed.

Lemma es_assign_nodup es sub v : NoDup (map fst es) -> NoDup (map fst (es_assign isz es sub v)).
Proof.
  intros Hn. unfold es_assign. destruct (mem sub (map fst es)) eqn:M; destruct (isz v); auto.
  - now apply NoDup_map_fst_filter.
  - now rewrite map_fst_replace.
  - apply mem_false in M. rewrite map_app. cbn.
    apply NoDup_snoc; auto.
Qed.

Lemma idx_in_dec (i : idx) (l : list idx) : {In i l} + {~ In i l}.
Proof. apply in_dec. apply list_eq_dec. apply Nat.eq_dec. Qed.

(* the entry list after the assignment looks up the point update *)
Lemma es_assign_lookup es sub v i : NoDup (map fst es) ->
  last_match i (es_assign isz es sub v) v0 = if idx_eqb i sub then v else last_match i es v0.
Proof.
  intros Hn. pose proof (es_assign_nodup es sub v Hn) as Hn'.
  destruct (idx_eqb i sub) eqn:E.
  - apply idx_eqb_spec in E. subst i. unfold es_assign in *. destruct (mem sub (map fst es)) eqn:M.
    + apply mem_spec in M. apply in_map_iff in M as ([j w] & Ej & Hin). cbn in Ej. subst j.
      destruct (isz v) eqn:Z.
      * apply isz_spec in Z. subst v. apply last_match_notin. intros e He Hf. apply filter_In in He as [_ He].
        rewrite Hf, idx_eqb_refl in He. discriminate.
      * apply last_match_in; auto. apply in_map_iff. exists (sub, w). cbn. now rewrite idx_eqb_refl.
    + apply mem_false in M. destruct (isz v) eqn:Z.
      * apply isz_spec in Z. subst v. apply last_match_notin. intros e He Hf. apply M. rewrite <- Hf. now apply in_map.
      * apply last_match_in; auto. apply in_or_app. right. cbn; auto.
  - assert (Ne : i <> sub) by (intros ->; rewrite idx_eqb_refl in E; discriminate).
    destruct (idx_in_dec i (map fst es)) as [Hi|Hi].
    + apply in_map_iff in Hi as ([j w] & Ej & Hin). cbn in Ej. subst j.
      rewrite (last_match_in i w es v0 Hn Hin). apply last_match_in; auto.
      unfold es_assign. destruct (mem sub (map fst es)); destruct (isz v); auto.
      * apply filter_In. split; auto. cbn. now rewrite E.
      * apply in_map_iff. exists (i, w). cbn. now rewrite E.
      * apply in_or_app; auto.
    + rewrite (last_match_notin i es v0) by (intros e He Hf; apply Hi; rewrite <- Hf; now apply in_map).
      apply last_match_notin. intros e He Hf. apply (in_map fst) in He. rewrite Hf in He.
      apply es_assign_fst in He as [He|He]; auto.
Qed.

Lemma es_assign_nonzero es sub v : Forall (fun w => isz w = false) (map snd es) ->
  Forall (fun w => isz w = false) (map snd (es_assign isz es sub v)).
Proof.
  intros H. rewrite Forall_forall in *. intros w Hw. apply in_map_iff in Hw as ([j u] & Eu & Hin). cbn in Eu. subst u.
  unfold es_assign in Hin. destruct (mem sub (map fst es)); destruct (isz v) eqn:Z.
  - apply filter_In in Hin as [Hin _]. apply H. apply in_map_iff. exists (j, w); auto.
  - apply in_map_iff in Hin as ([j' w'] & Ee & Hin). cbn in Ee. destruct (idx_eqb j' sub).
    + inversion Ee; subst. exact Z.
    + inversion Ee; subst. apply H. apply in_map_iff. exists (j, w); auto.
  - apply H. apply in_map_iff. exists (j, w); auto.
  - apply in_app_or in Hin as [Hin|[Hin|[]]].
    + apply H. apply in_map_iff. exists (j, w); auto.
    + inversion Hin; subst. exact Z.
Qed.

Lemma map_snd_entries (S : sparse V) : length (ssubs S) = length (svals S) -> map snd (entries S) = svals S.
Proof.
  unfold entries. generalize (svals S). induction (ssubs S) as [|i l IH]; intros [|v vs] H; cbn in *; try discriminate; auto.
  f_equal. apply IH. lia.
Qed.

(* S[sub] = v on a fully well-formed tensor, sub of full width (any position, inside or outside the shape): the result is fully
   well-formed (no duplicate, no explicit zero, every row inside the NEW shape), the shape is max(dim, sub + 1) mode by mode and
   contains the old one, and the tensor denotes the point update *)
Theorem sp_assign_correct (A : sparse V) (sub : idx) (v : V) : wf_sp isz A -> length sub = length (sshape A) ->
  wf_sp isz (sp_assign isz A sub v) /\
  sshape (sp_assign isz A sub v) = grow_shape (sshape A) sub /\
  inb (sshape (sp_assign isz A sub v)) sub = true /\
  (forall i, inb (sshape A) i = true -> inb (sshape (sp_assign isz A sub v)) i = true) /\
  forall i, den_sp v0 (sp_assign isz A sub v) i = if idx_eqb i sub then v else den_sp v0 A i.
Proof.
  intros (HL & Hn & Hb & Hz) Hs. unfold sp_assign.
  assert (Hn' : NoDup (map fst (entries A))) by now rewrite map_fst_entries.
  split; [|split; [reflexivity|split; [|split]]].
  - unfold wf_sp, of_entries; cbn [ssubs svals sshape]. repeat split.
    + now rewrite !map_length.
    + now apply es_assign_nodup.
    + rewrite Forall_forall. intros i Hi. apply es_assign_fst in Hi as [Hi|Hi].
      * rewrite map_fst_entries in Hi by auto. rewrite Forall_forall in Hb. apply inb_grow; auto.
      * subst i. now apply inb_grow_self.
    + apply es_assign_nonzero. now rewrite map_snd_entries.
  - cbn. now apply inb_grow_self.
  - intros i Hi. cbn. now apply inb_grow.
  - intros i. unfold den_sp. rewrite entries_of_entries. now apply es_assign_lookup.
Qed.

(* a whole history of assignments: still well-formed; every position of the initial shape is still a position *)
Theorem sp_assigns_wf (l : list (idx * V)) : forall (A : sparse V), wf_sp isz A ->
  Forall (fun p => length (fst p) = length (sshape A)) l ->
  wf_sp isz (sp_assigns isz A l) /\ length (sshape (sp_assigns isz A l)) = length (sshape A) /\
  forall i, inb (sshape A) i = true -> inb (sshape (sp_assigns isz A l)) i = true.
Proof.
  induction l as [|[sub v] l IH]; intros A W Hl; cbn [sp_assigns fold_left]; [split; [exact W|split; [reflexivity|auto]]|].
  apply Forall_cons_iff in Hl as [Hs Hr]. cbn [fst snd] in *.
  destruct (sp_assign_correct A sub v W Hs) as (W1 & S1 & _ & M1 & _).
  assert (L1 : length (sshape (sp_assign isz A sub v)) = length (sshape A)) by (rewrite S1; now apply grow_length).
  destruct (IH (sp_assign isz A sub v) W1) as (W2 & L2 & M2).
  { rewrite Forall_forall in *. intros p Hp. rewrite L1. now apply Hr. }
  fold (sp_assigns isz (sp_assign isz A sub v) l). repeat split; auto; try apply W2. congruence.
Qed.

(* ... and it denotes the dense array after the same history of point updates: at every position the last assignment wins *)
Theorem sp_assigns_den (l : list (idx * V)) : forall (A : sparse V), wf_sp isz A ->
  Forall (fun p => length (fst p) = length (sshape A)) l ->
  forall i, den_sp v0 (sp_assigns isz A l) i = hist_lookup l i (den_sp v0 A i).
Proof.
  induction l as [|[sub v] l IH]; intros A W Hl i; cbn [sp_assigns fold_left hist_lookup]; [reflexivity|].
  apply Forall_cons_iff in Hl as [Hs Hr]. cbn [fst snd] in *.
  destruct (sp_assign_correct A sub v W Hs) as (W1 & S1 & _ & _ & D1).
  assert (L1 : length (sshape (sp_assign isz A sub v)) = length (sshape A)) by (rewrite S1; now apply grow_length).
  fold (sp_assigns isz (sp_assign isz A sub v) l). rewrite IH; auto.
  - rewrite D1. reflexivity.
  - rewrite Forall_forall in *. intros p Hp. rewrite L1. now apply Hr.
Qed.
End AssignProofs.

(* ---- a request after the assignment is answered from the tensor as it is NOW: every position of the GROWN shape ---- *)
Section After.
Context {V : Type} (v0 : V) (isz : V -> bool).
Hypothesis isz_spec : forall v, isz v = true <-> v = v0.
Variable one : V.
Hypothesis one_nz : one <> v0.

Theorem not_after_assign (A : sparse V) (sub : idx) (v : V) : wf_sp isz A -> length sub = length (sshape A) ->
  let A' := sp_assign isz A sub v in
  wf_sp isz (impl_not one A') /\ sshape (impl_not one A') = grow_shape (sshape A) sub /\
  forall i, inb (grow_shape (sshape A) sub) i = true ->
    den_sp v0 (impl_not one A') i = bval v0 one (isz (if idx_eqb i sub then v else den_sp v0 A i)).
Proof.
  intros W Hs A'. destruct (sp_assign_correct v0 isz isz_spec A sub v W Hs) as (W1 & S1 & _ & _ & D1).
  destruct (impl_not_correct v0 isz isz_spec one A' one_nz W1) as (W2 & S2 & D2). fold A' in S1, D1.
  split; [exact W2|]. split; [congruence|]. intros i Hi. rewrite D2 by (rewrite S1; exact Hi). now rewrite D1.
Qed.

Theorem cmp_scalar_after_assign (cmp : V -> V -> bool) (A : sparse V) (c : V) (sub : idx) (v : V) :
  wf_sp isz A -> length sub = length (sshape A) ->
  let A' := sp_assign isz A sub v in
  wf_sp isz (impl_cmp_scalar v0 one cmp A' c) /\ sshape (impl_cmp_scalar v0 one cmp A' c) = grow_shape (sshape A) sub /\
  forall i, inb (grow_shape (sshape A) sub) i = true ->
    den_sp v0 (impl_cmp_scalar v0 one cmp A' c) i = bval v0 one (cmp (if idx_eqb i sub then v else den_sp v0 A i) c).
Proof.
  intros W Hs A'. destruct (sp_assign_correct v0 isz isz_spec A sub v W Hs) as (W1 & S1 & _ & _ & D1).
  destruct (impl_cmp_scalar_correct v0 isz isz_spec one one_nz cmp A' c W1) as (W2 & S2 & D2). fold A' in S1, D1.
  split; [exact W2|]. split; [congruence|]. intros i Hi. rewrite D2 by (rewrite S1; exact Hi). now rewrite D1.
Qed.
End After.

Lemma zisz_specH : forall v, zisz v = true <-> v = 0%Z.
Proof. intros v; unfold zisz; apply Z.eqb_eq. Qed.
