(* Model/C02Dense.v — executable transliterations of the dense kernels of pyttb/tensor.py
   (ttv, ttm, mttkrp, innerprod, norm^2, collapse, contract, scale) and of pyttb/khatrirao.py, written against the
   tabulate-style numpy primitives of Np/Array.v.  Definitions only; proofs in Proofs/C02DenseProofs.v. *)
From Coq Require Import List Arith Lia Bool.
From PV Require Import Base.Index Base.Perm Base.Sum Np.Array Model.Sparse Model.Repr Model.C02Spec.
Import ListNotations.

Section Dense.
Context {V : Type} (v0 v1 : V) (vadd vmul : V -> V -> V).
Local Notation "x + y" := (vadd x y).
Local Notation "x * y" := (vmul x y).
Local Notation den := (den_dense v0).

(* c.dot(v) for a 2-d F-ordered array c of shape (A, B): out[a] = Σ_b c[a,b] v[b] *)
Definition matvec (c : dense V) (v : list V) : dense V :=
  let A := nth 0 (dshape c) 0 in let B := nth 1 (dshape c) 0 in
  mkDense [A] (map (fun a => sum_n v0 vadd B (fun b => nth (a + A * b)%nat (ddata c) v0 * nth b v v0)) (seq 0 A)).

(* A @ B for 2-d F-ordered arrays *)
Definition matmul (a b : dense V) : dense V :=
  let m := nth 0 (dshape a) 0 in let k := nth 1 (dshape a) 0 in let n := nth 1 (dshape b) 0 in
  tabulate [m; n] (fun ij => sum_n v0 vadd k (fun l => den a [nth 0 ij 0; l] * den b [l; nth 1 ij 0])).

(* a factor matrix (list of rows) with m rows, n columns as a 2-d array; its transpose *)
Definition of_matrix (U : @matrix V) (m n : nat) : dense V := tabulate [m; n] (fun ij => mget v0 U (nth 0 ij 0) (nth 1 ij 0)).
Definition of_matrixT (U : @matrix V) (m n : nat) : dense V := tabulate [n; m] (fun ij => mget v0 U (nth 1 ij 0) (nth 0 ij 0)).
Definition np_T (a : dense V) : dense V := np_transpose v0 a [1; 0].

(* ---- tensor.ttv (tensor.py:1723): dims sorted ascending, vs[i] = vector[vidx[i]] (after tt_dimscheck) ---- *)
Fixpoint ttv_loop (c : dense V) (sz : list nat) (vs_rev : list (list V)) : dense V * list nat :=
  match vs_rev with
  | [] => (c, sz)
  | v :: r =>
      let c2 := np_reshapeF v0 c [size (removelast sz); last sz 0] in      (* np.reshape(c, (prod(sz[0:n-1]), sz[n-1]), "F") *)
      ttv_loop (matvec c2 v) (removelast sz) r                              (* c = c.dot(vector[vidx[i]]); n -= 1 *)
  end.

Definition impl_ttv_dense (X : dense V) (dims : list nat) (vs : list (list V)) : dense V :=
  let N := length (dshape X) in
  let remdims := compl N dims in
  let c := if 1 <? N then np_transpose v0 X (remdims ++ dims) else X in
  let sz := pick 0 (remdims ++ dims) (dshape X) in
  let '(c', sz') := ttv_loop c sz (rev vs) in
  np_reshapeF v0 c' sz'.                       (* ttb.tensor(c, sz[0:n]); the scalar result is entry 0 of shape [] *)

End Dense.
