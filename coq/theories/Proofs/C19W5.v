(* Proofs/C19W5.v — wave 5 / 6: sptensor.scale with a numpy vector as factor (C19-N27, repaired 98f7017), tensor.ttsv (C19-N28,
   repaired 0478ea5), ttensor.reconstruct (C19-N29: as in /repo HEAD and with the pending repair 9d2314a). *)
From Coq Require Import List ZArith Bool Lia Permutation.
From PV Require Import Np.NpZ Np.NpZ2 Gen.GenUtils Proofs.NpZProofs Proofs.UtilsProofs
  Model.C19Guards Proofs.C19Proofs Proofs.C19Ttv Proofs.C19More Proofs.C19W3 Proofs.C19W4.
Import ListNotations.
Local Open Scope Z_scope.

Lemma np_sort_length (l : vec) : length (np_sort l) = length l.
Proof. apply Permutation_length, np_sort_perm. Qed.

Lemma np_sort_single (m : Z) : np_sort [m] = [m].
Proof.
  pose proof (np_sort_perm [m]) as P. apply Permutation_sym, Permutation_length_1_inv in P. exact P.
Qed.

(* C19-N27 repaired (98f7017): the receiver without entries compares the vector's shape too — the guard rejects exactly when the
   precondition fails, whether the receiver stores an entry or not *)
Theorem sptensor_scale_arr_decides s e flen d :
  guard_sptensor_scale_arr s e flen d = decide (pre_sptensor_scale_arr s e flen d).
Proof.
  unfold guard_sptensor_scale_arr, pre_sptensor_scale_arr. destruct (modes_ok (ndim s) d) eqn:Hm.
  - apply modes_ok_spec in Hm as [Hr Hn]. rewrite (dimscheck_dims (ndim s) None d).
    + cbn [andb]. assert (E : match np_sort d with [m] => chk (flen =? sz s m) | _ => Err end
                              = decide match d with [m] => flen =? sz s m | _ => false end).
      { destruct d as [|m [|m' r]].
        * reflexivity.
        * rewrite np_sort_single. destruct (flen =? sz s m); reflexivity.
        * pose proof (np_sort_length (m :: m' :: r)) as L. destruct (np_sort (m :: m' :: r)) as [|a [|b t]]; cbn in L; try discriminate. reflexivity. }
      destruct e; exact E.
    + repeat split; auto; apply Hr; auto.
  - now rewrite dimscheck_rejects_bad_modes.
Qed.

(* ---- tensor.ttsv, default algorithm (C19-N28 repaired, 0478ea5) ---- *)
Lemma zprod_const c (l : vec) : forallb (fun x => x =? c) l = true -> zprod l = c ^ zlen l.
Proof.
  induction l as [|x l IH]; intros H; [reflexivity|]. cbn [forallb] in H. apply andb_true_iff in H as [Hx Hl].
  apply Z.eqb_eq in Hx. subst x. unfold zprod in *. cbn [fold_right]. rewrite (IH Hl).
  replace (zlen (c :: l)) with (Z.succ (zlen l)) by (unfold zlen; cbn [length]; lia).
  rewrite Z.pow_succ_r by (unfold zlen; lia). reflexivity.
Qed.

Lemma cubical_count s : cubical s = true -> zprod s = sz s 0 ^ ndim s.
Proof. intros H. apply zprod_const. exact H. Qed.

(* the cubical test and "skip_dim >= ndims" in front of the reshapes: the guard rejects exactly when the precondition fails, for
   every shape, vector length and skip_dim (numpy's element-count tests behind them can no longer fail) *)
Theorem ttsv_decides s vlen skip : guard_ttsv s vlen skip = decide (pre_ttsv s vlen skip).
Proof.
  unfold guard_ttsv, pre_ttsv. cbv zeta.
  assert (Hd : 0 <= ndim s) by (unfold ndim, zlen; lia).
  destruct (cubical s) eqn:C.
  2:{ destruct skip as [k|]; unfold ttsv_dnew, in_range; [destruct (0 <=? k)|]; cbn [chk andthen andb negb orb decide]; rewrite ?andb_false_r; reflexivity. }
  pose proof (cubical_count s C) as P. apply Z.eqb_eq in P.
  destruct skip as [k|]; unfold ttsv_dnew, in_range.
  - destruct (Z.leb_spec 0 k) as [H0|H0]; cbn [andb chk andthen decide negb orb]; [|reflexivity].
    replace (k + 1 - 1) with k by lia.
    destruct (Z.ltb_spec k (ndim s)) as [Hk|Hk].
    + replace (ndim s <=? k) with false by (symmetry; apply Z.leb_gt; lia). cbn [andb andthen].
      destruct (Z.ltb_spec 0 (ndim s - (k + 1))) as [Hr|Hr].
      * replace (ndim s - (k + 1) =? 0) with false by (symmetry; apply Z.eqb_neq; lia). rewrite P. cbn [chk andthen orb].
        rewrite (Z.eqb_sym vlen). destruct (sz s 0 =? vlen); reflexivity.
      * replace (ndim s - (k + 1) =? 0) with true by (symmetry; apply Z.eqb_eq; lia). cbn [orb].
        replace (k + 1) with (ndim s) by lia. rewrite P. destruct (2 <=? ndim s); reflexivity.
    + replace (ndim s <=? k) with true by (symmetry; apply Z.leb_le; lia). reflexivity.
  - cbn [chk andthen andb negb orb]. replace (ndim s <=? 0 - 1) with false by (symmetry; apply Z.leb_gt; lia). cbn [andthen].
    rewrite Z.sub_0_r. destruct (Z.ltb_spec 0 (ndim s)) as [Hr|Hr].
    + replace (ndim s =? 0) with false by (symmetry; apply Z.eqb_neq; lia). rewrite P. cbn [chk andthen orb].
      rewrite (Z.eqb_sym vlen). destruct (sz s 0 =? vlen); reflexivity.
    + replace (ndim s =? 0) with true by (symmetry; apply Z.eqb_eq; lia). reflexivity.
Qed.

(* ---- ttensor.reconstruct(samples, modes): the method of /repo HEAD (C19-N29, open) ---- *)
Definition wrap_range (N m : Z) : bool := (- N <=? m) && (m <? N).
Theorem reconstruct_exact s modes nsamp :
  guard_reconstruct s modes nsamp = decide ((nsamp =? zlen modes) && forallb (wrap_range (ndim s)) modes).
Proof.
  unfold guard_reconstruct. fold (wrap_range (ndim s)). destruct (nsamp =? zlen modes); cbn [chk andthen andb decide]; [|reflexivity].
  destruct (forallb _ modes); reflexivity.
Qed.
Definition reconstruct_stmt : Prop := forall s modes nsamp, guard_reconstruct s modes nsamp = decide (pre_reconstruct s modes nsamp).
Theorem reconstruct_refuted : ~ reconstruct_stmt.
Proof. intros H. specialize (H [2; 3; 4] [-1] 1). vm_compute in H. discriminate. Qed.

Lemma wrap_nonneg N modes : forallb (fun m => 0 <=? m) modes = true -> forallb (wrap_range N) modes = forallb (in_range N) modes.
Proof.
  induction modes as [|m r IH]; intros H; [reflexivity|]. cbn [forallb] in *. apply andb_true_iff in H as [Hm Hr].
  rewrite (IH Hr). f_equal. unfold wrap_range, in_range. rewrite Hm. apply Z.leb_le in Hm.
  destruct (Z.ltb_spec m N); [|now rewrite andb_false_r]. rewrite andb_true_r. apply Z.leb_le. lia.
Qed.

(* exact on every request whose modes are non-negative and pairwise different *)
Theorem reconstruct_partial s modes nsamp :
  forallb (fun m => 0 <=? m) modes = true -> nodupb modes = true ->
  guard_reconstruct s modes nsamp = decide (pre_reconstruct s modes nsamp).
Proof.
  intros H0 Hn. rewrite reconstruct_exact, (wrap_nonneg _ _ H0). unfold pre_reconstruct, modes_ok. rewrite Hn, andb_true_r.
  f_equal. apply andb_comm.
Qed.

(* "answered although ill-formed" = the trigger region of C19-N29: the counts agree, every mode is in [-ndims, ndims), and a mode is
   negative or listed twice *)
Theorem reconstruct_gap s modes nsamp :
  guard_reconstruct s modes nsamp = Ok tt /\ pre_reconstruct s modes nsamp = false <->
  nsamp = zlen modes /\ forallb (wrap_range (ndim s)) modes = true /\ modes_ok (ndim s) modes = false.
Proof.
  rewrite reconstruct_exact. unfold pre_reconstruct, decide.
  destruct (Z.eqb_spec nsamp (zlen modes)) as [E|E]; cbn [andb].
  - destruct (forallb (wrap_range (ndim s)) modes), (modes_ok (ndim s) modes); cbn [andb]; split; intros H;
      try (destruct H as [A B]); try discriminate; try (destruct B; discriminate); repeat split; auto.
  - rewrite andb_false_r. split; intros [A B]; [discriminate|contradiction].
Qed.

(* ---- ttensor.reconstruct with fixes/C19-N29.diff (9d2314a, pending): range + distinctness test in front of the assignments ---- *)
Lemma existsb_negb {A} (f : A -> bool) l : existsb (fun x => negb (f x)) l = negb (forallb f l).
Proof. induction l as [|x l IH]; [reflexivity|]. cbn. rewrite IH. destruct (f x); reflexivity. Qed.

Lemma in_range_wrap N modes : forallb (in_range N) modes = true -> forallb (wrap_range N) modes = true.
Proof.
  intros H. rewrite forallb_forall in *. intros m Hm. specialize (H m Hm). unfold in_range, wrap_range in *.
  apply andb_true_iff in H as [A B]. rewrite B, andb_true_r. apply Z.leb_le in A. apply Z.ltb_lt in B. apply Z.leb_le. lia.
Qed.

Theorem reconstruct_fixed_decides s modes nsamp :
  guard_reconstruct_fixed s modes nsamp = decide (pre_reconstruct s modes nsamp).
Proof.
  unfold guard_reconstruct_fixed, pre_reconstruct, modes_ok. fold (wrap_range (ndim s)).
  rewrite existsb_negb. destruct (nsamp =? zlen modes); cbn [chk andthen]; [|now rewrite andb_false_r].
  rewrite andb_true_r. destruct (forallb (in_range (ndim s)) modes) eqn:F; cbn [negb orb andb]; [|reflexivity].
  destruct (nodupb modes); cbn [negb andthen decide]; [|reflexivity]. now rewrite (in_range_wrap _ _ F).
Qed.

(* ---- ktensor.score, sptensor.subdims, ktensor.from_vector ---- *)
Theorem score_decides s u ra rb thr_ok : guard_score s u ra rb thr_ok = decide (pre_score s u ra rb thr_ok).
Proof.
  unfold guard_score, pre_score. destruct (shape_eqb s u), thr_ok; cbn [chk andthen andb decide]; try reflexivity;
    destruct (Z.ltb_spec ra rb), (Z.leb_spec rb ra); try reflexivity; lia.
Qed.
Theorem subdims_decides s k : guard_subdims s k = decide (pre_subdims s k).
Proof. unfold guard_subdims, pre_subdims. destruct (k =? ndim s); reflexivity. Qed.
Theorem from_vector_decides n shape cw : guard_from_vector n shape cw = decide (pre_from_vector n shape cw).
Proof.
  unfold guard_from_vector, pre_from_vector. cbv zeta. destruct (_ =? 0); cbn [negb andb andthen decide]; [reflexivity|].
  destruct (_ =? 0); reflexivity.
Qed.
