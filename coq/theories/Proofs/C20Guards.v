(* Proofs/C20Guards.v — which ill-formed generator requests are rejected (guard models of Model/C20Harness.v). *)
From Coq Require Import List Arith ZArith Lia Bool.
From PV Require Import Base.Index Base.Sum Np.Array Model.Sparse Model.Repr Model.Harness Model.C20Gen Model.C20Harness Proofs.C20Proofs.
Import ListNotations.
Local Open Scope Z_scope.

Lemma zshape_ok_spec s : zshape_ok s = true <-> Forall (fun d => 0 <= d) s.
Proof.
  unfold zshape_ok. rewrite forallb_forall, Forall_forall. split; intros H d Hd; specialize (H d Hd); lia.
Qed.

(* tenones / tenzeros (and tenrand, tensor.from_function, which share the path): accepted EXACTLY WHEN the shape is
   non-empty and holds no negative size (a zero size is admissible: an empty tensor) *)
Theorem dense_gen_guard_spec s : dense_gen_guard s = true <-> s <> [] /\ Forall (fun d => 0 <= d) s.
Proof.
  unfold dense_gen_guard. rewrite andb_true_iff, zshape_ok_spec, negb_true_iff, Nat.eqb_neq.
  split; intros [H1 H2]; split; auto.
  - intros ->. now apply H2.
  - destruct s; [congruence|cbn; lia].
Qed.

Theorem tenones_chk_spec s :
  (ztenones_chk s = None <-> s = [] \/ Exists (fun d => d < 0) s) /\
  (dense_gen_guard s = true -> exists T, ztenones_chk s = Some T /\ dshape T = to_shape s /\
      ddata T = repeat 1 (size (to_shape s))) /\
  (ztenzeros_chk s = None <-> s = [] \/ Exists (fun d => d < 0) s) /\
  (dense_gen_guard s = true -> exists T, ztenzeros_chk s = Some T /\ dshape T = to_shape s /\
      ddata T = repeat 0 (size (to_shape s))).
Proof.
  assert (R : dense_gen_guard s = false <-> s = [] \/ Exists (fun d => d < 0) s).
  { rewrite <- not_true_iff_false, dense_gen_guard_spec. split.
    - intros H. destruct s as [|d s]; [now left|]. right. apply Exists_exists.
      destruct (forallb (fun d => 0 <=? d) (d :: s)) eqn:E.
      + exfalso. apply H. split; [discriminate|]. apply zshape_ok_spec. exact E.
      + apply not_true_iff_false in E. rewrite forallb_forall in E.
        destruct (Exists_dec (fun x => x < 0) (d :: s) (fun x => Z_lt_dec x 0)) as [X|X]; [now apply Exists_exists|].
        exfalso. apply E. intros x Hx. apply Z.leb_le. destruct (Z_lt_dec x 0); [|lia].
        exfalso. apply X, Exists_exists. eauto.
    - intros [->|H] [H1 H2]; [congruence|]. apply Exists_exists in H as (x & Hx & Hneg).
      rewrite Forall_forall in H2. specialize (H2 x Hx). lia. }
  unfold ztenones_chk, ztenzeros_chk. repeat split.
  - intros H. apply R. destruct (dense_gen_guard s); auto.
    destruct (tenones_ok 0 1 (to_shape s)) as (T & E & _). unfold ztenones in H. congruence.
  - intros H. apply R in H. now rewrite H.
  - intros G. rewrite G. destruct (tenones_ok 0 1 (to_shape s)) as (T & E & Hs & _ & Hd & _). exists T. auto.
  - intros H. apply R. destruct (dense_gen_guard s); auto.
    destruct (tenzeros_ok 0 (to_shape s)) as (T & E & _). unfold ztenzeros in H. congruence.
  - intros H. apply R in H. now rewrite H.
  - intros G. rewrite G. destruct (tenzeros_ok 0 (to_shape s)) as (T & E & Hs & _ & Hd & _). exists T. auto.
Qed.

(* teneye(ndims, size): accepted EXACTLY WHEN the order is even and positive and the size is not negative *)
Theorem teneye_guard_spec m n : teneye_guard m n = true <-> (0 < m /\ Z.even m = true /\ 0 <= n).
Proof.
  unfold teneye_guard. rewrite !andb_true_iff, Z.ltb_lt, Z.leb_le. tauto.
Qed.

(* tendiag / sptendiag never reject a shape for its sizes: a size below the number of elements (negative and zero
   sizes included) is raised to it — the result is the one for the shape with the negative sizes replaced by zero *)
Theorem diag_shape_z_eq N s : pyttb_diag_shape N s = diag_shape N (Some (to_shape s)).
Proof.
  unfold pyttb_diag_shape, to_shape. cbn [diag_shape]. rewrite map_map. apply map_ext. intros d. lia.
Qed.
Theorem diag_z_shape e s :
  dshape (ztendiag_z e (Some s)) = pyttb_diag_shape (length e) s /\
  sshape (zsptendiag_z e (Some s)) = pyttb_diag_shape (length e) s /\
  Forall (fun d => (length e <= d)%nat) (pyttb_diag_shape (length e) s).
Proof.
  rewrite diag_shape_z_eq. split; [reflexivity|]. split; [reflexivity|]. apply diag_shape_ge.
Qed.

(* sptendiag with a shape: rejected EXACTLY WHEN there is no element and the shape holds a non-positive size *)
Theorem sptendiag_chk_spec e s :
  zsptendiag_chk e s = None <-> (e = [] /\ Exists (fun d => d <= 0) s).
Proof.
  unfold zsptendiag_chk.
  destruct (forallb (fun d => 0 <? Z.max (Z.of_nat (length e)) d) s) eqn:E.
  - split; [discriminate|]. intros [-> H]. exfalso. rewrite forallb_forall in E.
    apply Exists_exists in H as (d & Hd & Hle). specialize (E d Hd). cbn in E. lia.
  - split; [intros _|reflexivity]. apply not_true_iff_false in E. rewrite forallb_forall in E.
    destruct e as [|x e].
    + split; [reflexivity|]. destruct (Exists_dec (fun d => d <= 0) s (fun d => Z_le_dec d 0)) as [X|X]; [exact X|].
      exfalso. apply E. intros d Hd. cbn. apply Z.ltb_lt. destruct (Z_le_dec d 0); [|lia].
      exfalso. apply X, Exists_exists. eauto.
    + exfalso. apply E. intros d Hd. apply Z.ltb_lt. cbn [length]. lia.
Qed.
