(* Proofs/C04GenLinear.v — C04, wave 4: LINEAR keys over the translator-GENERATED tt_ind2sub (Gen/GenUtils.v).
   tensor.__getitem__ / _set_linear and sptensor.__getitem__ turn a linear key (integer, list / 1-d array of integers, slice of
   range(prod(shape))) into subscripts with tt_ind2sub.  For every shape and every linear key the specification accepts
   (resolve_get s k = Some (os, ps): negative integers count from the end, everything inside [-size, size)), the generated
   function returns exactly the positions ps of the specification (F order: first index fastest), in the order of the key. *)
From Coq Require Import List Arith ZArith Lia Bool.
From PV Require Import Base.Index Np.NpZ Np.NpZ2 Gen.GenUtils Proofs.NpZProofs Proofs.UtilsProofs Proofs.C17Index.
From PV Require Import Model.C04Model Proofs.C04GenBridge.
Import ListNotations.

(* the integer vector handed to tt_ind2sub *)
Definition lin_indices (s : shape) (k : key) : vec :=
  match k with
  | KLin z => [z]
  | KLinList l => l
  | KLinSlice a b c => NpZProofs.zs (py_slice (size s) a b c)
  | _ => []
  end.

Definition is_linear (k : key) : bool := match k with KLin _ | KLinList _ | KLinSlice _ _ _ => true | _ => false end.

Lemma norm_index_wrap n z k : norm_index n z = Some k ->
  (- Z.of_nat n <= z < Z.of_nat n)%Z /\ k = wrap_index n z.
Proof.
  unfold norm_index, wrap_index. destruct (Z.ltb_spec z 0) as [Hz|Hz]; destruct (_ && _) eqn:E; try discriminate;
    intros Heq; inversion Heq; subst; apply andb_true_iff in E as [E1 E2]; apply Z.leb_le in E1; apply Z.ltb_lt in E2; split; try lia; reflexivity.
Qed.

Lemma opt_all_norm n : forall l ks, opt_all (map (norm_index n) l) = Some ks ->
  (forall z, In z l -> (- Z.of_nat n <= z < Z.of_nat n)%Z) /\ ks = map (wrap_index n) l.
Proof.
  induction l as [|z l IH]; intros ks H; cbn in H.
  - inversion H. split; [intros z []|reflexivity].
  - destruct (norm_index n z) as [k|] eqn:E; [|discriminate]. destruct (opt_all (map (norm_index n) l)) as [r|] eqn:Er; [|discriminate].
    inversion H; subst. destruct (IH r eq_refl) as [H1 H2]. destruct (norm_index_wrap n z k E) as [H3 H4]. split.
    + intros z' [<-|Hz]; auto.
    + cbn. now rewrite H4, H2.
Qed.

Theorem gen_linear_positions (s : shape) (k : key) os ps :
  is_linear k = true -> resolve_get s k = Some (os, ps) ->
  tt_ind2sub (NpZProofs.zs s) (lin_indices s k) OrdF = Ok (map NpZProofs.zs ps).
Proof.
  intros Hk H. destruct k as [z|l|a b c|rows|es]; try discriminate; cbn [resolve_get lin_indices] in *.
  - destruct (norm_index (size s) z) as [n|] eqn:E; [|discriminate]. inversion H; subst.
    destruct (norm_index_wrap _ _ _ E) as [Hr ->].
    rewrite tt_ind2sub_all; [reflexivity|]. intros k' [<-|[]]. exact Hr.
  - destruct l as [|z0 zr] eqn:El; [discriminate|]. rewrite <- El in *. clear El z0 zr.
    destruct (opt_all (map (norm_index (size s)) l)) as [ks|] eqn:E; [|discriminate]. inversion H; subst.
    destruct (opt_all_norm _ _ _ E) as [Hr ->].
    rewrite tt_ind2sub_all by exact Hr. f_equal. now rewrite !map_map.
  - destruct (py_slice (size s) a b c) as [|x0 r] eqn:E; [discriminate|]. inversion H; subst. rewrite <- E.
    rewrite tt_ind2sub_spec; [rewrite E; cbn [map]; now rewrite map_map|].
    intros k' Hk'. exact (c04_slice_range (size s) a b c k' Hk').
Qed.

(* and an index outside [-size, size) is rejected by the generated function as by the specification *)
Theorem gen_linear_rejects (s : shape) (l : list Z) :
  (exists z, In z l /\ (Z.of_nat (size s) <= z \/ z < - Z.of_nat (size s))%Z) ->
  tt_ind2sub (NpZProofs.zs s) l OrdF = Err /\ resolve_get s (KLinList l) = None.
Proof.
  intros Hex. split; [now apply tt_ind2sub_rejects|].
  destruct Hex as (z & Hz & Hr). cbn [resolve_get]. destruct l as [|z0 zr] eqn:El; [contradiction|]. rewrite <- El in *. clear El z0 zr.
  destruct (opt_all (map (norm_index (size s)) l)) as [ks|] eqn:E; [|reflexivity].
  destruct (opt_all_norm _ _ _ E) as [Hall _]. specialize (Hall z Hz). lia.
Qed.

Example gen_linear_positions_example :
  tt_ind2sub (NpZProofs.zs [2; 3; 4]) (lin_indices [2; 3; 4] (KLinSlice (Some (-3)%Z) None (Some (-10)%Z))) OrdF = Ok [[1; 1; 3]; [1; 2; 1]; [1; 0; 0]]%Z /\
  resolve_get [2; 3; 4] (KLinSlice (Some (-3)%Z) None (Some (-10)%Z)) = Some ([3], [[1; 1; 3]; [1; 2; 1]; [1; 0; 0]]).
Proof. split; vm_compute; reflexivity. Qed.
