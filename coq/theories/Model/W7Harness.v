(* Wave 7: boolean comparers used by the generated cases of tools/props/w7gen.py *)
From Coq Require Import List ZArith Bool.
From PV Require Import Np.NpZ Np.NpZ7.
Import ListNotations.
Local Open Scope Z_scope.

Definition w7_nd_eqb (a b : ndz) : bool := vec_eqb (nd7_shape a) (nd7_shape b) && vec_eqb (nd7_data a) (nd7_data b).
Definition w7_tm_eqb (a b : tmz) : bool :=
  vec_eqb (tm7_tshape a) (tm7_tshape b) && vec_eqb (tm7_rindices a) (tm7_rindices b) &&
  vec_eqb (tm7_cindices a) (tm7_cindices b) && w7_nd_eqb (tm7_data a) (tm7_data b).
Definition w7_res_eqb {A} (eqb : A -> A -> bool) (r1 r2 : res A) : bool :=
  match r1, r2 with Ok a, Ok b => eqb a b | Err, Err => true | _, _ => false end.

From PV Require Import Np.NpZ7b.
Fixpoint w7_mat_eqb (a b : mat) : bool :=
  match a, b with
  | [], [] => true
  | x :: a', y :: b' => vec_eqb x y && w7_mat_eqb a' b'
  | _, _ => false
  end.
Definition w7_stm_eqb (a b : stmz) : bool :=
  w7_mat_eqb (stm7_subs a) (stm7_subs b) && vec_eqb (stm7_vals a) (stm7_vals b) && vec_eqb (stm7_rdims a) (stm7_rdims b) &&
  vec_eqb (stm7_cdims a) (stm7_cdims b) && vec_eqb (stm7_tshape a) (stm7_tshape b).
