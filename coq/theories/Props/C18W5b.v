(* Props/C18W5b.v — C18 wave 5: the inner loop of cp_apr (MU) `for i in range(maxinneriters):` as GENERATED (Gen/GenCpAprMu.v
   cp_apr_mu_loop4, regenerated from /repo on every run; kernels arbitrary) is what the hand print driver's inner loop
   (Proofs/C18Print.v mu_inner_loop, with printinneritn and the status line as an event) computes, for EVERY printinneritn.
   Only statements, `exact`, Print Assumptions. *)
From Coq Require Import String List Arith Bool ZArith.
From PV Require Import Model.W4SPrelude Gen.GenCpAprMu Proofs.C18Print Proofs.C18GenPrintHosvd Proofs.C18GenPrintMu Proofs.C18GenPrintMuModes.
Import ListNotations.
Local Open Scope nat_scope.

Section C18W5b.
Variables T_W T_F T_Mat T_K T_X T_Pi : Type.
Variable c_leF : T_F -> T_F -> bool.
Variable k_calculate_phi : T_W -> T_X -> T_K -> nat -> nat -> T_Pi -> T_F -> T_W * T_Mat.
Variable k_kkt_mode : T_K -> nat -> list T_Mat -> T_F.
Variable k_mult_update : T_K -> nat -> list T_Mat -> T_K.
Notation gloop4 := (GenCpAprMu.cp_apr_mu_loop4 T_W T_F T_Mat T_K T_X T_Pi c_leF k_calculate_phi k_kkt_mode k_mult_update).
Notation ST := (mu_st T_W T_F T_Mat T_K).
Notation HINNER X eps rank stoptol q :=
  (mu_inner_loop ST T_Pi T_F (m_calc_phi T_W T_F T_Mat T_K T_X T_Pi k_calculate_phi k_kkt_mode X eps rank)
                 (m_mulupd T_W T_F T_Mat T_K k_mult_update) (m_ltb T_F c_leF) stoptol q).

(* state (M, Phi, kktModeViolations, world), flag isConverged and the counter nInnerIters[iteration] after the generated inner loop
   = what the hand driver's inner loop returns under printinneritn = q, for every integer q; other entries of nInnerIters untouched *)
Theorem C18_gen_print_cp_apr_mu_inner : forall (X : T_X) (eps : T_F) (rank : nat) (stoptol : T_F) (q : Z) (Pi : T_Pi) (it n : nat)
    fuel i M Phi cv km ni w cnt,
  n < length Phi -> n < length km -> nth_error ni it = Some cnt ->
  let '(s', cv', cnt', _) := HINNER X eps rank stoptol q fuel i n Pi (M, Phi, km, w) cv cnt in
  let '(M', Phi', km', w') := s' in
  exists ni', gloop4 Pi eps X it n rank stoptol fuel i (M, Phi, cv, km, ni, w) = Some (M', Phi', cv', km', ni', w') /\
              nth_error ni' it = Some cnt' /\ (forall j, j <> it -> nth_error ni' j = nth_error ni j).
Proof. exact (mu_inner_print_bridge T_W T_F T_Mat T_K T_X T_Pi c_leF k_calculate_phi k_kkt_mode k_mult_update). Qed.
End C18W5b.

Print Assumptions C18_gen_print_cp_apr_mu_inner.

Section C18W5b_modes.
Variables T_W T_F T_Mat T_Mask T_K T_X T_Pi : Type.
Variable c_leF : T_F -> T_F -> bool.
Variable k_violation_mask : list T_Mat -> nat -> T_K -> T_F -> T_Mask.
Variable k_any : T_Mask -> bool.
Variable k_add_kappa : T_K -> nat -> T_Mask -> T_F -> T_K.
Variable k_redistribute : T_K -> nat -> T_K.
Variable k_calculate_pi : T_X -> T_K -> nat -> nat -> nat -> T_Pi.
Variable k_calculate_phi : T_W -> T_X -> T_K -> nat -> nat -> T_Pi -> T_F -> T_W * T_Mat.
Variable k_kkt_mode : T_K -> nat -> list T_Mat -> T_F.
Variable k_mult_update : T_K -> nat -> list T_Mat -> T_K.
Variable k_normalize_mode : T_K -> nat -> nat -> T_K.
Notation gloop3 := (GenCpAprMu.cp_apr_mu_loop3 T_W T_F T_Mat T_Mask T_K T_X T_Pi c_leF k_violation_mask k_any k_add_kappa k_redistribute
  k_calculate_pi k_calculate_phi k_kkt_mode k_mult_update k_normalize_mode).
Notation ST := (mu_st T_W T_F T_Mat T_K).
Notation HMODES X eps rank stoptol N kappa kappatol maxinner q :=
  (mu_modes ST T_Pi T_F (m_fixslack T_W T_F T_Mat T_Mask T_K k_violation_mask k_any k_add_kappa kappa kappatol)
            (m_redist T_W T_F T_Mat T_K k_redistribute) (m_calc_pi T_W T_F T_Mat T_K T_X T_Pi k_calculate_pi X rank N)
            (m_calc_phi T_W T_F T_Mat T_K T_X T_Pi k_calculate_phi k_kkt_mode X eps rank) (m_mulupd T_W T_F T_Mat T_K k_mult_update)
            (m_renorm T_W T_F T_Mat T_K k_normalize_mode) (m_ltb T_F c_leF) stoptol maxinner q).

(* the generated mode loop `for n in range(N):` of tt_cp_apr_mu (modes i .. i+fuel-1) returns the state, the flag isConverged and the
   counters nInnerIters[iteration], nViolations[iteration] that the hand print driver's mode loop returns under printinneritn = q, for
   every integer q; it never raises while the modes are valid indices of Phi / kktModeViolations and `iteration` of the counters *)
Theorem C18_gen_print_cp_apr_mu_modes : forall (X : T_X) (eps : T_F) (rank : nat) (stoptol : T_F) (N : nat) (kappa kappatol : T_F)
    (maxinner : nat) (q : Z) (it : nat) fuel i M Phi cv km vn ni nv w cnt nviol,
  i + fuel <= length Phi -> i + fuel <= length km -> nth_error ni it = Some cnt -> nth_error nv it = Some nviol ->
  exists s' cv' cnt' nviol' l', HMODES X eps rank stoptol N kappa kappatol maxinner q it (seq i fuel) (M, Phi, km, w) cv cnt nviol
                                 = (s', cv', cnt', nviol', l') /\
  exists ni' nv' vn',
    gloop3 N eps X it kappa kappatol maxinner rank stoptol fuel i (M, Phi, cv, km, vn, ni, nv, w)
      = Some (st_M T_W T_F T_Mat T_K s', st_Phi T_W T_F T_Mat T_K s', cv', st_km T_W T_F T_Mat T_K s', vn', ni', nv', st_w T_W T_F T_Mat T_K s') /\
    nth_error ni' it = Some cnt' /\ (forall j, j <> it -> nth_error ni' j = nth_error ni j) /\
    nth_error nv' it = Some nviol' /\ (forall j, j <> it -> nth_error nv' j = nth_error nv j).
Proof. exact (mu_modes_print_bridge T_W T_F T_Mat T_Mask T_K T_X T_Pi c_leF k_violation_mask k_any k_add_kappa k_redistribute k_calculate_pi
  k_calculate_phi k_kkt_mode k_mult_update k_normalize_mode). Qed.
End C18W5b_modes.

Print Assumptions C18_gen_print_cp_apr_mu_modes.
