(* Model/C14SpChain.v — H = self.core.ttm(V) of ttensor.nvecs for a SPARSE core and dense factor matrices, as the code runs it
   (pyttb/sptensor.py ttm, list form): tt_dimscheck gives dims = 0..N-1 in order;
     Y = self.ttm(V[0], 0)     sptensor.ttm, one mode: Z = Xnt.double().dot(V[0].T) is an ndarray (COO x ndarray), so the branch
                               `not isinstance(Z, np.ndarray) and ...` is not taken and the result is
                               sptenmat.from_array(Z, ...).to_sptensor().to_tensor(): the nonzeros of Z made dense again
     Y = Y.ttm(V[k], k)        tensor.ttm for k = 1..N-1 (C02's permute / reshape / matmul algorithm, Model/C02Dense.v)
   The single sparse step is C02's coordinate-level kernel impl_ttm_sp (Model/C02SpMore.v, theorem C02_ttm_sparse).
   Definitions only; proofs in Proofs/C14SpChain.v. *)
From Coq Require Import List Arith Lia Bool.
From PV Require Import Base.Index Base.Perm Base.Sum Np.Array Model.Sparse Model.Repr Model.C02Spec Model.C02Dense Model.C02SpMore
                       Model.C01Ttm Model.C14Nvecs Model.C14Gram.
Import ListNotations.

Section SpChain.
Context {V : Type} (v0 : V) (vadd vmul : V -> V -> V) (isz : V -> bool).

(* sptensor.ttm(M, 0) with an ndarray M: the array Z folded back (mode 0 replaced by the rows of M), its nonzeros collected into a
   sptensor (from_array + to_sptensor) and expanded again (to_tensor) *)
Definition sp_ttm_first (S : sparse V) (M : @matrix V) : dense V :=
  let Z := tabulate (upd (sshape S) 0 (nrows M)) (impl_ttm_sp v0 vadd vmul S 0 M false) in
  full v0 (to_sptensor v0 isz Z).

(* core.ttm([V_0, ..., V_{N-1}]) *)
Definition sp_ttm_chain (S : sparse V) (Ms : list (@matrix V)) : dense V :=
  match Ms with
  | [] => full v0 S
  | M :: r => ttm_all_impl v0 vadd vmul (sp_ttm_first S M) r 1
  end.
End SpChain.
