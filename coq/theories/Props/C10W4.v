(* Props/C10W4.v — wave 4: the spectral step and the hosvd error bound for CONCRETE dense real tensors, down to the Tucker tensor
   hosvd returns and to the matrix eigen-equation G W = W diag(mu).  Only statements, `exact`, Print Assumptions. *)
From Coq Require Import List Arith Bool ZArith Reals Ring.
From PV Require Import Base.Index Base.Sum Np.Array Np.NpR Model.Sparse Model.Repr Model.C10Tucker Model.C14Nvecs
                       Proofs.C10Proofs Proofs.C10Spectral Proofs.C10Proj Proofs.C10ProjR Proofs.C10Recon Proofs.C10Concrete Proofs.C10Rayleigh Proofs.C10Isometry Proofs.C10Seq Proofs.C10Fit.
Import ListNotations.
Local Open Scope R_scope.

(* one mode of truncated HOSVD on a concrete tensor Y of shape s: W an orthogonal I_k x I_k matrix (columns w_j), lambda_j =
   ||Y x_k w_j w_j^T||^2; the energy discarded by the truncation projector Y x_k (U U^T), U = W[:, 0:r], is the sum of the
   discarded lambda_j; lambda_j >= 0; sum_j lambda_j = ||Y||^2.  (C10_spectral_step with every abstract object instantiated.) *)
Theorem C10_concrete_spectral_step : forall (s : shape) (k r : nat) (W : @matrix R) (Y : dense R),
  (k < length s)%nat -> (r <= nth k s 0)%nat ->
  orthocolsR (nth k s 0%nat) (nth k s 0%nat) W -> orthorowsR (nth k s 0%nat) W ->
  let eig := energies s k W Y in
  nrm2 (dense R) (innerR s) (subR s Y (truncproj s k r W Y)) = sumR (skipn r eig) /\
  Forall (fun l => 0 <= l) eig /\ sumR eig = nrm2 (dense R) (innerR s) Y.
Proof. exact concrete_spectral_step. Qed.
Print Assumptions C10_concrete_spectral_step.

(* C10_hosvd_error_bound on concrete tensors: per treated mode an orthogonal W, the rank chosen by the transliterated rule of hosvd.py
   on lambda_j = ||Y x_k w_j w_j^T||^2 of the tensor the mode looks at, budget tol^2 ||X||^2 / d, each mode once, any order *)
Theorem C10_concrete_hosvd_error_bound : forall (sequential : bool) (s : shape) (cs : list cmode) (X : dense R) (tolsq : R),
  cs <> [] -> NoDup (map cm_k cs) -> 0 <= tolsq ->
  let budget := tolsq * nrm2 (dense R) (innerR s) X / INR (length cs) in
  (if sequential then cseq_ok s budget X cs else cnonseq_ok s budget X cs) ->
  nrm2 (dense R) (innerR s) (subR s X (applyPs (dense R) (map (cm_proj s) cs) X)) <= tolsq * nrm2 (dense R) (innerR s) X.
Proof. exact concrete_hosvd_error_bound. Qed.
Print Assumptions C10_concrete_hosvd_error_bound.

Section C10_w4_ring.
Variable V : Type.
Variables (v0 v1 : V) (vadd vmul vsub : V -> V -> V) (vopp : V -> V).
Hypothesis Vring : ring_theory v0 v1 vadd vmul vsub vopp (@eq V).

(* mode products along different modes commute on DENSE arrays (any matrices, the mode sizes may change) *)
Theorem C10_ttm_comm_dense : forall (X : dense V) (m n : nat) (A B : @matrix V),
  m <> n -> (m < length (dshape X))%nat -> (n < length (dshape X))%nat ->
  ttm v0 vadd vmul (ttm v0 vadd vmul X m A) n B = ttm v0 vadd vmul (ttm v0 vadd vmul X n B) m A.
Proof. exact (ttm_comm_dense V v0 v1 vadd vmul vsub vopp Vring). Qed.

(* the Tucker tensor with core = X x_n U_n^T (the core relation of the property) reconstructs (ttensor.full) to the product of the
   mode projectors X x_0 (U_0 U_0^T) x_1 (U_1 U_1^T) ...: every commutative ring, shape, number of modes, any factor entries *)
Theorem C10_recon_is_projection : forall (X : dense V) (Us : list (@matrix V)),
  length Us = length (dshape X) ->
  (forall q U, nth_error Us q = Some U -> nrows U = nth q (dshape X) 0%nat) ->
  tfull_ttm v0 vadd vmul (mkT (ttm_all v0 vadd vmul X (transposed v0 Us)) Us) = proj_from V v0 vadd vmul (dshape X) 0 Us X.
Proof. exact (recon_is_projection V v0 v1 vadd vmul vsub vopp Vring). Qed.

(* the Gram matrix certified by the correspondence (Model.C10Tucker.gram_den) is the Gram matrix of the denotation that pyttb's
   to_tenmat / Yk Yk^T route computes (Model.C14Nvecs.gram_spec; C14_gram_dense) *)
Theorem C10_gram_den_is_spec : forall (s : shape) (X : idx -> V) (n a b : nat), (n < length s)%nat ->
  gram_den v0 vadd vmul s X n a b = gram_spec v0 vadd vmul s X n a b.
Proof. exact (gram_den_is_spec V v0 v1 vadd vmul vsub vopp Vring). Qed.

(* <Y x_n (w_j w_j^T), Y> = w_j^T G w_j *)
Theorem C10_rayleigh : forall (s : shape) (n : nat) (W : @matrix V) (j : nat) (Y : dense V), (n < length s)%nat ->
  dinner V v0 vadd vmul s (mproj V v0 vadd vmul s n (rank1 V v0 vmul (nth n s 0%nat) W j) Y) Y =
  sum_n v0 vadd (nth n s 0%nat) (fun a => vmul (mget v0 W a j)
     (sum_n v0 vadd (nth n s 0%nat) (fun c => vmul (gram_spec v0 vadd vmul s (den_dense v0 Y) n a c) (mget v0 W c j)))).
Proof. exact (rayleigh V v0 v1 vadd vmul vsub vopp Vring). Qed.

(* mode-k multiplication by a matrix with orthonormal columns (an isometry) leaves the Gram matrices of all OTHER modes unchanged *)
Theorem C10_gram_isometry : forall (Z : dense V) (k m I : nat) (U : @matrix V) (a b : nat),
  let sZ := dshape Z in
  (k < length sZ)%nat -> (m < length sZ)%nat -> m <> k -> nrows U = I ->
  orthocols V v0 v1 vadd vmul I (nth k sZ 0%nat) U ->
  (a < nth m sZ 0)%nat -> (b < nth m sZ 0)%nat ->
  gram_spec v0 vadd vmul (set_nth k I sZ) (den_dense v0 (ttm v0 vadd vmul Z k U)) m a b = gram_spec v0 vadd vmul sZ (den_dense v0 Z) m a b.
Proof. exact (gram_isometry V v0 v1 vadd vmul vsub vopp Vring). Qed.

(* one sequential shrink of hosvd: the SHRUNK tensor Y x_k U^T that hosvd holds (mode size r) and the PROJECTED tensor Y x_k (U U^T)
   the concrete theorems speak about (original shape) have the same Gram matrix in every other mode: the eigenpairs hosvd computes next
   are eigenpairs for the projected tensor *)
Theorem C10_gram_shrunk_is_projected : forall (Y : dense V) (k m r : nat) (U : @matrix V) (a b : nat),
  let s := dshape Y in
  (k < length s)%nat -> (m < length s)%nat -> m <> k -> nrows U = nth k s 0%nat ->
  orthocols V v0 v1 vadd vmul (nth k s 0%nat) r U ->
  (a < nth m s 0)%nat -> (b < nth m s 0)%nat ->
  gram_spec v0 vadd vmul s (den_dense v0 (mproj V v0 vadd vmul s k (uut V v0 vadd vmul (nth k s 0%nat) r U) Y)) m a b =
  gram_spec v0 vadd vmul (set_nth k r s) (den_dense v0 (ttm v0 vadd vmul Y k (mtrans v0 U (nth k s 0%nat) r))) m a b.
Proof. exact (gram_shrunk_is_projected V v0 v1 vadd vmul vsub vopp Vring). Qed.
End C10_w4_ring.
Print Assumptions C10_gram_isometry.
Print Assumptions C10_gram_shrunk_is_projected.
Print Assumptions C10_ttm_comm_dense.
Print Assumptions C10_recon_is_projection.
Print Assumptions C10_gram_den_is_spec.
Print Assumptions C10_rayleigh.

(* W^T W = I and G W = W diag(mu) for the mode-k Gram matrix G of Y  ==>  the energies ARE the eigenvalues *)
Theorem C10_energies_eigen : forall (s : shape) (k : nat) (W : @matrix R) (mu : list R) (Y : dense R),
  (k < length s)%nat -> orthocolsR (nth k s 0%nat) (nth k s 0%nat) W -> length mu = nth k s 0%nat ->
  eigen_eq s k Y W mu -> energies s k W Y = mu.
Proof. exact energies_eigen. Qed.
Print Assumptions C10_energies_eigen.

(* the bound for the Tucker tensor hosvd RETURNS: factors U_k = W_k[:, 0:r_k], core = X x_n U_n^T, reconstruction by ttensor.full *)
Theorem C10_concrete_hosvd_result_bound :
  forall (sequential : bool) (X : dense R) (cs : list cmode) (Us : list (@matrix R)) (tolsq : R),
  let s := dshape X in
  cs <> [] -> NoDup (map cm_k cs) -> length cs = length s -> length Us = length s -> 0 <= tolsq ->
  (forall c, In c cs -> nth (cm_k c) Us [] = leading R (cm_r c) (cm_W c) /\
                        nrows (cm_W c) = nth (cm_k c) s 0%nat /\ ncols (leading R (cm_r c) (cm_W c)) = cm_r c) ->
  (let budget := tolsq * nrm2 (dense R) (innerR s) X / INR (length cs) in
   if sequential then cseq_ok s budget X cs else cnonseq_ok s budget X cs) ->
  let T := mkT (ttm_all 0 Rplus Rmult X (transposed 0 Us)) Us in
  nrm2 (dense R) (innerR s) (subR s X (tfull_ttm 0 Rplus Rmult T)) <= tolsq * nrm2 (dense R) (innerR s) X.
Proof. exact concrete_hosvd_result_bound. Qed.
Print Assumptions C10_concrete_hosvd_result_bound.

(* END TO END in the terms of hosvd.py: per position of dimorder an orthogonal eigenvector matrix W with G W = W diag(mu) for the Gram
   matrix of the tensor the mode looks at, the rank from the transliterated rule on mu with threshold tol^2 ||X||^2 / d, the returned
   factor = the leading r columns, the returned core = X x_n U_n^T  ==>  ||X - full(T)||^2 <= tol^2 ||X||^2; both strategies, every
   mode order, every shape *)
Theorem C10_concrete_hosvd_eigen_bound :
  forall (sequential : bool) (X : dense R) (es : list emode) (Us : list (@matrix R)) (tolsq : R),
  let s := dshape X in
  es <> [] -> NoDup (map (fun e => cm_k (em_c e)) es) -> length es = length s -> length Us = length s -> 0 <= tolsq ->
  (forall e, In e es -> let c := em_c e in
     nth (cm_k c) Us [] = leading R (cm_r c) (cm_W c) /\
     nrows (cm_W c) = nth (cm_k c) s 0%nat /\ ncols (leading R (cm_r c) (cm_W c)) = cm_r c) ->
  (let budget := tolsq * nrm2 (dense R) (innerR s) X / INR (length es) in
   if sequential then eseq_ok s budget X es else enonseq_ok s budget X es) ->
  let T := mkT (ttm_all 0 Rplus Rmult X (transposed 0 Us)) Us in
  nrm2 (dense R) (innerR s) (subR s X (tfull_ttm 0 Rplus Rmult T)) <= tolsq * nrm2 (dense R) (innerR s) X.
Proof. exact concrete_hosvd_eigen_bound. Qed.
Print Assumptions C10_concrete_hosvd_eigen_bound.

(* ring-generic facts behind the sequential case: Y x_{k1} U1 x_{k2} U2 ... with isometries U_i has the Gram matrices of Y in every
   untouched mode; projecting the expansion in a fresh mode = expanding the shrunk tensor by that mode as well *)
Section C10_w4_expand.
Variable V : Type.
Variables (v0 v1 : V) (vadd vmul vsub : V -> V -> V) (vopp : V -> V).
Hypothesis Vring : ring_theory v0 v1 vadd vmul vsub vopp (@eq V).
Theorem C10_gram_expand : forall (l : list (nat * @matrix V)) (Y : dense V) (m a b : nat),
  wfexp V v0 v1 vadd vmul l Y -> ~ In m (map fst l) -> (m < length (dshape Y))%nat ->
  (a < nth m (dshape Y) 0)%nat -> (b < nth m (dshape Y) 0)%nat ->
  gram_spec v0 vadd vmul (dshape (expand V v0 vadd vmul l Y)) (den_dense v0 (expand V v0 vadd vmul l Y)) m a b =
  gram_spec v0 vadd vmul (dshape Y) (den_dense v0 Y) m a b.
Proof. exact (gram_expand V v0 v1 vadd vmul vsub vopp Vring). Qed.
Theorem C10_expand_step : forall (l : list (nat * @matrix V)) (Y : dense V) (k r : nat) (U : @matrix V),
  let Yh := expand V v0 vadd vmul l Y in
  ~ In k (map fst l) -> (k < length (dshape Y))%nat -> modes_lt V l (length (dshape Y)) ->
  nrows U = nth k (dshape Yh) 0%nat ->
  mproj V v0 vadd vmul (dshape Yh) k (uut V v0 vadd vmul (nth k (dshape Yh) 0%nat) r U) Yh =
  expand V v0 vadd vmul ((k, U) :: l) (ttm v0 vadd vmul Y k (mtrans v0 U (nth k (dshape Yh) 0%nat) r)).
Proof. exact (expand_step V v0 v1 vadd vmul vsub vopp Vring). Qed.
End C10_w4_expand.
Print Assumptions C10_gram_expand.
Print Assumptions C10_expand_step.

(* the eigen-equations for the SHRUNK tensors (what sequential hosvd computes) imply those for the projected tensors *)
Theorem C10_sseq_ok_eseq_ok : forall (s : shape) (t : R), 0 <= t -> forall (es : list emode) (l : list (nat * @matrix R)) (Y : dense R),
  dshape (expand R 0 Rplus Rmult l Y) = s -> wfexp R 0 1 Rplus Rmult l Y -> NoDup (map fst l ++ map em_k es) ->
  (forall e, In e es -> nrows (cm_W (em_c e)) = nth (em_k e) s 0%nat) ->
  sseq_ok t Y es -> eseq_ok s t (expand R 0 Rplus Rmult l Y) es.
Proof. exact sseq_ok_eseq_ok. Qed.
Print Assumptions C10_sseq_ok_eseq_ok.

(* END TO END, sequential hosvd, every hypothesis on what the code computes: at every position of dimorder an orthogonal W with
   G W = W diag(mu) for the mode-k Gram matrix G of the tensor SHRUNK by the factors chosen so far (Y <- Y x_k U_k^T), the rank from the
   transliterated rule on mu with threshold tol^2 ||X||^2 / d, the factor = the leading columns, the returned core = X x_n U_n^T *)
Theorem C10_concrete_hosvd_seq_bound : forall (X : dense R) (es : list emode) (Us : list (@matrix R)) (tolsq : R),
  let s := dshape X in
  es <> [] -> NoDup (map em_k es) -> length es = length s -> length Us = length s -> 0 <= tolsq ->
  (forall e, In e es -> nth (em_k e) Us [] = em_U e /\ nrows (cm_W (em_c e)) = nth (em_k e) s 0%nat /\ ncols (em_U e) = cm_r (em_c e)) ->
  sseq_ok (tolsq * nrm2 (dense R) (innerR s) X / INR (length es)) X es ->
  let T := mkT (ttm_all 0 Rplus Rmult X (transposed 0 Us)) Us in
  nrm2 (dense R) (innerR s) (subR s X (tfull_ttm 0 Rplus Rmult T)) <= tolsq * nrm2 (dense R) (innerR s) X.
Proof. exact concrete_hosvd_seq_bound. Qed.
Print Assumptions C10_concrete_hosvd_seq_bound.

(* ---- tucker_als: the reported fit, for the RETURNED object ---- *)
Section C10_w4_norm.
Variable V : Type.
Variables (v0 v1 : V) (vadd vmul vsub : V -> V -> V) (vopp : V -> V).
Hypothesis Vring : ring_theory v0 v1 vadd vmul vsub vopp (@eq V).
(* a mode product with a matrix with orthonormal columns preserves the Frobenius norm; so does a chain of them over the modes n, n+1, ... *)
Theorem C10_norm_isometry : forall (Z : dense V) (k I : nat) (U : @matrix V),
  let sZ := dshape Z in
  (k < length sZ)%nat -> nrows U = I -> orthocols V v0 v1 vadd vmul I (nth k sZ 0%nat) U ->
  dinner V v0 vadd vmul (set_nth k I sZ) (ttm v0 vadd vmul Z k U) (ttm v0 vadd vmul Z k U) = dinner V v0 vadd vmul sZ Z Z.
Proof. exact (norm_isometry V v0 v1 vadd vmul vsub vopp Vring). Qed.
Theorem C10_norm_ttm_from : forall (Us : list (@matrix V)) (Z : dense V) (n : nat), (n + length Us <= length (dshape Z))%nat ->
  (forall q U, nth_error Us q = Some U -> orthocols V v0 v1 vadd vmul (nrows U) (nth (n + q) (dshape Z) 0%nat) U) ->
  dinner V v0 vadd vmul (dshape (ttm_from v0 vadd vmul Z n Us)) (ttm_from v0 vadd vmul Z n Us) (ttm_from v0 vadd vmul Z n Us) =
  dinner V v0 vadd vmul (dshape Z) Z Z.
Proof. exact (norm_ttm_from V v0 v1 vadd vmul vsub vopp Vring). Qed.
End C10_w4_norm.
Print Assumptions C10_norm_isometry.
Print Assumptions C10_norm_ttm_from.

(* factors with orthonormal columns (ANY such factors: no optimality, no eigen-assumption) and core = X x_n U_n^T:
   ||X - full(T)||^2 = ||X||^2 - ||core||^2, full(T) has the shape of X, ||full(T)|| = ||core|| *)
Theorem C10_concrete_tals_residual : forall (X : dense R) (Us : list (@matrix R)),
  let s := dshape X in
  orthofactors s Us ->
  let core := ttm_all 0 Rplus Rmult X (transposed 0 Us) in
  let T := mkT core Us in
  nrm2 (dense R) (innerR s) (subR s X (tfull_ttm 0 Rplus Rmult T)) = nrm2 (dense R) (innerR s) X - normsqR core /\
  dshape (tfull_ttm 0 Rplus Rmult T) = s /\
  normsqR (tfull_ttm 0 Rplus Rmult T) = normsqR core.
Proof. exact concrete_tals_residual. Qed.
Print Assumptions C10_concrete_tals_residual.

(* tucker_als.py: normresidual = sqrt(abs(normX**2 - core.norm()**2)); fit = 1 - normresidual / normX  IS  1 - ||X - full(T)|| / ||X|| *)
Theorem C10_concrete_tals_fit : forall (X : dense R) (Us : list (@matrix R)),
  let s := dshape X in
  orthofactors s Us ->
  let core := ttm_all 0 Rplus Rmult X (transposed 0 Us) in
  let T := mkT core Us in
  let normXsq := nrm2 (dense R) (innerR s) X in
  1 - sqrt (Rabs (normXsq - normsqR core)) / sqrt normXsq =
  1 - sqrt (nrm2 (dense R) (innerR s) (subR s X (tfull_ttm 0 Rplus Rmult T))) / sqrt normXsq.
Proof. exact concrete_tals_fit. Qed.
Print Assumptions C10_concrete_tals_fit.

(* HOOI on concrete tensors: the space / projector hypotheses of C10_hooi_fit_monotone discharged; what stays is the eigen-oracle contract of
   nvecs inside hooi_steps (each single-mode update captures at least as much energy of the tensor projected on the other factors) *)
Theorem C10_concrete_hooi_fit_monotone : forall (s : shape) (mMs mMs' : list (nat * @matrix R)) (X : dense R),
  Forall (good_mode s) mMs -> NoDup (map fst mMs) -> Forall (good_mode s) mMs' -> NoDup (map fst mMs') ->
  hooi_steps (dense R) (innerR s) X (projs s mMs) (projs s mMs') ->
  0 < nrm2 (dense R) (innerR s) X ->
  nrm2 (dense R) (innerR s) (applyPs (dense R) (projs s mMs) X) <= nrm2 (dense R) (innerR s) (applyPs (dense R) (projs s mMs') X) /\
  1 - sqrt (nrm2 (dense R) (innerR s) (subR s X (applyPs (dense R) (projs s mMs) X))) / sqrt (nrm2 (dense R) (innerR s) X) <=
  1 - sqrt (nrm2 (dense R) (innerR s) (subR s X (applyPs (dense R) (projs s mMs') X))) / sqrt (nrm2 (dense R) (innerR s) X).
Proof. exact concrete_hooi_fit_monotone. Qed.
Print Assumptions C10_concrete_hooi_fit_monotone.

Example C10_example_concrete_tals_fit :
  let s := [2; 3]%nat in
  let Us : list (@matrix R) := [[[1]; [0]]; [[1]; [0]; [0]]] in
  let core := ttm_all 0 Rplus Rmult exX (transposed 0 Us) in
  orthofactors s Us /\ dshape core = [1; 1]%nat /\ normsqR core = 9 /\
  nrm2 (dense R) (innerR s) (subR s exX (tfull_ttm 0 Rplus Rmult (mkT core Us))) = 10 - 9.
Proof. exact concrete_tals_fit_example. Qed.

(* non-vacuity: SEQUENTIAL hosvd of the same array, dimorder (1, 0): the second mode sees the shrunk 2 x 1 array *)
Example C10_example_concrete_hosvd_seq :
  let s := [2; 3]%nat in
  let T := mkT (ttm_all 0 Rplus Rmult exX (transposed 0 exUs)) exUs in
  sseq_ok (1 / 2 * nrm2 (dense R) (innerR s) exX / INR (length exEsSeq)) exX exEsSeq /\
  dshape (shrinkR exX (MkEMode (MkCMode 1 exI3 1) [9; 1; 0])) = [2; 1]%nat /\
  nrm2 (dense R) (innerR s) (subR s exX (tfull_ttm 0 Rplus Rmult T)) <= 1 / 2 * nrm2 (dense R) (innerR s) exX.
Proof. exact concrete_hosvd_seq_example. Qed.

(* non-vacuity: non-sequential hosvd of the 2 x 3 array [[3,0,0],[0,1,0]], tol^2 = 1/2, dimorder (1, 0): ranks (1, 1), error^2 = 1 <= 5 *)
Example C10_example_concrete_hosvd :
  let s := [2; 3]%nat in
  let T := mkT (ttm_all 0 Rplus Rmult exX (transposed 0 exUs)) exUs in
  enonseq_ok s (1 / 2 * nrm2 (dense R) (innerR s) exX / INR (length exEs)) exX exEs /\
  nrm2 (dense R) (innerR s) exX = 10 /\
  energies s 1 exI3 exX = [9; 1; 0] /\
  nrm2 (dense R) (innerR s) (subR s exX (tfull_ttm 0 Rplus Rmult T)) <= 1 / 2 * nrm2 (dense R) (innerR s) exX /\
  nrm2 (dense R) (innerR s) (subR s exX (tfull_ttm 0 Rplus Rmult T)) = 1.
Proof. exact concrete_hosvd_example. Qed.
