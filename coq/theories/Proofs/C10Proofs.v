(* Proofs/C10Proofs.v — theorems behind C10 (hosvd / tucker_als), exact real arithmetic.
   1. the rank rule of hosvd.py:113-126 (transliterated in Model/C10Tucker.v)
   2. user-given ranks (after the A-32 repair): exactly ranks[n] columns; ncols_impl = ncols_spec
   3. error bound of (sequentially) truncated HOSVD over an abstract real inner-product space
   4. Tucker-ALS fit identity *)
From Coq Require Import List Arith Lia Bool Reals Lra.
From PV Require Import Np.NpR Model.C10Tucker.
Import ListNotations.
Local Open Scope R_scope.

Fixpoint sumR (l : list R) : R := match l with [] => 0 | x :: l' => x + sumR l' end.

Lemma sumR_app l1 l2 : sumR (l1 ++ l2) = sumR l1 + sumR l2.
Proof. induction l1 as [|x l1 IH]; cbn; [lra|]. rewrite IH. lra. Qed.

Lemma sumR_rev l : sumR (rev l) = sumR l.
Proof. induction l as [|x l IH]; cbn; [lra|]. rewrite sumR_app, IH. cbn. lra. Qed.

(* ---------------------------------------------------------------------------------------- *)
(* 1. rank rule                                                                               *)
(* ---------------------------------------------------------------------------------------- *)
Lemma cumsum_from_snoc acc l x :
  cumsum_from Rplus acc (l ++ [x]) = cumsum_from Rplus acc l ++ [acc + sumR l + x].
Proof.
  revert acc; induction l as [|y l IH]; intros acc; cbn.
  - f_equal. lra.
  - f_equal. rewrite IH. f_equal. f_equal. lra.
Qed.

Fixpoint suffix_sums (l : list R) : list R :=
  match l with [] => [] | x :: l' => sumR l :: suffix_sums l' end.

Lemma eigsum_suffix eig : eigsum 0 Rplus eig = suffix_sums eig.
Proof.
  unfold eigsum, np_cumsum. induction eig as [|x l IH]; [reflexivity|].
  cbn [rev]. rewrite cumsum_from_snoc, rev_app_distr. cbn [rev app]. rewrite IH.
  cbn [suffix_sums sumR]. f_equal. rewrite sumR_rev. lra.
Qed.

Lemma nth_suffix_sums l i : nth i (suffix_sums l) 0 = sumR (skipn i l).
Proof.
  revert i; induction l as [|x l IH]; intros [|i]; try reflexivity. cbn [suffix_sums nth skipn]. apply IH.
Qed.

Lemma suffix_sums_length l : length (suffix_sums l) = length l.
Proof. induction l; cbn; auto. Qed.

Lemma last_opt_snoc l n : last_opt (l ++ [n]) = Some n.
Proof. unfold last_opt. rewrite rev_app_distr. reflexivity. Qed.

Lemma last_where_some p n k : last_opt (filter p (seq 0 n)) = Some k ->
  (k < n)%nat /\ p k = true /\ forall j, (k < j < n)%nat -> p j = false.
Proof.
  induction n as [|n IH]; [discriminate|].
  rewrite seq_S, filter_app. cbn [filter plus]. destruct (p n) eqn:E.
  - rewrite last_opt_snoc. intros H; inversion H; subst. repeat split; auto. intros j Hj. lia.
  - rewrite app_nil_r. intros H. destruct (IH H) as (H1 & H2 & H3). repeat split; auto.
    intros j Hj. destruct (Nat.eq_dec j n) as [->|Hne]; auto. apply H3. lia.
Qed.

Lemma last_where_none p n : last_opt (filter p (seq 0 n)) = None -> forall j, (j < n)%nat -> p j = false.
Proof.
  induction n as [|n IH]; [intros _ j Hj; lia|].
  rewrite seq_S, filter_app. cbn [filter plus]. destruct (p n) eqn:E.
  - rewrite last_opt_snoc. discriminate.
  - rewrite app_nil_r. intros H j Hj. destruct (Nat.eq_dec j n) as [->|Hne]; auto. apply IH; auto. lia.
Qed.

Lemma sumR_skipn_mono l i j : Forall (fun x => 0 <= x) l -> (i <= j)%nat -> sumR (skipn j l) <= sumR (skipn i l).
Proof.
  intros Hp. revert i j. induction Hp as [|x l Hx Hp IH]; intros i j Hij.
  - rewrite !skipn_nil. lra.
  - destruct j as [|j].
    + assert (i = 0)%nat as -> by lia. lra.
    + destruct i as [|i].
      * cbn [skipn sumR]. specialize (IH 0%nat j (Nat.le_0_l j)). cbn [skipn] in IH. lra.
      * cbn [skipn]. apply IH. lia.
Qed.

(* the rule as coded (after the A-32 repair): ranks[k] = 1 + last index whose reverse cumulative eigenvalue sum exceeds the
   threshold = the number r of columns kept (pi[0:r]); the discarded energy is within the budget and r is the least such count *)
Theorem rank_choice : forall (eig : list R) (t : R) (r : nat),
  Forall (fun x => 0 <= x) eig -> 0 <= t ->
  auto_rank 0 Rplus Rltb eig t = Some r ->
  (0 < r <= length eig)%nat /\
  (forall (A : Type) (p : list A), length p = length eig -> length (keep_cols r p) = r) /\
  sumR (skipn r eig) <= t /\
  (forall r', (r' < r)%nat -> t < sumR (skipn r' eig)).
Proof.
  intros eig t r Hp Ht H. unfold auto_rank, last_above, where_gt in H.
  destruct (last_opt _) as [rk|] eqn:E; [|discriminate]. inversion H; subst r. clear H.
  rewrite eigsum_suffix, suffix_sums_length in E.
  apply last_where_some in E. destruct E as (Hlt & Hk & Hafter).
  rewrite nth_suffix_sums in Hk. apply Rltb_true in Hk.
  repeat split.
  - lia.
  - lia.
  - intros A p Hl. unfold keep_cols. rewrite firstn_length. lia.
  - destruct (Nat.lt_ge_cases (rk + 1) (length eig)) as [Hin|Hout].
    + specialize (Hafter (rk + 1)%nat ltac:(lia)). rewrite nth_suffix_sums in Hafter.
      apply Rltb_false in Hafter. lra.
    + rewrite skipn_all2 by lia. cbn. lra.
  - intros r' Hr'.
    pose proof (sumR_skipn_mono eig r' rk Hp ltac:(lia)). lra.
Qed.

(* the rule fails (IndexError in the code) only when the whole spectrum is within the budget *)
Theorem rank_choice_total : forall (eig : list R) (t : R),
  0 <= t -> t < sumR eig -> exists r, auto_rank 0 Rplus Rltb eig t = Some r.
Proof.
  intros eig t Ht H. unfold auto_rank, last_above.
  destruct (last_opt (where_gt 0 Rltb (eigsum 0 Rplus eig) t)) as [rk|] eqn:E; [eauto|exfalso].
  unfold where_gt in E. rewrite eigsum_suffix, suffix_sums_length in E.
  destruct eig as [|x l]; [cbn in H; lra|].
  pose proof (last_where_none _ _ E 0%nat ltac:(cbn; lia)) as H0.
  cbv beta in H0. rewrite nth_suffix_sums in H0. apply Rltb_false in H0. cbn [skipn] in H0. contradiction.
Qed.

(* ---------------------------------------------------------------------------------------- *)
(* 2. user-given ranks (A-32 repaired: pi[0:ranks[k]])                                         *)
(* ---------------------------------------------------------------------------------------- *)
Theorem given_ranks : forall (A : Type) (rk : nat) (p : list A),
  (rk <= length p)%nat -> length (keep_cols rk p) = rk.
Proof. intros A rk p H. unfold keep_cols. rewrite firstn_length. lia. Qed.

(* number of columns of every factor, as coded = as the property demands (requested rank, or the automatic one) *)
Theorem ncols_correct : forall (user_rank : nat) (eig : list R) (t : R),
  Forall (fun x => 0 <= x) eig -> 0 <= t -> (user_rank <= length eig)%nat ->
  ncols_impl 0 Rplus Rltb user_rank eig t = ncols_spec 0 Rplus Rltb user_rank eig t.
Proof.
  intros u eig t Hp Ht Hu. unfold ncols_impl, ncols_spec. destruct u as [|u].
  - destruct (auto_rank 0 Rplus Rltb eig t) as [r|] eqn:E; [|reflexivity].
    destruct (rank_choice eig t r Hp Ht E) as (_ & H2 & _). now rewrite H2.
  - now rewrite given_ranks.
Qed.

(* ---------------------------------------------------------------------------------------- *)
(* 3. error bound over an abstract real inner-product space                                   *)
(* ---------------------------------------------------------------------------------------- *)
Section InnerProduct.
Variable E : Type.
Variables (sub : E -> E -> E) (inner : E -> E -> R).
Hypothesis inner_sym : forall a b, inner a b = inner b a.
Hypothesis inner_sub : forall a b c, inner (sub a b) c = inner a c - inner b c.
Hypothesis inner_pos : forall a, 0 <= inner a a.

Definition nrm2 (a : E) : R := inner a a.

(* orthogonal projector: additive, idempotent, self-adjoint *)
Definition oproj (P : E -> E) : Prop :=
  (forall a b, P (sub a b) = sub (P a) (P b)) /\ (forall a, P (P a) = P a) /\ (forall a b, inner (P a) b = inner a (P b)).
Definition commute (P Q : E -> E) : Prop := forall a, P (Q a) = Q (P a).
Definition pairwise_commute (Ps : list (E -> E)) : Prop := forall P Q, In P Ps -> In Q Ps -> commute P Q.

(* P_d ... P_1 x  for Ps = [P_1; ...; P_d] *)
Fixpoint applyPs (Ps : list (E -> E)) (x : E) : E :=
  match Ps with [] => x | P :: Ps' => applyPs Ps' (P x) end.
(* energy discarded at step k from the already shrunk vector (sequential truncation) *)
Fixpoint terms (x : E) (Ps : list (E -> E)) : list R :=
  match Ps with [] => [] | P :: Ps' => nrm2 (sub x (P x)) :: terms (P x) Ps' end.
(* energy discarded by each projector from the original vector (non-sequential truncation) *)
Definition direct (x : E) (Ps : list (E -> E)) : list R := map (fun P => nrm2 (sub x (P x))) Ps.

Lemma nrm2_sub a b : nrm2 (sub a b) = nrm2 a - 2 * inner a b + nrm2 b.
Proof.
  unfold nrm2. rewrite inner_sub. rewrite (inner_sym a (sub a b)), (inner_sym b (sub a b)).
  rewrite !inner_sub. rewrite (inner_sym b a). lra.
Qed.

Lemma pythagoras P x : oproj P -> nrm2 (sub x (P x)) = nrm2 x - nrm2 (P x).
Proof.
  intros (_ & Hi & Hs). rewrite nrm2_sub. unfold nrm2.
  assert (inner x (P x) = inner (P x) (P x)) as -> by (rewrite Hs, Hi; reflexivity). lra.
Qed.

Lemma contraction P x : oproj P -> nrm2 (P x) <= nrm2 x.
Proof. intros H. pose proof (pythagoras P x H). pose proof (inner_pos (sub x (P x))). unfold nrm2 in *. lra. Qed.

Lemma terms_telescope Ps : forall x, Forall oproj Ps -> sumR (terms x Ps) = nrm2 x - nrm2 (applyPs Ps x).
Proof.
  induction Ps as [|P Ps IH]; intros x H; cbn [terms applyPs sumR]; [lra|].
  inversion H as [|? ? HP HPs]; subst. rewrite IH by auto. rewrite pythagoras by auto. lra.
Qed.

Lemma commute_applyPs P Ps : (forall Q, In Q Ps -> commute P Q) -> commute P (applyPs Ps).
Proof.
  induction Ps as [|Q Ps IH]; intros H a; cbn [applyPs]; [reflexivity|].
  rewrite IH by (intros; apply H; cbn; auto). f_equal. apply H. cbn; auto.
Qed.

Lemma oproj_applyPs Ps : Forall oproj Ps -> pairwise_commute Ps -> oproj (applyPs Ps).
Proof.
  induction Ps as [|P Ps IH]; intros H Hc.
  - repeat split; cbn; auto.
  - inversion H as [|? ? HP HPs]; subst.
    assert (Hc' : pairwise_commute Ps) by (intros Q1 Q2 H1 H2; apply Hc; cbn; auto).
    specialize (IH HPs Hc'). destruct IH as (Ia & Ii & Is). destruct HP as (Pa & Pi & Ps_).
    assert (HPQ : commute P (applyPs Ps)) by (apply commute_applyPs; intros Q HQ; apply Hc; cbn; auto).
    repeat split; cbn [applyPs].
    + intros a b. now rewrite Pa, Ia.
    + intros a. rewrite <- (HPQ (applyPs Ps (P a))), Ii, HPQ, Pi. reflexivity.
    + intros a b. rewrite Is, Ps_, HPQ. reflexivity.
Qed.

Lemma direct_shrinks P Ps x : oproj P -> (forall Q, In Q Ps -> commute P Q) ->
  Forall2 Rle (direct (P x) Ps) (direct x Ps).
Proof.
  intros HP Hc. unfold direct. induction Ps as [|Q Ps IH]; cbn [map]; constructor.
  - rewrite <- (Hc Q) by (cbn; auto). destruct HP as (Pa & Pi & Ps_). rewrite <- Pa.
    apply contraction. repeat split; auto.
  - apply IH. intros; apply Hc; cbn; auto.
Qed.

Lemma Forall2_Rle_trans l1 l2 l3 : Forall2 Rle l1 l2 -> Forall2 Rle l2 l3 -> Forall2 Rle l1 l3.
Proof.
  intros H; revert l3; induction H as [|a b l1 l2 Hab H IH]; intros l3 H3; inversion H3; subst; constructor.
  - lra.
  - auto.
Qed.

Lemma terms_le_direct Ps : forall x, Forall oproj Ps -> pairwise_commute Ps -> Forall2 Rle (terms x Ps) (direct x Ps).
Proof.
  induction Ps as [|P Ps IH]; intros x H Hc; cbn [terms]; [constructor|].
  inversion H as [|? ? HP HPs]; subst. unfold direct. cbn [map]. constructor; [lra|]. fold (direct x Ps).
  apply Forall2_Rle_trans with (direct (P x) Ps).
  - apply IH; auto. intros Q1 Q2 H1 H2; apply Hc; cbn; auto.
  - apply direct_shrinks; auto. intros Q HQ. apply Hc; cbn; auto.
Qed.

(* the error of truncating with commuting orthogonal projectors P_1..P_d in this order is the sum of the energies
   discarded step by step, and each of those is at most what the same projector discards from the original vector *)
Theorem projector_bound : forall (Ps : list (E -> E)) (x : E),
  Forall oproj Ps -> pairwise_commute Ps ->
  nrm2 (sub x (applyPs Ps x)) = sumR (terms x Ps) /\ Forall2 Rle (terms x Ps) (direct x Ps).
Proof.
  intros Ps x H Hc. split; [|now apply terms_le_direct].
  rewrite terms_telescope by auto. apply pythagoras. now apply oproj_applyPs.
Qed.

Lemma sumR_bound l b : Forall (fun t => t <= b) l -> sumR l <= INR (length l) * b.
Proof.
  induction 1 as [|t l Ht _ IH]; [cbn; lra|]. cbn [sumR length]. rewrite S_INR. lra.
Qed.

Lemma Forall2_le_bound l1 l2 b : Forall2 Rle l1 l2 -> Forall (fun t => t <= b) l2 -> Forall (fun t => t <= b) l1.
Proof.
  induction 1 as [|a c l1 l2 Hac _ IH]; intros H2; constructor; inversion H2; subst; auto. lra.
Qed.

Lemma terms_length x Ps : length (terms x Ps) = length Ps.
Proof. revert x; induction Ps as [|P Ps IH]; intros x; cbn; auto. Qed.

(* both truncation strategies meet the tolerance: if every mode's discarded energy — measured on the shrunk vector
   (sequential) or on the original one (non-sequential) — is within tolsq * ||x||^2 / d, then ||x - P_d..P_1 x||^2 <= tolsq ||x||^2 *)
Theorem error_bound : forall (Ps : list (E -> E)) (x : E) (tolsq : R),
  Ps <> [] -> Forall oproj Ps -> pairwise_commute Ps ->
  let budget := tolsq * nrm2 x / INR (length Ps) in
  (Forall (fun t => t <= budget) (terms x Ps) \/ Forall (fun t => t <= budget) (direct x Ps)) ->
  nrm2 (sub x (applyPs Ps x)) <= tolsq * nrm2 x.
Proof.
  intros Ps x tolsq Hne H Hc budget Hb.
  destruct (projector_bound Ps x H Hc) as (Heq & Hle).
  assert (Hterms : Forall (fun t => t <= budget) (terms x Ps)).
  { destruct Hb as [Hb|Hb]; auto. eapply Forall2_le_bound; eauto. }
  rewrite Heq. pose proof (sumR_bound _ _ Hterms) as Hs. rewrite terms_length in Hs.
  assert (Hd : 0 < INR (length Ps)) by (apply lt_0_INR; destruct Ps; [contradiction|cbn; lia]).
  unfold budget in Hs. replace (INR (length Ps) * (tolsq * nrm2 x / INR (length Ps))) with (tolsq * nrm2 x) in Hs by (field; lra).
  exact Hs.
Qed.

(* 4. Tucker-ALS fit: analysis map A (x -> core = x x_n U_n^T) into a second space, synthesis S (core -> core x_n U_n),
   adjoint to each other, orthonormal columns (A (S c) = c):  ||x - S (A x)||^2 = ||x||^2 - ||A x||^2 *)
Variable F : Type.
Variable innerF : F -> F -> R.
Theorem tucker_fit : forall (A : E -> F) (S : F -> E),
  (forall c x, inner (S c) x = innerF c (A x)) -> (forall c, A (S c) = c) ->
  forall x, nrm2 (sub x (S (A x))) = nrm2 x - innerF (A x) (A x).
Proof.
  intros A S Hadj Hon x. rewrite nrm2_sub. unfold nrm2.
  rewrite (inner_sym x (S (A x))), !Hadj, Hon. lra.
Qed.

End InnerProduct.

(* ---------------------------------------------------------------------------------------- *)
(* non-vacuity: R^3 with the coordinate projectors                                            *)
(* ---------------------------------------------------------------------------------------- *)
Definition v3 := (R * R * R)%type.
Definition sub3 (a b : v3) : v3 := let '(a1, a2, a3) := a in let '(b1, b2, b3) := b in (a1 - b1, a2 - b2, a3 - b3).
Definition inner3 (a b : v3) : R := let '(a1, a2, a3) := a in let '(b1, b2, b3) := b in a1 * b1 + a2 * b2 + a3 * b3.
Definition drop3 (a : v3) : v3 := let '(a1, a2, _) := a in (a1, a2, 0).
Definition drop2 (a : v3) : v3 := let '(a1, _, a3) := a in (a1, 0, a3).

Lemma inner3_sym a b : inner3 a b = inner3 b a.
Proof. destruct a as [[a1 a2] a3], b as [[b1 b2] b3]. cbn. lra. Qed.
Lemma inner3_sub a b c : inner3 (sub3 a b) c = inner3 a c - inner3 b c.
Proof. destruct a as [[a1 a2] a3], b as [[b1 b2] b3], c as [[c1 c2] c3]. cbn. lra. Qed.
Lemma inner3_pos a : 0 <= inner3 a a.
Proof. destruct a as [[a1 a2] a3]. cbn. nra. Qed.
Lemma oproj_drop3 : oproj v3 sub3 inner3 drop3.
Proof.
  repeat split.
  - intros [[a1 a2] a3] [[b1 b2] b3]. cbn. f_equal. lra.
  - intros [[a1 a2] a3]. reflexivity.
  - intros [[a1 a2] a3] [[b1 b2] b3]. cbn. lra.
Qed.
Lemma oproj_drop2 : oproj v3 sub3 inner3 drop2.
Proof.
  repeat split.
  - intros [[a1 a2] a3] [[b1 b2] b3]. cbn. f_equal. f_equal. lra.
  - intros [[a1 a2] a3]. reflexivity.
  - intros [[a1 a2] a3] [[b1 b2] b3]. cbn. lra.
Qed.

Example projector_bound_example :
  let x := (1, 2, 3) in
  nrm2 v3 inner3 (sub3 x (applyPs v3 [drop3; drop2] x)) = 9 + 4 /\
  terms v3 sub3 inner3 x [drop3; drop2] = [nrm2 v3 inner3 (0, 0, 3); nrm2 v3 inner3 (0, 2, 0)].
Proof.
  cbn. unfold nrm2. cbn. split; [lra|]. repeat f_equal; lra.
Qed.

Example rank_choice_example :
  auto_rank 0 Rplus Rltb [9; 4; 1; 0] 2 = Some 2%nat /\ keep_cols 2 [3; 0; 2; 1]%nat = [3; 0]%nat.
Proof.
  split; [|reflexivity].
  unfold auto_rank, last_above. rewrite eigsum_suffix. cbn [suffix_sums sumR]. unfold where_gt. cbn [length seq filter nth].
  assert (H0 : Rltb 2 (9 + (4 + (1 + (0 + 0)))) = true) by (apply Rltb_true; lra).
  assert (H1 : Rltb 2 (4 + (1 + (0 + 0))) = true) by (apply Rltb_true; lra).
  assert (H2 : Rltb 2 (1 + (0 + 0)) = false) by (apply Rltb_false; lra).
  assert (H3 : Rltb 2 (0 + 0) = false) by (apply Rltb_false; lra).
  rewrite H0, H1, H2, H3. reflexivity.
Qed.
