(* Proofs/C12LambdaZ.v — the executable harness model of fg_est.estimate(lambda_check=True) (Model/C12Harness.v: zest_lam_F,
   weights absorbed into mode 0 when some weight differs from 1) is an instance of the column rescalings of Proofs/C12Lambda.v;
   hence on every subscript once with unit sample weights it returns the exact objective of the WEIGHTED model — the identity the
   correspondence stream checks numerically against pyttb (op estimate_lam, mode full). *)
From Coq Require Import List ZArith Arith Lia Bool.
From PV Require Import Base.Index Base.Sum Np.Array Model.Sparse Model.Repr Model.Harness Model.C12Gcp Model.C12Harness
                       Proofs.C12Tensor Proofs.C12Lambda.
Import ListNotations.
Local Open Scope Z_scope.

Notation zmat := (list (list Z)).
Definition rows_len (R : nat) (As : list zmat) : Prop := Forall (fun A => Forall (fun row => length row = R) A) As.

Lemma zmul_row_mul_row row lam : zmul_row row lam = mul_row Z Z.mul row lam.
Proof. revert lam. induction row as [|x row IH]; intros [|w lam]; cbn; auto; now rewrite IH. Qed.

Lemma mul_row_ones : forall (row : list Z) R, length row = R -> mul_row Z Z.mul row (repeat 1 R) = row.
Proof.
  induction row as [|x row IH]; intros [|R] H; cbn in *; try lia; auto.
  rewrite Z.mul_1_r. f_equal. apply IH. lia.
Qed.

Lemma scale_ones : forall (As : list zmat) R, rows_len R As ->
  scale_all Z Z.mul (repeat (repeat 1 R) (length As)) As = As.
Proof.
  induction As as [|A As IH]; intros R H; [reflexivity|]. inversion H as [|? ? HA HAs]; subst.
  cbn [length repeat scale_all]. f_equal; [|now apply IH].
  unfold scale_cols. rewrite <- (map_id A) at 2. apply map_ext_in. intros row Hrow.
  apply mul_row_ones. rewrite Forall_forall in HA. auto.
Qed.

Lemma absorb0_scale (lam : list Z) (As : list zmat) : rows_len (length lam) As ->
  absorb0 lam As = scale_all Z Z.mul (absorb_cs Z 1 lam (length As)) As.
Proof.
  intros H. destruct As as [|A As]; [reflexivity|]. inversion H as [|? ? HA HAs]; subst.
  cbn [absorb0 length absorb_cs scale_all]. rewrite scale_ones by auto. f_equal.
  all: unfold scale_cols; apply map_ext; intros row; apply zmul_row_mul_row.
Qed.

Lemma lam_unused_ones (lam : list Z) : existsb (fun w => negb (w =? 1)) lam = false -> lam = repeat 1 (length lam).
Proof.
  induction lam as [|w lam IH]; intros H; [reflexivity|]. cbn [existsb] in H. apply orb_false_iff in H as [Hw Hl].
  cbn [length repeat]. apply negb_false_iff in Hw. apply Z.eqb_eq in Hw. subst. f_equal. now apply IH.
Qed.

Theorem zest_lam_exact : forall (id : nat) (lam : list Z) (As : list zmat) (X : dense Z),
  (1 <= length As)%nat -> rows_len (length lam) As -> wf_dense X -> dshape X = map (@nrows Z) As ->
  zest_lam_F id true lam As (length lam) (allsubs (dshape X)) (ddata X) (repeat 1 (size (dshape X))) [] =
  zeval_F id (mkK lam As) X None.
Proof.
  intros id lam As X HN Hrows HX Hs. unfold zest_lam_F, lam_factors, lam_used. cbn [andb].
  destruct (existsb (fun w => negb (w =? 1)) lam) eqn:E.
  - rewrite absorb0_scale by auto. unfold zest_F, zeval_F.
    apply (lambda_exact_F Z 0 1 Z.add Z.mul Z.sub Z.opp Zth (zf id) (absorb_cs Z 1 lam (length As)) As lam); auto.
    + apply absorb_cs_length.
    + intros r Hr. apply (absorb_cs_prod Z 0 1 Z.add Z.mul Z.sub Z.opp Zth); auto.
  - unfold zest_F, zeval_F. rewrite (lam_unused_ones lam E) at 2.
    apply (estimate_exact_F Z 0 1 Z.add Z.mul Z.sub Z.opp Zth); auto.
Qed.

Example zest_lam_exact_ex :
  let As := [ [[1; 2]; [-3; 4]]; [[2; 0]; [1; 3]; [-1; 1]] ] in
  let X := mkDense [2; 3]%nat [1; -2; 0; 4; 3; -1] in
  zest_lam_F 0 true [2; -3] As 2 (allsubs [2; 3]%nat) (ddata X) (repeat 1 6) [] = zeval_F 0 (mkK [2; -3] As) X None /\
  zest_lam_F 0 false [2; -3] As 2 (allsubs [2; 3]%nat) (ddata X) (repeat 1 6) [] <> zeval_F 0 (mkK [2; -3] As) X None.
Proof. timeout 60 (vm_compute; split; [reflexivity|discriminate]). Qed.

Print Assumptions zest_lam_exact.
