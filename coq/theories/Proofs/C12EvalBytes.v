(* Proofs/C12EvalBytes.v — the BYTE-LEVEL form of pyttb/gcp/fg.py::evaluate (wave 4): the data array, the model's full array and the
   weight array as their flat F-order value lists,
     Y = handle(data.data, full_model.data); if weights is not None: Y *= weights        -> position-wise on the flat lists
     F = float(np.sum(Y))                                                                 -> the sum of the flat list
     G = ttb.tensor(Y, copy=False).mttkrps(model.factor_matrices)                         -> byte-level mttkrps of the flat list
   proved equal to the subscript-level model eval_F / eval_G (Model/C12Gcp.v) about which the derivative theorems are stated.
   What the position-wise step assumes — and the correspondence stream exercises with C / F / strided weight arrays — is that
   numpy's `Y *= weights` pairs entries of equal SUBSCRIPT whatever the memory layouts; on the F-order lists that is equal position.
   full_model.data is the F-order list of model.full() = tabulate (den_k K) (ktensor.full: property C01 / C08). *)
From Coq Require Import List Arith Lia Bool Ring ZArith.
From PV Require Import Base.Index Base.Sum Np.Array Model.Sparse Model.Repr Model.C12Gcp Proofs.C12Tensor Proofs.C12Mttkrps
                       Model.C02Dense Proofs.C02DenseProofs Proofs.C12Reshape.
Import ListNotations.
Local Open Scope nat_scope.

Section EvalBytes.
Variable V : Type.
Variables (v0 v1 : V) (vadd vmul vsub : V -> V -> V) (vopp : V -> V).
Hypothesis Vring : ring_theory v0 v1 vadd vmul vsub vopp (@eq V).
Add Ring Vr5 : Vring.

Notation mat := (list (list V)).
Notation msum := (sum_over v0 vadd).
Notation dk := (den_k v0 v1 vadd vmul).

(* model.full().data *)
Definition full_data (K : ktensor V) (s : shape) : list V := ddata (tabulate s (dk K)).

(* Y = handle(data.data, full_model.data) [* weights], position by position on the flat F-order lists *)
Definition flat_Y (h : V -> V -> V) (xd md : list V) (wd : option (list V)) : list V :=
  map (fun p => let y := h (nth p xd v0) (nth p md v0) in
                match wd with None => y | Some w => vmul y (nth p w v0) end) (seq 0 (length xd)).

Definition evaluate_F_b (f : V -> V -> V) (K : ktensor V) (X : dense V) (w : option (dense V)) : V :=
  sumv v0 vadd (flat_Y f (ddata X) (full_data K (dshape X)) (option_map (@ddata V) w)).

Definition evaluate_G_b (g : V -> V -> V) (K : ktensor V) (X : dense V) (w : option (dense V)) (sp : nat) : list mat :=
  mttkrps_b V v0 vadd vmul (flat_Y g (ddata X) (full_data K (dshape X)) (option_map (@ddata V) w)) (kfactors K) sp.

Definition w_ok (s : shape) (w : option (dense V)) : Prop :=
  match w with None => True | Some W => wf_dense W /\ dshape W = s end.

Lemma den_dense_flat (T : dense V) p : p < size (dshape T) -> den_dense v0 T (ind2sub (dshape T) p) = nth p (ddata T) v0.
Proof. intros H. unfold den_dense. rewrite inb_ind2sub by exact H. now rewrite sub2ind_ind2sub by exact H. Qed.

(* entry p of the flat Y list is the model's derivative / loss array at subscript ind2sub p *)
Lemma flat_Y_nth (h : V -> V -> V) (K : ktensor V) (X : dense V) (w : option (dense V)) p :
  wf_dense X -> w_ok (dshape X) w -> p < size (dshape X) ->
  nth p (flat_Y h (ddata X) (full_data K (dshape X)) (option_map (@ddata V) w)) v0 =
  eval_Y v0 v1 vadd vmul h K X w (ind2sub (dshape X) p).
Proof.
  intros HX Hw Hp. unfold flat_Y. rewrite HX.
  rewrite (nth_map_seq _ _ p v0) by exact Hp. cbv zeta.
  unfold eval_Y, full_data. rewrite nth_tabulate by exact Hp. rewrite den_dense_flat by exact Hp.
  destruct w as [W|]; cbn [option_map wget].
  - destruct Hw as [HW Hs]. rewrite <- Hs. rewrite den_dense_flat by (now rewrite Hs). reflexivity.
  - ring.
Qed.

Lemma flat_Y_length h xd md wd : length (flat_Y h xd md wd) = length xd.
Proof. unfold flat_Y. now rewrite map_length, seq_length. Qed.

(* F: the sum of the flat list is the (optionally weighted) sum of the loss over all subscripts *)
Theorem evaluate_F_bytes : forall (f : V -> V -> V) (K : ktensor V) (X : dense V) (w : option (dense V)),
  wf_dense X -> w_ok (dshape X) w ->
  evaluate_F_b f K X w = eval_F v0 v1 vadd vmul f K X w.
Proof.
  intros f K X w HX Hw. unfold evaluate_F_b, eval_F.
  rewrite (msum_allsubs V v0 vadd). unfold sum_over. f_equal.
  apply (nth_ext _ _ v0 v0).
  - now rewrite flat_Y_length, map_length, seq_length.
  - intros p Hp. rewrite flat_Y_length, HX in Hp. rewrite flat_Y_nth by auto.
    rewrite (nth_map_seq _ _ p v0) by exact Hp. reflexivity.
Qed.

(* G: byte-level mttkrps of the flat derivative list = the per-mode MTTKRPs of the derivative array = eval_G, every split index *)
Theorem evaluate_G_bytes : forall (g : V -> V -> V) (K : ktensor V) (X : dense V) (w : option (dense V)) (sp : nat),
  wf_dense X -> w_ok (dshape X) w -> Forall (fun d => 1 <= d) (dshape X) ->
  fdims V (krank K) (kfactors K) (dshape X) -> S sp < length (dshape X) ->
  evaluate_G_b g K X w sp = eval_G v0 v1 vadd vmul g K X w.
Proof.
  intros g K X w sp HX Hw Hp Hd Hsp. unfold evaluate_G_b, eval_G.
  set (Yl := flat_Y g (ddata X) (full_data K (dshape X)) (option_map (@ddata V) w)).
  set (T := mkDense (dshape X) Yl).
  assert (HT : wf_dense T) by (unfold wf_dense, T; cbn [ddata dshape]; unfold Yl; now rewrite flat_Y_length).
  change Yl with (ddata T).
  rewrite (C12_mttkrps_bytes V v0 v1 vadd vmul vsub vopp Vring T (kfactors K) (krank K) sp); auto.
  cbn [dshape T]. apply map_ext. intros k. apply mttkrp_den_ext. intros i Hi.
  unfold den_dense. cbn [dshape ddata T]. rewrite Hi.
  assert (Hlt : sub2ind (dshape X) i < size (dshape X)) by now apply sub2ind_lt.
  unfold Yl. rewrite flat_Y_nth by auto. now rewrite ind2sub_sub2ind.
Qed.

End EvalBytes.

(* non-vacuity over Z: 2x3 data, rank 2 with component weights, C-independent flat lists, weighted and unweighted *)
Section Example.
Local Open Scope Z_scope.
Let K : ktensor Z := mkK [2; -1]%Z [[[1; 2]; [0; -1]]; [[1; 0]; [2; 1]; [-1; 3]]]%Z.
Let X : dense Z := mkDense [2; 3]%nat [3; 0; -1; 2; 0; 5]%Z.
Let W : dense Z := mkDense [2; 3]%nat [1; 0; 2; 1; 0; 3]%Z.
Let f := fun x m => (m - x) * (m - x).
Let g := fun x m => 2 * (m - x).
Example evaluate_bytes_ex :
  evaluate_F_b Z 0 1 Z.add Z.mul f K X (Some W) = eval_F 0 1 Z.add Z.mul f K X (Some W) /\
  evaluate_F_b Z 0 1 Z.add Z.mul f K X None <> evaluate_F_b Z 0 1 Z.add Z.mul f K X (Some W) /\
  evaluate_G_b Z 0 1 Z.add Z.mul g K X (Some W) 0 = eval_G 0 1 Z.add Z.mul g K X (Some W).
Proof. timeout 60 (vm_compute; repeat split; try reflexivity; discriminate). Qed.
End Example.

Print Assumptions evaluate_F_bytes.
Print Assumptions evaluate_G_bytes.
