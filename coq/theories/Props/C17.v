(* Props/C17.v — Index arithmetic, mode-selection preprocessing (theorems about the code as
   regenerated from /repo/pyttb/pyttb_utils.py at run time).  Only statements, `exact`, Print Assumptions. *)
From Coq Require Import List ZArith Arith Bool Permutation Sorted.
From PV Require Import Base.Index Np.NpZ Proofs.NpZProofs Gen.GenUtils Proofs.UtilsProofs Proofs.RowsProofs Proofs.KhatriRao Model.Repr.
Import ListNotations.

(* mutually inverse bijections between subscripts of a shape and 0..size-1 *)
Theorem C17_bijection : forall s : shape,
  (forall i, inb s i = true -> sub2ind s i < size s /\ ind2sub s (sub2ind s i) = i) /\
  (forall k, k < size s -> inb s (ind2sub s k) = true /\ sub2ind s (ind2sub s k) = k).
Proof. exact sub2ind_bijection. Qed.
Print Assumptions C17_bijection.

Theorem C17_first_fastest : forall d s x i,
  sub2ind (d :: s) (S x :: i) = S (sub2ind (d :: s) (x :: i)).
Proof. exact sub2ind_first_fastest. Qed.
Print Assumptions C17_first_fastest.

Theorem C17_enumeration : forall s, NoDup (allsubs s) /\ length (allsubs s) = size s /\
  (forall i, In i (allsubs s) <-> inb s i = true).
Proof. intros s. exact (conj (allsubs_NoDup s) (conj (allsubs_length s) (in_allsubs s))). Qed.
Print Assumptions C17_enumeration.

(* the generated tt_sub2ind / tt_ind2sub compute exactly these maps, and reject out-of-range subscripts *)
Theorem C17_tt_sub2ind : forall (s : shape) (subs : list idx),
  s <> [] -> (forall i, In i subs -> inb s i = true) ->
  tt_sub2ind (zs s) (zm subs) OrdF = Ok (map (fun i => Z.of_nat (sub2ind s i)) subs).
Proof. exact tt_sub2ind_spec. Qed.
Print Assumptions C17_tt_sub2ind.

Theorem C17_tt_sub2ind_rejects : forall (s : shape) (subs : list idx),
  (exists i, In i subs /\ i <> [] /\ inb s i = false) -> tt_sub2ind (zs s) (zm subs) OrdF = Err.
Proof. exact tt_sub2ind_rejects. Qed.
Print Assumptions C17_tt_sub2ind_rejects.

Theorem C17_tt_ind2sub : forall (s : shape) (ks : list nat),
  (forall k, In k ks -> k < size s) ->
  tt_ind2sub (zs s) (zs ks) OrdF = Ok (map (fun k => zs (ind2sub s k)) ks).
Proof. exact tt_ind2sub_spec. Qed.
Print Assumptions C17_tt_ind2sub.

Theorem C17_tt_roundtrip_sub : forall (s : shape) (subs : list idx),
  s <> [] -> (forall i, In i subs -> inb s i = true) ->
  bind (tt_sub2ind (zs s) (zm subs) OrdF) (fun ks => tt_ind2sub (zs s) ks OrdF) = Ok (zm subs).
Proof. exact tt_roundtrip_sub. Qed.
Print Assumptions C17_tt_roundtrip_sub.

Theorem C17_tt_roundtrip_ind : forall (s : shape) (ks : list nat),
  s <> [] -> (forall k, In k ks -> k < size s) ->
  bind (tt_ind2sub (zs s) (zs ks) OrdF) (fun subs => tt_sub2ind (zs s) subs OrdF) = Ok (zs ks).
Proof. exact tt_roundtrip_ind. Qed.
Print Assumptions C17_tt_roundtrip_ind.

Local Open Scope Z_scope.

(* mode-selection preprocessing: sorted selected modes + position of each one's multiplicand *)
Theorem C17_dimscheck_dims : forall N M d, dims_ok N M d ->
  tt_dimscheck N M (Some d) None = Ok (np_sort d, vidx_of N M d).
Proof. exact dimscheck_dims. Qed.
Print Assumptions C17_dimscheck_dims.

Theorem C17_sorted_modes : forall d, Sorted Z.le (np_sort d) /\ Permutation (np_sort d) d.
Proof. intros d. exact (conj (np_sort_sorted d) (np_sort_perm d)). Qed.
Print Assumptions C17_sorted_modes.

(* one multiplicand per selected mode: multiplicand vidx[k] is the one the caller listed for mode sdims[k] *)
Theorem C17_alignment : forall d, np_take 0 d (np_argsort d) = np_sort d.
Proof. exact dimscheck_alignment_P. Qed.
Print Assumptions C17_alignment.

Theorem C17_dimscheck_exclude : forall N M e,
  (forall x, In x e -> 0 <= x < N) ->
  match M with None => True | Some m => m <= N /\ (m = N \/ m = zlen (complement N e)) end ->
  tt_dimscheck N M None (Some e) = Ok (complement N e, vidx_of N M (complement N e)).
Proof. exact dimscheck_exclude. Qed.
Print Assumptions C17_dimscheck_exclude.

Theorem C17_dimscheck_default : forall N M, 0 <= N ->
  match M with None => True | Some m => m = N end ->
  tt_dimscheck N M None None = Ok (np_arange 0 N, option_map (fun _ => np_arange 0 N) M).
Proof. exact dimscheck_default. Qed.
Print Assumptions C17_dimscheck_default.

Theorem C17_dimscheck_rejects_both : forall N M d e, tt_dimscheck N M (Some d) (Some e) = Err.
Proof. exact dimscheck_rejects_both. Qed.
Print Assumptions C17_dimscheck_rejects_both.

Theorem C17_dimscheck_rejects_negative : forall N M d x, In x d -> x < 0 -> tt_dimscheck N M (Some d) None = Err.
Proof. exact dimscheck_rejects_negative. Qed.
Print Assumptions C17_dimscheck_rejects_negative.

Theorem C17_dimscheck_rejects_exclude_range : forall N M e x,
  In x e -> ~ (0 <= x < N) -> tt_dimscheck N M None (Some e) = Err.
Proof. exact dimscheck_rejects_exclude_range. Qed.
Print Assumptions C17_dimscheck_rejects_exclude_range.

Theorem C17_dimscheck_rejects_count : forall N m d, (forall x, In x d -> 0 <= x < N) -> NoDup d ->
  (m > N \/ (m <> N /\ m <> zlen d)) -> tt_dimscheck N (Some m) (Some d) None = Err.
Proof. exact dimscheck_rejects_count. Qed.
Print Assumptions C17_dimscheck_rejects_count.

Theorem C17_dimscheck_rejects_out_of_range : forall N M d x, In x d -> N <= x -> tt_dimscheck N M (Some d) None = Err.
Proof. exact dimscheck_rejects_out_of_range. Qed.
Print Assumptions C17_dimscheck_rejects_out_of_range.

Theorem C17_dimscheck_rejects_repeated : forall N M d, ~ NoDup d -> tt_dimscheck N M (Some d) None = Err.
Proof. exact dimscheck_rejects_repeated. Qed.
Print Assumptions C17_dimscheck_rejects_repeated.

(* row membership: location of every search row in the source (last occurrence when repeated), -1 if absent *)
Theorem C17_ismember : forall search source : mat,
  np_size2 search <> 0 -> np_size2 source <> 0 ->
  exists matched results, tt_ismember_rows search source = Ok (matched, results) /\
    length matched = length search /\ length results = length search /\
    forall i, (i < length search)%nat ->
      let r := nth i search [] in
      ((exists j, (j < length source)%nat /\ nth j source [] = r) ->
         nth i matched false = true /\
         exists j, nth i results 0 = Z.of_nat j /\ (j < length source)%nat /\ nth j source [] = r /\
                   forall j', (j < j' < length source)%nat -> nth j' source [] <> r) /\
      ((forall j, (j < length source)%nat -> nth j source [] <> r) ->
         nth i matched false = false /\ nth i results 0 = -1).
Proof. exact tt_ismember_rows_spec. Qed.
Print Assumptions C17_ismember.

Example C17_ismember_example :
  tt_ismember_rows [[4; 6]; [1; 9]; [2; 6]] [[2; 6]; [2; 1]; [4; 6]; [2; 6]] = Ok ([true; false; true], [2; -1; 3]).
Proof. reflexivity. Qed.

(* Khatri-Rao product = column-wise Kronecker product, first argument slowest (any commutative ring) *)
Theorem C17_khatrirao : forall (V : Type) (v0 v1 : V) (vadd vmul vsub : V -> V -> V) (vopp : V -> V),
  ring_theory v0 v1 vadd vmul vsub vopp (@eq V) ->
  forall (A : list (list V)) rest p R ns is b r,
  wfm V A p R -> length ns = length rest -> length is = length rest ->
  (forall k, (k < length rest)%nat -> wfm V (nth k rest []) (nth k ns 0%nat) R /\ (nth k is 0 < nth k ns 0)%nat) ->
  (b < p)%nat -> (r < R)%nat ->
  exists K, khatrirao V vmul false (A :: rest) = Some K /\
    wfm V K (size (p :: ns)) R /\
    mget v0 K (sub2ind (rev (p :: ns)) (rev (b :: is))) r = vmul (kr_prod V v0 v1 vmul rest is r) (mget v0 A b r).
Proof. exact khatrirao_spec. Qed.
Print Assumptions C17_khatrirao.

Theorem C17_khatrirao_reverse : forall (V : Type) (vmul : V -> V -> V) As,
  khatrirao V vmul true As = khatrirao V vmul false (rev As).
Proof. exact khatrirao_reverse. Qed.
Print Assumptions C17_khatrirao_reverse.

Example C17_khatrirao_example :
  khatrirao Z Z.mul false [[[1; 2]; [3; 4]]; [[5; 6]; [7; 8]; [9; 10]]]
  = Some [[5; 12]; [7; 16]; [9; 20]; [15; 24]; [21; 32]; [27; 40]].
Proof. reflexivity. Qed.

(* non-vacuity: a concrete request meets the hypotheses *)
Example C17_dimscheck_example :
  tt_dimscheck 4 (Some 2) (Some [3; 1]) None = Ok ([1; 3], Some [1; 0]).
Proof. reflexivity. Qed.
