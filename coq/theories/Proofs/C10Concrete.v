(* Proofs/C10Concrete.v — the spectral step and the end-to-end hosvd error bound of Proofs/C10Spectral.v for CONCRETE dense real
   tensors (wave 4).  The abstract eigen-projectors Q_j become  Y |-> Y x_k (w_j w_j^T)  for the columns w_j of an orthogonal
   eigenvector matrix W (I_k x I_k, W^T W = W W^T = I: what LAPACK's eigh returns, sorted by hosvd's argsort); the truncation
   projector becomes  Y |-> Y x_k (U U^T)  with U = the leading r columns W[:, 0:r] (hosvd.py: V[:, pi[0:ranks[k]]]); the
   eigenvalue contract becomes  lambda_j = ||Y x_k w_j w_j^T||^2  (= w_j^T G w_j for the mode-k Gram matrix G, see rayleigh below).
   1. ring-generic: <X x_n M, b> is additive in M; X x_n I = X
   2. over R: concrete_spectral_ok, concrete_spectral_step, concrete_hosvd_error_bound
   No hypothesis about an abstract space or abstract projectors is left: every object is a dense array or a matrix. *)
From Coq Require Import List Arith Lia Bool ZArith Reals Lra RealField Ring.
From PV Require Import Base.Index Base.Sum Np.Array Np.NpR Model.Sparse Model.Repr Model.C10Tucker Model.C14Nvecs
                       Proofs.C14Sums Proofs.C14Split Proofs.C14GramSp Proofs.C10Ttm Proofs.C10Proofs Proofs.C10Spectral Proofs.C10Proj Proofs.C10ProjR Proofs.C10Recon.
From Coq Require Import Permutation.
Import ListNotations.

(* ---------------------------------------------------------------------------------------- *)
(* 1. ring-generic: linearity of the mode product in the matrix                              *)
(* ---------------------------------------------------------------------------------------- *)
Section Lin.
Variable V : Type.
Variables (v0 v1 : V) (vadd vmul vsub : V -> V -> V) (vopp : V -> V).
Hypothesis Vring : ring_theory v0 v1 vadd vmul vsub vopp (@eq V).
Add Ring Vr10c : Vring.
Notation SO := (sum_over v0 vadd).
Notation SN := (sum_n v0 vadd).
Notation den := (den_dense v0).
Notation mg := (mget v0).
Notation mproj := (mproj V v0 vadd vmul).
Notation dinner := (dinner V v0 vadd vmul).
Local Notation "x * y" := (vmul x y).
Local Notation "x + y" := (vadd x y).

(* entrywise M = sum_j M_j  ==>  (X x_n M)(i) = sum_j (X x_n M_j)(i) *)
Lemma den_mproj_sum s n (Ms : list (@matrix V)) (M : @matrix V) (a : dense V) i : n < length s -> inb s i = true ->
  (forall x c, x < nth n s 0 -> c < nth n s 0 -> mg M x c = SO Ms (fun Mj => mg Mj x c)) ->
  den (mproj s n M a) i = SO Ms (fun Mj => den (mproj s n Mj a) i).
Proof.
  intros Hn Hi HM. pose proof (inb_nth n s i Hn Hi) as Hx.
  rewrite (den_mproj V v0 vadd vmul) by exact Hi. unfold ttm_den.
  transitivity (SN (nth n s 0) (fun c => SO Ms (fun Mj => mg Mj (nth n i 0) c * den a (set_nth n c i)))).
  { apply sum_n_ext. intros c Hc. rewrite (HM _ _ Hx Hc).
    now rewrite (sum_over_scale_r V v0 v1 vadd vmul vsub vopp Vring). }
  unfold sum_n. rewrite (sum_over_swap V v0 v1 vadd vmul vsub vopp Vring).
  apply sum_over_ext. intros Mj _. rewrite (den_mproj V v0 vadd vmul) by exact Hi. reflexivity.
Qed.

Lemma dinner_mproj_sum s n (Ms : list (@matrix V)) (M : @matrix V) (a b : dense V) : n < length s ->
  (forall x c, x < nth n s 0 -> c < nth n s 0 -> mg M x c = SO Ms (fun Mj => mg Mj x c)) ->
  dinner s (mproj s n M a) b = SO Ms (fun Mj => dinner s (mproj s n Mj a) b).
Proof.
  intros Hn HM. unfold C10Proj.dinner.
  rewrite (sum_over_swap V v0 v1 vadd vmul vsub vopp Vring).
  apply sum_over_ext. intros i Hi. apply in_allsubs in Hi.
  rewrite (den_mproj_sum s n Ms M a i Hn Hi HM).
  now rewrite (sum_over_scale_r V v0 v1 vadd vmul vsub vopp Vring).
Qed.

(* a matrix with the entries of the identity acts as the identity *)
Lemma den_mproj_delta s n (M : @matrix V) (a : dense V) i : n < length s -> inb s i = true ->
  (forall x c, x < nth n s 0 -> c < nth n s 0 -> mg M x c = if Nat.eqb x c then v1 else v0) ->
  den (mproj s n M a) i = den a i.
Proof.
  intros Hn Hi HM. pose proof (inb_nth n s i Hn Hi) as Hx. pose proof (inb_length _ _ Hi) as L.
  rewrite (den_mproj V v0 vadd vmul) by exact Hi. unfold ttm_den.
  transitivity (SN (nth n s 0) (fun c => den a (set_nth n c i) * (if Nat.eqb (nth n i 0) c then v1 else v0))).
  { apply sum_n_ext. intros c Hc. rewrite (HM _ _ Hx Hc). ring. }
  rewrite (sum_n_delta V v0 v1 vadd vmul vsub vopp Vring _ _ (fun c => den a (set_nth n c i)) Hx).
  rewrite set_nth_self by lia. reflexivity.
Qed.

Lemma dinner_mproj_delta s n (M : @matrix V) (a b : dense V) : n < length s ->
  (forall x c, x < nth n s 0 -> c < nth n s 0 -> mg M x c = if Nat.eqb x c then v1 else v0) ->
  dinner s (mproj s n M a) b = dinner s a b.
Proof.
  intros Hn HM. unfold C10Proj.dinner. apply sum_over_ext. intros i Hi. apply in_allsubs in Hi.
  now rewrite (den_mproj_delta s n M a i Hn Hi HM).
Qed.

(* w_j w_j^T for column j of W *)
Definition rank1 (I : nat) (W : @matrix V) (j : nat) : @matrix V := mtab I I (fun a b => mg W a j * mg W b j).

Lemma mget_rank1 I W j a b : a < I -> b < I -> mg (rank1 I W j) a b = mg W a j * mg W b j.
Proof. intros Ha Hb. unfold rank1. now rewrite (mget_mtab V v0). Qed.

Lemma rank1_sym I W j : msym V v0 I (rank1 I W j).
Proof. intros a b Ha Hb. rewrite !mget_rank1 by auto. ring. Qed.

Lemma rank1_idem I r W j : j < r -> orthocols V v0 v1 vadd vmul I r W -> midem V v0 vadd vmul I (rank1 I W j).
Proof.
  intros Hj Ho a b Ha Hb. rewrite mget_rank1 by auto.
  transitivity (SN I (fun k => (mg W a j * mg W b j) * (mg W k j * mg W k j))).
  { apply sum_n_ext. intros k Hk. rewrite !mget_rank1 by auto. ring. }
  rewrite (sum_n_scale_l V v0 v1 vadd vmul vsub vopp Vring). rewrite (Ho j j Hj Hj), Nat.eqb_refl. ring.
Qed.

(* U U^T over the first r columns = sum of the first r rank-one matrices *)
Lemma uut_as_sum I r W x c : x < I -> c < I ->
  mg (uut V v0 vadd vmul I r W) x c = SO (map (rank1 I W) (seq 0 r)) (fun Mj => mg Mj x c).
Proof.
  intros Hx Hc. rewrite (mget_uut V v0 vadd vmul) by auto.
  rewrite sum_over_map. unfold sum_n. apply sum_over_ext. intros j _.
  now rewrite mget_rank1.
Qed.

Lemma orthocols_le I r r' W : r' <= r -> orthocols V v0 v1 vadd vmul I r W -> orthocols V v0 v1 vadd vmul I r' W.
Proof. intros Hle Ho j l Hj Hl. apply Ho; lia. Qed.

(* U = W[:, 0:r] (hosvd.py: V[:, pi[0:ranks[k]]] with W = V[:, pi]) gives the same U U^T *)
Definition leading (r : nat) (W : @matrix V) : @matrix V := map (firstn r) W.
Lemma mget_leading r W a j : j < r -> mg (leading r W) a j = mg W a j.
Proof.
  intros Hj. unfold mget, leading.
  assert (E : nth a (map (firstn r) W) [] = firstn r (nth a W [])).
  { rewrite <- (firstn_nil V r) at 1. apply map_nth. }
  rewrite E. clear E. generalize (nth a W []). intros row. revert j Hj. revert row.
  induction r as [|r IH]; intros row j Hj; [lia|].
  destruct row as [|x row]; [destruct j; reflexivity|]. destruct j as [|j]; [reflexivity|]. cbn. apply IH. lia.
Qed.
Lemma uut_leading I r W : uut V v0 vadd vmul I r (leading r W) = uut V v0 vadd vmul I r W.
Proof.
  unfold uut, mtab. apply map_ext_in. intros a _. apply map_ext_in. intros b _.
  apply sum_n_ext. intros j Hj. now rewrite !mget_leading.
Qed.
End Lin.

(* ---------------------------------------------------------------------------------------- *)
(* 2. over R: the spectral step and the hosvd error bound for concrete dense tensors          *)
(* ---------------------------------------------------------------------------------------- *)
Local Open Scope R_scope.

Definition rank1R := rank1 R 0 Rmult.
Definition uutR := uut R 0 Rplus Rmult.
Definition orthocolsR := orthocols R 0 1 Rplus Rmult.
(* W W^T = I (rows orthonormal); together with orthocolsR I I W: W is an orthogonal I x I matrix *)
Definition orthorowsR (I : nat) (W : @matrix R) : Prop :=
  forall a b, (a < I)%nat -> (b < I)%nat ->
  sum_n 0 Rplus I (fun j => mget 0 W a j * mget 0 W b j) = if Nat.eqb a b then 1 else 0.

(* the eigen-projectors of mode k given by the columns of W, and the truncation projector on the leading r columns *)
Definition eigprojs (s : shape) (k : nat) (W : @matrix R) : list (dense R -> dense R) :=
  map (fun j => projR s k (rank1R (nth k s 0%nat) W j)) (seq 0 (nth k s 0%nat)).
Definition truncproj (s : shape) (k r : nat) (W : @matrix R) : dense R -> dense R :=
  projR s k (uutR (nth k s 0%nat) r W).
(* lambda_j = ||Y x_k w_j w_j^T||^2 *)
Definition energies (s : shape) (k : nat) (W : @matrix R) (Y : dense R) : list R :=
  map (fun j => nrm2 (dense R) (innerR s) (projR s k (rank1R (nth k s 0%nat) W j) Y)) (seq 0 (nth k s 0%nat)).

Lemma sumR_map_sum_over {A} (f : A -> R) (l : list A) : sumR (map f l) = sum_over 0 Rplus l f.
Proof. induction l as [|a l IH]; [reflexivity|]. cbn [map sumR]. rewrite sum_over_cons, IH. reflexivity. Qed.

Lemma firstn_map_seq {A} (f : nat -> A) (r n : nat) : (r <= n)%nat -> firstn r (map f (seq 0 n)) = map f (seq 0 r).
Proof.
  intros H. rewrite firstn_map. f_equal. generalize 0%nat. revert n H.
  induction r as [|r IH]; intros n H a; [reflexivity|]. destruct n as [|n]; [lia|]. cbn. f_equal. apply IH. lia.
Qed.

(* the hypotheses of the abstract spectral step hold for the concrete objects *)
Theorem concrete_spectral_ok (s : shape) (k r : nat) (W : @matrix R) (Y : dense R) :
  (k < length s)%nat -> (r <= nth k s 0)%nat ->
  orthocolsR (nth k s 0%nat) (nth k s 0%nat) W -> orthorowsR (nth k s 0%nat) W ->
  spectral_ok (dense R) (subR s) (innerR s) Y
    (MkMode (dense R) (truncproj s k r W) (eigprojs s k W) r (energies s k W Y)).
Proof.
  intros Hk Hr Hc Hrow. set (I := nth k s 0%nat) in *.
  unfold spectral_ok. cbn [md_P md_Qs md_r md_eig].
  split; [|split; [|split; [|split]]].
  - unfold eigprojs. fold I. apply Forall_forall. intros Q HQ. apply in_map_iff in HQ. destruct HQ as (j & <- & Hj).
    apply in_seq in Hj. apply oproj_mode; [exact Hk| |].
    + apply (rank1_sym R 0 1 Rplus Rmult Rminus Ropp RTheory).
    + apply (rank1_idem R 0 1 Rplus Rmult Rminus Ropp RTheory I I); [lia|exact Hc].
  - intros a b. unfold eigprojs. fold I. rewrite map_map, sumR_map_sum_over.
    unfold innerR, projR.
    rewrite <- (dinner_mproj_delta R 0 1 Rplus Rmult Rminus Ropp RTheory s k (uutR I I W) a b Hk).
    2:{ fold I. intros x c Hx Hc'. unfold uutR. rewrite (mget_uut R 0 Rplus Rmult) by auto. now apply Hrow. }
    rewrite (dinner_mproj_sum R 0 1 Rplus Rmult Rminus Ropp RTheory s k (map (rank1R I W) (seq 0 I)) (uutR I I W) a b Hk).
    2:{ fold I. intros x c Hx Hc'. now apply (uut_as_sum R 0 Rplus Rmult). }
    now rewrite sum_over_map.
  - unfold truncproj. fold I. apply oproj_uut; [exact Hk|]. fold I.
    apply (orthocols_le R 0 1 Rplus Rmult I I r W Hr Hc).
  - intros a b. unfold eigprojs, truncproj. fold I. rewrite firstn_map_seq by exact Hr.
    rewrite map_map, sumR_map_sum_over. unfold innerR, projR.
    rewrite (dinner_mproj_sum R 0 1 Rplus Rmult Rminus Ropp RTheory s k (map (rank1R I W) (seq 0 r)) (uutR I r W) a b Hk).
    2:{ fold I. intros x c Hx Hc'. now apply (uut_as_sum R 0 Rplus Rmult). }
    now rewrite sum_over_map.
  - unfold energies, eigprojs. fold I. now rewrite map_map.
Qed.

(* one mode of truncated HOSVD on a concrete tensor: the energy discarded by Y x_k (U U^T), U = W[:, 0:r], is the sum of the
   discarded lambda_j; every lambda_j >= 0; they sum to ||Y||^2 *)
Theorem concrete_spectral_step (s : shape) (k r : nat) (W : @matrix R) (Y : dense R) :
  (k < length s)%nat -> (r <= nth k s 0)%nat ->
  orthocolsR (nth k s 0%nat) (nth k s 0%nat) W -> orthorowsR (nth k s 0%nat) W ->
  let eig := energies s k W Y in
  nrm2 (dense R) (innerR s) (subR s Y (truncproj s k r W Y)) = sumR (skipn r eig) /\
  Forall (fun l => 0 <= l) eig /\ sumR eig = nrm2 (dense R) (innerR s) Y.
Proof.
  intros Hk Hr Hc Hrow eig.
  destruct (concrete_spectral_ok s k r W Y Hk Hr Hc Hrow) as (H1 & H2 & H3 & H4 & H5). cbn [md_P md_Qs md_r md_eig] in *.
  exact (spectral_step (dense R) (subR s) (innerR s) (innerR_sym s) (innerR_sub s) (innerR_pos s) _ _ r Y eig H1 H2 H3 H4 H5).
Qed.

(* what hosvd computes for one mode of a concrete tensor: mode k, sorted eigenvector matrix W = V[:, pi], kept columns r *)
Record cmode : Type := MkCMode { cm_k : nat; cm_W : @matrix R; cm_r : nat }.
Definition cm_proj (s : shape) (c : cmode) : dense R -> dense R := truncproj s (cm_k c) (cm_r c) (cm_W c).
Definition cm_pair (s : shape) (c : cmode) : nat * @matrix R := (cm_k c, uutR (nth (cm_k c) s 0%nat) (cm_r c) (cm_W c)).
Definition cm_md (s : shape) (Y : dense R) (c : cmode) : mode_data (dense R) :=
  MkMode (dense R) (cm_proj s c) (eigprojs s (cm_k c) (cm_W c)) (cm_r c) (energies s (cm_k c) (cm_W c) Y).
(* W orthogonal; the rank was chosen by the transliterated rule of hosvd.py on lambda_j = ||Y x_k w_j w_j^T||^2 with budget t *)
Definition cmode_ok (s : shape) (t : R) (Y : dense R) (c : cmode) : Prop :=
  (cm_k c < length s)%nat /\
  orthocolsR (nth (cm_k c) s 0%nat) (nth (cm_k c) s 0%nat) (cm_W c) /\ orthorowsR (nth (cm_k c) s 0%nat) (cm_W c) /\
  auto_rank 0 Rplus Rltb (energies s (cm_k c) (cm_W c) Y) t = Some (cm_r c).
(* sequential: the next mode looks at the tensor projected by the modes treated so far *)
Fixpoint cseq_ok (s : shape) (t : R) (Y : dense R) (cs : list cmode) : Prop :=
  match cs with [] => True | c :: cs' => cmode_ok s t Y c /\ cseq_ok s t (cm_proj s c Y) cs' end.
Definition cnonseq_ok (s : shape) (t : R) (X : dense R) (cs : list cmode) : Prop := Forall (cmode_ok s t X) cs.

Lemma energies_length s k W Y : length (energies s k W Y) = nth k s 0%nat.
Proof. unfold energies. now rewrite map_length, seq_length. Qed.

Lemma energies_nonneg s k W Y : Forall (fun l => 0 <= l) (energies s k W Y).
Proof. unfold energies. apply Forall_forall. intros l Hl. apply in_map_iff in Hl. destruct Hl as (j & <- & _). apply innerR_pos. Qed.

Lemma cmode_ok_rank s t Y c : 0 <= t -> cmode_ok s t Y c -> (0 < cm_r c <= nth (cm_k c) s 0)%nat.
Proof.
  intros Ht (_ & _ & _ & Hr).
  destruct (rank_choice _ _ _ (energies_nonneg s (cm_k c) (cm_W c) Y) Ht Hr) as (H & _). now rewrite energies_length in H.
Qed.

Lemma cmode_ok_mode_ok s t Y c : 0 <= t -> cmode_ok s t Y c -> mode_ok (dense R) (subR s) (innerR s) t Y (cm_md s Y c).
Proof.
  intros Ht H. pose proof (cmode_ok_rank s t Y c Ht H) as Hr. destruct H as (Hk & Hc & Hrow & Hrank).
  split; [|exact Hrank]. apply concrete_spectral_ok; auto; lia.
Qed.

Lemma cmode_ok_good s t Y c : 0 <= t -> cmode_ok s t Y c -> good_mode s (cm_pair s c).
Proof.
  intros Ht H. pose proof (cmode_ok_rank s t Y c Ht H) as Hr. destruct H as (Hk & Hc & _ & _).
  unfold good_mode, cm_pair. cbn [fst snd]. split; [exact Hk|]. split.
  - apply (uut_sym R 0 1 Rplus Rmult Rminus Ropp RTheory).
  - apply (uut_idem R 0 1 Rplus Rmult Rminus Ropp RTheory).
    apply (orthocols_le R 0 1 Rplus Rmult _ (nth (cm_k c) s 0%nat)); [lia|exact Hc].
Qed.

Lemma cm_projs s cs : map (cm_proj s) cs = projs s (map (cm_pair s) cs).
Proof. unfold projs. rewrite map_map. reflexivity. Qed.

Lemma cseq_ok_seq_ok s t : 0 <= t -> forall cs Y, cseq_ok s t Y cs ->
  exists ms, map (md_P (dense R)) ms = map (cm_proj s) cs /\ seq_ok (dense R) (subR s) (innerR s) t Y ms /\
             Forall (good_mode s) (map (cm_pair s) cs).
Proof.
  intros Ht. induction cs as [|c cs IH]; intros Y H.
  - exists []. repeat split; constructor.
  - destruct H as (H0 & Hrest). destruct (IH _ Hrest) as (ms & E & Hs & Hg).
    exists (cm_md s Y c :: ms). cbn [map md_P cm_md seq_ok]. split; [now rewrite E|]. split.
    + split; [now apply cmode_ok_mode_ok|exact Hs].
    + constructor; [eapply cmode_ok_good; eauto|exact Hg].
Qed.

Lemma cnonseq_ok_nonseq_ok s t X cs : 0 <= t -> cnonseq_ok s t X cs ->
  map (md_P (dense R)) (map (cm_md s X) cs) = map (cm_proj s) cs /\
  nonseq_ok (dense R) (subR s) (innerR s) t X (map (cm_md s X) cs) /\ Forall (good_mode s) (map (cm_pair s) cs).
Proof.
  intros Ht H. split; [|split].
  - rewrite map_map. reflexivity.
  - unfold nonseq_ok. apply Forall_forall. intros m Hm. apply in_map_iff in Hm. destruct Hm as (c & <- & Hc).
    apply cmode_ok_mode_ok; auto. unfold cnonseq_ok in H. rewrite Forall_forall in H. now apply H.
  - apply Forall_forall. intros p Hp. apply in_map_iff in Hp. destruct Hp as (c & <- & Hc).
    unfold cnonseq_ok in H. rewrite Forall_forall in H. eapply cmode_ok_good; eauto.
Qed.

(* END TO END on concrete tensors: orthogonal eigenvector matrices, eigenvalues as energies of the tensor hosvd looks at (the running,
   projected one when sequential; the data otherwise), ranks by the transliterated rule with budget tol^2 ||X||^2 / d, each mode treated
   once  ==>  ||X - X x_{k1} U1 U1^T ... x_{kd} Ud Ud^T||^2 <= tol^2 ||X||^2, both strategies, every mode order *)
Theorem concrete_hosvd_error_bound (sequential : bool) (s : shape) (cs : list cmode) (X : dense R) (tolsq : R) :
  cs <> [] -> NoDup (map cm_k cs) -> 0 <= tolsq ->
  let budget := tolsq * nrm2 (dense R) (innerR s) X / INR (length cs) in
  (if sequential then cseq_ok s budget X cs else cnonseq_ok s budget X cs) ->
  nrm2 (dense R) (innerR s) (subR s X (applyPs (dense R) (map (cm_proj s) cs) X)) <= tolsq * nrm2 (dense R) (innerR s) X.
Proof.
  intros Hne Hnd Htol budget Hok.
  assert (Hb : 0 <= budget).
  { apply (budget_nonneg (dense R) (innerR s) (innerR_pos s)); [exact Htol|]. destruct cs; [contradiction|cbn; lia]. }
  assert (Hfst : map fst (map (cm_pair s) cs) = map cm_k cs) by (rewrite map_map; reflexivity).
  assert (Hex : exists ms, map (md_P (dense R)) ms = map (cm_proj s) cs /\
            (if sequential then seq_ok (dense R) (subR s) (innerR s) budget X ms
             else nonseq_ok (dense R) (subR s) (innerR s) budget X ms) /\ Forall (good_mode s) (map (cm_pair s) cs)).
  { destruct sequential.
    - now apply cseq_ok_seq_ok.
    - exists (map (cm_md s X) cs). now apply cnonseq_ok_nonseq_ok. }
  destruct Hex as (ms & E & Hms & Hg).
  pose proof (hosvd_error_bound (dense R) (subR s) (innerR s) (innerR_sym s) (innerR_sub s) (innerR_pos s) sequential ms X tolsq) as HB.
  cbv zeta in HB. rewrite E in HB. rewrite map_length in HB. apply HB; auto.
  - destruct cs; [contradiction|discriminate].
  - rewrite cm_projs. apply modes_commute; [exact Hg|]. now rewrite Hfst.
Qed.

(* ---------------------------------------------------------------------------------------- *)
(* 3. the bound for the Tucker tensor hosvd RETURNS (core relation + ttensor.full)            *)
(* ---------------------------------------------------------------------------------------- *)
Lemma cs_ok_good (sequential : bool) s t X cs : 0 <= t ->
  (if sequential then cseq_ok s t X cs else cnonseq_ok s t X cs) -> Forall (good_mode s) (map (cm_pair s) cs).
Proof.
  intros Ht H. destruct sequential.
  - destruct (cseq_ok_seq_ok s t Ht cs X H) as (_ & _ & _ & Hg). exact Hg.
  - apply (cnonseq_ok_nonseq_ok s t X cs Ht H).
Qed.

(* commuting maps may be applied in any order *)
Lemma applyPs_perm (E : Type) (Ps Ps' : list (E -> E)) : Permutation Ps Ps' -> pairwise_commute E Ps ->
  forall x, applyPs E Ps x = applyPs E Ps' x.
Proof.
  induction 1 as [|P l l' HP IH|P Q l|l l' l'' H1 IH1 H2 IH2]; intros Hc x.
  - reflexivity.
  - cbn [applyPs]. apply IH. intros A B HA HB. apply Hc; now right.
  - cbn [applyPs]. f_equal. apply Hc; [right; now left|now left].
  - rewrite IH1 by exact Hc. apply IH2. intros A B HA HB.
    apply Hc; eapply Permutation_in; try eassumption; now apply Permutation_sym.
Qed.

(* the projector of mode n built from the returned factor U_n *)
Definition gproj (s : shape) (Us : list (@matrix R)) (n : nat) : dense R -> dense R :=
  projR s n (uutR (nth n s 0%nat) (ncols (nth n Us [])) (nth n Us [])).

Lemma proj_from_applyPs s Us : forall pre Y,
  proj_from R 0 Rplus Rmult s (length pre) Us Y =
  applyPs (dense R) (map (gproj s (pre ++ Us)) (seq (length pre) (length Us))) Y.
Proof.
  induction Us as [|U Us IH]; intros pre Y; [reflexivity|].
  cbn [proj_from length seq map applyPs].
  replace (pre ++ U :: Us) with ((pre ++ [U]) ++ Us) by (rewrite <- app_assoc; reflexivity).
  replace (S (length pre)) with (length (pre ++ [U])) by (rewrite app_length; cbn; lia).
  rewrite IH. f_equal.
  - unfold gproj. rewrite <- app_assoc. cbn [app]. now rewrite nth_middle.
Qed.

Theorem concrete_hosvd_result_bound (sequential : bool) (X : dense R) (cs : list cmode) (Us : list (@matrix R)) (tolsq : R) :
  let s := dshape X in
  cs <> [] -> NoDup (map cm_k cs) -> length cs = length s -> length Us = length s -> 0 <= tolsq ->
  (forall c, In c cs -> nth (cm_k c) Us [] = leading R (cm_r c) (cm_W c) /\
                        nrows (cm_W c) = nth (cm_k c) s 0%nat /\ ncols (leading R (cm_r c) (cm_W c)) = cm_r c) ->
  (let budget := tolsq * nrm2 (dense R) (innerR s) X / INR (length cs) in
   if sequential then cseq_ok s budget X cs else cnonseq_ok s budget X cs) ->
  let T := mkT (ttm_all 0 Rplus Rmult X (transposed 0 Us)) Us in
  nrm2 (dense R) (innerR s) (subR s X (tfull_ttm 0 Rplus Rmult T)) <= tolsq * nrm2 (dense R) (innerR s) X.
Proof.
  intros s Hne Hnd Hlc HlU Htol HUs Hok T. cbv zeta in Hok.
  set (budget := tolsq * nrm2 (dense R) (innerR s) X / INR (length cs)) in Hok.
  assert (Hb : 0 <= budget).
  { apply (budget_nonneg (dense R) (innerR s) (innerR_pos s)); [exact Htol|]. destruct cs; [contradiction|cbn; lia]. }
  pose proof (cs_ok_good sequential s budget X cs Hb Hok) as Hg.
  assert (Hk : forall c, In c cs -> (cm_k c < length s)%nat).
  { intros c Hc. rewrite Forall_forall in Hg. apply (Hg (cm_pair s c)). now apply in_map. }
  assert (Hperm : Permutation (map cm_k cs) (seq 0 (length s))).
  { apply NoDup_Permutation_bis; [exact Hnd|rewrite seq_length, map_length; lia|].
    intros k Hin. apply in_map_iff in Hin. destruct Hin as (c & <- & Hc). apply in_seq. specialize (Hk c Hc). lia. }
  assert (Hrows : forall q U, nth_error Us q = Some U -> nrows U = nth q (dshape X) 0%nat).
  { intros q U Hq. assert (Hlt : (q < length Us)%nat) by (apply nth_error_Some; congruence).
    assert (Hin : In q (map cm_k cs)).
    { eapply Permutation_in; [apply Permutation_sym; exact Hperm|]. apply in_seq. lia. }
    apply in_map_iff in Hin. destruct Hin as (c & <- & Hc). destruct (HUs c Hc) as (E1 & E2 & _).
    apply nth_error_nth with (d := @nil (list R)) in Hq. rewrite <- Hq, E1. unfold leading, nrows. rewrite map_length. exact E2. }
  assert (ET : tfull_ttm 0 Rplus Rmult T = applyPs (dense R) (map (cm_proj s) cs) X).
  { unfold T. rewrite (recon_is_projection R 0 1 Rplus Rmult Rminus Ropp RTheory X Us HlU Hrows). fold s.
    rewrite (proj_from_applyPs s Us [] X : proj_from R 0 Rplus Rmult s 0%nat Us X = _). cbn [app length]. rewrite HlU.
    rewrite <- (applyPs_perm (dense R) _ _ (Permutation_map (gproj s Us) Hperm)).
    - rewrite map_map. f_equal. apply map_ext_in. intros c Hc. destruct (HUs c Hc) as (E1 & _ & E3).
      unfold gproj, cm_proj, truncproj. rewrite E1, E3. unfold uutR. now rewrite (uut_leading R 0 Rplus Rmult).
    - rewrite map_map.
      assert (E : map (fun c => gproj s Us (cm_k c)) cs = map (cm_proj s) cs).
      { apply map_ext_in. intros c Hc. destruct (HUs c Hc) as (E1 & _ & E3).
        unfold gproj, cm_proj, truncproj. rewrite E1, E3. unfold uutR. now rewrite (uut_leading R 0 Rplus Rmult). }
      rewrite E, cm_projs. apply modes_commute; [exact Hg|]. rewrite map_map. exact Hnd. }
  rewrite ET. apply (concrete_hosvd_error_bound sequential s cs X tolsq Hne Hnd Htol). exact Hok.
Qed.
