(* Proofs/W4SGcpOpt.v — the driver pyttb/gcp_opt.py::gcp_opt and _get_initial_guess as generated (Gen/GenGcpOpt.v, whole functions)
   against a hand reference that separates the accept conditions from the dispatch; then the rejection / dispatch statements over the
   generated code.  Every type test, the objective set-up, the mask product, the initial-guess numerics and both `solve` methods are
   arbitrary kernels; the world threads np.random.uniform (initial guess) and the solvers. *)
From Coq Require Import String List Arith Bool Lia.
From PV Require Import Model.W4SPrelude Gen.GenGcpOpt.
Import ListNotations.
Local Open Scope nat_scope.

Section Gcp.
Variables T_W T_Data T_Obj T_Opt T_K T_Mask T_SamplerArg T_FH T_LB T_Info T_Mat : Type.
Variable k_init_is_sequence : T_K -> bool.
Variable k_init_is_str : T_K -> bool.
Variable k_ktensor_of : T_K -> T_K.
Variable k_init_is_ktensor : T_K -> bool.
Variable k_init_shape_differs : T_K -> T_Data -> bool.
Variable k_init_ncomp_differs : T_K -> nat -> bool.
Variable k_normalize_all : T_K -> T_K.
Variable k_init_is_random : T_K -> bool.
Variable k_ndims : T_Data -> nat.
Variable k_append_random_factor : T_W -> list T_Mat -> T_Data -> nat -> nat -> T_W * list T_Mat.
Variable k_ktensor_of_factors : list T_Mat -> T_K.
Variable k_scale_to_data : T_K -> T_Data -> T_K.
Variable k_objective_is_enum : T_Obj -> bool.
Variable k_objective_len : T_Obj -> nat.
Variable k_setup : T_Obj -> T_Data -> T_FH * T_FH * T_LB.
Variable k_unpack_objective : T_Obj -> T_FH * T_FH * T_LB.
Variable k_data_supported : T_Data -> bool.
Variable k_data_is_dense : T_Data -> bool.
Variable k_mask_is_tensor : T_Mask -> bool.
Variable k_apply_mask : T_Data -> T_Mask -> T_Data.
Variable k_data_is_sparse : T_Data -> bool.
Variable k_mask_given : T_Mask -> bool.
Variable k_optimizer_supported : T_Opt -> bool.
Variable k_optimizer_is_lbfgsb : T_Opt -> bool.
Variable k_optimizer_is_stochastic : T_Opt -> bool.
Variable k_solve_stochastic : T_W -> T_Opt -> T_K -> T_Data -> T_FH -> T_FH -> T_LB -> T_SamplerArg -> T_W * (T_K * T_Info).
Variable k_mask_data : T_Mask -> T_Mask.
Variable k_solve_lbfgsb : T_W -> T_Opt -> T_K -> T_Data -> T_FH -> T_FH -> T_LB -> T_Mask -> T_W * (T_K * T_Info).
Variable k_set_main_time : T_Info -> T_Info.

Notation gguess := (GenGcpOpt.get_initial_guess T_W T_Data T_K T_Mat k_init_is_sequence k_init_is_str k_ktensor_of k_init_is_ktensor
  k_init_shape_differs k_init_ncomp_differs k_normalize_all k_init_is_random k_ndims k_append_random_factor k_ktensor_of_factors k_scale_to_data).
Notation gloop := (GenGcpOpt.get_initial_guess_loop1 T_W T_Data T_Mat k_append_random_factor).
Notation ggcp := (GenGcpOpt.gcp_opt T_W T_Data T_Obj T_Opt T_K T_Mask T_SamplerArg T_FH T_LB T_Info T_Mat k_init_is_sequence k_init_is_str
  k_ktensor_of k_init_is_ktensor k_init_shape_differs k_init_ncomp_differs k_normalize_all k_init_is_random k_ndims k_append_random_factor
  k_ktensor_of_factors k_scale_to_data k_objective_is_enum k_objective_len k_setup k_unpack_objective k_data_supported k_data_is_dense
  k_mask_is_tensor k_apply_mask k_data_is_sparse k_mask_given k_optimizer_supported k_optimizer_is_lbfgsb k_optimizer_is_stochastic
  k_solve_stochastic k_mask_data k_solve_lbfgsb k_set_main_time).

(* ---- _get_initial_guess ---- *)
Fixpoint h_draws (w : T_W) (fm : list T_Mat) (data : T_Data) (rank fuel i : nat) : T_W * list T_Mat :=
  match fuel with
  | O => (w, fm)
  | S fuel' => let '(w', fm') := k_append_random_factor w fm data i rank in h_draws w' fm' data rank fuel' (S i)
  end.
Lemma guess_loop_spec data rank : forall fuel i fm w,
  gloop data rank fuel i (fm, w) = Some (snd (h_draws w fm data rank fuel i), fst (h_draws w fm data rank fuel i)).
Proof.
  induction fuel as [|fuel IH]; intros i fm w; [reflexivity|].
  cbn [GenGcpOpt.get_initial_guess_loop1 h_draws]. destruct (k_append_random_factor w fm data i rank) as [w' fm']. apply IH.
Qed.
Definition h_guess (w : T_W) (data : T_Data) (rank : nat) (init : T_K) : option (T_K * T_W) :=
  let init1 := if k_init_is_sequence init && negb (k_init_is_str init) then k_ktensor_of init else init in
  if k_init_is_ktensor init1 then
    if k_init_shape_differs init1 data || k_init_ncomp_differs init1 rank then None else Some (k_normalize_all init1, w)
  else if k_init_is_random init1 then
    let '(w', fm) := h_draws w [] data rank (k_ndims data) 0 in
    Some (k_normalize_all (k_scale_to_data (k_ktensor_of_factors fm) data), w')
  else None.
Theorem guess_bridge w data rank init : gguess w data rank init = h_guess w data rank init.
Proof.
  unfold GenGcpOpt.get_initial_guess, h_guess.
  set (init1 := if k_init_is_sequence init && negb (k_init_is_str init) then k_ktensor_of init else init).
  destruct (k_init_is_ktensor init1).
  - destruct (k_init_shape_differs init1 data || k_init_ncomp_differs init1 rank); reflexivity.
  - destruct (k_init_is_random init1); [|reflexivity].
    rewrite guess_loop_spec. destruct (h_draws w [] data rank (k_ndims data) 0) as [w' fm]. reflexivity.
Qed.

(* ---- gcp_opt ---- *)
Definition h_data (data : T_Data) (mask : T_Mask) : T_Data :=
  if k_data_is_dense data && k_mask_is_tensor mask then k_apply_mask data mask else data.
Definition h_handles (objective : T_Obj) (data : T_Data) : T_FH * T_FH * T_LB :=
  if k_objective_is_enum objective then k_setup objective data else k_unpack_objective objective.
(* accepted before the initial guess is built *)
Definition h_accept1 (data : T_Data) (objective : T_Obj) (mask : T_Mask) : bool :=
  (k_objective_is_enum objective || (k_objective_len objective =? 3)) && k_data_supported data &&
  (k_data_is_dense data && k_mask_is_tensor mask || negb (k_data_is_sparse data && k_mask_given mask)).
(* accepted after it (tests see the masked data) *)
Definition h_accept2 (data' : T_Data) (optimizer : T_Opt) (mask : T_Mask) : bool :=
  k_optimizer_supported optimizer && negb (k_data_is_sparse data' && k_optimizer_is_lbfgsb optimizer) &&
  negb (k_optimizer_is_stochastic optimizer && k_mask_given mask).
Definition h_gcp_opt (w : T_W) (data : T_Data) (rank : nat) (objective : T_Obj) (optimizer : T_Opt) (init : T_K) (mask : T_Mask)
           (sampler : T_SamplerArg) : option (T_K * T_K * T_Info * T_W) :=
  if negb (h_accept1 data objective mask) then None else
  let '(fh, gh, lb) := h_handles objective data in
  let data' := h_data data mask in
  match h_guess w data' rank init with
  | None => None
  | Some (M0, w1) =>
    if negb (h_accept2 data' optimizer mask) then None else
    if k_optimizer_is_stochastic optimizer
    then let '(w2, (result, info)) := k_solve_stochastic w1 optimizer M0 data' fh gh lb sampler in Some (result, M0, k_set_main_time info, w2)
    else if k_data_is_dense data'
         then let mask' := if k_mask_is_tensor mask then k_mask_data mask else mask in
              let '(w2, (result, info)) := k_solve_lbfgsb w1 optimizer M0 data' fh gh lb mask' in Some (result, M0, k_set_main_time info, w2)
         else None
  end.

Theorem gcp_opt_bridge w data rank objective optimizer init mask sampler printitn :
  ggcp w data rank objective optimizer init mask sampler printitn = h_gcp_opt w data rank objective optimizer init mask sampler.
Proof.
  unfold GenGcpOpt.gcp_opt, h_gcp_opt, h_accept1, h_accept2, h_handles, h_data.
  destruct (k_objective_is_enum objective) eqn:Eo; cbn [negb orb andb].
  - destruct (k_setup objective data) as [[fh gh] lb].
    destruct (k_data_supported data); cbn [negb andb]; [|reflexivity].
    destruct (k_data_is_dense data && k_mask_is_tensor mask); cbn [orb negb].
    + rewrite guess_bridge. destruct (h_guess _ _ _ _) as [[M0 w1]|]; [|reflexivity].
      destruct (k_optimizer_supported optimizer); cbn [negb andb]; [|reflexivity].
      destruct (k_data_is_sparse _ && k_optimizer_is_lbfgsb optimizer); cbn [negb andb]; [reflexivity|].
      destruct (k_optimizer_is_stochastic optimizer && k_mask_given mask); cbn [negb]; [reflexivity|].
      destruct (k_optimizer_is_stochastic optimizer).
      * destruct (k_solve_stochastic _ _ _ _ _ _ _ _) as [w2 [r i]]. reflexivity.
      * destruct (k_data_is_dense _); [|reflexivity]. destruct (k_solve_lbfgsb _ _ _ _ _ _ _ _) as [w2 [r i]]. reflexivity.
    + destruct (k_data_is_sparse data && k_mask_given mask); cbn [negb]; [reflexivity|].
      rewrite guess_bridge. destruct (h_guess _ _ _ _) as [[M0 w1]|]; [|reflexivity].
      destruct (k_optimizer_supported optimizer); cbn [negb andb]; [|reflexivity].
      destruct (k_data_is_sparse _ && k_optimizer_is_lbfgsb optimizer); cbn [negb andb]; [reflexivity|].
      destruct (k_optimizer_is_stochastic optimizer && k_mask_given mask); cbn [negb]; [reflexivity|].
      destruct (k_optimizer_is_stochastic optimizer).
      * destruct (k_solve_stochastic _ _ _ _ _ _ _ _) as [w2 [r i]]. reflexivity.
      * destruct (k_data_is_dense _); [|reflexivity]. destruct (k_solve_lbfgsb _ _ _ _ _ _ _ _) as [w2 [r i]]. reflexivity.
  - destruct (k_objective_len objective =? 3); cbn [negb andb]; [|reflexivity].
    destruct (k_unpack_objective objective) as [[fh gh] lb].
    destruct (k_data_supported data); cbn [negb andb]; [|reflexivity].
    destruct (k_data_is_dense data && k_mask_is_tensor mask); cbn [orb negb].
    + rewrite guess_bridge. destruct (h_guess _ _ _ _) as [[M0 w1]|]; [|reflexivity].
      destruct (k_optimizer_supported optimizer); cbn [negb andb]; [|reflexivity].
      destruct (k_data_is_sparse _ && k_optimizer_is_lbfgsb optimizer); cbn [negb andb]; [reflexivity|].
      destruct (k_optimizer_is_stochastic optimizer && k_mask_given mask); cbn [negb]; [reflexivity|].
      destruct (k_optimizer_is_stochastic optimizer).
      * destruct (k_solve_stochastic _ _ _ _ _ _ _ _) as [w2 [r i]]. reflexivity.
      * destruct (k_data_is_dense _); [|reflexivity]. destruct (k_solve_lbfgsb _ _ _ _ _ _ _ _) as [w2 [r i]]. reflexivity.
    + destruct (k_data_is_sparse data && k_mask_given mask); cbn [negb]; [reflexivity|].
      rewrite guess_bridge. destruct (h_guess _ _ _ _) as [[M0 w1]|]; [|reflexivity].
      destruct (k_optimizer_supported optimizer); cbn [negb andb]; [|reflexivity].
      destruct (k_data_is_sparse _ && k_optimizer_is_lbfgsb optimizer); cbn [negb andb]; [reflexivity|].
      destruct (k_optimizer_is_stochastic optimizer && k_mask_given mask); cbn [negb]; [reflexivity|].
      destruct (k_optimizer_is_stochastic optimizer).
      * destruct (k_solve_stochastic _ _ _ _ _ _ _ _) as [w2 [r i]]. reflexivity.
      * destruct (k_data_is_dense _); [|reflexivity]. destruct (k_solve_lbfgsb _ _ _ _ _ _ _ _) as [w2 [r i]]. reflexivity.
Qed.

(* ---- statements over the generated driver ---- *)
(* rejected calls (each row: ValueError in the source) *)
Theorem gcp_opt_rejects w data rank objective optimizer init mask sampler printitn :
  (k_objective_is_enum objective = false -> k_objective_len objective <> 3 -> ggcp w data rank objective optimizer init mask sampler printitn = None) /\
  (k_data_supported data = false -> ggcp w data rank objective optimizer init mask sampler printitn = None) /\
  (k_data_is_dense data = false -> k_data_is_sparse data = true -> k_mask_given mask = true ->
   ggcp w data rank objective optimizer init mask sampler printitn = None) /\
  (k_optimizer_supported optimizer = false -> ggcp w data rank objective optimizer init mask sampler printitn = None) /\
  (k_data_is_sparse (h_data data mask) = true -> k_optimizer_is_lbfgsb optimizer = true ->
   ggcp w data rank objective optimizer init mask sampler printitn = None) /\
  (k_optimizer_is_stochastic optimizer = true -> k_mask_given mask = true ->
   ggcp w data rank objective optimizer init mask sampler printitn = None) /\
  (h_guess w (h_data data mask) rank init = None -> ggcp w data rank objective optimizer init mask sampler printitn = None).
Proof.
  rewrite gcp_opt_bridge. unfold h_gcp_opt. repeat split.
  - intros H1 H2. unfold h_accept1. rewrite H1. apply Nat.eqb_neq in H2. rewrite H2. reflexivity.
  - intros H. unfold h_accept1. rewrite H. now rewrite andb_false_r.
  - intros H1 H2 H3. unfold h_accept1. rewrite H1, H2, H3. cbn. now rewrite andb_false_r.
  - intros H. destruct (negb (h_accept1 _ _ _)); [reflexivity|]. destruct (h_handles objective data) as [[fh gh] lb].
    destruct (h_guess _ _ _ _) as [[M0 w1]|]; [|reflexivity]. unfold h_accept2. rewrite H. reflexivity.
  - intros H1 H2. destruct (negb (h_accept1 _ _ _)); [reflexivity|]. destruct (h_handles objective data) as [[fh gh] lb].
    destruct (h_guess _ _ _ _) as [[M0 w1]|]; [|reflexivity]. unfold h_accept2. rewrite H1, H2. cbn. now rewrite andb_false_r.
  - intros H1 H2. destruct (negb (h_accept1 _ _ _)); [reflexivity|]. destruct (h_handles objective data) as [[fh gh] lb].
    destruct (h_guess _ _ _ _) as [[M0 w1]|]; [|reflexivity]. unfold h_accept2. rewrite H1, H2. cbn. now rewrite andb_false_r.
  - intros H. destruct (negb (h_accept1 _ _ _)); [reflexivity|]. destruct (h_handles objective data) as [[fh gh] lb]. now rewrite H.
Qed.

(* a returned triple: M0 is the initial guess built from the (masked) data; exactly one solve ran — the stochastic one with the
   caller's sampler, or L-BFGS-B with the mask's data array on dense data — from M0, with the handles of the objective; the result and
   the info (plus main_time) are what it returned *)
Theorem gcp_opt_result w data rank objective optimizer init mask sampler printitn result M0 info w2 :
  ggcp w data rank objective optimizer init mask sampler printitn = Some (result, M0, info, w2) ->
  let data' := h_data data mask in
  let '(fh, gh, lb) := h_handles objective data in
  exists w1 info0,
    h_guess w data' rank init = Some (M0, w1) /\ info = k_set_main_time info0 /\
    h_accept1 data objective mask = true /\ h_accept2 data' optimizer mask = true /\
    (if k_optimizer_is_stochastic optimizer
     then k_solve_stochastic w1 optimizer M0 data' fh gh lb sampler = (w2, (result, info0))
     else k_data_is_dense data' = true /\
          k_solve_lbfgsb w1 optimizer M0 data' fh gh lb (if k_mask_is_tensor mask then k_mask_data mask else mask) = (w2, (result, info0))).
Proof.
  rewrite gcp_opt_bridge. unfold h_gcp_opt. cbv zeta.
  destruct (h_accept1 data objective mask); cbn [negb]; [|discriminate].
  destruct (h_handles objective data) as [[fh gh] lb].
  destruct (h_guess w (h_data data mask) rank init) as [[M1 w1]|]; [|discriminate].
  destruct (h_accept2 (h_data data mask) optimizer mask); cbn [negb]; [|discriminate].
  destruct (k_optimizer_is_stochastic optimizer).
  - destruct (k_solve_stochastic _ _ _ _ _ _ _ _) as [w3 [r i]] eqn:E. intros H. inversion H. subst. exists w1, i. repeat split; try reflexivity; exact E.
  - destruct (k_data_is_dense (h_data data mask)) eqn:Ed; [|discriminate].
    destruct (k_solve_lbfgsb _ _ _ _ _ _ _ _) as [w3 [r i]] eqn:E. intros H. inversion H. subst. exists w1, i. repeat split; try reflexivity; exact E.
Qed.

(* the initial guess: a caller's ktensor (or sequence of factors made one) of the data's shape and rank is normalised and handed on
   without a random draw; "random" draws one factor per mode (mode 0 first), scales to the data's norm and normalises *)
Theorem guess_cases w data rank init :
  let init1 := if k_init_is_sequence init && negb (k_init_is_str init) then k_ktensor_of init else init in
  (k_init_is_ktensor init1 = true ->
   gguess w data rank init = if k_init_shape_differs init1 data || k_init_ncomp_differs init1 rank then None else Some (k_normalize_all init1, w)) /\
  (k_init_is_ktensor init1 = false -> k_init_is_random init1 = true ->
   gguess w data rank init = Some (k_normalize_all (k_scale_to_data (k_ktensor_of_factors (snd (h_draws w [] data rank (k_ndims data) 0))) data),
                                   fst (h_draws w [] data rank (k_ndims data) 0))) /\
  (k_init_is_ktensor init1 = false -> k_init_is_random init1 = false -> gguess w data rank init = None).
Proof.
  cbv zeta. rewrite guess_bridge. unfold h_guess. repeat split.
  - intros ->. reflexivity.
  - intros -> ->. destruct (h_draws w [] data rank (k_ndims data) 0). reflexivity.
  - intros -> ->. reflexivity.
Qed.
End Gcp.
