(* Props/C18.v — decomposition results do not depend on how the problem is presented (PARTIAL: exact-arithmetic theorems about
   the CP-ALS model of Model/C09Als.v + Model/C09Loop.v — repr, print, scale, relabel — and scale equivariance of HOSVD / Tucker-ALS
   on the rank rule of Model/C10Tucker.v and the abstract projector model of Proofs/C10Proofs.v; cp_apr, gcp_opt and the seed
   relation are tied by metamorphic correspondence only).
   Only statements, `exact`, Print Assumptions and non-vacuity examples. *)
Set Warnings "-ambiguous-paths".
From Coq Require Import List Arith Bool ZArith Ring Lia QArith Qcanon Reals.
From PV Require Import Base.Index Base.Perm Base.Sum Np.Array Model.Sparse Model.Repr Model.Harness Model.C09Als Model.C09Loop Model.C18Cmp
  Model.C10Tucker Np.NpR
  Proofs.C09Identity Proofs.C09Monotone Proofs.C09Scaling Proofs.C09LoopProofs Proofs.C18Repr Proofs.C18Relabel
  Proofs.C10Proofs Proofs.C18Tucker Model.C14Nvecs Model.C14Gram Proofs.C18Print Proofs.C18TuckerRel Proofs.C18Seed.
Import ListNotations.

Section C18.
Variable V : Type.
Variables (v0 v1 : V) (vadd vmul vsub : V -> V -> V) (vopp : V -> V).
Hypothesis Vring : ring_theory v0 v1 vadd vmul vsub vopp (@eq V).
Local Notation mx := (@matrix V).

(* C18_repr: the sweep reads the data only through its mttkrp function: two holders with the same mttkrp give IDENTICAL iterates
   (state, weights and saved mttkrp included) for every start, mode order, number of sweeps and all oracles *)
Theorem C18_repr : forall (mk1 mk2 : list mx -> nat -> mx) (solve : mx -> mx -> mx) (scale : nat -> mx -> list V * mx) (R : nat),
  (forall U n, mk1 U n = mk2 U n) ->
  forall k dims st,
  als_iter v0 v1 vadd vmul mk1 solve scale R k dims st = als_iter v0 v1 vadd vmul mk2 solve scale R k dims st.
Proof. exact (iter_repr V v0 v1 vadd vmul). Qed.

(* ... in particular holders (dense / sparse / Tucker / sum) that DENOTE the same array on the shape *)
Theorem C18_repr_den : forall (s : shape) (X1 X2 : idx -> V) (solve : mx -> mx -> mx) (scale : nat -> mx -> list V * mx) R k dims st,
  (forall i, inb s i = true -> X1 i = X2 i) ->
  als_iter v0 v1 vadd vmul (fun U n => mttkrp_mat v0 v1 vadd vmul s X1 U n R) solve scale R k dims st =
  als_iter v0 v1 vadd vmul (fun U n => mttkrp_mat v0 v1 vadd vmul s X2 U n R) solve scale R k dims st.
Proof. exact (iter_repr_den V v0 v1 vadd vmul). Qed.

(* C18_scale: data scaled by an invertible constant kappa (a positive constant of an ordered field), same start (or any start
   that differs by invertible column scalings), ANY two column-scaling oracles: after every k+1 sweeps the model of the scaled
   problem denotes kappa * the model of the original problem *)
Theorem C18_scale : forall (R : nat) (X1 X2 : idx -> V) (kappa kappai : V), vmul kappa kappai = v1 ->
  forall (mk1 mk2 : list mx -> nat -> mx) (solve1 solve2 : mx -> mx -> mx) (scale1 scale2 : nat -> mx -> list V * mx)
         (s : shape) (dims : list nat) (st1 st2 : als_state V) (k : nat),
  related V v0 v1 vmul R s st1 st2 ->
  (forall i, inb s i = true -> X2 i = vmul kappa (X1 i)) -> dims <> [] ->
  iter_hyps V v0 v1 vadd vmul R X1 X2 mk1 mk2 solve1 solve2 scale1 scale2 s (S k) dims st1 st2 ->
  related V v0 v1 vmul R s (als_iter v0 v1 vadd vmul mk1 solve1 scale1 R (S k) dims st1)
                              (als_iter v0 v1 vadd vmul mk2 solve2 scale2 R (S k) dims st2) /\
  den_scaled V v0 v1 vadd vmul kappa s (als_iter v0 v1 vadd vmul mk1 solve1 scale1 R (S k) dims st1)
                                     (als_iter v0 v1 vadd vmul mk2 solve2 scale2 R (S k) dims st2).
Proof. exact (iter_equiv V v0 v1 vadd vmul vsub vopp Vring). Qed.

(* ... and the fit is unchanged: (||X2-M2||/||X2||)^2 = (||X1-M1||/||X1||)^2, cross-multiplied *)
Theorem C18_scale_fit : forall (s : shape) (X1 X2 M1 M2 : idx -> V) (kappa : V),
  (forall i, inb s i = true -> X2 i = vmul kappa (X1 i)) -> (forall i, inb s i = true -> M2 i = vmul kappa (M1 i)) ->
  vmul (resid_den v0 vadd vmul vsub s X2 M2) (normsq_den v0 vadd vmul s X1)
  = vmul (resid_den v0 vadd vmul vsub s X1 M1) (normsq_den v0 vadd vmul s X2).
Proof. exact (fit_scale_invariant V v0 v1 vadd vmul vsub vopp Vring). Qed.

(* C18_relabel (denotation level): relabelling the modes of a Kruskal model by ANY permutation p relabels the array it denotes *)
Theorem C18_relabel_den : forall (K : ktensor V) (p : list nat) (i : idx),
  is_perm p (length (kfactors K)) -> length i = length (kfactors K) ->
  den_k v0 v1 vadd vmul (mkK (kweights K) (pick [] p (kfactors K))) (pick 0%nat p i) = den_k v0 v1 vadd vmul K i.
Proof. exact (denk_pick V v0 v1 vadd vmul vsub vopp Vring). Qed.

(* C18_relabel (ALGORITHM level): running the CP-ALS sweep model on the permuted data X' = X.permute(p) (shape pick p s), the start
   with its factor list permuted and the mode order mapped by m |-> index_of m p gives, after every number k of sweeps and for
   every solve / column-scaling oracle, the same weights, the same saved mttkrp and the PERMUTED factor list (list equality) *)
Theorem C18_relabel : forall (s : shape) (X : idx -> V) (p : list nat) (solve : mx -> mx -> mx) (scale : nat -> mx -> list V * mx)
         (R k : nat) (dims : list nat) (st : als_state V),
  is_perm p (length s) -> map (@nrows V) (st_U st) = s -> Forall (fun m => (m < length s)%nat) dims ->
  let X' := fun i' => X (pick 0%nat (invperm p) i') in
  let st' := mkAls (st_w st) (pick [] p (st_U st)) (st_P st) in
  let dims' := map (fun m => index_of m p) dims in
  let r := als_iter v0 v1 vadd vmul (fun U n => mttkrp_mat v0 v1 vadd vmul s X U n R) solve scale R k dims st in
  let r' := als_iter v0 v1 vadd vmul (fun U n => mttkrp_mat v0 v1 vadd vmul (pick 0%nat p s) X' U n R) solve scale R k dims' st' in
  st_w r' = st_w r /\ st_U r' = pick [] p (st_U r) /\ st_P r' = st_P r.
Proof.
  intros s X p solve scale R k dims st Hp.
  exact (relabel_algorithm V v0 v1 vadd vmul vsub vopp Vring solve scale R s X p Hp k dims st).
Qed.

(* ... hence the model of the relabelled run denotes the relabelled array of the original run's model *)
Theorem C18_relabel_model : forall (s : shape) (X : idx -> V) (p : list nat) (solve : mx -> mx -> mx) (scale : nat -> mx -> list V * mx)
         (R k : nat) (dims : list nat) (st : als_state V) (i : idx),
  is_perm p (length s) -> map (@nrows V) (st_U st) = s -> Forall (fun m => (m < length s)%nat) dims -> length i = length s ->
  let X' := fun i' => X (pick 0%nat (invperm p) i') in
  let st' := mkAls (st_w st) (pick [] p (st_U st)) (st_P st) in
  let dims' := map (fun m => index_of m p) dims in
  st_den V v0 v1 vadd vmul (als_iter v0 v1 vadd vmul (fun U n => mttkrp_mat v0 v1 vadd vmul (pick 0%nat p s) X' U n R) solve scale R k dims' st')
         (pick 0%nat p i)
  = st_den V v0 v1 vadd vmul (als_iter v0 v1 vadd vmul (fun U n => mttkrp_mat v0 v1 vadd vmul s X U n R) solve scale R k dims st) i.
Proof.
  intros s X p solve scale R k dims st i Hp.
  exact (relabel_algorithm_den V v0 v1 vadd vmul vsub vopp Vring solve scale R s X p Hp k dims st i).
Qed.

(* C18_scale, Tucker side, concrete linear pieces (ring-generic): the mode-n product and the Gram matrix of the mode-n unfolding of
   c.X, and a Tucker model whose core is scaled by c *)
Theorem C18_ttm_scale : forall (c : V) (X : idx -> V) (In n : nat) (M : list (list V)) (i : idx),
  ttm_den v0 vadd vmul (fun i => vmul c (X i)) In n M i = vmul c (ttm_den v0 vadd vmul X In n M i).
Proof. exact (ttm_den_scale V v0 v1 vadd vmul vsub vopp Vring). Qed.
Theorem C18_gram_scale : forall (c : V) (s : shape) (X : idx -> V) (n a b : nat),
  gram_den v0 vadd vmul s (fun i => vmul c (X i)) n a b = vmul (vmul c c) (gram_den v0 vadd vmul s X n a b).
Proof. exact (gram_den_scale V v0 v1 vadd vmul vsub vopp Vring). Qed.
Theorem C18_tucker_core_scale : forall (c : V) (core core' : dense V) (Us : list (list (list V))),
  dshape core' = dshape core -> (forall j, den_dense v0 core' j = vmul c (den_dense v0 core j)) ->
  forall i, den_t v0 v1 vadd vmul (mkT core' Us) i = vmul c (den_t v0 v1 vadd vmul (mkT core Us) i).
Proof. exact (den_t_scale_core V v0 v1 vadd vmul vsub vopp Vring). Qed.
End C18.

(* C18_print: printing branches of cp_als (Model/C09Loop.v, transliterated branch by branch) never touch the model state:
   for any two printing intervals the returned model, the iteration count and the whole fit trace are identical ... *)
Section C18print.
Variables (St F : Type) (sweep : nat -> St -> St) (fit_mttkrp fit_innerprod : St -> F * F)
          (fchange_lt : F -> F -> F -> bool) (fit0 : F) (arrange fixsigns : St -> St).
Local Notation RUN := (cpals_run sweep fit_mttkrp fit_innerprod fchange_lt fit0 arrange fixsigns).

Theorem C18_print_state : forall tol p1 p2 s0 m dofix (r1 r2 : result St F),
  RUN tol p1 s0 m dofix = Some r1 -> RUN tol p2 s0 m dofix = Some r2 ->
  r_state r1 = r_state r2 /\ r_iters r1 = r_iters r2 /\ r_trace r1 = r_trace r2.
Proof. exact (@cpals_print_indep_state St F sweep fit_mttkrp fit_innerprod fchange_lt fit0 arrange fixsigns). Qed.

(* ... and the reported fit / residual too, provided the innerprod formula used when printing agrees with the saved-mttkrp
   formula used otherwise (A-43) — which is theorem C09_fit_identity in exact arithmetic; for maxiters = 0 (no sweep: the silent
   run evaluates the innerprod formula on the start, the printing run on the arranged start) arrange / fixsigns must not change
   what that formula sees, which is C08_invariant_arrange / C08_invariant_fixsigns *)
Theorem C18_print : forall tol p1 p2 s0 m dofix (r1 r2 : result St F),
  (forall s, fit_innerprod (cpals_finish arrange fixsigns dofix s) = fit_mttkrp s) ->
  (m = 0%nat -> fit_innerprod (cpals_finish arrange fixsigns dofix s0) = fit_innerprod s0) ->
  RUN tol p1 s0 m dofix = Some r1 -> RUN tol p2 s0 m dofix = Some r2 ->
  r_state r1 = r_state r2 /\ r_iters r1 = r_iters r2 /\ r_normres r1 = r_normres r2 /\ r_fit r1 = r_fit r2 /\ r_trace r1 = r_trace r2.
Proof. exact (@cpals_print_indep St F sweep fit_mttkrp fit_innerprod fchange_lt fit0 arrange fixsigns). Qed.

Theorem C18_print_silent : forall tol s0 m dofix (r : result St F), RUN tol 0 s0 m dofix = Some r -> r_log r = [].
Proof. exact (@cpals_log_silent St F sweep fit_mttkrp fit_innerprod fchange_lt fit0 arrange fixsigns). Qed.
End C18print.

(* C18_scale for HOSVD: the rank rule of hosvd.py (Model/C10Tucker.v, over R) picks the same number of columns when the Gram
   eigenvalues and the threshold tol^2 ||X||^2 / d are both multiplied by k = c^2 > 0 (data scaled by c) *)
Theorem C18_hosvd_rank_scale : forall (eig : list R) (t k : R), (0 < k)%R ->
  auto_rank 0%R Rplus Rltb (map (Rmult k) eig) (k * t)%R = auto_rank 0%R Rplus Rltb eig t.
Proof. exact hosvd_rank_scale. Qed.
Theorem C18_hosvd_ncols_scale : forall (user_rank : nat) (eig : list R) (t k : R), (0 < k)%R ->
  ncols_impl 0%R Rplus Rltb user_rank (map (Rmult k) eig) (k * t)%R = ncols_impl 0%R Rplus Rltb user_rank eig t.
Proof. exact hosvd_ncols_scale. Qed.

(* the reported Tucker-ALS fit 1 - sqrt(|normX^2 - ||core||^2|)/normX is unchanged when both squared norms scale by c^2 *)
Theorem C18_tucker_fit_scale : forall (c nx nc nx' nc' : R), (0 < c)%R -> (0 < nx)%R ->
  nx' = (c * c * nx)%R -> nc' = (c * c * nc)%R ->
  (1 - sqrt (Rabs (nx' - nc')) / sqrt nx' = 1 - sqrt (Rabs (nx - nc)) / sqrt nx)%R.
Proof. exact tucker_fit_scale. Qed.

(* abstract algorithm level (the projector model of C10: a real inner-product space E with a scalar multiplication): HOSVD chooses a
   projector per mode from the current vector by an oracle `choose` (eigen-decomposition of the Gram matrix + rank rule) that is
   invariant under positive scaling (C18_gram_scale + C18_hosvd_rank_scale: c^2 G has the eigenvectors of G and the same rank) and
   whose projectors are homogeneous; Tucker-ALS updates an abstract factor state by an oracle `upd` (nvecs of X x_{m<>n} U_m^T) with
   the same invariance and a linear analysis map A (core = X x_n U_n^T) *)
Section C18tucker.
Variable E : Type.
Variables (sub : E -> E -> E) (inner : E -> E -> R) (smul : R -> E -> E).
Hypothesis inner_sym : forall a b, inner a b = inner b a.
Hypothesis inner_smul : forall c a b, inner (smul c a) b = (c * inner a b)%R.
Hypothesis sub_smul : forall c a b, sub (smul c a) (smul c b) = smul c (sub a b).
Variable choose : nat -> E -> (E -> E).
Hypothesis choose_scale : forall n c x, (0 < c)%R -> choose n (smul c x) = choose n x.
Hypothesis choose_homog : forall n y c x, (0 < c)%R -> choose n y (smul c x) = smul c (choose n y x).

(* sequential or not, any mode order: same projectors, result scaled by c, relative error unchanged *)
Theorem C18_hosvd_scale : forall (sequential : bool) (modes : list nat) (c : R) (x : E), (0 < c)%R ->
  fst (hosvd E choose sequential modes (smul c x)) = fst (hosvd E choose sequential modes x) /\
  snd (hosvd E choose sequential modes (smul c x)) = smul c (snd (hosvd E choose sequential modes x)).
Proof. exact (hosvd_scale E smul choose choose_scale choose_homog). Qed.
Theorem C18_hosvd_relerr_scale : forall (sequential : bool) (modes : list nat) (c : R) (x : E), (0 < c)%R ->
  let r := snd (hosvd E choose sequential modes x) in let r' := snd (hosvd E choose sequential modes (smul c x)) in
  nrm2 E inner (sub (smul c x) r') = (c * c * nrm2 E inner (sub x r))%R /\
  (nrm2 E inner (sub (smul c x) r') * nrm2 E inner x = nrm2 E inner (sub x r) * nrm2 E inner (smul c x))%R.
Proof. exact (hosvd_relerr_scale E sub inner smul inner_sym inner_smul sub_smul choose choose_scale choose_homog). Qed.

Variables (Fs F : Type) (A : Fs -> E -> F) (smulF : R -> F -> F) (innerF : F -> F -> R).
Variable upd : nat -> Fs -> E -> Fs.
Hypothesis upd_scale : forall n U c x, (0 < c)%R -> upd n U (smul c x) = upd n U x.
Hypothesis A_lin : forall U c x, (0 < c)%R -> A U (smul c x) = smulF c (A U x).
Hypothesis innerF_smul : forall c a, innerF (smulF c a) (smulF c a) = (c * c * innerF a a)%R.

(* Tucker-ALS after k sweeps in any mode order from the same start: identical factors, core scaled by c, residual scaled by c^2, fit equal *)
Theorem C18_tucker_als_scale : forall (dimorder : list nat) (k : nat) (U0 : Fs) (c : R) (x : E), (0 < c)%R ->
  let g := als_core E Fs F A upd dimorder k U0 x in let g' := als_core E Fs F A upd dimorder k U0 (smul c x) in
  sweeps E Fs upd dimorder k U0 (smul c x) = sweeps E Fs upd dimorder k U0 x /\
  g' = smulF c g /\
  resid2 E inner F innerF (smul c x) g' = (c * c * resid2 E inner F innerF x g)%R /\
  (resid2 E inner F innerF (smul c x) g' * nrm2 E inner x = resid2 E inner F innerF x g * nrm2 E inner (smul c x))%R /\
  ((0 < nrm2 E inner x)%R -> fit_of E inner F innerF (smul c x) g' = fit_of E inner F innerF x g).
Proof. exact (tucker_als_scale E inner smul inner_sym inner_smul Fs F A smulF innerF upd upd_scale A_lin innerF_smul). Qed.

(* ... and the whole loop with its stopping test |fitold - fit| < stoptol: same iteration count, factors and fit; core scaled *)
Theorem C18_tucker_als_loop_scale : forall (stoptol : R) (dimorder : list nat) (maxiters : nat) (U : Fs) (fit0 c : R) (x : E),
  (0 < c)%R -> (0 < nrm2 E inner x)%R ->
  als_loop E inner Fs F A innerF upd stoptol dimorder maxiters U fit0 (smul c x)
  = als_loop E inner Fs F A innerF upd stoptol dimorder maxiters U fit0 x /\
  A (fst (fst (als_loop E inner Fs F A innerF upd stoptol dimorder maxiters U fit0 (smul c x)))) (smul c x)
  = smulF c (A (fst (fst (als_loop E inner Fs F A innerF upd stoptol dimorder maxiters U fit0 x))) x).
Proof. exact (tucker_als_loop_scale E inner smul inner_sym inner_smul Fs F A smulF innerF upd upd_scale A_lin innerF_smul). Qed.
End C18tucker.


(* ---------------------------------------------------------------------------------------------------------------------------- *)
(* wave 3: printing for hosvd / tucker_als / cp_apr (MU) on the transliterated drivers of Proofs/C18Print.v (numerics = oracles,   *)
(* every print branch a statement of the model; printing settings are Python ints = Z)                                             *)
(* ---------------------------------------------------------------------------------------------------------------------------- *)
Section C18print_hosvd.
Variables (T M FS F : Type) (f0 : F) (fadd : F -> F -> F) (fltb : F -> F -> bool) (normsq : T -> F) (thresh : F -> F)
          (eigs : nat -> T -> list F) (lead : nat -> T -> nat -> M) (setf : FS -> nat -> M -> FS) (fs0 : FS)
          (shrink : T -> nat -> M -> T) (core_all : T -> FS -> T) (relnorm : T -> T -> FS -> F) (fleb : F -> F -> bool) (tol : F)
          (ranks : nat -> nat) (sequential : bool).
Local Notation HV := (hv_run T M FS F f0 fadd fltb normsq thresh eigs lead setf fs0 shrink core_all relnorm fleb tol ranks sequential).
(* the returned Tucker model (or the IndexError of the rank rule) is the same for any two verbosity values, user or automatic
   ranks, sequential or not, any mode order *)
Theorem C18_print_hosvd : forall (v1 v2 : Z) (dimorder : list nat) (X : T), fst (HV v1 dimorder X) = fst (HV v2 dimorder X).
Proof. exact (hosvd_print_indep T M FS F f0 fadd fltb normsq thresh eigs lead setf fs0 shrink core_all relnorm fleb tol ranks sequential). Qed.
Theorem C18_print_hosvd_silent : forall (v : Z) (dimorder : list nat) (X : T), (v <= 0)%Z -> snd (HV v dimorder X) = [].
Proof. exact (hosvd_silent T M FS F f0 fadd fltb normsq thresh eigs lead setf fs0 shrink core_all relnorm fleb tol ranks sequential). Qed.
End C18print_hosvd.

Section C18print_tucker.
Variables (Fs C F : Type) (sweep : Fs -> Fs * C) (resid : C -> F) (fit_of : F -> F) (fchange : F -> F -> F) (fltb : F -> F -> bool)
          (fit0 stoptol : F).
Local Notation TK := (tk_run Fs C F sweep resid fit_of fchange fltb fit0 stoptol).
(* solution, output["iters"], output["normresidual"], output["fit"] and the fit trace are the same for any two printitn *)
Theorem C18_print_tucker_als : forall (p1 p2 : Z) (maxiters : nat) (U0 : Fs), fst (TK p1 maxiters U0) = fst (TK p2 maxiters U0).
Proof. exact (tucker_als_print_indep Fs C F sweep resid fit_of fchange fltb fit0 stoptol). Qed.
Theorem C18_print_tucker_als_silent : forall (p : Z) (maxiters : nat) (U0 : Fs), (p <= 0)%Z -> snd (TK p maxiters U0) = [].
Proof. exact (tucker_als_silent Fs C F sweep resid fit_of fchange fltb fit0 stoptol). Qed.
End C18print_tucker.

Section C18print_mu.
Variables (St P F : Type) (N : nat) (fixslack : nat -> nat -> St -> St * bool) (redist : nat -> St -> St) (calc_pi : nat -> St -> P)
          (calc_phi : nat -> P -> St -> St * F) (mulupd renorm : nat -> St -> St) (kktmax : St -> F) (fltb : F -> F -> bool)
          (stoptol : F) (maxinner : nat) (timeup : nat -> bool) (finish : St -> St) (loglik : St -> St * F) (lsfit : St -> F).
Local Notation MU := (mu_run St P F N fixslack redist calc_pi calc_phi mulupd renorm kktmax fltb stoptol maxinner timeup finish loglik lsfit).
(* returned model, kktViolations, nInnerIters, nViolations and obj are the same for any two (printitn, printinneritn) *)
Theorem C18_print_cp_apr_mu : forall (p1 q1 p2 q2 : Z) (maxiters : nat) (s0 : St),
  fst (MU p1 q1 maxiters s0) = fst (MU p2 q2 maxiters s0).
Proof. exact (cp_apr_mu_print_indep St P F N fixslack redist calc_pi calc_phi mulupd renorm kktmax fltb stoptol maxinner timeup finish loglik lsfit). Qed.
Theorem C18_print_cp_apr_mu_silent : forall (p q : Z) (maxiters : nat) (s0 : St), (p <= 0)%Z -> (q <= 0)%Z -> snd (MU p q maxiters s0) = [].
Proof. exact (cp_apr_mu_silent St P F N fixslack redist calc_pi calc_phi mulupd renorm kktmax fltb stoptol maxinner timeup finish loglik lsfit). Qed.
End C18print_mu.

(* ---------------------------------------------------------------------------------------------------------------------------- *)
(* wave 3: dense vs sparse holder for Tucker-ALS / nvecs, and mode relabelling for HOSVD / Tucker-ALS                             *)
(* ---------------------------------------------------------------------------------------------------------------------------- *)
Section C18repr_tucker.
Variable V : Type.
Variables (v0 v1 : V) (vadd vmul vsub : V -> V -> V) (vopp : V -> V).
Hypothesis Vring : ring_theory v0 v1 vadd vmul vsub vopp (@eq V).
Variable isz : V -> bool.
(* the matrix tensor.nvecs (Xn Xn^T, dense holder) and sptensor.nvecs (COO product, sparse holder, ANY stored order) hand to the
   eigen solver is the same whenever the two holders denote the same array (C14_gram_dense + C14_gram_sparse) *)
Theorem C18_repr_gram : forall (X : dense V) (S : sparse V) (n a b : nat),
  wf_sp isz S -> sshape S = dshape X -> (forall i, inb (dshape X) i = true -> den_sp v0 S i = den_dense v0 X i) ->
  (n < length (dshape X))%nat -> (a < nth n (dshape X) 0)%nat -> (b < nth n (dshape X) 0)%nat ->
  mget v0 (gram_sp_impl v0 vadd vmul S n) a b = mget v0 (gram_dense_impl v0 vadd vmul X n) a b.
Proof. exact (repr_gram_dense_sparse V v0 v1 vadd vmul vsub vopp Vring isz). Qed.
(* mode-n products read the holder only through its denotation on the shape *)
Theorem C18_repr_ttm : forall (s : shape) (X1 X2 : idx -> V) (n : nat) (M : list (list V)) (i : idx),
  (n < length s)%nat -> inb s i = true -> (forall j, inb s j = true -> X1 j = X2 j) ->
  ttm_den v0 vadd vmul X1 (nth n s 0%nat) n M i = ttm_den v0 vadd vmul X2 (nth n s 0%nat) n M i.
Proof. exact (repr_ttm_den V v0 vadd vmul). Qed.
End C18repr_tucker.

Section C18tucker_rel.
Variable E : Type.
Variable inner : E -> E -> R.
Variable choose : nat -> E -> (E -> E).
Variables (Fs F : Type) (A : Fs -> E -> F) (innerF : F -> F -> R) (upd : nat -> Fs -> E -> Fs) (stoptol : R).
(* Tucker-ALS loop (abstract model of Proofs/C18Tucker.v): two holders on which every nvecs update, the core and ||X|| agree -
   which is what C18_repr_gram / C18_repr_ttm give for a dense and a sparse holder of one array - run identically *)
Theorem C18_repr_tucker_als : forall (x1 x2 : E) (dimorder : list nat) (maxiters : nat) (U : Fs) (fit0 : R),
  (forall n U, upd n U x1 = upd n U x2) -> (forall U, A U x1 = A U x2) -> nrm2 E inner x1 = nrm2 E inner x2 ->
  als_loop E inner Fs F A innerF upd stoptol dimorder maxiters U fit0 x1
  = als_loop E inner Fs F A innerF upd stoptol dimorder maxiters U fit0 x2 /\
  A (fst (fst (als_loop E inner Fs F A innerF upd stoptol dimorder maxiters U fit0 x1))) x1
  = A (fst (fst (als_loop E inner Fs F A innerF upd stoptol dimorder maxiters U fit0 x2))) x2.
Proof. exact (tucker_als_repr E inner Fs F A innerF upd stoptol). Qed.

(* relabelling: perm = X |-> X.permute(p) on the space, q m = position of original mode m; the projector oracle is equivariant *)
Variables (perm : E -> E) (q : nat -> nat).
Hypothesis choose_perm : forall n y z, choose (q n) (perm y) (perm z) = perm (choose n y z).
Theorem C18_relabel_hosvd : forall (sequential : bool) (modes : list nat) (x : E),
  snd (hosvd E choose sequential (map q modes) (perm x)) = perm (snd (hosvd E choose sequential modes x)) /\
  Forall2 (conj_of E perm) (fst (hosvd E choose sequential (map q modes) (perm x))) (fst (hosvd E choose sequential modes x)).
Proof. exact (hosvd_relabel E choose perm q choose_perm). Qed.

Variable permF : Fs -> Fs.
Hypothesis upd_perm : forall n U x, upd (q n) (permF U) (perm x) = permF (upd n U x).
Theorem C18_relabel_tucker_als : forall (dimorder : list nat) (k : nat) (U : Fs) (x : E),
  sweeps E Fs upd (map q dimorder) k (permF U) (perm x) = permF (sweeps E Fs upd dimorder k U x).
Proof. exact (tucker_als_relabel E Fs upd perm q permF upd_perm). Qed.

Variable permC : F -> F.
Hypothesis A_perm : forall U x, A (permF U) (perm x) = permC (A U x).
Hypothesis innerF_perm : forall g, innerF (permC g) (permC g) = innerF g g.
Hypothesis nrm_perm : forall x, nrm2 E inner (perm x) = nrm2 E inner x.
(* ... and the whole loop with its stopping test: relabelled factors, same fit, same iteration count, relabelled core *)
Theorem C18_relabel_tucker_als_loop : forall (dimorder : list nat) (maxiters : nat) (U : Fs) (fit0 : R) (x : E),
  let r := als_loop E inner Fs F A innerF upd stoptol dimorder maxiters U fit0 x in
  let r' := als_loop E inner Fs F A innerF upd stoptol (map q dimorder) maxiters (permF U) fit0 (perm x) in
  fst (fst r') = permF (fst (fst r)) /\ snd (fst r') = snd (fst r) /\ snd r' = snd r /\
  A (fst (fst r')) (perm x) = permC (A (fst (fst r)) x).
Proof. exact (tucker_als_relabel_loop E inner Fs F A innerF upd stoptol perm q permF upd_perm permC A_perm innerF_perm nrm_perm). Qed.
End C18tucker_rel.

(* ---------------------------------------------------------------------------------------------------------------------------- *)
(* wave 3: random starts as a function of the captured stream (Proofs/C18Seed.v: np.random.uniform draws in C order; the generator  *)
(* itself is not modelled): same seed = same stream window => same start => same model                                             *)
(* ---------------------------------------------------------------------------------------------------------------------------- *)
Section C18seed.
Variable V : Type.
(* cp_als / cp_apr / gcp_opt, init = "random": the N factor matrices read exactly the draws [pos, pos + sum_n shape[n]*rank) *)
Theorem C18_seed_start : forall (st1 st2 : nat -> V) (dims : list nat) (R pos : nat),
  (forall k, (pos <= k < pos + total dims R)%nat -> st1 k = st2 k) ->
  draw_factors V st1 pos dims R = draw_factors V st2 pos dims R.
Proof. exact (random_start_same_seed V). Qed.
(* tucker_als, init = "random": modes dimorder[1:] in that order, the first mode of the sweep stays undrawn *)
Theorem C18_seed_start_tucker : forall (st1 st2 : nat -> V) (dimorder shape ranks : list nat) (pos : nat),
  (forall k, (pos <= k < pos + total_t (tl dimorder) shape ranks)%nat -> st1 k = st2 k) ->
  tucker_start V st1 pos dimorder shape ranks = tucker_start V st2 pos dimorder shape ranks.
Proof. exact (tucker_start_same_seed V). Qed.
(* any deterministic algorithm applied to the drawn start *)
Theorem C18_seed_run : forall (Res : Type) (alg : list (list (list V)) -> Res) (st1 st2 : nat -> V) (dims : list nat) (R pos : nat),
  (forall k, (pos <= k < pos + total dims R)%nat -> st1 k = st2 k) ->
  alg (fst (draw_factors V st1 pos dims R)) = alg (fst (draw_factors V st2 pos dims R)).
Proof. exact (seeded_run_same_seed V). Qed.
End C18seed.

(* the comparer used by the generated metamorphic cases accepts identical value lists *)
Theorem C18_cmp_refl : forall l : list Qc, qlists_close tol8 l l = true.
Proof. intro l. exact (qlists_close_refl tol8 l tol8_nonneg). Qed.

Print Assumptions C18_repr.
Print Assumptions C18_repr_den.
Print Assumptions C18_scale.
Print Assumptions C18_scale_fit.
Print Assumptions C18_relabel_den.
Print Assumptions C18_relabel.
Print Assumptions C18_relabel_model.
Print Assumptions C18_ttm_scale.
Print Assumptions C18_gram_scale.
Print Assumptions C18_tucker_core_scale.
Print Assumptions C18_hosvd_rank_scale.
Print Assumptions C18_hosvd_ncols_scale.
Print Assumptions C18_tucker_fit_scale.
Print Assumptions C18_hosvd_scale.
Print Assumptions C18_hosvd_relerr_scale.
Print Assumptions C18_tucker_als_scale.
Print Assumptions C18_tucker_als_loop_scale.
Print Assumptions C18_print_state.
Print Assumptions C18_print.
Print Assumptions C18_print_silent.
Print Assumptions C18_cmp_refl.
Print Assumptions C18_print_hosvd.
Print Assumptions C18_print_hosvd_silent.
Print Assumptions C18_print_tucker_als.
Print Assumptions C18_print_tucker_als_silent.
Print Assumptions C18_print_cp_apr_mu.
Print Assumptions C18_print_cp_apr_mu_silent.
Print Assumptions C18_repr_gram.
Print Assumptions C18_repr_ttm.
Print Assumptions C18_repr_tucker_als.
Print Assumptions C18_relabel_hosvd.
Print Assumptions C18_relabel_tucker_als.
Print Assumptions C18_relabel_tucker_als_loop.
Print Assumptions C18_seed_start.
Print Assumptions C18_seed_start_tucker.
Print Assumptions C18_seed_run.

(* non-vacuity: a non-symmetric 2x3x2 rank-2 model over Z and the non-involutive relabelling p = [1;2;0] *)
Example C18_relabel_example :
  let K := mkK [2; -1]%Z [ [[1; 0]; [2; 1]]; [[1; 2]; [-1; 1]; [0; 3]]; [[1; 1]; [2; -1]] ]%Z in
  let p := [1; 2; 0]%nat in
  let K' := mkK (kweights K) (pick [] p (kfactors K)) in
  kshape K' = [3; 2; 2]%nat /\
  den_k 0%Z 1%Z Z.add Z.mul K [1; 2; 0]%nat = (-3)%Z /\
  den_k 0%Z 1%Z Z.add Z.mul K' (pick 0%nat p [1; 2; 0]%nat) = (-3)%Z /\
  den_k 0%Z 1%Z Z.add Z.mul K' [1; 2; 0]%nat = 0%Z.
Proof. vm_compute. repeat split; reflexivity. Qed.

(* non-vacuity of C18_relabel: a concrete 2x3x2 rank-1 run over Z (data 2 a o b o c, start a, b, c: every division is exact), two sweeps in the mode
   order [2;0;1], relabelled by the 3-cycle p = [1;2;0] (mode order becomes [1;2;0]): the factor list of the relabelled run is the
   permuted factor list of the original run, and it differs from the start *)
Example C18_relabel_run_example :
  let s := [2; 3; 2]%nat in
  let X := den_dense 0%Z (mkDense s [6; 12; -6; -12; 12; 24; 2; 4; -2; -4; 4; 8]%Z) in
  let p := [1; 2; 0]%nat in
  let X' := fun i' => X (pick 0%nat (invperm p) i') in
  let solve := fun (Y P : @matrix Z) => map (map (fun x => Z.div x (mget 0%Z Y 0%nat 0%nat))) P in
  let scale := fun (_ : nat) (A : @matrix Z) => ([1%Z], A) in
  let st := mkAls [1%Z] [ [[1]; [2]]; [[1]; [-1]; [2]]; [[3]; [1]] ]%Z [] in
  let st' := mkAls (st_w st) (pick [] p (st_U st)) (st_P st) in
  let dims := [2; 0; 1]%nat in
  let r := als_iter 0%Z 1%Z Z.add Z.mul (fun U n => mttkrp_mat 0%Z 1%Z Z.add Z.mul s X U n 1%nat) solve scale 1%nat 2%nat dims st in
  let r' := als_iter 0%Z 1%Z Z.add Z.mul (fun U n => mttkrp_mat 0%Z 1%Z Z.add Z.mul (pick 0%nat p s) X' U n 1%nat) solve scale 1%nat 2%nat
              (map (fun m => index_of m p) dims) st' in
  map (fun m => index_of m p) dims = [1; 2; 0]%nat /\ st_U r' = pick [] p (st_U r) /\ st_P r' = st_P r /\
  st_U r = [ [[1]; [2]]; [[1]; [-1]; [2]]; [[6]; [2]] ]%Z.
Proof. vm_compute. repeat split; reflexivity. Qed.
