(* Props/C04.v — entry reads and writes behave like an F-ordered mutable array over any history.
   Only statements, `exact`, Print Assumptions (+ concrete non-vacuity examples). Definitions: Model/C04Model.v. *)
From Coq Require Import List Arith Bool ZArith.
From PV Require Import Base.Index Np.Array Model.Sparse Model.C04Model Proofs.C04Dense Proofs.C04Sparse Proofs.C04History Proofs.C04Admissible Proofs.C04RegionGet Proofs.C04Region
  Model.Harness Model.C04Harness Model.C04Mat Model.C04Extra Proofs.C04NpAdv Proofs.C04Mat Model.C04AdvVal Proofs.C04AdvVal Model.C04SpMatImpl Proofs.C04SpMatImpl Proofs.C04SpMatAgree Proofs.C04NpAdvExact Proofs.C04NpAdvBlock.
Import ListNotations.

Section C04.
Context {V : Type} (v0 : V) (isz : V -> bool).
Hypothesis isz_spec : forall v, isz v = true <-> v = v0.

(* what a write means (spec_set): the last assignment in a batch wins; unmentioned positions keep their value
   (zero in newly grown parts); everything outside the new shape is zero *)
Theorem C04_spec_last_write_wins : forall (a : amap V) s' asg1 asg2 j v,
  inb s' j = true -> ~ In j (map fst asg2) -> af (spec_set v0 a s' (asg1 ++ (j, v) :: asg2)) j = v.
Proof. exact (spec_set_last v0). Qed.

Theorem C04_spec_other_unchanged : forall (a : amap V) s' asg j,
  inb s' j = true -> ~ In j (map fst asg) ->
  af (spec_set v0 a s' asg) j = embed v0 (length (ashape a)) (af a) j.
Proof. exact (spec_set_other v0). Qed.

Theorem C04_spec_outside_zero : forall (a : amap V) s' asg j, inb s' j = false -> af (spec_set v0 a s' asg) j = v0.
Proof. exact (spec_set_outside v0). Qed.

(* one step, dense: for EVERY state and EVERY operation (all key forms, all right-hand sides) the dense model and
   the specification accept/reject together, produce the same output and the new state denotes the new abstract array *)
Theorem C04_refine_dense : forall (T : dense V) (o : op V),
  match step_dense v0 T o, spec_step v0 (abs_dense v0 T) o with
  | Some (T', out), Some (a', out') => eq_amap (abs_dense v0 T') a' /\ out = out' /\ (wf_dense T -> wf_dense T')
  | None, None => True
  | _, _ => False
  end.
Proof. exact (refine_dense v0). Qed.

(* one step, sparse: from every well-formed state (any stored order), whenever the sparse model performs the operation
   the specification performs it with the same output, the new state denotes the new abstract array and is
   well-formed again (in bounds, no duplicate subscript, no stored zero, |subs| = |vals|) *)
Theorem C04_refine_sparse : forall (S : sparse V) (o : op V) S' out,
  wf_sp isz S -> step_sparse v0 isz S o = Some (S', out) ->
  exists a', spec_step v0 (abs_sp v0 S) o = Some (a', out) /\ eq_amap (abs_sp v0 S') a' /\ wf_sp isz S'.
Proof. exact (refine_sparse v0 isz isz_spec). Qed.

(* histories *)
Theorem C04_history_dense : forall ops (T : dense V) (a : amap V), eq_amap (abs_dense v0 T) a ->
  match run (step_dense v0) T ops, run (spec_step v0) a ops with
  | Some (T', outs), Some (a', outs') => eq_amap (abs_dense v0 T') a' /\ outs = outs' /\ (wf_dense T -> wf_dense T')
  | None, None => True
  | _, _ => False
  end.
Proof. exact (run_dense_refines v0). Qed.

Theorem C04_history_sparse : forall ops (S : sparse V) (a : amap V) S' outs,
  wf_sp isz S -> eq_amap (abs_sp v0 S) a ->
  run (step_sparse v0 isz) S ops = Some (S', outs) ->
  exists a', run (spec_step v0) a ops = Some (a', outs) /\ eq_amap (abs_sp v0 S') a' /\ wf_sp isz S'.
Proof. exact (run_sparse_refines v0 isz isz_spec). Qed.

(* the same, as a fold_left over the history *)
Theorem C04_history_fold_dense : forall ops (T T' : dense V),
  exec (step_dense v0) T ops = Some T' ->
  exists a', exec (spec_step v0) (abs_dense v0 T) ops = Some a' /\ eq_amap (abs_dense v0 T') a'.
Proof. exact (history_dense v0). Qed.

Theorem C04_history_fold_sparse : forall ops (S S' : sparse V),
  wf_sp isz S -> exec (step_sparse v0 isz) S ops = Some S' ->
  exists a', exec (spec_step v0) (abs_sp v0 S) ops = Some a' /\ eq_amap (abs_sp v0 S') a' /\ wf_sp isz S'.
Proof. exact (history_sparse v0 isz isz_spec). Qed.

(* a dense and a sparse tensor that denote the same array and are driven by the same history return the same values
   and denote the same array after EVERY step *)
Theorem C04_dense_sparse_equal : forall ops (T : dense V) (S : sparse V) S' outs,
  wf_sp isz S -> eq_amap (abs_dense v0 T) (abs_sp v0 S) ->
  run (step_sparse v0 isz) S ops = Some (S', outs) ->
  forall k, exists Tk Sk outsk,
    run (step_dense v0) T (firstn k ops) = Some (Tk, outsk) /\
    run (step_sparse v0 isz) S (firstn k ops) = Some (Sk, outsk) /\
    eq_amap (abs_dense v0 Tk) (abs_sp v0 Sk) /\ wf_sp isz Sk.
Proof. exact (dense_sparse_equal_every_step v0 isz isz_spec). Qed.

(* the decidable side conditions of the sparse model never fail for subscript-array writes: whenever the
   specification accepts S[rows] = rhs (any rows incl. duplicates, growth of extent and order), so does the sparse model *)
Theorem C04_sparse_subs_admissible : forall (S : sparse V) rows (r : rhs V) s' asg,
  wf_sp isz S -> resolve_set cartF (sshape S) (KSubs rows) r = Some (s', asg) ->
  exists S', step_sparse v0 isz S (OSet (KSubs rows) r) = Some (S', ([], [])).
Proof. exact (sparse_subs_admissible v0 isz). Qed.

(* sptensor region read (model sp_region_get: subdims filter, then every stored entry is placed at EVERY result subscript whose
   indices select it - a key list may REPEAT an index, wave 3b).  The result has the shape of the kept modes and holds at
   EVERY subscript j inside that shape what the tensor holds at the position j selects (select ls j: mode by mode the
   j-th element of the index list, the single index of a dropped mode) *)
Theorem C04_sparse_region_read : forall (S R : sparse V) es ls,
  region_lists (sshape S) es = Some ls -> sp_region_get S es = Some R ->
  sshape R = kept_shape ls /\
  (forall j, inb (kept_shape ls) j = true -> den_sp v0 R j = den_sp v0 S (select ls j)).
Proof. exact (sp_region_get_den v0). Qed.
(* ---- wave 2 ---- *)
(* the sptensor returned by a region read is itself well-formed (in bounds of the kept shape, no duplicate subscript, no stored
   zero, |subs| = |vals|), whatever the stored order of the source and however often a key list repeats an index, and stores
   one entry per (stored source entry, result subscript selecting it) *)
Theorem C04_sparse_region_read_wf : forall (S R : sparse V) es,
  wf_sp isz S -> sp_region_get S es = Some R -> wf_sp isz R.
Proof. exact (sp_region_get_wf isz). Qed.

Theorem C04_sparse_region_read_nnz : forall (S R : sparse V) es ls,
  region_lists (sshape S) es = Some ls -> sp_region_get S es = Some R ->
  length (ssubs R) = list_sum (map (fun e : idx * V => length (renumber_all ls (fst e))) (entries S)).
Proof. exact sp_region_get_nnz. Qed.

(* the decidable side conditions of the sparse model (positions pairwise distinct, padded old subscripts inside the grown shape)
   never fail for REGION writes either: whenever the specification accepts S[region] = rhs (scalar, zero or exactly shaped
   tensor; growth of extent and order), so does the sparse model.  Wave 3: NO hypothesis on the key is left — an index list may
   repeat an index (the positions then form a multiset; the model keeps the last value per position, as numpy does) *)
Theorem C04_sparse_region_admissible : forall (S : sparse V) es (r : rhs V) s' asg,
  wf_sp isz S ->
  resolve_set cartF (sshape S) (KRegion es) r = Some (s', asg) ->
  exists S', step_sparse v0 isz S (OSet (KRegion es) r) = Some (S', ([], [])).
Proof. exact (sparse_region_admissible v0 isz). Qed.

(* hence the TOTAL form of the sparse refinement: on every operation sptensor offers (all reads; subscript-array writes;
   region writes) the specification and the sparse model accept together, with equal outputs, the new state denotes the new
   abstract array and is well-formed — no dynamic side check is left *)
Theorem C04_refine_sparse_total : forall (S : sparse V) (o : op V) a' out,
  wf_sp isz S -> sparse_op_ok o -> spec_step v0 (abs_sp v0 S) o = Some (a', out) ->
  exists S', step_sparse v0 isz S o = Some (S', out) /\ eq_amap (abs_sp v0 S') a' /\ wf_sp isz S'.
Proof. exact (refine_sparse_total v0 isz isz_spec). Qed.

Theorem C04_history_sparse_total : forall ops (S : sparse V) a a' outs,
  wf_sp isz S -> eq_amap (abs_sp v0 S) a -> Forall sparse_op_ok ops ->
  run (spec_step v0) a ops = Some (a', outs) ->
  exists S', run (step_sparse v0 isz) S ops = Some (S', outs) /\ eq_amap (abs_sp v0 S') a' /\ wf_sp isz S'.
Proof. exact (run_sparse_total v0 isz isz_spec). Qed.

(* numpy advanced indexing (what the dense class does with a key that contains index lists, Model/C04Extra.v): for every
   shape and key, every position it selects lies inside the outer-product region the property speaks about *)
Theorem C04_np_adv_in_region : forall s es os ps ls,
  np_adv_positions s es = Some (os, ps) -> region_lists s es = Some ls ->
  Forall (fun p => In p (cartF (map snd ls))) ps.
Proof. exact np_adv_positions_in_region. Qed.

(* ---- wave 3: tenmat.__getitem__/__setitem__ and sptenmat.__setitem__ as instances of the refinement theorems: a matricised
   tensor under entry access is a 2-way array of FIXED shape (Model/C04Mat.v; the comparers of the tenmat_rw / sptenmat_set
   streams run the Z instances of exactly these step functions) ---- *)
Theorem C04_tenmat_refine : forall (T : dense V) (o : op V), is_2way (dshape T) = true ->
  match fixed_step_dense_g v0 T o, spec_fixed_step v0 (abs_dense v0 T) o with
  | Some (T', out), Some (a', out') =>
      eq_amap (abs_dense v0 T') a' /\ out = out' /\ dshape T' = dshape T /\ (wf_dense T -> wf_dense T')
  | None, None => True
  | _, _ => False
  end.
Proof. exact (tenmat_refine v0). Qed.

Theorem C04_tenmat_history : forall ops (T : dense V) (a : amap V), is_2way (dshape T) = true -> eq_amap (abs_dense v0 T) a ->
  match run (fixed_step_dense_g v0) T ops, run (spec_fixed_step v0) a ops with
  | Some (T', outs), Some (a', outs') => eq_amap (abs_dense v0 T') a' /\ outs = outs' /\ dshape T' = dshape T
  | None, None => True
  | _, _ => False
  end.
Proof. exact (tenmat_history v0). Qed.

Theorem C04_sptenmat_refine : forall (S : sparse V) (o : op V) S' out,
  wf_sp isz S -> fixed_step_sparse_g v0 isz S o = Some (S', out) ->
  exists a', spec_fixed_step v0 (abs_sp v0 S) o = Some (a', out) /\ eq_amap (abs_sp v0 S') a' /\ wf_sp isz S' /\
             sshape S' = sshape S /\ is_2way (sshape S') = true.
Proof. exact (sptenmat_refine v0 isz isz_spec). Qed.

Theorem C04_sptenmat_refine_total : forall (S : sparse V) (o : op V) a' out,
  wf_sp isz S -> is_2way (sshape S) = true -> sparse_op_ok o ->
  spec_fixed_step v0 (abs_sp v0 S) o = Some (a', out) ->
  exists S', fixed_step_sparse_g v0 isz S o = Some (S', out) /\ eq_amap (abs_sp v0 S') a' /\ wf_sp isz S' /\
             sshape S' = sshape S.
Proof. exact (sptenmat_refine_total v0 isz isz_spec). Qed.

Theorem C04_sptenmat_history_total : forall ops (S : sparse V) a a' outs,
  wf_sp isz S -> is_2way (sshape S) = true -> eq_amap (abs_sp v0 S) a -> Forall sparse_op_ok ops ->
  run (spec_fixed_step v0) a ops = Some (a', outs) ->
  exists S', run (fixed_step_sparse_g v0 isz) S ops = Some (S', outs) /\ eq_amap (abs_sp v0 S') a' /\ wf_sp isz S' /\
             sshape S' = sshape S.
Proof. exact (sptenmat_history_total v0 isz isz_spec). Qed.

(* ---- wave 4: sptenmat.__setitem__ as pyttb computes it (TRANSLITERATION Model/C04SpMatImpl.v: in-place overwrite of stored
   positions, `pending` table for positions appended earlier in the same call, append, lexsort, zero purge; the sptenmat_set
   stream compares pyttb's raw state, stored order included, with exactly this function) ---- *)
(* the entry list it computes: every position holds the LAST value addressed to it in the call, all others keep theirs *)
Theorem C04_sptenmat_setitem_entries : forall (es asg : list (idx * V)), NoDup (map fst es) ->
  forall j, last_match j (sptenmat_set_entries isz es asg) v0 = last_match j asg (last_match j es v0).
Proof. exact (sptenmat_set_entries_den v0 isz isz_spec). Qed.

(* refinement + invariant: from every well-formed state (any stored order), for every key and right-hand side the code accepts,
   the new state denotes spec_set on the SAME shape, is well-formed (in range, no duplicate subscript - C04-N14 -, no stored zero -
   C04-N08 -, equal lengths) and is still a 2-way object *)
Theorem C04_sptenmat_setitem_refines : forall (S S' : sparse V) es (r : rhs V),
  wf_sp isz S -> sptenmat_setitem isz S es r = Some S' ->
  exists ls asg,
    region_lists (sshape S) es = Some ls /\
    finish_set r (sshape S) (cartF (map snd ls)) = Some (sshape S, asg) /\
    eq_amap (abs_sp v0 S') (spec_set v0 (abs_sp v0 S) (sshape S) asg) /\
    wf_sp isz S' /\ sshape S' = sshape S /\ is_2way (sshape S') = true.
Proof. exact (sptenmat_setitem_refines v0 isz isz_spec). Qed.

(* it accepts every request whose key resolves inside the fixed shape (negative integers normalised, out-of-range rejected -
   C04-N09) with a scalar or exactly sized right-hand side *)
Theorem C04_sptenmat_setitem_total : forall (S : sparse V) es (r : rhs V) ls s' asg,
  is_2way (sshape S) = true -> length es = 2 ->
  region_lists (sshape S) es = Some ls -> finish_set r (sshape S) (cartF (map snd ls)) = Some (s', asg) ->
  exists S', sptenmat_setitem isz S es r = Some S'.
Proof. exact (sptenmat_setitem_total isz). Qed.

(* the transliteration and the executable specification agree: whenever the generic fixed-shape sparse step (the function of
   C04_sptenmat_refine / _refine_total) performs a region assignment, the transliterated __setitem__ accepts it and both results
   have the same shape and denote the same array *)
Theorem C04_sptenmat_impl_agrees : forall (S S1 : sparse V) es (r : rhs V) out,
  wf_sp isz S -> fixed_step_sparse_g v0 isz S (OSet (KRegion es) r) = Some (S1, out) ->
  exists S2, sptenmat_setitem isz S es r = Some S2 /\ sshape S2 = sshape S1 /\ forall j, den_sp v0 S2 j = den_sp v0 S1 j.
Proof. exact (sptenmat_impl_agrees v0 isz isz_spec). Qed.
End C04.

(* key lists WITHOUT a repeated index: every stored entry inside the region lands on exactly one result subscript, the
   positions of its indices inside the lists (renumber / index_of: the filter + tt_renumber reading of pyttb) *)
Theorem C04_region_read_single_position : forall ls p,
  Forall (fun x : bool * list nat => NoDup (snd x)) ls ->
  renumber_all ls p = match renumber ls p with Some j => [j] | None => [] end.
Proof. exact (fun ls p H => renumber_all_nodup_lists ls H p). Qed.

(* ---- wave 4: VALUE-ARRAY right-hand sides through keys with index lists (A-16 key class and neighbours), dense side:
   pyttb grows the tensor from the key and lets numpy assign: zipped selection, value BROADCAST against its shape
   (Model/C04AdvVal.v: np_bcast, np_adv_set_values; the np_adv stream runs exactly these functions) ---- *)
(* a value of exactly the target shape is assigned unchanged, for every shape and value type *)
Theorem C04_np_bcast_exact : forall {V : Type} (v0 : V) (os : shape) (data : list V),
  length data = size os -> np_bcast v0 os data os = Some data.
Proof. exact @np_bcast_exact. Qed.

(* hence the write of a value shaped like numpy's result is the sequential assignment of its F-order values to the zipped positions *)
Theorem C04_np_adv_set_values_exact : forall {V : Type} (v0 : V) (T : dense V) es os ps (data : list V),
  has_list es = true -> region_ok (dshape T) es = true ->
  np_adv_positions (grow (dshape T) (map elem_need es)) es = Some (os, ps) ->
  forallb (inb (grow (dshape T) (map elem_need es))) ps = true ->
  length data = size os ->
  np_adv_set_values v0 T es os data = Some (dense_assign v0 T (grow (dshape T) (map elem_need es)) (combine ps data), false).
Proof. exact @np_adv_set_values_exact. Qed.

(* and every position such a write touches lies inside the outer-product region of the key on the grown shape *)
Theorem C04_np_adv_set_values_in_region : forall {V : Type} (v0 : V) (T : dense V) es vs (data : list V) T' os ps ls,
  np_adv_set_values v0 T es vs data = Some (T', false) ->
  np_adv_positions (grow (dshape T) (map elem_need es)) es = Some (os, ps) ->
  region_lists (grow (dshape T) (map elem_need es)) es = Some ls ->
  Forall (fun p => In p (cartF (map snd ls))) ps.
Proof. exact @np_adv_set_values_in_region. Qed.

(* OUTSIDE the class of the open finding A-16 numpy and the outer product coincide: a key with exactly ONE index list whose other
   elements are slices (A / B = the selections of the slices before / after the list l) selects, under numpy's advanced indexing,
   exactly the outer-product region, with the same result shape and in the same (F) order - for every shape and key *)
Theorem C04_np_adv_single_list : forall (s : shape) (es : list kelem) ls (A B : list (list nat)) (l : list nat),
  s <> [] -> region_lists s es = Some ls ->
  map is_adv es = repeat false (length A) ++ true :: repeat false (length B) ->
  map snd ls = A ++ l :: B ->
  (forall kl, In kl ls -> fst kl = true) ->
  np_adv_positions s es = Some (kept_shape ls, cartF (map snd ls)).
Proof. exact np_adv_single_list. Qed.

(* wave 5, the other half of the exactness of the A-16 trigger: ONE index list with integers directly next to it (an adjacent advanced
   block I1, l, I2 between the slices A and B): numpy's selection is again the outer product - same result shape (the integer
   modes dropped), same positions, same order.  Together with C04_np_adv_single_list: a dense key with a single index list leaves
   the specification only when a slice separates the list from an integer - the class of the open finding *)
Theorem C04_np_adv_list_with_ints : forall (s : shape) (es : list kelem) ls (A B : list (list nat)) (I1 I2 l : list nat),
  s <> [] -> region_lists s es = Some ls -> l <> [] ->
  map is_adv es = repeat false (length A) ++ repeat true (length I1 + 1 + length I2) ++ repeat false (length B) ->
  map snd ls = A ++ map sing I1 ++ l :: map sing I2 ++ B ->
  map fst ls = repeat true (length A) ++ repeat false (length I1) ++ true :: repeat false (length I2) ++ repeat true (length B) ->
  np_adv_positions s es = Some (kept_shape ls, cartF (map snd ls)).
Proof. exact np_adv_list_with_ints. Qed.

(* slices never address a position twice (Python slice semantics, any bounds and any non-zero step) *)
Theorem C04_slice_positions_distinct : forall len a b c, NoDup (py_slice len a b c).
Proof. exact py_slice_nodup. Qed.

(* KNOWN FINDING A-16, as a theorem about the two models: a dense tensor following numpy's advanced indexing and a well-formed
   sparse tensor that denote the same array return different reads and end in different arrays after the same scalar write *)
Theorem C04_a16_dense_sparse_disagree :
  exists (T : dense Z) (S : sparse Z) (es : list kelem),
    wf_spb zisz S = true /\ full 0%Z S = T /\
    np_adv_get 0%Z T es <> option_map snd (step_sparse 0%Z zisz S (OGet (KRegion es))) /\
    (forall T' S', np_adv_set_scalar 0%Z T es 9%Z = Some T' ->
                   step_sparse 0%Z zisz S (OSet (KRegion es) (RScalar 9%Z)) = Some (S', ([], [])) -> full 0%Z S' <> T').
Proof. exact a16_dense_sparse_disagree. Qed.

Print Assumptions C04_spec_last_write_wins.
Print Assumptions C04_spec_other_unchanged.
Print Assumptions C04_spec_outside_zero.
Print Assumptions C04_refine_dense.
Print Assumptions C04_refine_sparse.
Print Assumptions C04_history_dense.
Print Assumptions C04_history_sparse.
Print Assumptions C04_history_fold_dense.
Print Assumptions C04_history_fold_sparse.
Print Assumptions C04_dense_sparse_equal.
Print Assumptions C04_sparse_subs_admissible.
Print Assumptions C04_sparse_region_read.
Print Assumptions C04_sparse_region_read_wf.
Print Assumptions C04_sparse_region_read_nnz.
Print Assumptions C04_region_read_single_position.
Print Assumptions C04_sparse_region_admissible.
Print Assumptions C04_refine_sparse_total.
Print Assumptions C04_history_sparse_total.
Print Assumptions C04_np_adv_in_region.
Print Assumptions C04_slice_positions_distinct.
Print Assumptions C04_a16_dense_sparse_disagree.
Print Assumptions C04_tenmat_refine.
Print Assumptions C04_tenmat_history.
Print Assumptions C04_sptenmat_refine.
Print Assumptions C04_sptenmat_refine_total.
Print Assumptions C04_sptenmat_history_total.
Print Assumptions C04_sptenmat_setitem_entries.
Print Assumptions C04_sptenmat_setitem_refines.
Print Assumptions C04_sptenmat_setitem_total.
Print Assumptions C04_sptenmat_impl_agrees.
Print Assumptions C04_np_adv_single_list.
Print Assumptions C04_np_adv_list_with_ints.
Print Assumptions C04_np_bcast_exact.
Print Assumptions C04_np_adv_set_values_exact.
Print Assumptions C04_np_adv_set_values_in_region.

(* non-vacuity: a concrete history on a 2x3 tensor whose sparse form is stored out of order — write by subscripts with a
   duplicate and a zero (deletes [0,0]), grow by a full subscript, write a stepped region, read linearly and by region *)
Local Open Scope Z_scope.
Definition ex_ops : list (op Z) :=
  [ OSet (KSubs [[0; 0]; [1; 2]; [1; 2]]) (RValues [0; 5; 7]);
    OSet (KRegion [KInt 2; KInt (-1)]) (RScalar 4);
    OSet (KRegion [KSlice None None (Some 2); KInt 1]) (RScalar 9);
    OGet (KLinSlice None None None);
    OGet (KRegion [KInt (-1); KSlice None None None]) ].
Definition ex_T : dense Z := mkDense [2; 3]%nat [2; 0; 0; 1; 3; 0].
Definition ex_S : sparse Z := mkSp [2; 3]%nat [[1; 1]; [0; 0]; [0; 2]]%nat [1; 2; 3].

Example C04_example_dense :
  run (step_dense 0) ex_T ex_ops =
  Some (mkDense [3; 3]%nat [0; 0; 0; 9; 1; 9; 3; 7; 4],
        [([], []); ([], []); ([], []); ([9%nat], [0; 0; 0; 9; 1; 9; 3; 7; 4]); ([3%nat], [0; 9; 4])]).
Proof. vm_compute. reflexivity. Qed.

Example C04_example_sparse :
  run (step_sparse 0 (Z.eqb 0)) ex_S ex_ops =
  Some (mkSp [3; 3]%nat [[1; 1]; [0; 2]; [1; 2]; [2; 2]; [0; 1]; [2; 1]]%nat [1; 3; 7; 4; 9; 9],
        [([], []); ([], []); ([], []); ([9%nat], [0; 0; 0; 9; 1; 9; 3; 7; 4]); ([3%nat], [0; 9; 4])]).
Proof. vm_compute. reflexivity. Qed.

Example C04_example_wf : wf_spb (Z.eqb 0) ex_S = true /\ full 0 ex_S = ex_T.
Proof. split; reflexivity. Qed.

(* wave 2 non-vacuity: a region write that grows extent AND order through a stepped slice, an index list and a new mode is
   accepted by the sparse model from the out-of-order state; the region read returns a well-formed sptensor *)
Example C04_example_region_total :
  sparse_op_ok (OSet (KRegion [KSlice None (Some 3) (Some 2); KList [2; 0]; KInt 1]) (RValues [5; 0; 6; 7])) /\
  option_map fst (step_sparse 0 (Z.eqb 0) ex_S (OSet (KRegion [KSlice None (Some 3) (Some 2); KList [2; 0]; KInt 1]) (RValues [5; 0; 6; 7]))) =
  Some (mkSp [3; 3; 2]%nat [[1; 1; 0]; [0; 0; 0]; [0; 2; 0]; [0; 2; 1]; [0; 0; 1]; [2; 0; 1]]%nat [1; 2; 3; 5; 6; 7]).
Proof. split; [exact I|vm_compute; reflexivity]. Qed.

Example C04_example_region_read_wf :
  option_map (wf_spb (Z.eqb 0)) (sp_region_get ex_S [KSlice None None (Some (-1)); KList [2; 0]]) = Some true /\
  sp_region_get ex_S [KSlice None None (Some (-1)); KList [2; 0]] = Some (mkSp [2; 2]%nat [[1; 1]; [1; 0]]%nat [2; 3]).
Proof. split; vm_compute; reflexivity. Qed.

(* wave 3 non-vacuity: a 2x3 matricised tensor; M[1, 0] = 0 removes the stored entry, M[[1;1], 0:2] = 7 (an index REPEATED
   inside the key list) is accepted and stores every position once; a request that would resize is rejected *)
Example C04_example_sptenmat :
  option_map fst (fixed_step_sparse_g 0 (Z.eqb 0) ex_S (OSet (KRegion [KInt 0; KInt 0]) (RScalar 0))) =
    Some (mkSp [2; 3]%nat [[1; 1]; [0; 2]]%nat [1; 3]) /\
  option_map (fun x => wf_spb (Z.eqb 0) (fst x)) (fixed_step_sparse_g 0 (Z.eqb 0) ex_S (OSet (KRegion [KList [1; 1]; KSlice (Some 0) (Some 2) None]) (RScalar 7))) = Some true /\
  option_map (fun x => full 0 (fst x)) (fixed_step_sparse_g 0 (Z.eqb 0) ex_S (OSet (KRegion [KList [1; 1]; KSlice (Some 0) (Some 2) None]) (RScalar 7))) =
    Some (mkDense [2; 3]%nat [2; 7; 0; 7; 3; 0]) /\
  fixed_step_sparse_g 0 (Z.eqb 0) ex_S (OSet (KRegion [KInt 2; KInt 0]) (RScalar 1)) = None /\
  option_map fst (fixed_step_dense_g 0 ex_T (OSet (KRegion [KList [1; 1]; KSlice None None None]) (RValues [5; 6; 7; 8; 9; 4]))) =
    Some (mkDense [2; 3]%nat [2; 6; 0; 8; 3; 4]).
Proof. repeat split; vm_compute; reflexivity. Qed.

(* wave 3b non-vacuity: a region read through a key list that REPEATS an index (the C04-N11 witness: 3x2 tensor storing
   (1,0)=3, (0,1)=4, (2,1)=5 out of order; S[[1,1], :]) returns the row twice, well-formed; every stored entry once per position *)
Definition ex_S32 : sparse Z := mkSp [3; 2]%nat [[1; 0]; [0; 1]; [2; 1]]%nat [3; 4; 5].
Example C04_example_region_read_repeated :
  sp_region_get ex_S32 [KList [1; 1]; KSlice None None None] = Some (mkSp [2; 2]%nat [[0; 0]; [1; 0]]%nat [3; 3]) /\
  option_map (full 0) (sp_region_get ex_S32 [KList [1; 1]; KSlice None None None]) = Some (mkDense [2; 2]%nat [3; 3; 0; 0]) /\
  option_map (fun x => snd (snd x)) (step_dense 0 (full 0 ex_S32) (OGet (KRegion [KList [1; 1]; KSlice None None None]))) = Some [3; 3; 0; 0] /\
  option_map (wf_spb (Z.eqb 0)) (sp_region_get ex_S32 [KList [2; 0; 2]; KList [1; 1]]) = Some true /\
  option_map (full 0) (sp_region_get ex_S32 [KList [2; 0; 2]; KList [1; 1]]) = Some (mkDense [3; 2]%nat [5; 4; 5; 5; 4; 5]).
Proof. repeat split; vm_compute; reflexivity. Qed.

(* wave 4 non-vacuity: a value array through two index lists is ZIPPED by numpy (2 positions), a 1-element value is broadcast,
   a value of the outer-product shape is refused by numpy (after growth: here none) *)
Example C04_example_np_adv_values :
  np_adv_set_values 0 (mkDense [2; 3]%nat [0; 3; 1; 4; 2; 5]) [KList [0; 1]; KList [0; 2]] [2]%nat [7; 8]
    = Some (mkDense [2; 3]%nat [7; 3; 1; 4; 2; 8], false) /\
  np_adv_set_values 0 (mkDense [2; 3]%nat [0; 3; 1; 4; 2; 5]) [KList [0; 1]; KList [0; 2]] [2; 2]%nat [7; 9; 8; 4]
    = Some (mkDense [2; 3]%nat [0; 3; 1; 4; 2; 5], true) /\
  np_adv_set_values 0 (mkDense [2; 3]%nat [0; 3; 1; 4; 2; 5]) [KList [0; 1]; KList [0; 2]] [1]%nat [7]
    = Some (mkDense [2; 3]%nat [7; 3; 1; 4; 2; 7], false).
Proof. exact np_adv_set_values_example. Qed.

(* wave 4 non-vacuity: the transliterated sptenmat.__setitem__ on the C04-N14 / C04-N08 / C04-N09 witnesses *)
Example C04_example_sptenmat_impl :
  option_map (fun S => (ssubs S, svals S)) (sptenmat_setitem (Z.eqb 0) (mkSp [2; 4]%nat [[0; 0]; [1; 2]; [1; 3]]%nat [1; 3; 2]) [KList [1; 1]; KInt 1] (RValues [6; 8]))
    = Some ([[0; 0]; [1; 1]; [1; 2]; [1; 3]]%nat, [1; 8; 3; 2]) /\
  option_map (fun S => (ssubs S, svals S)) (sptenmat_setitem (Z.eqb 0) (mkSp [2; 4]%nat [[1; 3]; [0; 0]; [1; 2]]%nat [2; 1; 3]) [KInt 0; KInt 0] (RScalar 0))
    = Some ([[1; 3]; [1; 2]]%nat, [2; 3]) /\
  sptenmat_setitem (Z.eqb 0) (mkSp [2; 4]%nat [[1; 3]; [0; 0]; [1; 2]]%nat [2; 1; 3]) [KInt 2; KInt 0] (RScalar 5) = None /\
  option_map (fun S => (ssubs S, svals S)) (sptenmat_setitem (Z.eqb 0) (mkSp [2; 4]%nat [[1; 3]; [0; 0]; [1; 2]]%nat [2; 1; 3]) [KInt (-1); KInt 0] (RScalar 5))
    = Some ([[0; 0]; [1; 0]; [1; 2]; [1; 3]]%nat, [1; 5; 3; 2]).
Proof. repeat split; vm_compute; reflexivity. Qed.

Example C04_example_np_adv_single_list :
  np_adv_positions [3; 4; 2]%nat [KSlice None None (Some 2); KList [3; 0; 3]; KSlice None None None]
  = Some ([2; 3; 2]%nat, cartF [[0; 2]; [3; 0; 3]; [0; 1]]%nat).
Proof. exact np_adv_single_list_example. Qed.

(* wave 5 non-vacuity: T[::2, 1, [3, 0], :] on a 3 x 4 x 4 x 5 tensor (confirmed on pyttb / numpy): shape (2, 2, 5), outer-product order *)
Example C04_example_np_adv_list_with_ints :
  np_adv_positions [3; 4; 4; 5]%nat [KSlice None None (Some 2); KInt 1; KList [3; 0]; KSlice None None None]
  = Some ([2; 2; 5]%nat, cartF [[0; 2]; [1]; [3; 0]; [0; 1; 2; 3; 4]]%nat).
Proof. exact np_adv_list_with_ints_example. Qed.
