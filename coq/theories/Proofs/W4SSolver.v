(* Proofs/W4SSolver.v — BRIDGE between the GENERATED control-flow skeleton of pyttb/gcp/optimizers.py::StochasticSolver.solve
   (Gen/GenSolver.v, regenerated from /repo on every run by tools/pyx2v_skel.py) and the hand model Alg/C13Solver.v.
   For ALL kernels (sampler, estimate, update_step, set_failed_epoch, reset_state, ... are opaque Section variables): whenever the
   generated solve returns (no Python exception), what it returns is what the hand state machine computes, instantiated with
     fest  m        := estimate(m, f_subs, f_vals, f_wgts, function_handle, lambda_check=False)   on the fixed function sample
     epoch n nf w m := the generated inner loop `for iteration in range(self._epoch_iters)` started from (m, w)
     on_fail        := set_failed_epoch,   tol := Some f_est_tol,   private state := the world after reset_state(). *)
From Coq Require Import String List Arith Bool Lia.
From PV Require Import Model.W4SPrelude Gen.GenSolver Alg.C13Solver.
Import ListNotations.
Local Open Scope nat_scope.

Lemma sk_set_app_written {A} (pre : list A) (x v : A) (post : list A) n :
  n = length pre -> sk_set (pre ++ x :: post) n v = Some (pre ++ v :: post).
Proof.
  intros ->. unfold sk_set. rewrite app_length. cbn [length].
  replace (length pre <? length pre + S (length post)) with true by (symmetry; apply Nat.ltb_lt; lia).
  f_equal. rewrite firstn_app, Nat.sub_diag, firstn_all. cbn [firstn]. rewrite app_nil_r. f_equal.
  rewrite skipn_app. replace (S (length pre) - length pre) with 1 by lia.
  rewrite skipn_all2 by lia. reflexivity.
Qed.

Section Bridge.
Variables T_W T_M T_E T_Data T_FH T_LB T_Sampler T_Subs T_Vals T_Wgts T_G T_FM T_Step T_Crng : Type.
Variable c_leE : T_E -> T_E -> bool.
Variable c_zeroE : T_E.
Variable c_zeroStep : T_Step.
Variable k_GCPSampler : T_Data -> T_Sampler.
Variable k_function_sample : T_W -> T_Sampler -> T_Data -> T_W * (T_Subs * T_Vals * T_Wgts).
Variable k_estimate_f : T_M -> T_Subs -> T_Vals -> T_Wgts -> T_FH -> bool -> T_E.
Variable k_reset_state : T_W -> T_W.
Variable k_gradient_sample : T_W -> T_Sampler -> T_Data -> T_W * (T_Subs * T_Vals * T_Wgts).
Variable k_crng : T_Sampler -> T_Crng.
Variable k_estimate_g : T_W -> T_M -> T_Subs -> T_Vals -> T_Wgts -> option T_FH -> T_Crng -> T_FH -> bool -> T_W * T_G.
Variable k_any_inf : T_G -> bool.
Variable k_update_step : T_W -> nat -> T_M -> T_G -> T_LB -> T_W * (T_FM * T_Step).
Variable k_set_factor_matrices : T_M -> T_FM -> T_M.
Variable k_set_failed_epoch : T_W -> T_W.

Notation gloop2 := (GenSolver.solve_loop2 T_W T_M T_Data T_FH T_LB T_Sampler T_Subs T_Vals T_Wgts T_G T_FM T_Step T_Crng
  k_gradient_sample k_crng k_estimate_g k_any_inf k_update_step k_set_factor_matrices).
Notation gloop1 := (GenSolver.solve_loop1 T_W T_M T_E T_Data T_FH T_LB T_Sampler T_Subs T_Vals T_Wgts T_G T_FM T_Step T_Crng
  c_leE k_estimate_f k_gradient_sample k_crng k_estimate_g k_any_inf k_update_step k_set_factor_matrices k_set_failed_epoch).
Notation gsolve := (GenSolver.solve T_W T_M T_E T_Data T_FH T_LB T_Sampler T_Subs T_Vals T_Wgts T_G T_FM T_Step T_Crng
  c_leE c_zeroE c_zeroStep k_GCPSampler k_function_sample k_estimate_f k_reset_state k_gradient_sample k_crng k_estimate_g k_any_inf
  k_update_step k_set_factor_matrices k_set_failed_epoch).

Section Fixed.
Variables (data : T_Data) (fs : T_Subs) (fv : T_Vals) (fw : T_Wgts) (fh gh : T_FH) (lb : T_LB) (smp : T_Sampler).
Variables (epoch_iters : nat) (tol : T_E) (max_fails : nat).

(* the instantiation of the hand model's parameters by the generated code's kernels *)
Definition h_fest (m : T_M) : T_E := k_estimate_f m fs fv fw fh false.
Definition h_epoch (n nf : nat) (w : T_W) (m : T_M) : T_M * T_W :=
  match gloop2 data gh lb smp nf epoch_iters 0 (m, None, w) with
  | Some (m', _, w') => (m', w')
  | None => (m, w)
  end.
Notation hrun := (C13Solver.run T_M T_W T_E c_leE h_fest h_epoch k_set_failed_epoch max_fails (Some tol)).
Notation hstep := (C13Solver.step_epoch T_M T_W T_E c_leE h_fest h_epoch k_set_failed_epoch max_fails (Some tol)).
Notation hst := (C13Solver.st T_M T_W T_E).

Lemma run_stopped k : forall n (s : hst), stop _ _ _ s = true -> hrun k n s = s.
Proof. destruct k; intros n s H; cbn; [reflexivity|now rewrite H]. Qed.

(* the generated epoch loop and the hand state machine walk in lock step *)
Lemma loop1_bridge (m0 : T_M) : forall fuel i (s : hst) fe strace st',
  stop _ _ _ s = false -> length (trace _ _ _ s) = i ->
  gloop1 data fs fv fw fh gh lb smp epoch_iters tol max_fails fuel i
    (best _ _ _ s, fe, fprev _ _ _ s, (h_fest m0 :: trace _ _ _ s) ++ repeat c_zeroE fuel, cur _ _ _ s, pred i, nfails _ _ _ s, strace, opt _ _ _ s)
    = Some st' ->
  let s' := hrun fuel i s in
  exists fe' strace',
    st' = (best _ _ _ s', fe', fprev _ _ _ s', (h_fest m0 :: trace _ _ _ s') ++ repeat c_zeroE (i + fuel - epochs _ _ _ s'),
           cur _ _ _ s', pred (epochs _ _ _ s'), nfails _ _ _ s', strace', opt _ _ _ s').
Proof.
  induction fuel as [|fuel IH]; intros i s fe strace st' Hstop Hlen H.
  - cbn in H. inversion H. cbn. exists fe, strace. unfold epochs. rewrite Hlen.
    replace (i + 0 - i) with 0 by lia. reflexivity.
  - cbn [GenSolver.solve_loop1] in H. cbn [C13Solver.run]. rewrite Hstop.
    destruct (gloop2 data gh lb smp (nfails _ _ _ s) epoch_iters 0 (cur _ _ _ s, None, opt _ _ _ s)) as [[[m' so] w']|] eqn:EG; [|discriminate].
    assert (HE : h_epoch i (nfails _ _ _ s) (opt _ _ _ s) (cur _ _ _ s) = (m', w')) by (unfold h_epoch; rewrite EG; reflexivity).
    unfold C13Solver.step_epoch. rewrite HE.
    cbn [repeat] in H.
    rewrite (sk_set_app_written (h_fest m0 :: trace _ _ _ s)) in H by (cbn [length]; lia).
    destruct so as [stp|]; [|discriminate].
    destruct (sk_set strace (i + 1) stp) as [strace1|]; [|discriminate].
    fold (h_fest m') in H. unfold C13Solver.gtb, C13Solver.ltb.
    destruct (c_leE (h_fest m') (fprev _ _ _ s)) eqn:Ecmp; cbn [negb sk_b2n] in H |- *.
    + (* accepted epoch *)
      rewrite Nat.add_0_r in H.
      match type of H with (if ?c then _ else _) = _ => destruct c eqn:Estop end.
      * inversion H. rewrite run_stopped by (cbn; first [exact Estop | reflexivity]).
        cbn. eexists _, _. unfold epochs. cbn. rewrite app_length, Hlen. cbn.
        replace (i + S fuel - (i + 1)) with fuel by lia. replace (pred (i + 1)) with i by lia.
        rewrite <- app_assoc. reflexivity.
      * set (s1 := mkSt T_M T_W T_E m' m' (h_fest m') (nfails _ _ _ s) w' (trace _ _ _ s ++ [h_fest m']) (hist _ _ _ s ++ [m']) false).
        specialize (IH (S i) s1 (h_fest m') strace1 st').
        subst s1. cbn [stop trace best fprev cur nfails opt pred] in IH.
        replace ((h_fest m0 :: trace _ _ _ s ++ [h_fest m']) ++ repeat c_zeroE fuel)
          with ((h_fest m0 :: trace _ _ _ s) ++ h_fest m' :: repeat c_zeroE fuel) in IH by (cbn; rewrite <- app_assoc; reflexivity).
        rewrite app_length, Hlen in IH. cbn [length] in IH.
        try rewrite Estop.
        specialize (IH eq_refl ltac:(lia) H). destruct IH as (fe' & st2 & IH).
        exists fe', st2. rewrite IH. replace (S i + fuel) with (i + S fuel) by lia. reflexivity.
    + (* failed epoch: rollback *)
      replace (nfails _ _ _ s + 1) with (S (nfails _ _ _ s)) in H by lia.
      match type of H with (if ?c then _ else _) = _ => destruct c eqn:Estop end.
      * inversion H. rewrite run_stopped by (cbn; first [reflexivity | exact Estop]).
        cbn. eexists _, _. unfold epochs. cbn. rewrite app_length, Hlen. cbn.
        replace (i + S fuel - (i + 1)) with fuel by lia. replace (pred (i + 1)) with i by lia.
        rewrite <- app_assoc. reflexivity.
      * set (s1 := mkSt T_M T_W T_E (best _ _ _ s) (best _ _ _ s) (fprev _ _ _ s) (S (nfails _ _ _ s)) (k_set_failed_epoch w')
                        (trace _ _ _ s ++ [h_fest m']) (hist _ _ _ s ++ [m']) false).
        specialize (IH (S i) s1 (fprev _ _ _ s) strace1 st').
        subst s1. cbn [stop trace best fprev cur nfails opt pred] in IH.
        replace ((h_fest m0 :: trace _ _ _ s ++ [h_fest m']) ++ repeat c_zeroE fuel)
          with ((h_fest m0 :: trace _ _ _ s) ++ h_fest m' :: repeat c_zeroE fuel) in IH by (cbn; rewrite <- app_assoc; reflexivity).
        rewrite app_length, Hlen in IH. cbn [length] in IH.
        try rewrite Estop.
        specialize (IH eq_refl ltac:(lia) H). destruct IH as (fe' & st2 & IH).
        exists fe', st2. rewrite IH. replace (S i + fuel) with (i + S fuel) by lia. reflexivity.
Qed.

End Fixed.

(* ------------------------------------------------------------------------------------------------------------------ *)
(* the whole generated function                                                                                        *)
(* ------------------------------------------------------------------------------------------------------------------ *)
Definition the_sampler (data : T_Data) (smp : option T_Sampler) : T_Sampler :=
  match smp with None => k_GCPSampler data | Some s => s end.

Theorem solve_bridge : forall w0 max_iters epoch_iters max_fails tol printitn m0 data fh gh lb smp
                              model ftrace strace nep nf bestm w,
  gsolve w0 max_iters epoch_iters max_fails tol printitn m0 data fh gh lb smp = Some (model, (ftrace, strace, nep), nf, bestm, w) ->
  let sampler := the_sampler data smp in
  let '(w1, (fs, fv, fw)) := k_function_sample w0 sampler data in
  let fest := h_fest fs fv fw fh in
  let s := C13Solver.solve T_M T_W T_E c_leE fest (h_epoch data gh lb sampler epoch_iters) k_set_failed_epoch max_fails (Some tol)
                           max_iters m0 (k_reset_state w1) in
  model = cur _ _ _ s /\ bestm = best _ _ _ s /\ nf = nfails _ _ _ s /\ w = opt _ _ _ s /\
  nep = reported_n_epoch _ _ _ s /\ ftrace = reported_trace T_M T_W T_E fest c_zeroE max_iters m0 s.
Proof.
  intros w0 max_iters epoch_iters max_fails tol printitn m0 data fh gh lb smp model ftrace strace nep nf bestm w H.
  unfold GenSolver.solve in H. fold (the_sampler data smp) in H. cbv zeta.
  destruct (k_function_sample w0 (the_sampler data smp) data) as [w1 [[fs fv] fw]].
  replace (max_iters + 1) with (S max_iters) in H by lia. cbn [repeat] in H.
  change (sk_set (c_zeroE :: repeat c_zeroE max_iters) 0 ?v) with (Some (v :: repeat c_zeroE max_iters)) in H.
  cbv beta iota in H.
  match type of H with match ?L with _ => _ end = _ => destruct L as [st'|] eqn:EL; [|discriminate] end.
  pose (s0 := C13Solver.init T_M T_W T_E (h_fest fs fv fw fh) m0 (k_reset_state w1)).
  pose proof (loop1_bridge data fs fv fw fh gh lb (the_sampler data smp) epoch_iters tol max_fails m0 max_iters 0 s0
                (h_fest fs fv fw fh m0) (c_zeroStep :: repeat c_zeroStep max_iters) st' eq_refl eq_refl) as B.
  cbn [s0 C13Solver.init best fprev trace cur nfails opt app pred] in B.
  replace (repeat c_zeroStep (S max_iters)) with (c_zeroStep :: repeat c_zeroStep max_iters) in EL by reflexivity.
  specialize (B EL). cbv zeta in B. destruct B as (fe' & strace' & ->).
  fold s0 in H. unfold C13Solver.solve. fold s0.
  set (s := C13Solver.run T_M T_W T_E c_leE (h_fest fs fv fw fh) (h_epoch data gh lb (the_sampler data smp) epoch_iters)
             k_set_failed_epoch max_fails (Some tol) max_iters 0 s0) in *.
  inversion H. repeat split.
  unfold reported_trace, trace_array, full_trace, sk_slice, reported_n_epoch. cbn [skipn]. rewrite Nat.sub_0_r.
  replace (0 + max_iters - epochs _ _ _ s) with (max_iters - epochs _ _ _ s) by lia. reflexivity.
Qed.

(* the dictionary keys of `info` that the skeleton keeps (time_trace is dropped) *)
Lemma solve_info_keys_ok : GenSolver.solve_info_keys = ["f_est_trace"; "step_trace"; "n_epoch"]%string.
Proof. reflexivity. Qed.

(* ------------------------------------------------------------------------------------------------------------------ *)
(* the C13 statements over the GENERATED solve                                                                         *)
(* ------------------------------------------------------------------------------------------------------------------ *)
Section Laws.
Hypothesis leE_total : forall a b, c_leE a b = true \/ c_leE b a = true.
Hypothesis leE_trans : forall a b c, c_leE a b = true -> c_leE b c = true -> c_leE a c = true.

(* the fixed function sample of a call and the objective estimate on it *)
Definition gen_fest (w0 : T_W) (data : T_Data) (fh : T_FH) (smp : option T_Sampler) (m : T_M) : T_E :=
  let '(_, (fs, fv, fw)) := k_function_sample w0 (the_sampler data smp) data in k_estimate_f m fs fv fw fh false.

Lemma gen_solve_facts : forall w0 max_iters epoch_iters max_fails tol printitn m0 data fh gh lb smp
                               model ftrace strace nep nf bestm w,
  gsolve w0 max_iters epoch_iters max_fails tol printitn m0 data fh gh lb smp = Some (model, (ftrace, strace, nep), nf, bestm, w) ->
  let fest := gen_fest w0 data fh smp in
  exists hist : list T_M,
    model = bestm /\ In model (m0 :: hist) /\ ftrace = fest m0 :: map fest hist /\
    is_min T_E c_leE (fest model) ftrace /\ c_leE (fest model) (fest m0) = true /\
    length hist <= max_iters /\ nep = pred (length hist) /\ (length hist = 0 -> max_iters = 0).
Proof.
  intros w0 max_iters epoch_iters max_fails tol printitn m0 data fh gh lb smp model ftrace strace nep nf bestm w H fest.
  pose proof (solve_bridge _ _ _ _ _ _ _ _ _ _ _ _ _ _ _ _ _ _ _ H) as B. cbv zeta in B.
  unfold fest, gen_fest. destruct (k_function_sample w0 (the_sampler data smp) data) as [w1 [[fs fv] fw]].
  fold (h_fest fs fv fw fh).
  set (s := C13Solver.solve T_M T_W T_E c_leE (h_fest fs fv fw fh) (h_epoch data gh lb (the_sampler data smp) epoch_iters)
              k_set_failed_epoch max_fails (Some tol) max_iters m0 (k_reset_state w1)) in *.
  destruct B as (-> & -> & _ & _ & -> & ->).
  pose proof (best_model T_M T_W T_E c_leE leE_total leE_trans (h_fest fs fv fw fh) (h_epoch data gh lb (the_sampler data smp) epoch_iters)
                k_set_failed_epoch max_fails (Some tol) max_iters m0 (k_reset_state w1)) as (Hcb & Hin & Hmap & Hmin & Hle).
  pose proof (trace_length T_M T_W T_E c_leE leE_total leE_trans (h_fest fs fv fw fh) (h_epoch data gh lb (the_sampler data smp) epoch_iters)
                k_set_failed_epoch max_fails (Some tol) max_iters m0 (k_reset_state w1)) as (_ & Hep & Hhl).
  pose proof (reported_trace_full T_M T_W T_E c_leE (h_fest fs fv fw fh) (h_epoch data gh lb (the_sampler data smp) epoch_iters)
                k_set_failed_epoch max_fails (Some tol) c_zeroE max_iters m0 (k_reset_state w1)) as Hrep.
  pose proof (epochs_zero_iters T_M T_W T_E c_leE (h_fest fs fv fw fh) (h_epoch data gh lb (the_sampler data smp) epoch_iters)
                k_set_failed_epoch max_fails (Some tol) max_iters m0 (k_reset_state w1)) as Hz.
  fold s in Hcb, Hin, Hmap, Hmin, Hle, Hep, Hhl, Hrep, Hz. cbv zeta in Hrep.
  exists (hist _ _ _ s). rewrite Hrep. unfold full_trace in *. rewrite Hmap. unfold reported_n_epoch. rewrite Hhl.
  unfold h_fest in *. split; [exact Hcb|]. split; [exact Hin|]. split; [reflexivity|]. split; [exact Hmin|].
  split; [exact Hle|]. split; [exact Hep|]. split; [reflexivity|exact Hz].
Qed.

(* C13_best_model over the generated code: the returned model is the best model, it is the starting guess or the model at the
   end of a completed epoch, its estimate on the fixed function sample is the smallest value of the REPORTED trace
   (info["f_est_trace"]) and is no worse than the starting guess's *)
Lemma gen_best_model : forall w0 max_iters epoch_iters max_fails tol printitn m0 data fh gh lb smp model ftrace strace nep nf bestm w,
  gsolve w0 max_iters epoch_iters max_fails tol printitn m0 data fh gh lb smp = Some (model, (ftrace, strace, nep), nf, bestm, w) ->
  let fest := gen_fest w0 data fh smp in
  model = bestm /\ is_min T_E c_leE (fest model) ftrace /\ c_leE (fest model) (fest m0) = true /\
  exists hist, In model (m0 :: hist) /\ map fest (m0 :: hist) = ftrace.
Proof.
  intros until w. intros H fest. destruct (gen_solve_facts _ _ _ _ _ _ _ _ _ _ _ _ _ _ _ _ _ _ _ H) as (hist & A & B & C & D & E & _).
  fold fest in C, D, E. split; [exact A|]. split; [exact D|]. split; [exact E|]. exists hist. split; [exact B|]. symmetry. exact C.
Qed.

(* C13_trace_len over the generated code: the reported trace has the starting value plus one value per completed epoch, at most
   max_iters epochs; info["n_epoch"] is the 0-based index of the last epoch (0 when no epoch ran, which happens only for max_iters = 0) *)
Lemma gen_trace_len : forall w0 max_iters epoch_iters max_fails tol printitn m0 data fh gh lb smp model ftrace strace nep nf bestm w,
  gsolve w0 max_iters epoch_iters max_fails tol printitn m0 data fh gh lb smp = Some (model, (ftrace, strace, nep), nf, bestm, w) ->
  1 <= length ftrace <= S max_iters /\ nep = pred (pred (length ftrace)) /\ (length ftrace = 1 -> max_iters = 0).
Proof.
  intros until w. intros H. destruct (gen_solve_facts _ _ _ _ _ _ _ _ _ _ _ _ _ _ _ _ _ _ _ H) as (hist & _ & _ & C & _ & _ & F & G & I).
  rewrite C. cbn [length]. rewrite map_length. split; [lia|]. split; [cbn; lia|]. intros J. apply I. lia.
Qed.

(* C13_reported_trace_full over the generated code: the slice fest_trace[0 : n_epoch + 2] that the generated code returns is the
   starting estimate followed by the estimate of the model at the end of EVERY completed epoch — nothing dropped, no padding *)
Lemma gen_reported_trace_full : forall w0 max_iters epoch_iters max_fails tol printitn m0 data fh gh lb smp model ftrace strace nep nf bestm w,
  gsolve w0 max_iters epoch_iters max_fails tol printitn m0 data fh gh lb smp = Some (model, (ftrace, strace, nep), nf, bestm, w) ->
  let '(w1, (fs, fv, fw)) := k_function_sample w0 (the_sampler data smp) data in
  let fest := h_fest fs fv fw fh in
  let s := C13Solver.solve T_M T_W T_E c_leE fest (h_epoch data gh lb (the_sampler data smp) epoch_iters) k_set_failed_epoch max_fails
                           (Some tol) max_iters m0 (k_reset_state w1) in
  ftrace = full_trace T_M T_W T_E fest m0 s /\ length ftrace = S (epochs _ _ _ s).
Proof.
  intros until w. intros H. pose proof (solve_bridge _ _ _ _ _ _ _ _ _ _ _ _ _ _ _ _ _ _ _ H) as B. cbv zeta in B.
  destruct (k_function_sample w0 (the_sampler data smp) data) as [w1 [[fs fv] fw]]. cbv zeta.
  destruct B as (_ & _ & _ & _ & _ & ->). rewrite reported_trace_full. split; [reflexivity|]. unfold full_trace, epochs. reflexivity.
Qed.
End Laws.

End Bridge.
