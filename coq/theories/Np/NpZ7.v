(* Wave 7 (translator option "m7"): primitives for constructor argument checks (tenmat.__init__).
   An n-d integer array is its shape and its entries in Fortran order; memory layout and aliasing are not modelled
   (np_to_memory_order keeps the entries; the layout test is a parameter of the generated function). *)
From Coq Require Import List ZArith Bool Lia.
From PV Require Import Np.NpZ Np.NpZ2 Np.NpZ3 Np.NpZ3b.
Import ListNotations.
Local Open Scope Z_scope.

Record ndz := mk_ndz { nd7_shape : vec; nd7_data : vec }.
Definition nd7_size (a : ndz) : Z := zprod (nd7_shape a).                       (* a.size *)
Definition nd7_empty2 : ndz := mk_ndz [1; 0] [].                                (* np.array([], ndmin=2, order="F") *)
Definition nd7_reshapeF_ok (a : ndz) (s : vec) : bool := zprod s =? nd7_size a. (* np.reshape(a, s, order="F") is defined *)
Definition nd7_reshapeF (a : ndz) (s : vec) : ndz := mk_ndz s (nd7_data a).
Definition np_to_memory_order (a : ndz) (copy : bool) : ndz := a.               (* to_memory_order(a, "F", copy=..): same entries *)

Record tmz := mk_tmz { tm7_tshape : vec; tm7_rindices : vec; tm7_cindices : vec; tm7_data : ndz }.

Definition shp_of_ints (l : vec) : pyshp := STuple (map EInt l).                (* a tuple of Python ints *)
(* x == (): False for an int / a list / a non-empty tuple, True for (); an ndarray operand is outside the model *)
Definition shp_eq_unit_ok (x : pyshp) : bool := negb (shp_is_arr x).
Definition shp_eq_unit (x : pyshp) : bool := match x with STuple [] => true | _ => false end.

Fixpoint vec_eqb (a b : vec) : bool :=
  match a, b with
  | [], [] => true
  | x :: a', y :: b' => (x =? y) && vec_eqb a' b'
  | _, _ => false
  end.

Lemma vec_eqb_eq a : forall b, vec_eqb a b = true -> a = b.
Proof.
  induction a as [|x a IH]; intros [|y b] H; simpl in H; try discriminate; auto.
  apply andb_true_iff in H. destruct H as [H1 H2]. apply Z.eqb_eq in H1. subst. f_equal. auto.
Qed.
Lemma vec_eqb_refl a : vec_eqb a a = true.
Proof. induction a; simpl; auto. rewrite Z.eqb_refl. auto. Qed.
