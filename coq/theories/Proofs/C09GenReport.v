(* Proofs/C09GenReport.v — wave 5: WHAT THE GENERATED cp_als REPORTS when it prints (printitn > 0) and when maxiters = 0, read off
   the GENERATED skeleton Gen/GenCpAls.v (through w4-skel's bridge Proofs/W4SCpAls.v cpals_bridge and the loop machine's
   cpals_report_consistent / cpals_run_zero): the reported pair is the residual / fit formula applied to input_tensor.innerprod(M) of
   the RETURNED model (printing) resp. of the model of the start (silent, maxiters = 0) — for ALL kernels.  Then the kernels that
   matter are instantiated over a commutative ring V with the squares of the code's quantities (normX^2, the value under the square
   root): k_innerprod := ktensor.innerprod's loop over the holder's own all-modes ttv (Proofs/C09Inner.v iprod_k), k_resid := normX^2 +
   M.norm()^2 (Gram / Hadamard form) - 2 ip; every other kernel stays arbitrary.  Result (gen_print_residual): whenever the generated
   main returns with printing on, for a holder tied to its denotation X, the reported squared residual IS ||X - M||^2 of the returned
   model M.  Depends on Proofs/W4SCpAls.v (w4-skel): if its interface changes, drop this file and Props/C09e.v from C09.list /
   THEOREM_FILES / COQ_TARGETS. *)
From Coq Require Import String List Arith Bool Lia Ring.
From PV Require Import Base.Index Base.Sum Np.Array Model.Sparse Model.Repr Model.W4SPrelude Gen.GenCpAls Model.C09Loop Model.C09Als
  Proofs.W4SCpAls Proofs.C09LoopProofs Proofs.C09Norm Proofs.C09Inner Model.C02Spec.
Import ListNotations.
Local Open Scope nat_scope.

Section GenReport.
Variables T_F T_Mat T_UtU T_Wt T_K T_X : Type.
Variable c_leF : T_F -> T_F -> bool.
Variable c_zeroF : T_F.
Variable k_init_factors : T_K -> list T_Mat.
Variable k_restrict_dims : list nat -> list nat -> list nat.
Variable k_zeros_mttkrp : T_X -> list nat -> nat -> T_Mat.
Variable k_zeros_utu : nat -> nat -> T_UtU.
Variable k_set_gram : T_UtU -> nat -> list T_Mat -> T_UtU.
Variable k_ktensor_init : list T_Mat -> T_K -> T_K.
Variable k_innerprod : T_X -> T_K -> T_F.
Variable k_is_zero : T_F -> bool.
Variable k_resid0 : T_K -> T_F -> T_F.
Variable k_resid : T_F -> T_K -> T_F -> T_F.
Variable k_fit : T_F -> T_F -> T_F.
Variable k_mttkrp : T_X -> list T_Mat -> nat -> T_Mat.
Variable k_hadamard_others : T_UtU -> nat -> nat -> T_Mat.
Variable k_all_zero_mat : T_Mat -> bool.
Variable k_zeros_like : T_Mat -> T_Mat.
Variable k_solve : T_Mat -> T_Mat -> T_Mat.
Variable k_norm2_cols : T_Mat -> T_Wt.
Variable k_normmax_cols : T_Mat -> T_Wt.
Variable k_all_zero_wt : T_Wt -> bool.
Variable k_scale_cols : T_Mat -> T_Wt -> T_Mat.
Variable k_ktensor : list T_Mat -> T_Wt -> T_K.
Variable k_iprod : T_K -> list nat -> T_Mat -> T_Wt -> T_F.
Variable k_absdiff : T_F -> T_F -> T_F.
Variable k_arrange : T_K -> T_K.
Variable k_fixsigns : T_K -> T_K.

Notation gmain := (GenCpAls.cp_als_main T_F T_Mat T_UtU T_Wt T_K T_X c_leF c_zeroF k_init_factors k_restrict_dims k_zeros_mttkrp k_zeros_utu
  k_set_gram k_ktensor_init k_innerprod k_is_zero k_resid0 k_resid k_fit k_mttkrp k_hadamard_others k_all_zero_mat k_zeros_like k_solve
  k_norm2_cols k_normmax_cols k_all_zero_wt k_scale_cols k_ktensor k_iprod k_absdiff k_arrange k_fixsigns).
Notation hsweep := (h_sweep T_F T_Mat T_UtU T_Wt T_K T_X k_set_gram k_mttkrp k_hadamard_others k_all_zero_mat k_zeros_like k_solve
  k_norm2_cols k_normmax_cols k_all_zero_wt k_scale_cols k_ktensor k_iprod).
Notation hfitm := (h_fit_mttkrp T_F T_Mat T_UtU T_K c_zeroF k_is_zero k_resid0 k_resid k_fit).
Notation hfiti := (h_fit_innerprod T_F T_Mat T_UtU T_K T_X c_zeroF k_innerprod k_is_zero k_resid0 k_resid k_fit).

Notation hform := (h_formulas T_F T_K k_is_zero k_resid0 k_resid k_fit).
Notation hlt := (h_fchange_lt T_F c_leF k_absdiff).
Notation honM := (h_onM T_F T_Mat T_UtU T_K).
Notation entrys := (entry_state T_F T_Mat T_UtU T_K T_X k_ktensor_init k_innerprod).

(* printing runs: the reported pair is the formula pair on innerprod(X, M) of the RETURNED model *)
Theorem gen_print_report : forall X init normX N rank dimorder optdims maxiters stoptol printitn dofix Mret initret iters nr fit,
  gmain X init normX N rank dimorder optdims maxiters stoptol printitn dofix = Some (Mret, initret, (iters, nr, fit)) ->
  0 < printitn ->
  (nr, fit) = hform normX Mret (k_innerprod X Mret).
Proof.
  intros X init normX N rank dimorder optdims maxiters stoptol printitn dofix Mret initret iters nr fit H Hp.
  destruct (cpals_bridge T_F T_Mat T_UtU T_Wt T_K T_X c_leF c_zeroF k_init_factors k_restrict_dims k_zeros_mttkrp k_zeros_utu
    k_set_gram k_ktensor_init k_innerprod k_is_zero k_resid0 k_resid k_fit k_mttkrp k_hadamard_others k_all_zero_mat k_zeros_like k_solve
    k_norm2_cols k_normmax_cols k_all_zero_wt k_scale_cols k_ktensor k_iprod k_absdiff k_arrange k_fixsigns
    _ _ _ _ _ _ _ _ _ _ _ _ _ _ _ _ H) as (dims & l & r & _ & Hrun & HM & _ & Hnr & Hfit & _).
  destruct (@cpals_report_consistent _ _ _ _ _ _ _ _ _ _ _ _ _ _ _ Hrun) as (_ & _ & Hrep).
  specialize (Hrep Hp). rewrite Hnr, Hfit in Hrep. rewrite Hrep.
  unfold h_fit_innerprod. destruct (snd (r_state r)) as [[M ip]|]; cbn in HM; [|discriminate].
  injection HM as ->. reflexivity.
Qed.

(* silent runs with maxiters = 0: the reported pair is the formula pair on innerprod(X, M0), M0 = ktensor(U, init.weights.copy()) of the
   start's factors (the block before the main loop) *)
Theorem gen_zero_report : forall X init normX N rank dimorder optdims stoptol dofix Mret initret iters nr fit,
  gmain X init normX N rank dimorder optdims 0 stoptol 0 dofix = Some (Mret, initret, (iters, nr, fit)) ->
  let M0 := k_ktensor_init (k_init_factors init) init in
  (nr, fit) = hform normX M0 (k_innerprod X M0) /\ iters = 0.
Proof.
  intros X init normX N rank dimorder optdims stoptol dofix Mret initret iters nr fit H M0.
  destruct (cpals_bridge T_F T_Mat T_UtU T_Wt T_K T_X c_leF c_zeroF k_init_factors k_restrict_dims k_zeros_mttkrp k_zeros_utu
    k_set_gram k_ktensor_init k_innerprod k_is_zero k_resid0 k_resid k_fit k_mttkrp k_hadamard_others k_all_zero_mat k_zeros_like k_solve
    k_norm2_cols k_normmax_cols k_all_zero_wt k_scale_cols k_ktensor k_iprod k_absdiff k_arrange k_fixsigns
    _ _ _ _ _ _ _ _ _ _ _ _ _ _ _ _ H) as (dims & l & r & Hl & Hrun & _ & Hit & Hnr & Hfit & _).
  destruct (@cpals_report_consistent _ _ _ _ _ _ _ _ _ _ _ _ _ _ _ Hrun) as (_ & Hrep & _).
  specialize (Hrep eq_refl eq_refl). rewrite Hnr, Hfit in Hrep.
  rewrite (@cpals_run_zero _ _ _ _ _ _ _ _ _ _ _ _ _) in Hrun. cbn in Hrun. injection Hrun as <-. cbn in Hit.
  split; [|now symmetry].
  rewrite Hrep. unfold entry_locals in Hl.
  destruct (GenCpAls.cp_als_main_loop1 _ _ _ _ _ _ _) as [[UtU n]|]; [|discriminate].
  injection Hl as _ <-. reflexivity.
Qed.

End GenReport.

(* ---------------------------------------------------------------- the kernels that matter, over a commutative ring (squares) *)
Section GenReportRing.
Variable V : Type.
Variables (v0 v1 : V) (vadd vmul vsub : V -> V -> V) (vopp : V -> V).
Hypothesis Vring : ring_theory v0 v1 vadd vmul vsub vopp (@eq V).

Variables T_Mat T_UtU T_Wt T_X : Type.
(* the data holder: its shape, the array it denotes, its own ttv over all modes (tied = hypothesis ttvall_ok of the theorem; C09_innerprod_dense / _sparse / _tucker give
   the instances for tensor / sptensor / ttensor) *)
Variable shape_of : T_X -> shape.
Variable den_of : T_X -> idx -> V.
Variable ttv_of : T_X -> list (list V) -> V.

(* every other kernel is arbitrary *)
Variable c_leF : V -> V -> bool.
Variable c_zeroF : V.
Variable k_init_factors : ktensor V -> list T_Mat.
Variable k_restrict_dims : list nat -> list nat -> list nat.
Variable k_zeros_mttkrp : T_X -> list nat -> nat -> T_Mat.
Variable k_zeros_utu : nat -> nat -> T_UtU.
Variable k_set_gram : T_UtU -> nat -> list T_Mat -> T_UtU.
Variable k_ktensor_init : list T_Mat -> ktensor V -> ktensor V.
Variable k_is_zero : V -> bool.
Variable k_fit : V -> V -> V.
Variable k_mttkrp : T_X -> list T_Mat -> nat -> T_Mat.
Variable k_hadamard_others : T_UtU -> nat -> nat -> T_Mat.
Variable k_all_zero_mat : T_Mat -> bool.
Variable k_zeros_like : T_Mat -> T_Mat.
Variable k_solve : T_Mat -> T_Mat -> T_Mat.
Variable k_norm2_cols : T_Mat -> T_Wt.
Variable k_normmax_cols : T_Mat -> T_Wt.
Variable k_all_zero_wt : T_Wt -> bool.
Variable k_scale_cols : T_Mat -> T_Wt -> T_Mat.
Variable k_ktensor : list T_Mat -> T_Wt -> ktensor V.
Variable k_iprod : ktensor V -> list nat -> T_Mat -> T_Wt -> V.
Variable k_absdiff : V -> V -> V.
Variable k_arrange : ktensor V -> ktensor V.
Variable k_fixsigns : ktensor V -> ktensor V.

(* input_tensor.innerprod(M): ktensor.innerprod's loop over the components with the holder's own ttv *)
Definition kq_innerprod (X : T_X) (K : ktensor V) : V := iprod_k V v0 vadd vmul (ttv_of X) K.
(* the value under the square root of `normresidual = np.sqrt(normX**2 + M.norm()**2 - 2 * iprod)` (normX2 stands for normX**2) *)
Definition kq_resid (normX2 : V) (K : ktensor V) (ip : V) : V := vsub (vadd normX2 (knormsq_code V v0 vadd vmul K)) (vadd ip ip).
(* sum-tensor data (normX == 0): M.norm()**2 - 2 * iprod *)
Definition kq_resid0 (K : ktensor V) (ip : V) : V := vsub (knormsq_code V v0 vadd vmul K) (vadd ip ip).

Notation gmainq := (GenCpAls.cp_als_main V T_Mat T_UtU T_Wt (ktensor V) T_X c_leF c_zeroF k_init_factors k_restrict_dims k_zeros_mttkrp
  k_zeros_utu k_set_gram k_ktensor_init kq_innerprod k_is_zero kq_resid0 kq_resid k_fit k_mttkrp k_hadamard_others k_all_zero_mat
  k_zeros_like k_solve k_norm2_cols k_normmax_cols k_all_zero_wt k_scale_cols k_ktensor k_iprod k_absdiff k_arrange k_fixsigns).

(* whenever the GENERATED main returns with printing on: the reported squared residual is ||X - M||^2 of the RETURNED model M and the
   reported fit is the code's fit formula of it (data with a norm); for data whose norm is reported as 0 (sum tensors) both reported
   values are ||M||^2 - 2 <X, M> *)
Theorem gen_print_residual : forall X init normX2 N rank dimorder optdims maxiters stoptol printitn dofix Mret initret iters nr fit,
  gmainq X init normX2 N rank dimorder optdims maxiters stoptol printitn dofix = Some (Mret, initret, (iters, nr, fit)) ->
  0 < printitn -> kshape Mret = shape_of X -> ttvall_ok V v0 vadd vmul (shape_of X) (den_of X) (ttv_of X) ->
  (k_is_zero normX2 = false -> normX2 = normsq_den v0 vadd vmul (shape_of X) (den_of X) ->
     nr = resid_den v0 vadd vmul vsub (shape_of X) (den_of X) (den_k v0 v1 vadd vmul Mret) /\ fit = k_fit nr normX2) /\
  (k_is_zero normX2 = true ->
     nr = vsub (normsq_den v0 vadd vmul (shape_of X) (den_k v0 v1 vadd vmul Mret))
               (vadd (innerprod_den v0 vadd vmul (shape_of X) (den_of X) (den_k v0 v1 vadd vmul Mret))
                     (innerprod_den v0 vadd vmul (shape_of X) (den_of X) (den_k v0 v1 vadd vmul Mret))) /\ fit = nr).
Proof.
  intros X init normX2 N rank dimorder optdims maxiters stoptol printitn dofix Mret initret iters nr fit H Hp Hs tied.
  pose proof (gen_print_report _ _ _ _ _ _ _ _ _ _ _ _ _ _ _ _ _ _ _ _ _ _ _ _ _ _ _ _ _ _ _ _ _
                _ _ _ _ _ _ _ _ _ _ _ _ _ _ _ _ H Hp) as Hrep.
  unfold h_formulas in Hrep.
  pose proof (iprod_k_holder V v0 v1 vadd vmul vsub vopp Vring (shape_of X) (den_of X) (ttv_of X) Mret Hs tied) as Hip.
  split.
  - intros Hz HN. rewrite Hz in Hrep. injection Hrep as -> ->. split; [|reflexivity].
    unfold kq_resid, kq_innerprod.
    apply (residual_by_innerprod V v0 v1 vadd vmul vsub vopp Vring (shape_of X) (den_of X) Mret); auto.
  - intros Hz. rewrite Hz in Hrep. injection Hrep as -> ->. split; [|reflexivity].
    unfold kq_resid0, kq_innerprod.
    apply (residual_by_innerprod_sum V v0 v1 vadd vmul vsub vopp Vring (shape_of X) (den_of X) Mret); auto.
Qed.

End GenReportRing.
