"""helpers of the C13 check: capture of numpy.random draws and of the solver's objective estimates (wrappers live in the
harness process only), pyttb runners, scaling of float observations to integers, brute-force oracle, finding witnesses."""
import math
from fractions import Fraction

D53 = 2 ** 53


# --------------------------------------------------------------------------------------- capture of numpy.random
class Capture:
    """wraps numpy.random.uniform / choice (and poisson) for the duration of a `with` block; records every result.
    force='zero': the first entry of every uniform block is replaced by 0.0 and the last by 1-2^-53 (draws are inputs)"""

    def __init__(self, force=None):
        self.force = force
        self.uniform = []
        self.choice = []

    def __enter__(self):
        import numpy as np
        self.np = np
        self.o_u, self.o_c = np.random.uniform, np.random.choice
        cap = self

        def w_uniform(low=0.0, high=1.0, size=None):
            r = cap.o_u(low, high, size)
            if cap.force == "zero" and getattr(r, "size", 0) > 0:
                r = np.array(r, dtype=float)
                r.flat[0] = 0.0
                r.flat[r.size - 1] = 1.0 - 2.0 ** -53
            cap.uniform.append(np.array(r, dtype=float).copy())
            return r

        def w_choice(a, size=None, replace=True, p=None):
            r = cap.o_c(a, size=size, replace=replace, p=p)
            cap.choice.append(np.array(r).copy())
            return r
        np.random.uniform, np.random.choice = w_uniform, w_choice
        return self

    def __exit__(self, *exc):
        self.np.random.uniform, self.np.random.choice = self.o_u, self.o_c
        return False


def _numerators(block):
    out = []
    for row in block.reshape((block.shape[0], -1)):
        r = []
        for u in row:
            f = Fraction(float(u)) * D53
            assert f.denominator == 1, "draw is not a multiple of 2^-53"
            r.append(int(f))
        out.append(r)
    return out


def _fr(x):
    return str(Fraction(float(x)))


def _ivals(np, v):
    out = []
    for x in np.atleast_1d(np.asarray(v, dtype=float)).ravel():
        out.append(int(x) if float(x) == int(x) else str(Fraction(float(x))))
    return out


# --------------------------------------------------------------------------------------- samplers
def run_uniform(a):
    import numpy as np
    import pyttb as ttb
    from pyttb.gcp import samplers
    T = ttb.tensor(np.array(a["data"], dtype=float).reshape(tuple(a["shape"]), order="F"), tuple(a["shape"]), copy=True)
    np.random.seed(a["seed"])
    with Capture(a["force"]) as cap:
        subs, vals, wgts = samplers.uniform(T, a["n"])
    draws = _numerators(cap.uniform[0]) if cap.uniform else []
    return {"subs": [[int(x) for x in r] for r in np.asarray(subs).reshape((-1, len(a["shape"])))],
            "subs_shape": [int(d) for d in np.shape(subs)],
            "vals": _ivals(np, vals), "vals_shape": [int(d) for d in np.shape(vals)],
            "weights": [_fr(w) for w in np.atleast_1d(wgts)], "weights_shape": [int(d) for d in np.shape(wgts)],
            "draws": draws, "meta": {"zero_draw": any(0 in r for r in draws)}}


def run_stratified(a, semi):
    import numpy as np
    import pyttb as ttb
    from pyttb.gcp import samplers
    shp = tuple(a["shape"])
    nd = len(shp)
    size, nnz = math.prod(shp), len(a["subs"])
    if nnz:
        S = ttb.sptensor(np.array(a["subs"], dtype=int).reshape((nnz, nd)), np.array(a["vals"], dtype=float).reshape((nnz, 1)), shp, copy=True)
    else:
        S = ttb.sptensor(shape=shp)
    cnt = samplers.StratifiedCount(num_zeros=a["cz"], num_nonzeros=a["cn"])
    meta = {"total": a["cn"] + a["cz"], "short": (not semi) and size == nnz}
    np.random.seed(a["seed"])
    try:
        with Capture(a["force"]) as cap:
            if semi:
                g = samplers.GCPSampler(S, gradient_sampler=samplers.Samplers.SEMISTRATIFIED, gradient_samples=cnt)
                subs, vals, wgts = g.gradient_sample(S)
            else:
                g = samplers.GCPSampler(S, function_sampler=samplers.Samplers.STRATIFIED, function_samples=cnt)
                subs, vals, wgts = g.function_sample(S)
    except Exception as ex:
        try:
            meta["zero_draw"] = any(0 in r for blk in cap.uniform if blk.size for r in _numerators(blk))
        except Exception:
            pass
        return {"exc": type(ex).__name__, "msg": str(ex)[:200], "meta": meta}
    nidx = [int(x) for x in cap.choice[0]] if cap.choice else (list(range(nnz)) if a["cn"] == nnz else [])
    draws = _numerators(cap.uniform[0]) if cap.uniform and cap.uniform[0].size else []
    subs_l = [[int(x) for x in r] for r in np.asarray(subs).reshape((-1, nd))]
    stored = {tuple(s) for s in a["subs"]}
    zpart = subs_l[a["cn"]:]
    meta.update({"zero_draw": any(0 in r for r in draws), "total": len(subs_l) if not semi else a["cn"] + a["cz"],
                 "short": meta["short"] or ((not semi) and len(zpart) < a["cz"]),
                 "semi_hit": semi and any(tuple(r) in stored for r in zpart)})
    if not semi:
        meta["total"] = a["cn"] + a["cz"]
    return {"subs": subs_l, "vals": _ivals(np, vals), "vals_shape": [int(d) for d in np.shape(vals)],
            "weights": [_fr(w) for w in np.atleast_1d(wgts)], "weights_shape": [int(d) for d in np.shape(wgts)],
            "nidx": nidx, "draws": draws, "meta": meta}


# --------------------------------------------------------------------------------------- solves
def rand_problem(rng, shp):
    n = math.prod(shp)
    R = rng.randint(1, 2)
    obj = rng.choice(["gaussian", "gaussian_lb", "poisson"])
    data = [rng.randint(0, 4) for _ in range(n)]
    if not any(data):
        data[0] = 2
    sparse = rng.random() < 0.35
    if sparse:          # a sparse tensor without zeros cannot be sampled at all (finding C13-S1): keep two zeros here
        for k in range(1, n, 2):
            data[k] = 0
        data[2 % n] = 0
        data[0] = data[0] or 2
    fac = [[[rng.randint(1, 8) / 4.0 for _ in range(R)] for _ in range(d)] for d in shp]
    return {"shape": list(shp), "data": data, "R": R, "init": fac, "obj": obj, "seed": rng.randrange(10 ** 6),
            "sparse": sparse, "fs": rng.randint(2, 6), "gs": rng.randint(1, 4)}


def _objective(a):
    import numpy as np
    from pyttb.gcp import handles
    if a["obj"] == "gaussian":
        return handles.gaussian, handles.gaussian_grad, -np.inf
    if a["obj"] == "gaussian_lb":
        return handles.gaussian, handles.gaussian_grad, 0.25
    return handles.poisson, handles.poisson_grad, 0.0


def _mk_problem(a):
    import numpy as np
    import pyttb as ttb
    from pyttb.gcp import samplers
    shp = tuple(a["shape"])
    arr = np.array(a["data"], dtype=float).reshape(shp, order="F")
    X = ttb.tensor(arr, shp, copy=True)
    if a["sparse"]:
        X = X.to_sptensor()
        smp = samplers.GCPSampler(X, function_samples=samplers.StratifiedCount(num_zeros=1, num_nonzeros=max(1, min(a["fs"], X.nnz))),
                                  gradient_sampler=samplers.Samplers.SEMISTRATIFIED,
                                  gradient_samples=samplers.StratifiedCount(num_zeros=a["gs"], num_nonzeros=a["gs"]))
    else:
        smp = samplers.GCPSampler(X, function_samples=max(2, a["fs"]), gradient_samples=max(2, a["gs"]))
    M0 = ttb.ktensor([np.array(A, dtype=float).reshape((len(A), a["R"])) for A in a["init"]])
    return X, M0, smp


def _mk_opt(a):
    from pyttb.gcp import optimizers
    cls = {"sgd": optimizers.SGD, "adam": optimizers.Adam, "adagrad": optimizers.Adagrad}[a["opt"]]
    return cls(rate=a["rate"], decay=a["decay"], max_fails=a["max_fails"], epoch_iters=a["epoch_iters"],
               f_est_tol=(-math.inf if a["tol"] is None else a["tol"]), max_iters=a["max_iters"], printitn=0)


class EstCapture:
    """records (model factor matrices, value) of every FUNCTION estimate the solver computes (epoch boundaries)"""

    def __enter__(self):
        from pyttb.gcp import optimizers
        self.mod = optimizers
        self.orig = optimizers.estimate
        self.rec = []
        cap = self

        def wrapped(model, data_subs, data_vals, weights, function_handle=None, gradient_handle=None, lambda_check=True, crng=None):
            r = cap.orig(model, data_subs, data_vals, weights, function_handle, gradient_handle, lambda_check, crng)
            if function_handle is not None and gradient_handle is None:
                cap.rec.append(([f.copy() for f in model.factor_matrices], float(r)))
            return r
        optimizers.estimate = wrapped
        return self

    def __exit__(self, *exc):
        self.mod.estimate = self.orig
        return False


def run_solve(a):
    import numpy as np
    X, M0, smp = _mk_problem(a)
    fh, gh, lb = _objective(a)
    opt = _mk_opt(a)
    np.random.seed(a["seed"])
    init_copy = [f.copy() for f in M0.factor_matrices]
    with EstCapture() as cap:
        result, info = opt.solve(M0, X, fh, gh, lb, smp)
    ests = [v for _, v in cap.rec]
    if any(not math.isfinite(v) for v in ests):
        return {"skip": "non-finite estimate"}
    cands = [k for k, (fm, _) in enumerate(cap.rec) if all(np.array_equal(x, y) for x, y in zip(fm, result.factor_matrices))]
    mn = min(float(np.min(f)) for f in result.factor_matrices)
    bmin = [min(float(np.min(f)) for f in fm) for fm, _ in cap.rec[1:]]
    return {"ests": [_fr(v) for v in ests], "trace": [_fr(v) for v in info["f_est_trace"]], "n_epoch": int(info["n_epoch"]),
            "nfails": int(opt._nfails), "ret_cands": cands, "lb_ok": bool(mn >= lb),
            "boundary_lb_ok": all(m >= lb for m in bmin), "min_entry": mn,
            "init_unchanged": all(np.array_equal(x, y) for x, y in zip(init_copy, M0.factor_matrices)),
            "step_trace_len": int(len(info["step_trace"]))}


def _flat(result, info):
    out = [_fr(v) for v in info["f_est_trace"]]
    for f in result.factor_matrices:
        out += [_fr(v) for v in f.ravel(order="F")]
    return out


def run_reuse(a):
    import numpy as np
    reused, fresh = [], []
    shared = _mk_opt(a)
    for mode, sink in (("reused", reused), ("fresh", fresh)):
        for p in a["probs"]:
            q = dict(a)
            q.update(p)
            X, M0, smp = _mk_problem(q)
            fh, gh, lb = _objective(q)
            opt = shared if mode == "reused" else _mk_opt(a)
            np.random.seed(p["seed"])
            try:
                result, info = opt.solve(M0, X, fh, gh, lb, smp)
                flat = _flat(result, info)
                if any("nan" in v or "inf" in v for v in flat):
                    sink.append({"exc": "non-finite"})
                else:
                    sink.append({"flat": flat})
            except Exception as ex:
                sink.append({"exc": type(ex).__name__, "msg": str(ex)[:120]})
    return {"reused": reused, "fresh": fresh}


def scale(ests, trace, tol):
    fe = [Fraction(x) for x in ests]
    ft = [Fraction(x) for x in trace]
    ftol = None if tol is None else Fraction(float(tol))
    L = 1
    for f in fe + ft + ([ftol] if ftol is not None else []):
        L = L * f.denominator // math.gcd(L, f.denominator)
    return [int(f * L) for f in fe], [int(f * L) for f in ft], (None if ftol is None else int(ftol * L))


def scale_many(A, B):
    L = 1
    for row in A + B:
        for x in row:
            d = Fraction(x).denominator
            L = L * d // math.gcd(L, d)
    conv = lambda rows: [[int(Fraction(x) * L) for x in row] for row in rows]
    return conv(A), conv(B)



# --------------------------------------------------------------------------------------- L-BFGS-B wrapper
def run_lbfgsb(a):
    """two solves on ONE LBFGSB object (the second must not depend on the first) + what C13 states about the result"""
    import numpy as np
    import pyttb as ttb
    from pyttb.gcp import optimizers, fg
    q = dict(a)
    q["sparse"] = False
    X, M0, _ = _mk_problem(q)
    fh, gh, lb = _objective(q)
    mask = None if a["mask"] is None else np.array(a["mask"], dtype=float).reshape(tuple(a["shape"]), order="F")
    calls = []
    user_cb = (lambda xk: calls.append(1)) if a["callback"] else None
    opt = optimizers.LBFGSB(maxiter=a["maxiter"], callback=user_cb)
    before = dict(opt._solver_kwargs)
    f0 = float(fg.evaluate(M0, X, mask, fh, None))
    outs = []
    for rep in range(2):
        init = M0.copy()
        res, info = opt.solve(init, X, fh, gh, lb, mask)
        f_end = float(fg.evaluate(res, X, mask, fh, None))
        outs.append({"final_f": _fr(info["final_f"]), "f_end": _fr(f_end),
                     "min_entry": min(float(np.min(f)) for f in res.factor_matrices),
                     "flat": [_fr(v) for f in res.factor_matrices for v in f.ravel(order="F")],
                     "init_unchanged": all(np.array_equal(x, y) for x, y in zip(init.factor_matrices, M0.factor_matrices)),
                     "shapes_ok": [f.shape for f in res.factor_matrices] == [f.shape for f in M0.factor_matrices]})
    after = opt._solver_kwargs
    restored = after.get("callback") is user_cb and all(after[k] == before[k] or (after[k] is before[k]) for k in before if k not in ("callback", "pgtol"))
    return {"f0": _fr(f0), "outs": outs, "lb": (None if lb == -np.inf else lb), "callback_restored": bool(restored),
            "callback_called": len(calls) > 0 if a["callback"] else None}

# --------------------------------------------------------------------------------------- brute-force oracle
def _cell(shape, data, sub):
    k, mul = 0, 1
    for x, d in zip(sub, shape):
        k += x * mul
        mul *= d
    return data[k]


def oracle(op, a, o):
    if op.startswith("uniform") or op.startswith("strat") or op.startswith("semi"):
        shp = a["shape"]
        size = math.prod(shp)
        subs, vals, ws = o["subs"], o["vals"], [Fraction(w) for w in o["weights"]]
        if not (len(subs) == len(vals) == len(ws)) or o["vals_shape"] != [len(subs)]:
            return f"{len(subs)} subscripts, values of shape {o['vals_shape']}, {len(ws)} weights"
        for r in subs:
            if any(not (0 <= x < d) for x, d in zip(r, shp)):
                return f"subscript {r} is outside the tensor of shape {shp}"
        if op.startswith("uniform"):
            for r, v in zip(subs, vals):
                if _cell(shp, a["data"], r) != v:
                    return f"value {v} at {r} is not the data there"
            if abs(sum(ws) - size) > Fraction(1, 10 ** 6):
                return f"weights total {float(sum(ws))}, the tensor has {size} entries"
            return None
        stored = {tuple(s): v for s, v in zip(a["subs"], a["vals"])}
        for k, (r, v) in enumerate(zip(subs, vals)):
            if stored.get(tuple(r), 0) != v:
                return f"sample {k}: value {v} at {r} but the data there is {stored.get(tuple(r), 0)}"
        cn = a["cn"]
        nnz = len(a["subs"])
        ztot = size if op.startswith("semi") else size - nnz
        if cn and abs(sum(ws[:cn]) - nnz) > Fraction(1, 10 ** 6):
            return f"nonzero weights total {float(sum(ws[:cn]))} for {nnz} nonzeros"
        if a["cz"] and abs(sum(ws[cn:]) - ztot) > Fraction(1, 10 ** 6):
            return f"zero weights total {float(sum(ws[cn:]))} for {ztot} entries"
        return None
    if op in ("solve", "solve_trace"):
        ests = [Fraction(x) for x in o["ests"]]
        trace = [Fraction(x) for x in o["trace"]]
        if op == "solve_trace" and trace != ests:
            return f"trace has {len(trace)} values, the start plus {len(ests) - 1} completed epochs were estimated"
        best = min(ests)
        if not o["ret_cands"]:
            return "returned model is none of the models held at an epoch boundary"
        if not any(ests[k] == best for k in o["ret_cands"]):
            return f"returned model is the boundary model #{o['ret_cands']} but the smallest estimate {float(best)} belongs to #{ests.index(best)}"
        if not (o["lb_ok"] or 0 in o["ret_cands"]):
            return f"returned factor entry {o['min_entry']} below the lower bound"
        return None
    if op == "lbfgsb":
        f0 = Fraction(o["f0"])
        for k, r in enumerate(o["outs"]):
            if Fraction(r["final_f"]) > f0 or Fraction(r["f_end"]) > f0:
                return f"L-BFGS-B solve #{k + 1} returned objective {float(Fraction(r['f_end']))} above the starting objective {float(f0)}"
            if o["lb"] is not None and r["min_entry"] < o["lb"]:
                return f"factor entry {r['min_entry']} below the lower bound {o['lb']}"
        if o["outs"][0]["flat"] != o["outs"][1]["flat"]:
            return "second solve on the same LBFGSB object differs from the first identical solve"
        if not o["callback_restored"]:
            return "the user's callback slot was not restored after the solve"
        return None
    if op == "reuse":
        for k, (r, f) in enumerate(zip(o["reused"], o["fresh"])):
            if r != f:
                return f"solve #{k + 1} on the reused object differs from the same solve on a fresh object"
        return None
    return None


# --------------------------------------------------------------------------------------- witnesses of the findings
def _w_a35():
    a = rand_witness_problem()
    a.update({"opt": "sgd", "rate": 0.01, "decay": 0.1, "max_fails": 1, "epoch_iters": 2, "max_iters": 3, "tol": None})
    o = run_solve(a)
    if len(o["trace"]) != len(o["ests"]):
        return f"3 epochs completed, f_est_trace has {len(o['trace'])} values instead of 4 (the last epoch's value is dropped)"
    return None


def rand_witness_problem():
    return {"shape": [2, 3], "data": [1, 0, 2, 3, 0, 1], "R": 1, "init": [[[1.0], [0.5]], [[0.5], [1.0], [1.5]]],
            "obj": "gaussian", "seed": 7, "sparse": False, "fs": 6, "gs": 3}


def _w_a36(kind):
    def w():
        p = rand_witness_problem()
        a = {"opt": kind, "probs": [p, dict(p)], "rate": 0.125, "decay": 0.5, "max_fails": 1, "epoch_iters": 2, "max_iters": 2, "tol": None}
        o = run_reuse(a)
        if o["reused"][1] != o["fresh"][1]:
            return f"second {kind} solve on the same object differs from the identical solve on a fresh object"
        return None
    return w


def _w_a37():
    o = run_uniform({"shape": [2, 3], "data": [1, 2, 3, 4, 5, 6], "n": 1, "seed": 0, "force": None})
    if o["vals_shape"] != [1]:
        return f"uniform(samples=1): values have shape {tuple(o['vals_shape'])}, weights shape (1,)"
    return None


def _w_a48():
    o = run_uniform({"shape": [2, 3], "data": [1, 2, 3, 4, 5, 6], "n": 2, "seed": 0, "force": "zero"})
    if any(x < 0 for r in o["subs"] for x in r):
        return f"draw u = 0.0 gives subscripts {o['subs']}"
    return None


def _w_a47():
    a = {"shape": [2, 2], "subs": [[0, 0], [1, 0], [0, 1], [1, 1]], "vals": [1, 2, 3, 5], "cn": 1, "cz": 2, "seed": 3, "force": None}
    o = run_stratified(a, semi=True)
    if o["meta"]["semi_hit"]:
        return f"semistrat returns value 0 at {o['subs'][1:]} where the data are nonzero"
    return None


def _w_short():
    a = {"shape": [2, 3], "subs": [[0, 0], [1, 0], [0, 1], [1, 1], [0, 2]], "vals": [1, 2, 3, 4, 5], "cn": 2, "cz": 3, "force": None}
    for seed in range(40):
        a["seed"] = seed
        o = run_stratified(a, semi=False)
        if "exc" not in o and len(o["subs"]) != len(o["vals"]):
            return f"stratified(2 nonzeros, 3 zeros) on a 2x3 tensor with one zero (seed {seed}): {len(o['subs'])} subscripts, {len(o['vals'])} values"
    return None


def _w_semi0():
    a = {"shape": [2, 2], "subs": [[0, 0]], "vals": [1], "cn": 0, "cz": 2, "seed": 3, "force": None}
    o = run_stratified(a, semi=True)
    return f"semistrat(num_nonzeros=0) raises {o['exc']}" if "exc" in o else None


def _w_empty():
    a = {"shape": [2, 3], "subs": [], "vals": [], "cn": 0, "cz": 2, "seed": 3, "force": None}
    o = run_stratified(a, semi=False)
    return f"stratified sampling of an all-zero sptensor raises {o['exc']}" if "exc" in o else None


def _w_a36_both():
    return _w_a36("adam")() or _w_a36("adagrad")()


WITNESSES = {"A-35": _w_a35, "A-36": _w_a36_both, "C13-S3": _w_empty, "A-37": _w_a37, "A-47": _w_a47,
             "A-48": _w_a48, "C13-S1": _w_short, "C13-S2": _w_semi0}
