(* Proofs/C09Scaling.v — two CP-ALS runs whose data differ by a scalar factor kappa (X2 = kappa * X1) and whose factor
   matrices differ by invertible column scalings (different column-scaling oracles, different starts up to column scaling)
   produce models with den2 = kappa * den1 after every mode update — provided each run's oracles meet their contracts
   (Proofs/C09Monotone.v) and the normal equations of run 1 have unique solutions (Y injective: the rank condition of C09).
   kappa = 1: C09_scaling_indep.   Any kappa: C18_scale.   All shapes / orders / ranks / values of a commutative ring. *)
From Coq Require Import List Arith Lia Bool Ring.
From PV Require Import Base.Index Base.Sum Np.Array Model.Sparse Model.Repr Model.C09Als Proofs.C09Identity Proofs.C09Monotone.
Import ListNotations.

Section Scal.
Variable V : Type.
Variables (v0 v1 : V) (vadd vmul vsub : V -> V -> V) (vopp : V -> V).
Hypothesis Vring : ring_theory v0 v1 vadd vmul vsub vopp (@eq V).
Add Ring Vr3 : Vring.

Local Notation mx := (@matrix V).
Local Notation "x + y" := (vadd x y).
Local Notation "x * y" := (vmul x y).
Local Notation "x - y" := (vsub x y).
Local Notation SUM := (sum_over v0 vadd).
Local Notation SUMN := (sum_n v0 vadd).
Local Notation mg := (mget v0).
Local Notation kpr := (kprod v0 v1 vmul).
Local Notation kex := (kprod_ex v0 v1 vmul).
Local Notation denk := (den_k v0 v1 vadd vmul).
Local Notation kmod := (kmodel v0 v1 vadd vmul).
Local Notation mtk := (mttkrp_den v0 v1 vadd vmul).
Local Notation gramh := (gramhad v0 v1 vadd vmul).
Local Notation grama := (gramall v0 v1 vadd vmul).
Local Notation gramm := (gram v0 vadd vmul).
Local Notation neq := (normal_eq v0 v1 vadd vmul).

Let S_ext := @sum_over_ext V v0 vadd.
Let S_scale_l := @sum_over_scale_l V v0 v1 vadd vmul vsub vopp Vring.
Let S_scale_r := @sum_over_scale_r V v0 v1 vadd vmul vsub vopp Vring.
Let S_add := @sum_over_add V v0 v1 vadd vmul vsub vopp Vring.
Let S_zero := @sum_over_zero V v0 v1 vadd vmul vsub vopp Vring.
Let N_ext := @sum_n_ext V v0 vadd.

Variable R : nat.

(* column scalings, one (column -> V) per mode *)
Fixpoint call (cs : list (nat -> V)) (r : nat) : V := match cs with [] => v1 | c :: cs' => c r * call cs' r end.
Fixpoint cex (n : nat) (cs : list (nat -> V)) (r : nat) {struct cs} : V :=
  match cs with
  | [] => v1
  | c :: cs' => match n with O => call cs' r | S n' => c r * cex n' cs' r end
  end.

(* U2 = U1 with column r of mode m multiplied by c_m r  (entries inside the I_m x R block) *)
Fixpoint coleq (cs : list (nat -> V)) (U1 U2 : list mx) : Prop :=
  match cs, U1, U2 with
  | [], [], [] => True
  | c :: cs', A :: U1', B :: U2' =>
      nrows B = nrows A /\ (forall j r, j < nrows A -> r < R -> mg B j r = c r * mg A j r) /\ coleq cs' U1' U2'
  | _, _, _ => False
  end.
Fixpoint inv_of (cs cis : list (nat -> V)) : Prop :=
  match cs, cis with
  | [], [] => True
  | c :: cs', ci :: cis' => (forall r, r < R -> c r * ci r = v1) /\ inv_of cs' cis'
  | _, _ => False
  end.

Lemma coleq_nrows cs : forall U1 U2, coleq cs U1 U2 -> map (@nrows V) U2 = map (@nrows V) U1.
Proof.
  induction cs as [|c cs IH]; intros [|A U1] [|B U2] H; cbn in H; try contradiction; auto.
  destruct H as (Hr & _ & H). cbn. f_equal; auto.
Qed.
Lemma coleq_length cs : forall U1 U2, coleq cs U1 U2 -> length U1 = length cs /\ length U2 = length cs.
Proof.
  induction cs as [|c cs IH]; intros [|A U1] [|B U2] H; cbn in H; try contradiction; auto.
  destruct H as (_ & _ & H). destruct (IH _ _ H). cbn. lia.
Qed.

Lemma call_inv cs : forall cis r, inv_of cs cis -> r < R -> call cs r * call cis r = v1.
Proof.
  induction cs as [|c cs IH]; intros [|ci cis] r H Hr; cbn in H; try contradiction; cbn; [ring|].
  destruct H as [H1 H2]. transitivity ((c r * ci r) * (call cs r * call cis r)); [ring|].
  rewrite H1, IH by auto. ring.
Qed.
Lemma cex_inv n cs : forall cis r, inv_of cs cis -> r < R -> cex n cs r * cex n cis r = v1.
Proof.
  revert n; induction cs as [|c cs IH]; intros n [|ci cis] r H Hr; cbn in H; try contradiction; cbn; [ring|].
  destruct H as [H1 H2]. destruct n as [|n]; [now apply call_inv|].
  transitivity ((c r * ci r) * (cex n cs r * cex n cis r)); [ring|]. rewrite H1, IH by auto. ring.
Qed.

Lemma kpr_coleq cs : forall U1 U2 i r, coleq cs U1 U2 -> inb (map (@nrows V) U1) i = true -> r < R ->
  kpr U2 i r = call cs r * kpr U1 i r.
Proof.
  induction cs as [|c cs IH]; intros [|A U1] [|B U2] i r H Hi Hr; cbn in H; try contradiction; [cbn; ring|].
  destruct H as (Hn & Hp & H). destruct i as [|x i]; cbn in Hi; [discriminate|].
  apply andb_true_iff in Hi as [Hx Hi]. apply Nat.ltb_lt in Hx.
  cbn [kprod call]. rewrite Hp, (IH U1 U2 i r) by auto. ring.
Qed.
Lemma kex_coleq n cs : forall U1 U2 i r, coleq cs U1 U2 -> inb (map (@nrows V) U1) i = true -> r < R ->
  kex n U2 i r = cex n cs r * kex n U1 i r.
Proof.
  revert n; induction cs as [|c cs IH]; intros n [|A U1] [|B U2] i r H Hi Hr; cbn in H; try contradiction; [cbn; ring|].
  destruct H as (Hn & Hp & H). destruct i as [|x i]; cbn in Hi; [discriminate|].
  apply andb_true_iff in Hi as [Hx Hi]. apply Nat.ltb_lt in Hx.
  destruct n as [|n]; cbn [kprod_ex cex]; [now apply kpr_coleq|].
  rewrite Hp, (IH n U1 U2 i r) by auto. ring.
Qed.

Lemma gram_coleq (c : nat -> V) (A B : mx) r t : nrows B = nrows A ->
  (forall j r, j < nrows A -> r < R -> mg B j r = c r * mg A j r) -> r < R -> t < R ->
  gramm B r t = (c r * c t) * gramm A r t.
Proof.
  intros Hn Hp Hr Ht. unfold gram. rewrite Hn. unfold sum_n. rewrite <- S_scale_l.
  apply S_ext. intros j Hj. apply in_seq in Hj. rewrite !Hp by lia. ring.
Qed.
Lemma grama_coleq cs : forall U1 U2 r t, coleq cs U1 U2 -> r < R -> t < R ->
  grama U2 r t = (call cs r * call cs t) * grama U1 r t.
Proof.
  induction cs as [|c cs IH]; intros [|A U1] [|B U2] r t H Hr Ht; cbn in H; try contradiction; [cbn; ring|].
  destruct H as (Hn & Hp & H). cbn [gramall call].
  rewrite (gram_coleq c A B r t), (IH U1 U2 r t) by auto. ring.
Qed.
Lemma gramh_coleq n cs : forall U1 U2 r t, coleq cs U1 U2 -> r < R -> t < R ->
  gramh n U2 r t = (cex n cs r * cex n cs t) * gramh n U1 r t.
Proof.
  revert n; induction cs as [|c cs IH]; intros n [|A U1] [|B U2] r t H Hr Ht; cbn in H; try contradiction; [cbn; ring|].
  destruct H as (Hn & Hp & H). destruct n as [|n]; cbn [gramhad cex]; [now apply grama_coleq|].
  rewrite (gram_coleq c A B r t), (IH n U1 U2 r t) by auto. ring.
Qed.

(* data: X2 = kappa * X1 on the shape *)
Variables (X1 X2 : idx -> V) (kappa kappai : V).
Hypothesis kappa_inv : kappa * kappai = v1.     (* a positive constant of an ordered field is invertible *)

Lemma mtk_coleq n cs U1 U2 j t : coleq cs U1 U2 ->
  (forall i, inb (map (@nrows V) U1) i = true -> X2 i = kappa * X1 i) -> t < R ->
  mtk (map (@nrows V) U1) X2 U2 n j t = (kappa * cex n cs t) * mtk (map (@nrows V) U1) X1 U1 n j t.
Proof.
  intros H HX Ht. unfold mttkrp_den. rewrite <- S_scale_l. apply S_ext. intros i Hi. apply in_allsubs in Hi.
  destruct (Nat.eqb (nth n i 0) j); [|ring]. rewrite (kex_coleq n cs U1 U2 i t), HX by auto. ring.
Qed.

(* uniqueness of the solution of run 1's normal equations (Y has trivial left kernel) *)
Definition y_injective (n : nat) (U1 : list mx) : Prop :=
  forall b : nat -> V, (forall t, t < R -> SUMN R (fun r => b r * gramh n U1 r t) = v0) -> forall r, r < R -> b r = v0.

(* ---- one mode update: the two solutions correspond ---- *)
Lemma update_solutions_correspond n cs cis U1 U2 (a1 a2 : nat -> nat -> V) :
  coleq cs U1 U2 -> inv_of cs cis ->
  (forall i, inb (map (@nrows V) U1) i = true -> X2 i = kappa * X1 i) ->
  n < length U1 ->
  neq (map (@nrows V) U1) X1 n U1 R a1 ->
  neq (map (@nrows V) U1) X2 n U2 R a2 ->
  y_injective n U1 ->
  forall j r, j < nth n (map (@nrows V) U1) 0 -> r < R -> a2 j r * cex n cs r = kappa * a1 j r.
Proof.
  intros Hc Hi HX Hn NE1 NE2 Inj j r Hj Hr.
  set (b := fun r => a2 j r * cex n cs r - kappa * a1 j r).
  assert (Hb : forall r, r < R -> b r = v0).
  { apply Inj. intros t Ht. unfold b.
    transitivity (SUMN R (fun r => (a2 j r * cex n cs r) * gramh n U1 r t) - kappa * SUMN R (fun r => a1 j r * gramh n U1 r t)).
    { unfold sum_n. rewrite <- S_scale_l.
      transitivity (SUM (seq 0 R) (fun r => (a2 j r * cex n cs r) * gramh n U1 r t + vopp (kappa * (a1 j r * gramh n U1 r t)))).
      { apply S_ext. intros; ring. }
      rewrite S_add.
      transitivity (SUM (seq 0 R) (fun r => (a2 j r * cex n cs r) * gramh n U1 r t) +
                    vopp v1 * SUM (seq 0 R) (fun r => kappa * (a1 j r * gramh n U1 r t))); [|ring].
      f_equal. rewrite <- S_scale_l. apply S_ext. intros; ring. }
    rewrite (NE1 j t Hj Ht).
    specialize (NE2 j t Hj Ht). rewrite (mtk_coleq n cs U1 U2 j t Hc HX Ht) in NE2.
    (* NE2 : sum_r a2 j r * gramh n U2 r t = kappa * C_t * P1 ;  multiply by the inverse of C_t *)
    assert (E : SUMN R (fun r => (a2 j r * cex n cs r) * gramh n U1 r t) * (cex n cs t * cex n cis t)
                = kappa * mtk (map (@nrows V) U1) X1 U1 n j t * (cex n cs t * cex n cis t)).
    { transitivity (SUMN R (fun r => a2 j r * gramh n U2 r t) * cex n cis t).
      - unfold sum_n. rewrite <- !S_scale_r. apply S_ext. intros q Hq. apply in_seq in Hq.
        rewrite (gramh_coleq n cs U1 U2 q t) by (auto; lia). ring.
      - rewrite NE2. ring. }
    rewrite (cex_inv n cs cis t Hi Ht) in E.
    transitivity (SUMN R (fun r => (a2 j r * cex n cs r) * gramh n U1 r t) * v1 - kappa * mtk (map (@nrows V) U1) X1 U1 n j t * v1); [ring|].
    rewrite E. ring. }
  specialize (Hb r Hr). unfold b in Hb.
  transitivity ((a2 j r * cex n cs r - kappa * a1 j r) + kappa * a1 j r); [ring|]. rewrite Hb. ring.
Qed.

Lemma update_models_correspond n cs cis U1 U2 (a1 a2 : nat -> nat -> V) :
  coleq cs U1 U2 -> inv_of cs cis ->
  (forall i, inb (map (@nrows V) U1) i = true -> X2 i = kappa * X1 i) ->
  n < length U1 ->
  neq (map (@nrows V) U1) X1 n U1 R a1 ->
  neq (map (@nrows V) U1) X2 n U2 R a2 ->
  y_injective n U1 ->
  forall i, inb (map (@nrows V) U1) i = true -> kmod n U2 R a2 i = kappa * kmod n U1 R a1 i.
Proof.
  intros Hc Hi HX Hn NE1 NE2 Inj i Hin. unfold kmodel, sum_n. rewrite <- S_scale_l.
  apply S_ext. intros r Hr. apply in_seq in Hr.
  rewrite (kex_coleq n cs U1 U2 i r) by (auto; lia).
  assert (Hj : nth n i 0 < nth n (map (@nrows V) U1) 0).
  { apply (inb_nth_lt _ _ _ Hin). now rewrite map_length. }
  transitivity ((a2 (nth n i 0) r * cex n cs r) * kex n U1 i r); [ring|].
  rewrite (update_solutions_correspond n cs cis U1 U2 a1 a2 Hc Hi HX Hn NE1 NE2 Inj _ r Hj) by lia. ring.
Qed.

(* ---- the two executable runs ---- *)
Variables (mk1 mk2 : list mx -> nat -> mx) (solve1 solve2 : mx -> mx -> mx) (scale1 scale2 : nat -> mx -> list V * mx).
Local Notation upd_1 := (als_update v0 v1 vadd vmul mk1 solve1 scale1 R).
Local Notation upd_2 := (als_update v0 v1 vadd vmul mk2 solve2 scale2 R).
Local Notation sweep_1 := (als_sweep v0 v1 vadd vmul mk1 solve1 scale1 R).
Local Notation sweep_2 := (als_sweep v0 v1 vadd vmul mk2 solve2 scale2 R).
Local Notation contract1 := (update_contract V v0 v1 vadd vmul mk1 solve1 scale1 R X1).
Local Notation contract2 := (update_contract V v0 v1 vadd vmul mk2 solve2 scale2 R X2).
Local Notation sden := (st_den V v0 v1 vadd vmul).
Local Notation swf := (st_wf V R).

(* the weights produced by a scaling oracle are invertible (positive column norms) *)
Definition weights_invertible (w : list V) : Prop := exists wi : nat -> V, forall r, r < R -> nth r w v0 * wi r = v1.

Definition related (s : shape) (st1 st2 : als_state V) : Prop :=
  swf s st1 /\ swf s st2 /\ exists cs cis, coleq cs (st_U st1) (st_U st2) /\ inv_of cs cis /\ inv_of cis cs.

Lemma coleq_upd cs : forall n U1 U2 (c' : nat -> V) (A B : mx), coleq cs U1 U2 -> n < length U1 ->
  nrows B = nrows A -> (forall j r, j < nrows A -> r < R -> mg B j r = c' r * mg A j r) ->
  coleq (upd cs n c') (upd U1 n A) (upd U2 n B).
Proof.
  induction cs as [|c cs IH]; intros n [|A1 U1] [|B1 U2] c' A B H Hn Hr Hp; cbn in H; try contradiction; cbn in Hn; [lia|].
  destruct H as (H1 & H2 & H3). destruct n as [|n]; cbn [upd coleq]; auto. repeat split; auto. apply IH; auto. lia.
Qed.
Lemma inv_of_upd cs : forall n cis (c ci : nat -> V), inv_of cs cis -> (forall r, r < R -> c r * ci r = v1) ->
  inv_of (upd cs n c) (upd cis n ci).
Proof.
  induction cs as [|c0 cs IH]; intros n [|ci0 cis] c ci H Hc; cbn in H; try contradiction; [destruct n; cbn; auto|].
  destruct H as [H1 H2]. destruct n as [|n]; cbn [upd inv_of]; auto.
Qed.

Theorem update_equiv s it st1 st2 n :
  related s st1 st2 -> (forall i, inb s i = true -> X2 i = kappa * X1 i) ->
  contract1 s it st1 n -> contract2 s it st2 n ->
  weights_invertible (st_w (upd_1 it st1 n)) -> weights_invertible (st_w (upd_2 it st2 n)) ->
  y_injective n (st_U st1) ->
  related s (upd_1 it st1 n) (upd_2 it st2 n) /\
  (forall i, inb s i = true -> sden (upd_2 it st2 n) i = kappa * sden (upd_1 it st1 n) i).
Proof.
  intros (W1 & W2 & cs & cis & Hc & Hi & Hi') HX C1 C2 [wi1 Hw1] [wi2 Hw2] Inj.
  destruct (update_wf_den V v0 v1 vadd vmul vsub vopp Vring mk1 solve1 scale1 R X1 s it st1 n W1 C1) as [W1' D1].
  destruct (update_wf_den V v0 v1 vadd vmul vsub vopp Vring mk2 solve2 scale2 R X2 s it st2 n W2 C2) as [W2' D2].
  pose proof W1 as [_ Hs1]. pose proof W2 as [_ Hs2].
  pose proof C1 as (Hn & NE1 & Hl1 & Hr1 & Hsc1). pose proof C2 as (_ & NE2 & Hl2 & Hr2 & Hsc2).
  assert (HnU : n < length (st_U st1)) by (rewrite <- (map_length (@nrows V)), Hs1; auto).
  set (A1 := solve1 (ymat v0 v1 vadd vmul n (st_U st1) R) (mk1 (st_U st1) n)) in *.
  set (A2 := solve2 (ymat v0 v1 vadd vmul n (st_U st2) R) (mk2 (st_U st2) n)) in *.
  rewrite <- Hs1 in HX, NE1, NE2.
  assert (Sol := update_solutions_correspond n cs cis (st_U st1) (st_U st2) (fun j r => mg A1 j r) (fun j r => mg A2 j r)
                   Hc Hi HX HnU NE1 NE2 Inj).
  split.
  - split; [exact W1'|]. split; [exact W2'|].
    cbn [als_update st_U st_w] in *. fold A1 A2 in Hw1, Hw2, Hsc1, Hsc2 |- *.
    set (w1 := fst (scale1 it A1)) in *. set (B1 := snd (scale1 it A1)) in *.
    set (w2 := fst (scale2 it A2)) in *. set (B2 := snd (scale2 it A2)) in *.
    exists (upd cs n (fun r => ((wi2 r * cex n cis r) * nth r w1 v0) * kappa)),
           (upd cis n (fun r => ((nth r w2 v0 * cex n cs r) * wi1 r) * kappai)).
    assert (CI : forall r, r < R -> (((wi2 r * cex n cis r) * nth r w1 v0) * kappa) * (((nth r w2 v0 * cex n cs r) * wi1 r) * kappai) = v1).
    { intros r Hr.
      transitivity ((nth r w2 v0 * wi2 r) * (cex n cs r * cex n cis r) * (nth r w1 v0 * wi1 r) * (kappa * kappai)); [ring|].
      rewrite Hw1, Hw2, (cex_inv n cs cis r Hi Hr), kappa_inv by auto. ring. }
    split; [|split].
    + apply coleq_upd; auto.
      * rewrite Hr1, Hr2. reflexivity.
      * intros j r Hj Hr. rewrite Hr1, <- Hs1 in Hj.
        (* B2[j,r] = wi2 * A2[j,r] ;  A2[j,r] * C_r = kappa * A1[j,r] ;  A1[j,r] = w1 * B1[j,r] *)
        assert (E2 : mg B2 j r = wi2 r * mg A2 j r).
        { transitivity ((nth r w2 v0 * wi2 r) * mg B2 j r); [rewrite Hw2 by auto; ring|].
          rewrite <- (Hsc2 j r). ring. }
        rewrite E2.
        transitivity (wi2 r * ((mg A2 j r * cex n cs r) * cex n cis r)).
        { transitivity (wi2 r * (mg A2 j r * (cex n cs r * cex n cis r))); [|ring].
          rewrite (cex_inv n cs cis r Hi Hr). ring. }
        rewrite (Sol j r Hj Hr). rewrite <- (Hsc1 j r). ring.
    + apply inv_of_upd; auto.
    + apply inv_of_upd; auto. intros r Hr. rewrite <- (CI r Hr). ring.
  - intros i Hin. rewrite D1, D2 by auto. rewrite <- Hs1 in Hin.
    rewrite <- (update_models_correspond n cs cis (st_U st1) (st_U st2) (fun j r => mg A1 j r) (fun j r => mg A2 j r)
                  Hc Hi HX HnU NE1 NE2 Inj i Hin). reflexivity.
Qed.

(* ---- a sweep, k sweeps ---- *)
Local Notation iter_1 := (als_iter v0 v1 vadd vmul mk1 solve1 scale1 R).
Local Notation iter_2 := (als_iter v0 v1 vadd vmul mk2 solve2 scale2 R).

(* contracts of both runs' oracles at every update of the sweep + uniqueness of run 1's solutions *)
Fixpoint sweep_hyps (s : shape) (it : nat) (dims : list nat) (st1 st2 : als_state V) : Prop :=
  match dims with
  | [] => True
  | n :: ds =>
      contract1 s it st1 n /\ contract2 s it st2 n /\
      weights_invertible (st_w (upd_1 it st1 n)) /\ weights_invertible (st_w (upd_2 it st2 n)) /\
      y_injective n (st_U st1) /\
      sweep_hyps s it ds (upd_1 it st1 n) (upd_2 it st2 n)
  end.
Fixpoint iter_hyps (s : shape) (k : nat) (dims : list nat) (st1 st2 : als_state V) : Prop :=
  match k with
  | O => True
  | S k' => iter_hyps s k' dims st1 st2 /\ sweep_hyps s k' dims (iter_1 k' dims st1) (iter_2 k' dims st2)
  end.

Definition den_scaled (s : shape) (st1 st2 : als_state V) : Prop :=
  forall i, inb s i = true -> sden st2 i = kappa * sden st1 i.

Lemma sweep_equiv_gen s it dims : forall st1 st2,
  related s st1 st2 -> (forall i, inb s i = true -> X2 i = kappa * X1 i) ->
  sweep_hyps s it dims st1 st2 -> (dims = [] -> den_scaled s st1 st2) ->
  related s (sweep_1 it dims st1) (sweep_2 it dims st2) /\ den_scaled s (sweep_1 it dims st1) (sweep_2 it dims st2).
Proof.
  induction dims as [|n ds IH]; intros st1 st2 Hrel HX Hh Hd; cbn [als_sweep fold_left].
  - split; auto.
  - destruct Hh as (C1 & C2 & I1 & I2 & Inj & Hh).
    destruct (update_equiv s it st1 st2 n Hrel HX C1 C2 I1 I2 Inj) as [Hrel' Hden'].
    apply IH; auto.
Qed.

Theorem sweep_equiv s it dims st1 st2 :
  related s st1 st2 -> (forall i, inb s i = true -> X2 i = kappa * X1 i) ->
  sweep_hyps s it dims st1 st2 -> dims <> [] ->
  related s (sweep_1 it dims st1) (sweep_2 it dims st2) /\ den_scaled s (sweep_1 it dims st1) (sweep_2 it dims st2).
Proof. intros Hrel HX Hh Hne. apply sweep_equiv_gen; auto. intros E. contradiction. Qed.

Theorem iter_equiv s dims st1 st2 k :
  related s st1 st2 -> (forall i, inb s i = true -> X2 i = kappa * X1 i) -> dims <> [] ->
  iter_hyps s (S k) dims st1 st2 ->
  related s (iter_1 (S k) dims st1) (iter_2 (S k) dims st2) /\ den_scaled s (iter_1 (S k) dims st1) (iter_2 (S k) dims st2).
Proof.
  intros Hrel HX Hne.
  assert (G : forall q, iter_hyps s q dims st1 st2 -> related s (iter_1 q dims st1) (iter_2 q dims st2)).
  { intros q. induction q as [|k0 IHk]; intros Hh; cbn [als_iter]; auto.
    destruct Hh as [H1 H2]. exact (proj1 (sweep_equiv s k0 dims _ _ (IHk H1) HX H2 Hne)). }
  intros [H1 H2]. cbn [als_iter]. apply sweep_equiv; auto.
Qed.

(* identical factor lists are related by the trivial column scaling *)
Lemma coleq_refl (U : list mx) : coleq (map (fun _ => fun _ : nat => v1) U) U U.
Proof. induction U as [|A U IH]; cbn; auto. repeat split; auto. intros; ring. Qed.
Lemma inv_of_ones (U : list mx) : inv_of (map (fun _ => fun _ : nat => v1) U) (map (fun _ => fun _ : nat => v1) U).
Proof. induction U as [|A U IH]; cbn; auto. split; auto. intros; ring. Qed.
Lemma related_same_factors s st1 st2 : swf s st1 -> swf s st2 -> st_U st1 = st_U st2 -> related s st1 st2.
Proof.
  intros W1 W2 E. split; [exact W1|]. split; [exact W2|].
  exists (map (fun _ => fun _ : nat => v1) (st_U st1)), (map (fun _ => fun _ : nat => v1) (st_U st1)).
  rewrite <- E. split; [apply coleq_refl|]. split; apply inv_of_ones.
Qed.

End Scal.
