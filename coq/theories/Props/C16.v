(* Props/C16.v — export followed by import reproduces the object exactly.
   Only statements, `exact`, Print Assumptions, and concrete Examples (non-vacuity).
   Number texts are abstract: D = doubles, T = number texts, print = what "%.16e" writes, parse = what the
   reader returns; the ONE assumption about them is [parse (print v) = v] (tested bit-for-bit on every double the
   correspondence stream writes through real files). *)
From Coq Require Import String.
From Coq Require Import List Arith ZArith Bool.
From PV Require Import Base.Index Np.Array Model.Sparse Model.Repr Model.C16IO Model.C16Lines Model.C16Big Model.C16Text Model.C16Harness Proofs.C16Proofs Proofs.C16Lines Proofs.C16Big Proofs.C16Text Proofs.C16Fmt.
Import ListNotations.

Section C16.
Variables (D T : Type) (d0 : D) (print : D -> T) (parse : T -> D).
Hypothesis parse_print : forall v : D, parse (print v) = v.

(* dense: every shape (any order N, singleton modes; order 0 = ttb.tensor(), which holds no entry: wf_tensor is
   length data = (np.prod(shape) if shape else 0), i.e. wf_dense for every order >= 1), every value list *)
Theorem C16_roundtrip_tensor : forall (b : Z) (X : dense D), wf_tensor D X ->
  import D T d0 parse b (export D T d0 print b (OTensor X)) = Some (OTensor X).
Proof. exact (roundtrip_tensor D T d0 print parse parse_print). Qed.

(* the value lines of a dense file are the first-index-fastest listing of the tensor: C-order output of the
   fully transposed array (what the code writes) = the F-order data list *)
Theorem C16_dense_layout : forall X : dense D, wf_dense X -> ravelC D d0 (transpose_all D d0 X) = ddata X.
Proof. exact (ravelC_transpose D d0). Qed.
(* ... for every tensor pyttb can hold, the one without modes included (no value line at all) *)
Theorem C16_dense_values : forall X : dense D, wf_tensor D X -> tensor_vals D d0 X = ddata X.
Proof. exact (tensor_vals_data D d0). Qed.

(* sparse: shape, subscripts AND their stored order, values; for every index base b written and read *)
Theorem C16_roundtrip_sptensor : forall (b : Z) (S : sparse D),
  length (ssubs S) = length (svals S) -> Forall (fun i => inb (sshape S) i = true) (ssubs S) ->
  import D T d0 parse b (export D T d0 print b (OSptensor S)) = Some (OSptensor S).
Proof. exact (roundtrip_sptensor D T d0 print parse parse_print). Qed.

(* Kruskal: weights and every factor matrix (I_n x R, non-square included), all ranks, all orders *)
Theorem C16_roundtrip_ktensor : forall (b : Z) (K : ktensor D),
  Forall (fun A => Forall (fun r => length r = krank K) A) (kfactors K) ->
  import D T d0 parse b (export D T d0 print b (OKtensor K)) = Some (OKtensor K).
Proof. exact (roundtrip_ktensor D T d0 print parse parse_print). Qed.

(* matrix (m x n, rows listed): written and re-read in C order *)
Theorem C16_roundtrip_matrix : forall (b : Z) (m n : nat) (A : list (list D)),
  length A = m -> Forall (fun r => length r = n) A ->
  import D T d0 parse b (export D T d0 print b (OMatrix m n A)) = Some (OMatrix m n A).
Proof. exact (roundtrip_matrix D T d0 print parse parse_print). Qed.

(* an np.ndarray that is not 2-way (a vector, a 3-way array, ...): shape and C-order listing *)
Theorem C16_roundtrip_array : forall (b : Z) (s : shape) (c : list D), length c = size s -> length s <> 2 ->
  import D T d0 parse b (export D T d0 print b (OArray s c)) = Some (OArray s c).
Proof. exact (roundtrip_array D T d0 print parse parse_print). Qed.

(* all kinds at once; pyttb's export_data is [export 1] and import_data's default is [import 1] *)
Theorem C16_roundtrip : forall (b : Z) (o : obj D), wf_obj D o ->
  import D T d0 parse b (export D T d0 print b o) = Some o.
Proof. exact (roundtrip D T d0 print parse parse_print). Qed.

(* the file determines the object (no two admissible objects share a file) *)
Theorem C16_export_injective : forall (b : Z) (o1 o2 : obj D), wf_obj D o1 -> wf_obj D o2 ->
  export D T d0 print b o1 = export D T d0 print b o2 -> o1 = o2.
Proof. exact (export_injective D T d0 print parse parse_print). Qed.

(* a file written with base b is read correctly with index_base = b *)
Theorem C16_index_base : forall (b : Z) (S : sparse D), wf_obj D (OSptensor S) ->
  import D T d0 parse b (export D T d0 print b (OSptensor S)) = Some (OSptensor S).
Proof. exact (fun b S => roundtrip D T d0 print parse parse_print b (OSptensor S)). Qed.

(* files carry 1-based subscripts: line 4+k of what export_data writes holds the k-th STORED subscript plus one,
   then the k-th stored value *)
Theorem C16_one_based : forall (S : sparse D) (k : nat),
  length (ssubs S) = length (svals S) -> k < length (ssubs S) ->
  nth (4 + k) (export_lines D T d0 print 1%Z (OSptensor S)) [] =
  map (fun x => Int (Z.of_nat x + 1)) (nth k (ssubs S) []) ++ [Num (print (nth k (svals S) d0))].
Proof. exact (sptensor_line D T d0 print 1%Z). Qed.

(* ---------------------------------------------------------------- the LINE-SENSITIVE import model (Model/C16Lines.v) *)
(* import_data reads the header and every sparse entry with readline() and the dense values / weights / factor entries with
   np.fromfile, which ignores line breaks. With the file as lines of tokens and that mixed reading modelled faithfully:
   import (the lines export writes) = the object — for every kind, EVERY order (0 included since /repo b512e35, which repaired
   finding C16-N2: the objects without modes are ttb.tensor() / ttb.sptensor() / ttb.ktensor(), which hold nothing — wf_tensor
   and wf_lines say so — and the 0-d array with its one entry; see C16_order0_reimported below), EVERY rank (0 included: the
   empty weights line and the empty row lines of the factors are read and dropped, /repo 20317ef repairing finding C16-N1;
   see C16_rank0_reimported below), zero sizes included, every index base. *)
Theorem C16_roundtrip_lines : forall (ofZ : Z -> D) (b : Z) (o : obj D), wf_obj D o -> wf_lines D o ->
  import_lines D T d0 parse ofZ b (export_lines D T d0 print b o) = Some o.
Proof. exact (fun ofZ => roundtrip_lines D T d0 print parse ofZ parse_print). Qed.
(* import's range lies inside the round-trip domain: whatever object import_data returns for SOME accepted file (well-formed
   or not, read with any index base b'), export followed by import (any base b) gives exactly that object again *)
Theorem C16_import_export_stable : forall (ofZ : Z -> D) (b b' : Z) (f : list (list (token T))) (o : obj D),
  import_lines D T d0 parse ofZ b' f = Some o ->
  import_lines D T d0 parse ofZ b (export_lines D T d0 print b o) = Some o.
Proof. exact (fun ofZ => import_export_stable D T d0 print parse ofZ parse_print). Qed.
End C16.

Section C16_guards.
Variables (D T : Type) (d0 : D) (parse : T -> D) (ofZ : Z -> D).

(* one subscript row per line, EXACTLY: a line is read as the entry (i, v) iff it is  t_1 ... t_k tv  with tv a number (or
   integer) text of value v, every t_j an integer text not below the index base, and k = N (i = subscripts - base) or
   k = 1 <> N (numpy broadcasts a single subscript to all N modes — accepted by pyttb) *)
Theorem C16_entry_line : forall (b : Z) (N : nat) (l : list (token T)) (i : idx) (v : D),
  entry_of_line D T parse ofZ b N l = Some (i, v) <->
  exists ts tv j, l = ts ++ [tv] /\ val_tok D T parse ofZ tv = Some v /\ subs_of T b ts = Some j /\
                  ((length j = N /\ i = j) \/ (length j <> N /\ exists x, j = [x] /\ i = repeat x N)).
Proof. exact (entry_of_line_iff D T parse ofZ). Qed.

(* too many or too few tokens on an entry line: rejected;  a subscript below the index base (index_base too large): rejected *)
Theorem C16_entry_line_rejects : forall (b : Z) (N : nat) (l : list (token T)) (e : idx * D),
  entry_of_line D T parse ofZ b N l = Some e ->
  (length l = N + 1 \/ length l = 2) /\ Forall (fun t => exists z, t = Int z /\ (b <= z)%Z) (removelast l).
Proof. exact (fun b N l e H => conj (entry_line_token_count D T parse ofZ b N l e H) (entry_line_base D T parse ofZ b N l e H)). Qed.

(* the type word: accepted only if the first line starts with tensor | sptensor | matrix | ktensor; what follows the first
   token of the first line is ignored *)
Theorem C16_import_type_guard : forall (b : Z) (f : list (list (token T))) (o : obj D),
  import_lines D T d0 parse ofZ b f = Some o ->
  exists w x f', f = (Word w :: x) :: f' /\ (w = "tensor" \/ w = "sptensor" \/ w = "matrix" \/ w = "ktensor")%string.
Proof. exact (import_type_guard D T d0 parse ofZ). Qed.
Theorem C16_header_rest_ignored : forall (b : Z) (t : token T) (x : list (token T)) (f : list (list (token T))),
  import_lines D T d0 parse ofZ b ((t :: x) :: f) = import_lines D T d0 parse ofZ b ([t] :: f).
Proof. exact (import_header_rest_ignored D T d0 parse ofZ). Qed.

(* an accepted sparse file gives subscripts INSIDE the shape, one value each: reading with a wrong index base either
   rejects the file or (base too small, subscripts still in range) shifts them — it never yields an ill-formed tensor *)
Theorem C16_import_sptensor_in_range : forall (b : Z) (f : list (list (token T))) (Sp : sparse D),
  import_lines D T d0 parse ofZ b f = Some (OSptensor Sp) ->
  Forall (fun i => inb (sshape Sp) i = true) (ssubs Sp) /\ length (ssubs Sp) = length (svals Sp).
Proof. exact (import_sptensor_in_range D T d0 parse ofZ). Qed.

(* WHATEVER file import_data accepts (well-formed or not, any index base), the object it returns satisfies the class invariants:
   dense data as long as the shape says (none without modes), one value per stored subscript and every subscript inside the
   shape, factor matrices with as many columns as weights were read, matrices with m rows of n entries, arrays as long as
   their shape says; objects without modes hold nothing (wf_lines) *)
Theorem C16_import_wf : forall (b : Z) (f : list (list (token T))) (o : obj D),
  import_lines D T d0 parse ofZ b f = Some o -> wf_obj D o /\ wf_lines D o.
Proof. exact (import_wf D T d0 parse ofZ). Qed.

(* import_shape, EXACTLY: the order line's first token is an integer text n, all tokens of the sizes line are integer texts and
   there are n of them — an empty sizes line exactly for n = 0 *)
Theorem C16_import_shape_guard : forall (s : stream T) (zs : list Z) (r : stream T),
  rd_shape_z T s = Some (zs, r) <->
  head_int T (fst (readline T s)) = Some (Z.of_nat (length zs)) /\
  all_ints T (fst (readline T (snd (readline T s)))) = Some zs /\
  r = snd (readline T (snd (readline T s))).
Proof. exact (rd_shape_z_iff T). Qed.

(* WITHOUT modes import_data returns only what pyttb can hold: the tensor without entries, the sparse tensor without stored
   entry, the Kruskal tensor without weights — a file of order 0 that announces sparse entries or a rank is rejected *)
Theorem C16_import_order0 : forall (b : Z) (f : list (list (token T))) (o : obj D),
  import_lines D T d0 parse ofZ b f = Some o ->
  match o with
  | OTensor X => dshape X = [] -> ddata X = []
  | OSptensor Sp => sshape Sp = [] -> ssubs Sp = [] /\ svals Sp = []
  | OKtensor K => kfactors K = [] -> kweights K = []
  | _ => True
  end.
Proof. exact (import_order0 D T d0 parse ofZ). Qed.
End C16_guards.

(* export_data's optional fmt_data / fmt_weights only change the number texts: the layout (words, integers, how many
   number texts on which line) is the same for any two formats. The round trip (above) is claimed for formats with
   parse (print v) = v: "%.16e" (17 significant digits, the default) and anything more precise. *)
Theorem C16_format_layout : forall (D T1 T2 : Type) (d0 : D) (print1 : D -> T1) (print2 : D -> T2) (b : Z) (o : obj D),
  layout (export_lines D T1 d0 print1 b o) = layout (export_lines D T2 d0 print2 b o).
Proof. exact export_layout_format_free. Qed.

(* ---------------------------------------------------------------- sparse tensors with LONG modes (Model/C16Big.v) *)
(* subscripts and mode sizes in Z: a sparse tensor may have modes of any length (2^60, ...), only the stored entries take
   memory. Same line-sensitive reading as above, over Z: import (the lines export writes) = the tensor, for EVERY shape in Z
   (order 0 = no stored entry), every stored order, every index base *)
Theorem C16_roundtrip_sptensor_long : forall (D T : Type) (print : D -> T) (parse : T -> D) (ofZ : Z -> D),
  (forall v : D, parse (print v) = v) -> forall (b : Z) (S : spz D), wf_spz D S ->
  import_spz_lines D T parse ofZ b (export_spz_lines D T print b S) = Some S.
Proof. exact roundtrip_spz. Qed.
(* ... and the Z model IS the nat object model: on every stream of tokens (well-formed file or not) the Z import is the
   sparse result of import_data's model seen through Z.of_nat, and both exports write the same lines *)
Theorem C16_long_import_bridge : forall (D T : Type) (d0 : D) (parse : T -> D) (ofZ : Z -> D) (b : Z) (s : stream T),
  import_spz_stream D T parse ofZ b s = option_map (spz_of D) (as_sp D (import_stream D T d0 parse ofZ b s)).
Proof. exact import_spz_bridge. Qed.
Theorem C16_long_export_bridge : forall (D T : Type) (d0 : D) (print : D -> T) (b : Z) (Sp : sparse D),
  export_lines D T d0 print b (OSptensor Sp) = export_spz_lines D T print b (spz_of D Sp).
Proof. exact export_spz_bridge. Qed.

(* ---------------------------------------------------------------- from CHARACTERS to tokens (Model/C16Text.v) *)
(* readline().strip().split(" ") and np.fromfile's white-space skipping as one pass over the characters of the file (blank,
   CR, LF, tab / VT / FF, pieces free of white space); the file is opened with newline="\n" (/repo a0b5a3f, repairing finding
   C16-N3): only LF ends a line, CR is white space. However each line is padded with blanks before and after its tokens and
   whichever line end (LF or CR LF) it carries, the token stream is that of the lines *)
Theorem C16_tokenise : forall (T : Type) (f : list (list (token T) * style)),
  lex T (render T f) = to_stream T (map fst f).
Proof. exact lex_render. Qed.
(* hence the round trip on the characters export_data writes (single blanks, LF) and on any such re-styling of them *)
Theorem C16_roundtrip_text : forall (D T : Type) (d0 : D) (print : D -> T) (parse : T -> D) (ofZ : Z -> D),
  (forall v : D, parse (print v) = v) -> forall (b : Z) (o : obj D) (sty : list style),
  wf_obj D o -> wf_lines D o -> length sty = length (export_lines D T d0 print b o) ->
  import_text D T d0 parse ofZ b (render T (combine (export_lines D T d0 print b o) sty)) = Some o.
Proof. exact roundtrip_text. Qed.
(* the same with TAB / VT / FF (atom AOws) mixed into the padding of every line: strip() drops them like blanks *)
Theorem C16_tokenise_ws : forall (T : Type) (f : list (list (token T) * wstyle)),
  lex T (render_ws T f) = to_stream T (map fst f).
Proof. exact lex_render_ws. Qed.
Theorem C16_roundtrip_text_ws : forall (D T : Type) (d0 : D) (print : D -> T) (parse : T -> D) (ofZ : Z -> D),
  (forall v : D, parse (print v) = v) -> forall (b : Z) (o : obj D) (sty : list wstyle),
  wf_obj D o -> wf_lines D o -> length sty = length (export_lines D T d0 print b o) ->
  import_text D T d0 parse ofZ b (render_ws T (combine (export_lines D T d0 print b o) sty)) = Some o.
Proof. exact roundtrip_text_ws. Qed.
(* INSIDE a line: tab / VT / FF next to the blank that separates two texts change nothing (after an integer or number text,
   in every state of the pass); joining two texts without a blank they make ONE unreadable piece — the gap marker before
   each of its texts (unreadable for readline() sites, skipped by np.fromfile, which reads the two values) *)
Theorem C16_tab_next_to_blank : forall (T : Type) (st : bool) (p : nat) (t : token T) (k1 k2 : nat) (r : list (atom T)),
  is_word T t = false ->
  lex_aux T st p (ATok t :: repeat AOws k1 ++ ABlank :: repeat AOws k2 ++ r) = lex_aux T st p (ATok t :: ABlank :: r).
Proof. exact lex_ows_next_to_blank. Qed.
Theorem C16_tab_joins_texts : forall (T : Type) (t u : token T) (k : nat) (r : list (atom T)),
  lex_aux T false 0 (ATok t :: repeat AOws (S k) ++ ATok u :: r) = gap T :: Some t :: gap T :: Some u :: lex_aux T true 0 r.
Proof. exact lex_ows_glue. Qed.

(* CARRIAGE RETURNS anywhere (CR LF line ends, lone CRs, CRs among the padding or between two texts) are read exactly like
   tabs: replacing every CR of a file by a tab changes neither the token stream nor what import_data returns; a lone CR does
   not end a line (a file with old-Mac line ends is one line: rejected, C16_example_cr) *)
Theorem C16_cr_is_white_space : forall (T : Type) (a : list (atom T)), lex T (map (cr_ows T) a) = lex T a.
Proof. exact lex_cr_ows. Qed.
Theorem C16_import_cr_is_white_space : forall (D T : Type) (d0 : D) (parse : T -> D) (ofZ : Z -> D) (b : Z) (a : list (atom T)),
  import_text D T d0 parse ofZ b (map (cr_ows T) a) = import_text D T d0 parse ofZ b a.
Proof. exact import_text_cr_ows. Qed.

(* hence the round trip with carriage returns anywhere among the padding of the lines export writes *)
Theorem C16_roundtrip_text_cr : forall (D T : Type) (d0 : D) (print : D -> T) (parse : T -> D) (ofZ : Z -> D),
  (forall v : D, parse (print v) = v) -> forall (b : Z) (o : obj D) (sty : list wstyle) (a : list (atom T)),
  wf_obj D o -> wf_lines D o -> length sty = length (export_lines D T d0 print b o) ->
  map (cr_ows T) a = render_ws T (combine (export_lines D T d0 print b o) sty) ->
  import_text D T d0 parse ofZ b a = Some o.
Proof. exact roundtrip_text_cr. Qed.

(* ---------------------------------------------------------------- ANY number format (Proofs/C16Fmt.v) *)
(* import_data looks at a number text only through parse: parsing every number text of a file beforehand changes nothing *)
Theorem C16_import_parse_natural : forall (D T : Type) (d0 : D) (parse : T -> D) (ofZ : Z -> D) (b : Z) (f : list (list (token T))),
  import_lines D D d0 (idD D) ofZ b (plines D T parse f) = import_lines D T d0 parse ofZ b f.
Proof. exact import_lines_nat. Qed.
(* NO hypothesis on print / parse (fmt_data / fmt_weights coarser than "%.16e" included): what is read back is the object
   with every value v replaced by parse (print v) — same type, shape, subscripts, stored order, rank, layout *)
Theorem C16_roundtrip_any_format : forall (D T : Type) (d0 : D) (print : D -> T) (parse : T -> D) (ofZ : Z -> D) (b : Z) (o : obj D),
  wf_obj D o -> wf_lines D o ->
  import_lines D T d0 parse ofZ b (export_lines D T d0 print b o) = Some (map_obj D (rnd D T print parse) o).
Proof. exact roundtrip_lines_fmt. Qed.

Print Assumptions C16_roundtrip_tensor.
Print Assumptions C16_dense_layout.
Print Assumptions C16_roundtrip_sptensor.
Print Assumptions C16_roundtrip_ktensor.
Print Assumptions C16_roundtrip_matrix.
Print Assumptions C16_roundtrip_array.
Print Assumptions C16_roundtrip.
Print Assumptions C16_export_injective.
Print Assumptions C16_index_base.
Print Assumptions C16_one_based.
Print Assumptions C16_roundtrip_lines.
Print Assumptions C16_import_export_stable.
Print Assumptions C16_entry_line.
Print Assumptions C16_entry_line_rejects.
Print Assumptions C16_import_type_guard.
Print Assumptions C16_header_rest_ignored.
Print Assumptions C16_import_sptensor_in_range.
Print Assumptions C16_format_layout.
Print Assumptions C16_roundtrip_sptensor_long.
Print Assumptions C16_long_import_bridge.
Print Assumptions C16_long_export_bridge.
Print Assumptions C16_tokenise.
Print Assumptions C16_roundtrip_text.
Print Assumptions C16_tokenise_ws.
Print Assumptions C16_roundtrip_text_ws.
Print Assumptions C16_tab_next_to_blank.
Print Assumptions C16_tab_joins_texts.
Print Assumptions C16_dense_values.
Print Assumptions C16_import_order0.
Print Assumptions C16_import_shape_guard.
Print Assumptions C16_import_wf.
Print Assumptions C16_cr_is_white_space.
Print Assumptions C16_import_cr_is_white_space.
Print Assumptions C16_roundtrip_text_cr.
Print Assumptions C16_import_parse_natural.
Print Assumptions C16_roundtrip_any_format.

(* ---- non-vacuity: concrete, non-symmetric instances (numbers stand for themselves) ---- *)
Example C16_example_tensor :
  let X := mkDense [2; 3] [10; 11; 12; 13; 14; 15]%Z in
  zexport_lines 1 (OTensor X) =
    [[Word "tensor"]; [Int 2]; [Int 2; Int 3]; [Num 10]; [Num 11]; [Num 12]; [Num 13]; [Num 14]; [Num 15]]%Z
  /\ zimport 1 (zexport 1 (OTensor X)) = Some (OTensor X).
Proof. split; reflexivity. Qed.

Example C16_example_sptensor :
  let S := mkSp [2; 3; 4] [[1; 2; 0]; [0; 0; 3]] [7; 9]%Z in
  zexport_lines 1 (OSptensor S) =
    [[Word "sptensor"]; [Int 3]; [Int 2; Int 3; Int 4]; [Int 2]; [Int 2; Int 3; Int 1; Num 7]; [Int 1; Int 1; Int 4; Num 9]]%Z
  /\ zimport 1 (zexport 1 (OSptensor S)) = Some (OSptensor S)
  /\ zimport 0 (zexport 0 (OSptensor S)) = Some (OSptensor S)
  /\ zimport 0 (zexport 1 (OSptensor S)) = None   (* wrong base: subscripts [2;3;1] do not fit the shape *)
  /\ zimport 2 (zexport 2 (OSptensor S)) = Some (OSptensor S).
Proof. repeat split; reflexivity. Qed.

Example C16_example_ktensor :
  let K := mkK [2; 3]%Z [[[1; 2]; [3; 4]; [5; 6]]; [[7; 8]]]%Z in
  zexport_lines 1 (OKtensor K) =
    [[Word "ktensor"]; [Int 2]; [Int 3; Int 1]; [Int 2]; [Num 2; Num 3];
     [Word "matrix"]; [Int 2]; [Int 3; Int 2]; [Num 1; Num 2]; [Num 3; Num 4]; [Num 5; Num 6];
     [Word "matrix"]; [Int 2]; [Int 1; Int 2]; [Num 7; Num 8]]%Z
  /\ zimport 1 (zexport 1 (OKtensor K)) = Some (OKtensor K).
Proof. split; reflexivity. Qed.

Example C16_example_matrix :
  let A := [[1; 2; 3]; [4; 5; 6]]%Z in
  zexport_lines 1 (OMatrix 2 3 A) =
    [[Word "matrix"]; [Int 2]; [Int 2; Int 3]; [Num 1]; [Num 2]; [Num 3]; [Num 4]; [Num 5]; [Num 6]]%Z
  /\ zimport 1 (zexport 1 (OMatrix 2 3 A)) = Some (OMatrix 2 3 A).
Proof. split; reflexivity. Qed.

(* malformed files, line by line (Z instance): what is rejected and what pyttb's reader lets through *)
Example C16_example_malformed :
  let good := [[Word "sptensor"]; [Int 2]; [Int 2; Int 3]; [Int 2]; [Int 2; Int 3; Num 7]; [Int 1; Int 1; Num 9]]%Z in
  let S := mkSp [2; 3] [[1; 2]; [0; 0]] [7; 9]%Z in
  zimport_lines 1 good = Some (OSptensor S)
  /\ zimport_lines 1 ([Word "sptensors"] :: tl good) = None                                   (* wrong type word *)
  /\ zimport_lines 1 (firstn 5 good) = None                                                    (* truncated *)
  /\ zimport_lines 1 (firstn 4 good ++ [[Int 2; Int 3; Int 1; Num 7]; [Int 1; Int 1; Num 9]])%Z = None   (* too many tokens *)
  /\ zimport_lines 1 (firstn 4 good ++ [[Int 2; Int 3]; [Num 7]; [Int 1; Int 1; Num 9]])%Z = None         (* row split over two lines *)
  /\ zimport_lines 2 good = None                                         (* index_base too large: a subscript falls below 0 *)
  /\ zimport_lines 0 good = None                                         (* index_base too small: [2;3] does not fit (2,3) *)
  /\ zimport_lines 1 (good ++ [[Word "junk"]]) = Some (OSptensor S)     (* lines after the nnz-th entry are never read *)
  /\ zimport_lines 1 ([Word "sptensor"; Word "x"] :: [Int 2; Num 5] :: tl (tl good))%Z = Some (OSptensor S)  (* rest of header lines ignored *)
  /\ zimport_lines 1 (firstn 4 good ++ [[Int 2; Num 7]; [Int 1; Int 1; Num 9]])%Z
       = Some (OSptensor (mkSp [2; 3] [[1; 1]; [0; 0]] [7; 9]%Z)).      (* ONE subscript: broadcast to both modes *)
Proof. vm_compute. repeat split; reflexivity. Qed.

(* what import returns for a file that export would never write (one subscript broadcast to both modes, junk after the header
   tokens, base 0) is an ordinary object: exported and imported again it comes back (C16_import_wf, C16_import_export_stable) *)
Example C16_example_stable :
  let odd := [[Word "sptensor"; Word "x"]; [Int 2; Num 5]; [Int 2; Int 3]; [Int 2]; [Int 1; Num 7]; [Int 0; Int 0; Num 9]]%Z in
  let o := OSptensor (mkSp [2; 3] [[1; 1]; [0; 0]] [7; 9]%Z) in
  zimport_lines 0 odd = Some o /\ zimport_lines 1 (zexport_lines 1 o) = Some o /\ zexport_lines 1 o <> odd.
Proof. vm_compute. repeat split; try reflexivity. discriminate. Qed.

(* dense values are read with np.fromfile: line breaks between them do not matter, a word among them does *)
Example C16_example_dense_lines :
  zimport_lines 1 [[Word "tensor"]; [Int 1]; [Int 3]; [Num 10; Num 11]; []; [Num 12]; [Num 99]]%Z
    = Some (OTensor (mkDense [3] [10; 11; 12]%Z))
  /\ zimport_lines 1 [[Word "tensor"]; [Int 1]; [Int 3]; [Num 10]; [Word "x"]; [Num 11]; [Num 12]]%Z = None
  /\ zimport_lines 1 [[Word "tensor"]; [Int 2]; [Int 3]; [Num 10]; [Num 11]; [Num 12]]%Z = None.   (* order line <> number of sizes *)
Proof. vm_compute. repeat split; reflexivity. Qed.

(* a Kruskal tensor WITHOUT components (finding C16-N1, repaired in /repo 20317ef): written with an empty weights line and
   one empty line per factor row; import drops exactly those lines and returns the tensor. The lines dropped may hold
   anything (second part); a factor with rows but no column in a file of rank 2 is rejected (third part) *)
Example C16_rank0_reimported :
  let K := mkK (@nil Z) [[[]; []]; [[]; []; []]] in
  zexport_lines 1 (OKtensor K) =
    [[Word "ktensor"]; [Int 2]; [Int 2; Int 3]; [Int 0]; []; [Word "matrix"]; [Int 2]; [Int 2; Int 0]; []; [];
     [Word "matrix"]; [Int 2]; [Int 3; Int 0]; []; []; []]%Z
  /\ zimport_lines 1 (zexport_lines 1 (OKtensor K)) = Some (OKtensor K)
  /\ zimport_lines 1 [[Word "ktensor"]; [Int 2]; [Int 2; Int 3]; [Int 0]; [Num 5; Word "x"]; [Word "matrix"]; [Int 2]; [Int 2; Int 0];
                       [Num 1]; [Word "y"]; [Word "anything"]; [Int 2]; [Int 3; Int 0]; []; []; []]%Z = Some (OKtensor K)
  /\ zimport_lines 1 [[Word "ktensor"]; [Int 1]; [Int 2]; [Int 2]; [Num 5; Num 6]; [Word "matrix"]; [Int 2]; [Int 2; Int 0]; []; []]%Z = None.
Proof. vm_compute. repeat split; reflexivity. Qed.

(* objects WITHOUT modes (finding C16-N2, repaired in /repo b512e35): ttb.tensor(), ttb.sptensor(), ttb.ktensor() and a 0-d
   array are written with the order line 0 and an EMPTY sizes line, and come back; a sparse file of order 0 that announces an
   entry, a Kruskal file of order 0 with a rank, a 0-d matrix file without its value are rejected; a sizes line that does
   not match the order line is rejected both ways *)
Example C16_order0_reimported :
  zexport_lines 1 (OTensor (mkDense [] (@nil Z))) = [[Word "tensor"]; [Int 0]; []; []]%Z
  /\ zimport_lines 1 [[Word "tensor"]; [Int 0]; []; []]%Z = Some (OTensor (mkDense [] (@nil Z)))
  /\ zimport 1 (zexport 1 (OTensor (mkDense [] (@nil Z)))) = Some (OTensor (mkDense [] (@nil Z)))
  /\ zexport_lines 1 (OSptensor (mkSp [] [] (@nil Z))) = [[Word "sptensor"]; [Int 0]; []; [Int 0]]%Z
  /\ zimport_lines 1 [[Word "sptensor"]; [Int 0]; []; [Int 0]]%Z = Some (OSptensor (mkSp [] [] (@nil Z)))
  /\ zimport_lines 1 [[Word "sptensor"]; [Int 0]; []; [Int 1]; [Num 7]]%Z = None
  /\ zexport_lines 1 (OKtensor (mkK (@nil Z) [])) = [[Word "ktensor"]; [Int 0]; []; [Int 0]; []]%Z
  /\ zimport_lines 1 [[Word "ktensor"]; [Int 0]; []; [Int 0]; []]%Z = Some (OKtensor (mkK (@nil Z) []))
  /\ zimport_lines 1 [[Word "ktensor"]; [Int 0]; []; [Int 1]; [Num 7]]%Z = None
  /\ zexport_lines 1 (OArray [] [7]%Z) = [[Word "matrix"]; [Int 0]; []; [Num 7]]%Z
  /\ zimport_lines 1 [[Word "matrix"]; [Int 0]; []; [Num 7]]%Z = Some (OArray [] [7]%Z)
  /\ zimport_lines 1 [[Word "matrix"]; [Int 0]; []; []]%Z = None
  /\ zimport_lines 1 [[Word "tensor"]; [Int 0]; [Int 1]; [Num 7]]%Z = None
  /\ zimport_lines 1 [[Word "tensor"]; [Int 1]; []; [Num 7]]%Z = None
  /\ zimport_lines 1 [[Word "tensor"]; [Int 0]; []; [Num 7]]%Z = Some (OTensor (mkDense [] (@nil Z))).   (* what follows is never read *)
Proof. vm_compute. repeat split; reflexivity. Qed.

(* long modes: subscripts above 2^53 (not representable as doubles) travel exactly, with every index base *)
Example C16_example_long :
  let S := mkSpz [1152921504606846976; 3]%Z [[1152921504606846975; 2]; [9007199254740993; 0]]%Z [7; 9]%Z in
  zexport_spz 1 S =
    [[Word "sptensor"]; [Int 2]; [Int 1152921504606846976; Int 3]; [Int 2];
     [Int 1152921504606846976; Int 3; Num 7]; [Int 9007199254740994; Int 1; Num 9]]%Z
  /\ zimport_spz 1 (zexport_spz 1 S) = Some S
  /\ zimport_spz 0 (zexport_spz 0 S) = Some S
  /\ zimport_spz 0 (zexport_spz 1 S) = None.       (* read with a smaller base: subscript 2^60 does not fit a mode of 2^60 *)
Proof. vm_compute. repeat split; reflexivity. Qed.

(* characters: CR LF line ends, padding blanks and a run of blanks among VALUES are harmless; a run of blanks on a header or
   sparse-entry line gives an empty piece that int() rejects; a lone blank line among sparse entries is an entry without tokens *)
Example C16_example_text :
  let S := mkSp [2; 3] [[1; 2]] [7]%Z in
  zimport_text 1 [ATok (Word "sptensor"); ACR; ALF; ABlank; ATok (Int 2); ABlank; ABlank; ACR; ALF; ATok (Int 2); ABlank; ATok (Int 3); ALF;
                  ATok (Int 1); ALF; ATok (Int 2); ABlank; ATok (Int 3); ABlank; ATok (Num 7); ABlank; ACR; ALF]%Z = Some (OSptensor S)
  /\ zimport_text 1 [ATok (Word "sptensor"); ALF; ATok (Int 2); ALF; ATok (Int 2); ABlank; ABlank; ATok (Int 3); ALF;
                     ATok (Int 1); ALF; ATok (Int 2); ABlank; ATok (Int 3); ABlank; ATok (Num 7); ALF]%Z = None
  /\ zimport_text 1 [ATok (Word "tensor"); ALF; ATok (Int 1); ALF; ATok (Int 3); ALF;
                     ATok (Num 10); ABlank; ABlank; ABlank; ATok (Num 11); ALF; ABlank; ALF; ATok (Num 12)]%Z
       = Some (OTensor (mkDense [3] [10; 11; 12]%Z)).
Proof. vm_compute. repeat split; reflexivity. Qed.

(* carriage returns: a lone CR inside a line is white space like a tab (harmless next to a blank or among VALUES, one
   unreadable piece when it joins two texts of a header line); a file with old-Mac line ends (lone CRs only) is one line *)
Example C16_example_cr :
  let S := mkSp [2; 3] [[1; 2]] [7]%Z in
  zimport_text 1 [ATok (Word "sptensor"); ACR; ALF; ATok (Int 2); ALF; ATok (Int 2); ABlank; ACR; ATok (Int 3); ACR; ACR; ALF;
                  ATok (Int 1); ALF; ACR; ATok (Int 2); ABlank; ATok (Int 3); ACR; ABlank; ATok (Num 7); ALF]%Z = Some (OSptensor S)
  /\ zimport_text 1 [ATok (Word "sptensor"); ALF; ATok (Int 2); ALF; ATok (Int 2); ACR; ATok (Int 3); ALF;
                     ATok (Int 1); ALF; ATok (Int 2); ABlank; ATok (Int 3); ABlank; ATok (Num 7); ALF]%Z = None
  /\ zimport_text 1 [ATok (Word "tensor"); ACR; ATok (Int 1); ACR; ATok (Int 2); ACR; ATok (Num 10); ACR; ATok (Num 11); ACR]%Z = None
  /\ zimport_text 1 [ATok (Word "tensor"); ALF; ATok (Int 1); ALF; ATok (Int 3); ACR; ALF;
                     ATok (Num 10); ACR; ATok (Num 11); ACR; ALF; ACR; ATok (Num 12); ACR]%Z
       = Some (OTensor (mkDense [3] [10; 11; 12]%Z)).
Proof. vm_compute. repeat split; reflexivity. Qed.

(* tab / VT / FF (AOws): dropped at the ends of a line, harmless next to a blank, white space among VALUES; but joining two
   texts of a header / sparse-entry line they give ONE unreadable piece (int("2\t3") raises), alone between blanks an
   unreadable piece, and attached to the type word inside the line another word ("sptensor\t x") *)
Example C16_example_tabs :
  let S := mkSp [2; 3] [[1; 2]] [7]%Z in
  let body := [ATok (Int 2); ALF; ATok (Int 2); ABlank; ATok (Int 3); ALF; ATok (Int 1); ALF;
               ATok (Int 2); ABlank; ATok (Int 3); ABlank; ATok (Num 7); ALF]%Z in
  zimport_text 1 ([AOws; ATok (Word "sptensor"); AOws; ALF; ATok (Int 2); AOws; ABlank; ATok (Int 9); AOws; ATok (Int 9); ALF;
                   ATok (Int 2); ABlank; AOws; ATok (Int 3); AOws; ALF; ATok (Int 1); ALF;
                   ATok (Int 2); AOws; ABlank; AOws; ATok (Int 3); ABlank; ATok (Num 7); ALF])%Z = Some (OSptensor S)
  /\ zimport_text 1 (ATok (Word "sptensor") :: AOws :: ABlank :: ATok (Word "x") :: ALF :: body) = None
  /\ zimport_text 1 (ATok (Word "sptensor") :: ABlank :: AOws :: ATok (Word "x") :: ALF :: body) = Some (OSptensor S)
  /\ zimport_text 1 [ATok (Word "sptensor"); ALF; ATok (Int 2); ALF; ATok (Int 2); AOws; ATok (Int 3); ALF;
                     ATok (Int 1); ALF; ATok (Int 2); ABlank; ATok (Int 3); ABlank; ATok (Num 7); ALF]%Z = None
  /\ zimport_text 1 [ATok (Word "sptensor"); ALF; ATok (Int 2); ALF; ATok (Int 2); ABlank; AOws; ABlank; ATok (Int 3); ALF;
                     ATok (Int 1); ALF; ATok (Int 2); ABlank; ATok (Int 3); ABlank; ATok (Num 7); ALF]%Z = None
  /\ zimport_text 1 [ATok (Word "tensor"); ALF; ATok (Int 1); ALF; ATok (Int 3); ALF;
                     ATok (Num 10); AOws; ATok (Num 11); ABlank; AOws; ABlank; ATok (Num 12); AOws; ALF]%Z
       = Some (OTensor (mkDense [3] [10; 11; 12]%Z)).
Proof. vm_compute. repeat split; reflexivity. Qed.

(* a coarse "format" on the Z instance: print rounds down to a multiple of 10, parse is the identity *)
Example C16_example_coarse_format :
  let coarse := fun v : Z => (v / 10 * 10)%Z in
  let K := mkK [21; 39]%Z [[[11; 12]; [13; 14]; [15; 26]]; [[37; 48]]]%Z in
  import_lines Z Z 0%Z zid z_bits 1 (export_lines Z Z 0%Z coarse 1 (OKtensor K))
    = Some (OKtensor (mkK [20; 30]%Z [[[10; 10]; [10; 10]; [10; 20]]; [[30; 40]]]%Z)).
Proof. vm_compute. reflexivity. Qed.
