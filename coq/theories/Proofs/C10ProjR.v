(* Proofs/C10ProjR.v — the abstract real inner-product space of Proofs/C10Proofs.v / C10Spectral.v INSTANTIATED by dense real
   tensors of a fixed shape s with the Frobenius inner product, and its orthogonal projectors by mode-n products with
   symmetric idempotent matrices (in particular U U^T for U with orthonormal columns):
   * frob_space       : inner_sym / inner_sub / inner_pos hold for (dense R, dsub, dinner)
   * oproj_mode       : X |-> X x_n M is an orthogonal projector (additive, idempotent, self-adjoint)
   * modes_commute    : projectors of pairwise different modes commute
   * concrete_projector_bound / concrete_error_bound / concrete_pythagoras : the theorems of C10Proofs with every hypothesis
     about the space and the projectors discharged — what remains is the per-mode energy budget (the spectral step). *)
From Coq Require Import List Arith Lia Bool ZArith Reals Lra RealField.
From PV Require Import Base.Index Base.Sum Np.Array Model.Sparse Model.Repr Model.C10Tucker Proofs.C10Proofs Proofs.C10Proj.
Import ListNotations.
Local Open Scope R_scope.

Definition subR (s : shape) : dense R -> dense R -> dense R := dsub R 0 Rminus s.
Definition innerR (s : shape) : dense R -> dense R -> R := dinner R 0 Rplus Rmult s.
Definition projR (s : shape) (n : nat) (M : @matrix R) : dense R -> dense R := mproj R 0 Rplus Rmult s n M.
Definition msymR := msym R 0.
Definition midemR := midem R 0 Rplus Rmult.

Lemma innerR_sym s a b : innerR s a b = innerR s b a.
Proof. apply (dinner_sym R 0 1 Rplus Rmult Rminus Ropp RTheory). Qed.
Lemma innerR_sub s a b c : innerR s (subR s a b) c = innerR s a c - innerR s b c.
Proof. apply (dinner_sub R 0 1 Rplus Rmult Rminus Ropp RTheory). Qed.
Lemma innerR_pos s a : 0 <= innerR s a a.
Proof.
  unfold innerR, dinner. induction (allsubs s) as [|i l IH].
  - rewrite sum_over_nil. lra.
  - rewrite sum_over_cons. pose proof (Rle_0_sqr (den_dense 0 a i)) as H. unfold Rsqr in H. lra.
Qed.

Theorem frob_space s :
  (forall a b, innerR s a b = innerR s b a) /\
  (forall a b c, innerR s (subR s a b) c = innerR s a c - innerR s b c) /\
  (forall a, 0 <= innerR s a a).
Proof. repeat split; [apply innerR_sym|apply innerR_sub|apply innerR_pos]. Qed.

(* a mode-n product with a symmetric idempotent matrix is an orthogonal projector of the Frobenius space *)
Theorem oproj_mode s n M : (n < length s)%nat -> msymR (nth n s 0%nat) M -> midemR (nth n s 0%nat) M ->
  oproj (dense R) (subR s) (innerR s) (projR s n M).
Proof.
  intros Hn Hs Hi. repeat split.
  - intros a b. now apply (mproj_sub R 0 1 Rplus Rmult Rminus Ropp RTheory).
  - intros a. now apply (mproj_idem R 0 1 Rplus Rmult Rminus Ropp RTheory).
  - intros a b. now apply (mproj_selfadj R 0 1 Rplus Rmult Rminus Ropp RTheory).
Qed.

(* ... in particular with U U^T for U (I_n x r) with orthonormal columns *)
Theorem oproj_uut s n r U : (n < length s)%nat -> orthocols R 0 1 Rplus Rmult (nth n s 0%nat) r U ->
  oproj (dense R) (subR s) (innerR s) (projR s n (uut R 0 Rplus Rmult (nth n s 0%nat) r U)).
Proof.
  intros Hn Ho. apply oproj_mode; auto.
  - apply (uut_sym R 0 1 Rplus Rmult Rminus Ropp RTheory).
  - now apply (uut_idem R 0 1 Rplus Rmult Rminus Ropp RTheory).
Qed.

(* one (mode, matrix) pair per treated mode *)
Definition good_mode (s : shape) (p : nat * @matrix R) : Prop :=
  (fst p < length s)%nat /\ msymR (nth (fst p) s 0%nat) (snd p) /\ midemR (nth (fst p) s 0%nat) (snd p).
Definition projs (s : shape) (mMs : list (nat * @matrix R)) : list (dense R -> dense R) :=
  map (fun p => projR s (fst p) (snd p)) mMs.

Lemma NoDup_fst_inj {A B} (l : list (A * B)) a b b' : NoDup (map fst l) -> In (a, b) l -> In (a, b') l -> b = b'.
Proof.
  induction l as [|[x y] l IH]; intros Hnd H1 H2; [contradiction|].
  cbn [map fst] in Hnd. inversion Hnd as [|? ? Hx Hnd']; subst.
  destruct H1 as [H1|H1], H2 as [H2|H2].
  - congruence.
  - inversion H1; subst. exfalso. apply Hx. change a with (fst (a, b')). now apply in_map.
  - inversion H2; subst. exfalso. apply Hx. change a with (fst (a, b)). now apply in_map.
  - now apply IH.
Qed.

Theorem modes_commute s mMs : Forall (good_mode s) mMs -> NoDup (map fst mMs) ->
  pairwise_commute (dense R) (projs s mMs).
Proof.
  intros Hg Hnd P Q HP HQ. unfold projs in HP, HQ. apply in_map_iff in HP, HQ.
  destruct HP as ([m A] & <- & HA), HQ as ([n B] & <- & HB). cbn [fst snd].
  rewrite Forall_forall in Hg. destruct (Hg _ HA) as (Hm & _), (Hg _ HB) as (Hn & _). cbn [fst] in Hm, Hn.
  intros a. destruct (Nat.eq_dec m n) as [->|Hne].
  - now rewrite (NoDup_fst_inj mMs n A B Hnd HA HB).
  - now apply (mproj_comm R 0 1 Rplus Rmult Rminus Ropp RTheory).
Qed.

Lemma projs_oproj s mMs : Forall (good_mode s) mMs -> Forall (oproj (dense R) (subR s) (innerR s)) (projs s mMs).
Proof.
  intros Hg. unfold projs. apply Forall_forall. intros P HP. apply in_map_iff in HP. destruct HP as (p & <- & Hp).
  rewrite Forall_forall in Hg. destruct (Hg _ Hp) as (H1 & H2 & H3). now apply oproj_mode.
Qed.

(* truncation error of a concrete dense tensor = sum of the step-wise discarded energies, each bounded by the non-sequential one *)
Theorem concrete_projector_bound s mMs (X : dense R) : Forall (good_mode s) mMs -> NoDup (map fst mMs) ->
  let Ps := projs s mMs in
  nrm2 (dense R) (innerR s) (subR s X (applyPs (dense R) Ps X)) = sumR (terms (dense R) (subR s) (innerR s) X Ps) /\
  Forall2 Rle (terms (dense R) (subR s) (innerR s) X Ps) (direct (dense R) (subR s) (innerR s) X Ps).
Proof.
  intros Hg Hnd Ps.
  apply (projector_bound (dense R) (subR s) (innerR s) (innerR_sym s) (innerR_sub s) (innerR_pos s)).
  - now apply projs_oproj.
  - now apply modes_commute.
Qed.

Theorem concrete_error_bound s mMs (X : dense R) (tolsq : R) : mMs <> [] -> Forall (good_mode s) mMs -> NoDup (map fst mMs) ->
  let Ps := projs s mMs in
  let budget := tolsq * nrm2 (dense R) (innerR s) X / INR (length Ps) in
  (Forall (fun t => t <= budget) (terms (dense R) (subR s) (innerR s) X Ps) \/
   Forall (fun t => t <= budget) (direct (dense R) (subR s) (innerR s) X Ps)) ->
  nrm2 (dense R) (innerR s) (subR s X (applyPs (dense R) Ps X)) <= tolsq * nrm2 (dense R) (innerR s) X.
Proof.
  intros Hne Hg Hnd Ps budget Hb.
  apply (error_bound (dense R) (subR s) (innerR s) (innerR_sym s) (innerR_sub s) (innerR_pos s)).
  - unfold Ps, projs. destruct mMs; [contradiction|discriminate].
  - now apply projs_oproj.
  - now apply modes_commute.
  - exact Hb.
Qed.

(* ||X - T||^2 = ||X||^2 - ||T||^2 for T = X x_n M_n over the treated modes (the quantity behind the reported fit) *)
Theorem concrete_pythagoras s mMs (X : dense R) : Forall (good_mode s) mMs -> NoDup (map fst mMs) ->
  let T := applyPs (dense R) (projs s mMs) X in
  nrm2 (dense R) (innerR s) (subR s X T) = nrm2 (dense R) (innerR s) X - nrm2 (dense R) (innerR s) T.
Proof.
  intros Hg Hnd T.
  apply (pythagoras (dense R) (subR s) (innerR s) (innerR_sym s) (innerR_sub s)).
  apply (oproj_applyPs (dense R) (subR s) (innerR s)).
  - now apply projs_oproj.
  - now apply modes_commute.
Qed.

(* ---------------------------------------------------------------------------------------- *)
(* non-vacuity                                                                                *)
(* ---------------------------------------------------------------------------------------- *)
Definition U35 : @matrix R := [[3/5]; [4/5]].

Lemma U35_orthocols : orthocols R 0 1 Rplus Rmult 2 1 U35.
Proof.
  intros j l Hj Hl. assert (j = 0)%nat as -> by lia. assert (l = 0)%nat as -> by lia.
  cbn. unfold U35, mget. cbn. field.
Qed.

Example concrete_space_example :
  let s := [2; 2]%nat in
  let X := mkDense s [1; 2; 3; 4] in
  let mMs := [(0%nat, uut R 0 Rplus Rmult 2 1 U35)] in
  Forall (good_mode s) mMs /\ NoDup (map fst mMs) /\
  oproj (dense R) (subR s) (innerR s) (projR s 0 (uut R 0 Rplus Rmult 2 1 U35)) /\
  ddata (projR s 0 (uut R 0 Rplus Rmult 2 1 U35) X) =
    [ (3/5*(3/5) + 0) * 1 + ((3/5*(4/5) + 0) * 2 + 0); (4/5*(3/5) + 0) * 1 + ((4/5*(4/5) + 0) * 2 + 0);
      (3/5*(3/5) + 0) * 3 + ((3/5*(4/5) + 0) * 4 + 0); (4/5*(3/5) + 0) * 3 + ((4/5*(4/5) + 0) * 4 + 0) ] /\
  nrm2 (dense R) (innerR s) (subR s X (applyPs (dense R) (projs s mMs) X)) =
    nrm2 (dense R) (innerR s) X - nrm2 (dense R) (innerR s) (applyPs (dense R) (projs s mMs) X).
Proof.
  intros s X mMs.
  assert (Hg : Forall (good_mode s) mMs).
  { constructor; [|constructor]. split; [cbn; lia|]. split.
    - apply (uut_sym R 0 1 Rplus Rmult Rminus Ropp RTheory).
    - apply (uut_idem R 0 1 Rplus Rmult Rminus Ropp RTheory). exact U35_orthocols. }
  assert (Hnd : NoDup (map fst mMs)) by (cbn; constructor; [intros []|constructor]).
  split; [exact Hg|]. split; [exact Hnd|]. split; [|split].
  - apply oproj_uut; [cbn; lia|exact U35_orthocols].
  - reflexivity.
  - now apply concrete_pythagoras.
Qed.

(* over Z: (X x_0 U^T) x_0 U computed by the model's ttm is the projector X x_0 (U U^T), on a 3 x 2 array *)
Example ttm_ttm_uut_example :
  let X := mkDense [3; 2]%nat [1; 2; 3; 4; 5; 6]%Z in
  let U := [[0; 1]; [-1; 0]; [0; 0]]%Z in
  ttm 0%Z Z.add Z.mul (ttm 0%Z Z.add Z.mul X 0 (mtrans 0%Z U 3 2)) 0 U = mkDense [3; 2]%nat [1; 2; 0; 4; 5; 0]%Z /\
  mproj Z 0%Z Z.add Z.mul [3; 2]%nat 0 (uut Z 0%Z Z.add Z.mul 3 2 U) X = mkDense [3; 2]%nat [1; 2; 0; 4; 5; 0]%Z /\
  ddata (ttm 0%Z Z.add Z.mul X 0 (mtrans 0%Z U 3 2)) = [-2; 1; -5; 4]%Z.
Proof. repeat split; reflexivity. Qed.
