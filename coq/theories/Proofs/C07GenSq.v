(* Proofs/C07GenSq.v — the GENERATED whole method sptensor.squeeze (Gen/GenSptensor4b.v, regenerated from pyttb/sptensor.py on every
   run; bridged by the translator builder to the hand reference H_squeeze, Proofs/W4Squeeze.v) returns, on every coordinate list
   with in-range subscripts and one value per row, exactly what the code-path model squeeze_sp_impl of Model/C07Impl.v returns
   (a tensor, the bare entry, or the refusal of .item() on more than one stored value). *)
From Coq Require Import List ZArith Arith Lia Bool.
From PV Require Import Base.Index Base.Perm Np.NpZ Np.NpZ2 Np.NpZ3 Np.NpZ3c Np.NpZ3d Np.NpZ3e Np.NpZ4 Np.NpZ4b Np.NpZ4d Np.NpZ4e
  Proofs.NpZProofs Gen.GenSptensor4b Model.Sparse Model.C07Ops Model.C07Impl Model.W4Squeeze Proofs.W4Squeeze
  Proofs.W4ReshapeModel Proofs.C07Proofs Model.W4Ktensor Model.W4Sptensor Model.C07Gen4.
Import ListNotations.

(* positions of the modes of size > 1, counted from k *)
Fixpoint keep_from (k : nat) (s : shape) : list nat :=
  match s with
  | [] => []
  | d :: s' => if 1 <? d then k :: keep_from (S k) s' else keep_from (S k) s'
  end.

Lemma where_keep (k : nat) (s : shape) :
  where_from (Z.of_nat k) (map (fun x => (x >? 1)%Z) (zs s)) = zs (keep_from k s).
Proof.
  revert k. induction s as [|d s IH]; intros k; [reflexivity|]. unfold zs in *. cbn [map where_from keep_from].
  replace (Z.of_nat k + 1)%Z with (Z.of_nat (S k)) by lia. rewrite IH.
  replace (Z.of_nat d >? 1)%Z with (1 <? d).
  - now destruct (1 <? d).
  - destruct (Nat.ltb_spec 1 d); symmetry; [apply Z.gtb_lt; lia|]. destruct (Z.gtb_spec (Z.of_nat d) 1); [lia|reflexivity].
Qed.

Lemma keep_from_length k s : length (keep_from k s) = length (sqz s s).
Proof. revert k. induction s as [|d s IH]; intros k; [reflexivity|]. cbn [keep_from sqz]. destruct (1 <? d); cbn [length]; now rewrite IH. Qed.

Lemma keep_from_lt k s x : In x (keep_from k s) -> x < k + length s.
Proof.
  revert k. induction s as [|d s IH]; intros k; [intros []|]. cbn [keep_from length].
  destruct (1 <? d); [intros [<-|H]; [lia|]|intros H]; apply IH in H; lia.
Qed.

Lemma pick_keep_from (pre j : list nat) (s : shape) : length j = length s ->
  pick 0 (keep_from (length pre) s) (pre ++ j) = sqz s j.
Proof.
  revert pre j. induction s as [|d s IH]; intros pre [|x j] HL; try discriminate; [reflexivity|].
  cbn [keep_from sqz]. injection HL as HL.
  assert (E : pick 0 (keep_from (S (length pre)) s) (pre ++ x :: j) = sqz s j).
  { replace (pre ++ x :: j) with ((pre ++ [x]) ++ j) by (rewrite <- app_assoc; reflexivity).
    replace (S (length pre)) with (length (pre ++ [x])) by (rewrite app_length; cbn; lia). now apply IH. }
  destruct (1 <? d); [|exact E]. unfold pick in *. cbn [map]. rewrite E. f_equal. apply nth_middle.
Qed.

Lemma filter_gt1_zs s : filter (fun d => (d >? 1)%Z) (zs s) = zs (sqz s s).
Proof.
  induction s as [|d s IH]; [reflexivity|]. unfold zs in *. cbn [map filter sqz].
  replace (Z.of_nat d >? 1)%Z with (1 <? d).
  - destruct (1 <? d); cbn [map]; now rewrite IH.
  - destruct (Nat.ltb_spec 1 d); symmetry; [apply Z.gtb_lt; lia|]. destruct (Z.gtb_spec (Z.of_nat d) 1); [lia|reflexivity].
Qed.

Lemma forallb_gt1_zs s : forallb (fun d => (d >? 1)%Z) (zs s) = forallb (Nat.ltb 1) s.
Proof.
  induction s as [|d s IH]; [reflexivity|]. unfold zs in *. cbn [map forallb]. rewrite IH. f_equal.
  destruct (Nat.ltb_spec 1 d); [apply Z.gtb_lt; lia|]. destruct (Z.gtb_spec (Z.of_nat d) 1); [lia|reflexivity].
Qed.

Theorem gen_sp_squeeze_model (S : sparse Z) : sshape S <> [] ->
  Forall (fun j => inb (sshape S) j = true) (ssubs S) -> length (svals S) = length (ssubs S) ->
  sptensor_squeeze (of_Sp S) =
    match squeeze_sp_impl 0%Z S with
    | Some (C07Ops.SqT R) => Ok (NpZ4d.SqTensor (of_Sp R))
    | Some (C07Ops.SqScalar v) => Ok (NpZ4d.SqScalar v)
    | None => Err
    end.
Proof.
  intros Hs Hin Hlen. rewrite squeeze_bridge. unfold H_squeeze, squeeze_sp_impl, H_keep, np_gt_s, np_where1. cbv zeta.
  change (spt_shape (of_Sp S)) with (zs (sshape S)). change (spt_vals (of_Sp S)) with (svals S).
  change (spt_subs (of_Sp S)) with (zm (ssubs S)). set (s := sshape S) in *.
  rewrite forallb_gt1_zs. pose proof (where_keep 0 s) as WK. cbn [Z.of_nat] in WK. rewrite WK. clear WK.
  destruct (forallb (Nat.ltb 1) s) eqn:Hall.
  - replace (spt_make_ok _ _ _) with true; [reflexivity|]. symmetry.
    destruct (ssubs S) as [|j0 J] eqn:EJ.
    + destruct (svals S); [reflexivity|discriminate].
    + apply make_ok_zs; auto. discriminate.
  - rewrite zlen_zs, keep_from_length, filter_gt1_zs.
    destruct (sqz s s) as [|d r] eqn:Es.
    + cbn [length Z.eqb Z.of_nat]. destruct (svals S) as [|v [|v' vs]]; reflexivity.
    + replace (Z.of_nat (length (d :: r)) =? 0)%Z with false by (cbn [length]; symmetry; apply Z.eqb_neq; lia).
      unfold zlen at 1.
      destruct (Nat.eqb_spec (length (svals S)) 0) as [E0|E0].
      * replace (Z.of_nat (length (svals S)) =? 0)%Z with true by (symmetry; apply Z.eqb_eq; lia). reflexivity.
      * replace (Z.of_nat (length (svals S)) =? 0)%Z with false by (symmetry; apply Z.eqb_neq; lia).
        assert (HL : Forall (fun j => length j = length s) (ssubs S)).
        { eapply Forall_impl; [|exact Hin]. intros j Hj. now apply inb_length. }
        rewrite (cols_ok_zm (ssubs S) (keep_from 0 s) (length s) HL).
        2:{ apply Forall_forall. intros x Hx. apply keep_from_lt in Hx. lia. }
        rewrite cols_zm. cbn [andb].
        assert (EM : map (pick 0 (keep_from 0 s)) (ssubs S) = map (sqz s) (ssubs S)).
        { apply map_ext_in. intros j Hj. rewrite Forall_forall in HL. apply (pick_keep_from [] j s). now apply HL. }
        rewrite EM. rewrite make_ok_zs; [reflexivity| | discriminate | | now rewrite map_length].
        -- destruct (ssubs S); [cbn in Hlen; lia|discriminate].
        -- apply Forall_forall. intros j Hj. apply in_map_iff in Hj as (j0 & <- & Hj0). rewrite Forall_forall in Hin.
           rewrite <- Es. now destruct (sqz_index s j0 (Hin j0 Hj0)) as (_ & E & _).
Qed.

(* through the adapter of Model/C07Gen4.v: generated sptensor.squeeze = the code-path model, hence (C07_squeeze_sparse_code) the
   squeeze model of Model/C07Ops.v with its index law *)
Lemma to_nat_of_nat (l : list nat) : map Z.to_nat (map Z.of_nat l) = l.
Proof. induction l as [|x l IH]; [reflexivity|]. cbn [map]. now rewrite Nat2Z.id, IH. Qed.

Lemma to_of_Sp (R : sparse Z) : to_Sp (of_Sp R) = R.
Proof.
  destruct R as [s J v]. unfold to_Sp, of_Sp, nats, zm. cbn [spt_shape spt_subs spt_vals sshape ssubs svals]. unfold zs. f_equal.
  - apply to_nat_of_nat.
  - induction J as [|j J IH]; [reflexivity|]. cbn [map]. now rewrite to_nat_of_nat, IH.
Qed.

Theorem gen_sp_squeeze_res (S : sparse Z) : sshape S <> [] ->
  Forall (fun j => inb (sshape S) j = true) (ssubs S) -> length (svals S) = length (ssubs S) ->
  sptensor_squeeze_res (of_Sp S) = squeeze_sp_impl 0%Z S.
Proof.
  intros Hs Hin Hlen. unfold sptensor_squeeze_res. rewrite (gen_sp_squeeze_model S Hs Hin Hlen).
  destruct (squeeze_sp_impl 0%Z S) as [[R|v]|]; [|reflexivity|reflexivity]. now rewrite to_of_Sp.
Qed.
