(* Model/C01Ttm.v — ttensor.full() as the code runs it for a dense core: `self.core.ttm(self.factor_matrices)`, i.e.
   tensor.ttm over the list of all modes in ascending order, each single-mode product being pyttb's
   permute / reshape / matmul / reshape / inverse-permute algorithm (Model/C02Dense.v impl_ttm_dense, owned by C02). *)
From Coq Require Import List Arith Lia Bool.
From PV Require Import Base.Index Base.Perm Base.Sum Np.Array Model.Sparse Model.Repr Model.C02Spec Model.C02Dense.
Import ListNotations.

Section Ttm.
Context {V : Type} (v0 : V) (vadd vmul : V -> V -> V).

Fixpoint ttm_all_impl (X : dense V) (Us : list (matrix (V:=V))) (n : nat) : dense V :=
  match Us with
  | [] => X
  | U :: Us' => ttm_all_impl (impl_ttm_dense v0 vadd vmul X n U (nrows U) false) Us' (S n)
  end.
Definition ttensor_full_impl (T : ttensor V) : dense V := ttm_all_impl (tcore T) (tfactors T) 0.

End Ttm.
