(* Props/W3C19b.v — flexible shape / vector arguments (parse_shape, parse_one_d: what is accepted as a shape or a vector and
   what is rejected; properties C19 / C20), stated over Gen/GenUtils3b.v as regenerated from /repo/pyttb/pyttb_utils.py at run
   time.  Only statements, `exact`, Print Assumptions. *)
From Coq Require Import List ZArith Bool.
From PV Require Import Np.NpZ Np.NpZ2 Np.NpZ3 Np.NpZ3b Gen.GenUtils3b Proofs.W3ShapeArgs.
Import ListNotations.
Local Open Scope Z_scope.

Theorem C19_gen_parse_shape_bridge : forall s, parse_shape s = H_parse_shape s.
Proof. exact parse_shape_bridge. Qed.
Print Assumptions C19_gen_parse_shape_bridge.

Theorem C19_gen_parse_one_d_bridge : forall v, parse_one_d v = H_parse_one_d v.
Proof. exact parse_one_d_bridge. Qed.
Print Assumptions C19_gen_parse_one_d_bridge.

Theorem C19_gen_parse_shape_ints : forall l : vec, parse_shape (STuple (ints l)) = Ok l /\ parse_shape (SList (ints l)) = Ok l.
Proof. exact parse_shape_ints. Qed.
Print Assumptions C19_gen_parse_shape_ints.

Theorem C19_gen_parse_shape_int : forall k : Z, parse_shape (SInt k) = Ok [k].
Proof. exact parse_shape_int. Qed.
Print Assumptions C19_gen_parse_shape_int.

Theorem C19_gen_parse_shape_array : forall (shp l : vec) (n : Z),
  filter (fun d => negb (d =? 1)) shp = [n] -> parse_shape (SArr (mknd shp DInt (map NFin l))) = Ok l.
Proof. exact parse_shape_array. Qed.
Print Assumptions C19_gen_parse_shape_array.

Theorem C19_gen_parse_shape_scalar_array : forall (shp : vec) (k : Z),
  filter (fun d => negb (d =? 1)) shp = [] -> parse_shape (SArr (mknd shp DInt [NFin k])) = Ok [k].
Proof. exact parse_shape_scalar_array. Qed.
Print Assumptions C19_gen_parse_shape_scalar_array.

Theorem C19_gen_parse_shape_rejects :
  (forall shp d, parse_shape (SArr (mknd shp DFloat d)) = Err) /\
  (forall shp d, parse_shape (SArr (mknd shp DBool d)) = Err) /\
  (forall shp k d x y r, filter (fun d => negb (d =? 1)) shp = x :: y :: r -> parse_shape (SArr (mknd shp k d)) = Err) /\
  (forall l, elems_all_int l = false -> parse_shape (STuple l) = Err /\ parse_shape (SList l) = Err).
Proof. exact parse_shape_rejects. Qed.
Print Assumptions C19_gen_parse_shape_rejects.

Example C19_gen_parse_shape_example :
  parse_shape (SArr (mknd [4; 1; 1] DInt [NFin 1; NFin 1; NFin 1; NFin 1])) = Ok [1; 1; 1; 1] /\
  parse_shape (SList [EInt 2; EInt 3]) = Ok [2; 3] /\ parse_shape (SList [EInt 2; EList [3]]) = Err /\
  parse_shape (SArr (mknd [2; 2] DInt [NFin 1; NFin 2; NFin 3; NFin 4])) = Err.
Proof. repeat split; reflexivity. Qed.

Theorem C19_gen_parse_one_d_spec :
  (forall k, parse_one_d (SInt k) = Ok (nd_of_ints [k])) /\
  (forall l, parse_one_d (SList (ints l)) = Ok (key_asarray (KList (ints l))) /\ nd_ndim (key_asarray (KList (ints l))) = 1) /\
  (forall shp k d n, filter (fun d => negb (d =? 1)) shp = [n] -> parse_one_d (SArr (mknd shp k d)) = Ok (mknd [n] k d)) /\
  (forall shp k d, filter (fun d => negb (d =? 1)) shp = [] -> parse_one_d (SArr (mknd shp k d)) = Ok (mknd [1] k d)) /\
  (forall shp k d x y r, filter (fun d => negb (d =? 1)) shp = x :: y :: r -> parse_one_d (SArr (mknd shp k d)) = Err).
Proof. exact parse_one_d_spec. Qed.
Print Assumptions C19_gen_parse_one_d_spec.
