(* Model/C11Rows.v — the outer loop shared by the two row-subproblem solvers of CP-APR, tt_cp_apr_pdnr (pyttb/cp_apr.py:389-747)
   and tt_cp_apr_pqnr (750-1150), as an executable value-generic state machine:
     patch all-zero rows of the guess with a tiny value; normalise; for each outer iteration, for each mode n: redistribute, then for
     each row jj of factor n: zero the row when the data row is empty, else run the projected (quasi-)Newton inner loop
     [optional first steepest-descent line search (PQNR); KKT violation max|min(m, grad)|; first violation of the row feeds the mode's
     maximum; stop when < stoptol; else line search: projected step m + alpha d, or the projected multiplicative fallback m * phi];
     write the row back; count the LAST inner index; normalise mode n; after the sweep record max KKT and the inner count; stop on
     convergence (PDNR-inexact: only when the row tolerance max(stoptol, kkt)/100 has come down to stoptol).
   Gradient, search direction (damped Newton / L-BFGS two-loop), step length, fallback decision and 1 - grad are ORACLES that see the
   whole current state, the position (outer iteration, mode, row, inner iteration) and the history of iterates of the row.
   Not modelled: the assertion 'L-BFGS first iterate is bad' (finding C11-F1), time limit, printing, the final sort of components. *)
From Coq Require Import List Arith Lia Bool.
From PV Require Import Base.Index Base.Sum Np.Array Model.Sparse Model.Repr Model.C14Nvecs Model.C11Apr.
Import ListNotations.

Section Rows.
Context {V : Type} (v0 v1 : V) (vadd vmul : V -> V -> V).
Variable vscale : V -> V -> V.     (* ktensor.normalize: (1/t) * a when t > 0 else a *)
Variable vabs : V -> V.
Variables vmin vmax : V -> V -> V.
Variable vgt0 : V -> bool.
Variable vltb vleb : V -> V -> bool.
Variable isz : V -> bool.
Variable vdiv100 : V -> V.
Variables (stoptol tiny : V).
Variables (maxinner : nat) (inexact prestep : bool).   (* PDNR: prestep = false; PQNR: prestep = true, inexact = false *)
Notation state := (@state V).
Notation matrix := (list (list V)).
Definition ctx := (nat * nat * nat * nat)%type.       (* outer iteration, mode, row, inner iteration *)
Variables (grad dir phi : state -> ctx -> list (list V) -> list V -> list V).
Variable alpha : state -> ctx -> list (list V) -> list V -> V.
Variable fallback : state -> ctx -> list (list V) -> list V -> bool.

(* np.max(np.abs(np.minimum(m_row, gradM))) *)
Definition kkt_row (m g : list V) : V := maxlist v0 vmax (map (fun p => vabs (vmin (fst p) (snd p))) (combine m g)).

(* what tt_linesearch_prowsubprob returns as new iterate *)
Definition ls_step (st : state) (c : ctx) (hist : list (list V)) (m : list V) : list V :=
  if fallback st c hist m
  then map (project v0 vgt0) (map (fun p => vmul (fst p) (snd p)) (combine m (phi st c hist m)))
  else projected_step v0 vadd vmul vgt0 m (dir st c hist m) (alpha st c hist m).

(* for i in range(innermax): ...   returns (m_row, last inner index, KKT violation at i = 0, isRowNOTconverged[jj]) *)
Fixpoint row_loop (fuel i : nat) (st : state) (c3 : nat * nat * nat) (hist : list (list V)) (m : list V) (first : V) (touched : bool)
  : list V * nat * V * bool :=
  match fuel with
  | O => (m, pred i, first, touched)
  | S f =>
      let c := (c3, i) in
      let pre := prestep && Nat.eqb i 0 in
      let m1 := if pre then ls_step st c hist m else m in
      let hist1 := if pre then m :: hist else hist in
      let k := kkt_row m1 (grad st c hist1 m1) in
      let first' := if Nat.eqb i 0 then k else first in
      if vltb k stoptol then (m1, i, first', touched)
      else row_loop f (S i) st c3 (m1 :: hist1) (ls_step st c hist1 m1) first' true
  end.

(* "the row jj of matricized tensor X in mode n is empty" *)
Definition row_empty (X : dense V) (n jj : nat) : bool :=
  forallb (fun i => isz (den_dense v0 X (insert_at n jj i))) (allsubs (remove_nth n (dshape X))).

Definition rows_step (X : dense V) (iter n innermax : nat) (acc : state * V * bool * nat) (jj : nat) : state * V * bool * nat :=
  match acc with
  | (st, kmode, notconv, cnt) =>
      let A := fac st n in
      if row_empty X n jj then (set_fac st n (upd A jj (repeat v0 (rankof st))), kmode, notconv, cnt)
      else match row_loop innermax 0 st (iter, n, jj) [] (nth jj A []) v0 false with
           | (m, ilast, first, touched) =>
               (set_fac st n (upd A jj m), (if vltb kmode first then first else kmode), notconv || touched, cnt + ilast)
           end
  end.

(* inexact and iteration == 1 -> 2 inner iterations *)
Definition innermax_of (iter : nat) : nat := if inexact && Nat.eqb iter 1 then 2 else maxinner.

Definition mode_step_rs (X : dense V) (iter : nat) (acc : state * nat) (n : nat) : state * nat :=
  match acc with
  | (st, total) =>
      let st1 := redistribute v0 v1 vmul n st in
      match fold_left (rows_step X iter n (innermax_of iter)) (seq 0 (length (fac st1 n))) (st1, v0, false, 0) with
      | (st2, kmode, notconv, cnt) =>
          (normalize_mode v0 vadd vmul vscale vabs n
             (mkSt (sw st2) (sA st2) (sPhi st2) (upd (skkt st2) n kmode) (sconv st2 && negb notconv)),
           total + cnt)
      end
  end.

Definition sweep_rs (X : dense V) (iter : nat) (st : state) : state * nat :=
  fold_left (mode_step_rs X iter) (seq 0 (length (sA st)))
            (mkSt (sw st) (sA st) (sPhi st) (repeat v0 (length (sA st))) true, 0).

(* isConverged and (not inexact or rowsubprobStopTol <= stoptol),  rowsubprobStopTol = max(stoptol, kkt) / 100 *)
Definition stop_now (st : state) (k : V) : bool :=
  sconv st && (negb inexact || vleb (vdiv100 (vmax stoptol k)) stoptol).

Fixpoint outer_rs (fuel : nat) (X : dense V) (iter : nat) (st : state) (kkts : list V) (inners : list nat)
  : state * list V * list nat :=
  match fuel with
  | O => (st, kkts, inners)
  | S f =>
      match sweep_rs X iter st with
      | (st', cnt) =>
          let k := maxlist v0 vmax (skkt st') in
          if stop_now st' k then (st', kkts ++ [k], inners ++ [cnt])
          else outer_rs f X (S iter) st' (kkts ++ [k]) (inners ++ [cnt])
      end
  end.

(* rowsum == 0 -> factor[row, 0] = 1e-8 *)
Definition patch_zero_rows (A : matrix) : matrix :=
  map (fun row => if isz (sum_over v0 vadd row (fun x => x)) then upd row 0 tiny else row) A.

Definition normalize_all (st : state) : state :=
  fold_left (fun s n => normalize_mode v0 vadd vmul vscale vabs n s) (seq 0 (length (sA st))) st.

Definition init_rs (K : ktensor V) : state :=
  normalize_all (mkSt (kweights K) (map patch_zero_rows (kfactors K)) [] (repeat v0 (length (kfactors K))) true).

(* (final state after M.normalize(normtype=1), kktViolations, nInnerIters) *)
Definition cp_apr_rows (X : dense V) (K : ktensor V) (maxiters : nat) : state * list V * list nat :=
  match outer_rs maxiters X 0 (init_rs K) [] [] with
  | (st, kkts, inners) => (normalize_all st, kkts, inners)
  end.
End Rows.
