(* Proofs/C01GenMeth.v — fourth wave: what the objects REPORT, tied to the translator.
   Gen/GenMethods.v holds the properties sptensor.nnz, sptensor.ndims, ktensor.ncomponents, ktensor.ndims GENERATED from the
   current pyttb/sptensor.py and pyttb/ktensor.py on every run (`self` = a record of the fields the method reads).
     * sptensor_reports_generated — for every coordinate list with in-bounds subscripts of an N >= 1 way shape the generated
       sptensor.nnz answers the number of stored entries (the model's nnz) and the generated ndims answers N; for the result
       of tensor.to_sptensor this is the number of nonzero entries of the dense tensor (C01_dense_sparse);
     * ktensor_full_gen2 — ktensor.full with its two branch conditions read through the generated ktensor.ncomponents /
       ktensor.ndims and both Khatri-Rao products through the generated khatrirao: equal to ktensor_full_gen of
       Proofs/C01GenKr.v, hence to the specification, for every integer Kruskal tensor. *)
From Coq Require Import List ZArith Arith Bool Lia.
From PV Require Import Base.Index Base.Perm Base.Sum Np.Array Model.Sparse Model.Repr Model.C07Ops Model.C01Conv Model.C01W3
  Np.NpZ Np.NpZ2 Np.NpZ3 Gen.GenMethods Gen.GenKernels Proofs.NpZProofs Proofs.W3Methods Proofs.C01Kruskal Proofs.C01GenKr.
Import ListNotations.
Local Open Scope nat_scope.

Section Reports.
Context {V : Type} (v0 : V) (isz : V -> bool).

(* the record the generated methods read: the subscript array and the shape (the value column is not read by nnz / ndims) *)
Definition sptz_of (S : sparse V) (vals : vec) : sptz := mkspt (zm (ssubs S)) vals (zs (sshape S)).

Theorem sptensor_reports_generated (S : sparse V) (vals : vec) :
  Forall (fun j => inb (sshape S) j = true) (ssubs S) -> 1 <= length (sshape S) ->
  sptensor_nnz (sptz_of S vals) = Ok (Z.of_nat (nnz S)) /\
  sptensor_ndims (sptz_of S vals) = Ok (Z.of_nat (length (sshape S))).
Proof.
  intros Hb HN. split.
  - rewrite sptensor_nnz_rows.
    + unfold sptz_of, zlen, zm, nnz. cbn [spt_subs]. now rewrite map_length.
    + unfold sptz_of. cbn [spt_subs]. intros r Hr. unfold zm in Hr. apply in_map_iff in Hr as (j & <- & Hj).
      rewrite Forall_forall in Hb. specialize (Hb j Hj). apply inb_length in Hb.
      destruct j; [cbn in Hb; lia|discriminate].
  - rewrite sptensor_ndims_spec. unfold sptz_of, zlen, zs. cbn [spt_shape]. now rewrite map_length.
Qed.

(* dense -> sparse: the generated nnz of the result is the number of nonzero entries of the dense tensor *)
Theorem to_sptensor_nnz_generated (T : dense V) (vals : vec) : wf_dense T -> 1 <= length (dshape T) ->
  sptensor_nnz (sptz_of (to_sptensor v0 isz T) vals) = Ok (Z.of_nat (length (filter (fun v => negb (isz v)) (ddata T)))).
Proof.
  intros W HN. destruct (to_sptensor_wf v0 isz T W) as (_ & _ & Hb & _).
  destruct (sptensor_reports_generated (to_sptensor v0 isz T) vals Hb HN) as [E _].
  rewrite E. now rewrite (nnz_to_sptensor v0 isz T W).
Qed.
End Reports.

(* ------------------------------------------------------------------ ktensor.full: branch conditions through generated methods *)
Definition ktz_of (K : ktensor Z) : ktz := mkkt (kweights K) (kfactors K).

Definition ktensor_full_gen2 (K : ktensor Z) : option (dense Z) :=
  match ktensor_ncomponents (ktz_of K), ktensor_ndims (ktz_of K) with
  | Ok r, Ok n =>
      if (r =? 0)%Z then Some (dense_zeros 0%Z (kshape K))                       (* if self.ncomponents == 0 *)
      else if (n =? 1)%Z then                                                    (* if self.ndims == 1 *)
        match kfactors K with A :: _ => Some (ktensor_full_1way 0%Z Z.add Z.mul K A) | [] => None end
      else match min_split_dims (kshape K) with
           | Some i => ktensor_full_at_gen K i
           | None => None
           end
  | _, _ => None
  end.

Theorem ktensor_full_gen2_eq (K : ktensor Z) : ktensor_full_gen2 K = ktensor_full_gen K.
Proof.
  unfold ktensor_full_gen2, ktensor_full_gen. rewrite ktensor_ncomponents_spec, ktensor_ndims_spec.
  unfold ktz_of, zlen. cbn [kt_weights kt_factors]. unfold krank.
  destruct (length (kweights K)) as [|r] eqn:ER; [reflexivity|].
  change (Z.of_nat (S r) =? 0)%Z with false. cbv iota. cbn [Nat.eqb].
  unfold ktensor_full_gen_norank0.
  destruct (kfactors K) as [|A [|B rest]] eqn:EA; cbn [length].
  - cbn. unfold kshape. rewrite EA. reflexivity.
  - reflexivity.
  - match goal with |- context [(?x =? 1)%Z] => destruct (Z.eqb_spec x 1) as [H|H] end; [lia|reflexivity].
Qed.

Theorem ktensor_full_gen2_correct (K : ktensor Z) :
  rows_ok Z (krank K) (kfactors K) -> Forall (fun A => A <> []) (kfactors K) -> 1 <= length (kfactors K) ->
  ktensor_full_gen2 K = Some (ktensor_full_spec 0%Z 1%Z Z.add Z.mul K).
Proof.
  intros Hok Hne HN. rewrite ktensor_full_gen2_eq. exact (proj2 (ktensor_full_gen_correct K Hok Hne HN)).
Qed.

Example c01_gen_meth_example :
  sptensor_nnz (sptz_of (to_sptensor 0%Z (Z.eqb 0) (mkDense [2; 3] [0; 5; 0; 0; 7; 1]%Z)) []) = Ok 3%Z /\
  sptensor_ndims (sptz_of (to_sptensor 0%Z (Z.eqb 0) (mkDense [2; 3] [0; 5; 0; 0; 7; 1]%Z)) []) = Ok 2%Z /\
  ktensor_full_gen2 (mkK [2; 3]%Z [[[1; 2]; [3; 4]]; [[5; 6]; [7; 8]; [9; 1]]]%Z)
    = Some (mkDense [2; 3] [46; 102; 62; 138; 24; 66]%Z) /\
  ktensor_full_gen2 (mkK [] [[[]; []; []]; [[]; []]]) = Some (mkDense [3; 2] [0; 0; 0; 0; 0; 0]%Z) /\
  ktensor_full_gen2 (mkK [2; 3]%Z [[[1; 2]; [3; 4]; [5; 6]]%Z]) = Some (mkDense [3] [8; 18; 28]%Z).
Proof. timeout 60 (vm_compute; repeat split; reflexivity). Qed.
