(* Proofs/C18ReprRows.v — C18 "dense or sparse" for the two row-subproblem solvers of cp_apr (PDNR / PQNR) on the loop model of C11
   (Model/C11Rows.v).  PARTIAL BY DESIGN: in that model the numerics of a row subproblem (gradient, Newton / L-BFGS direction, step
   length, fallback decision) are ORACLES of (state, position, history, iterate); the loop itself looks at the data in ONE place - the
   test "row jj of the mode-n unfolding is empty" that zeroes the factor row and skips the subproblem.
     dense branch : the row of Xn is all zero                       (C11Rows.row_empty)
     sparse branch: no stored nonzero has subscript jj in mode n    (row_empty_sp below)
   Proved (value-generic, all shapes / orders / ranks / stored orders / option values): on a well-formed sptensor (no stored zero,
   no duplicate) the two tests agree for every row of every mode (row_empty_repr), and hence the two loops run identically whenever
   the row oracles are the same functions for both holders (cp_apr_rows_repr) - final state, KKT trace, inner-iteration counts.
   What is NOT proved: that the sparse code's gradient / Hessian / objective rows (sums over the stored nonzeros of the row) equal the
   dense ones - in exact arithmetic they do (same zero-annihilation argument as C11_phi_sparse; phi_row_repr below gives it for the
   gradient row 1 - Phi[jj, :]: phi_row_repr), in floating point the summation order differs: open finding C18-PQNR-TIE lives exactly there. *)
From Coq Require Import List Arith Lia Bool Ring.
From PV Require Import Base.Index Base.Sum Np.Array Model.Sparse Model.Repr Model.C14Nvecs Model.C11Apr Model.C11Sparse Model.C11Rows
                       Proofs.C14Sums Proofs.C14Split Proofs.C11Pairing Proofs.C18ReprMu.
Import ListNotations.

Section ReprRows.
Variable V : Type.
Variables (v0 v1 : V) (vadd vmul : V -> V -> V).
Variable vscale : V -> V -> V.
Variable vabs : V -> V.
Variables vmin vmax : V -> V -> V.
Variable vgt0 : V -> bool.
Variable vltb vleb : V -> V -> bool.
Variable isz : V -> bool.
Variable vdiv100 : V -> V.
Variables (stoptol tiny : V).
Variables (maxinner : nat) (inexact prestep : bool).
Notation state := (@state V).
Variables (grad dir phi : state -> ctx -> list (list V) -> list V -> list V).
Variable alpha : state -> ctx -> list (list V) -> list V -> V.
Variable fallback : state -> ctx -> list (list V) -> list V -> bool.

(* ------------------------------------------------------------------------------------------------ the loop, generic in the test *)
Section Generic.
Variable rempty : nat -> nat -> bool.

Definition rows_stepG (iter n innermax : nat) (acc : state * V * bool * nat) (jj : nat) : state * V * bool * nat :=
  match acc with
  | (st, kmode, notconv, cnt) =>
      let A := fac st n in
      if rempty n jj then (set_fac st n (upd A jj (repeat v0 (rankof st))), kmode, notconv, cnt)
      else match row_loop v0 vadd vmul vabs vmin vmax vgt0 vltb stoptol prestep grad dir phi alpha fallback
                          innermax 0 st (iter, n, jj) [] (nth jj A []) v0 false with
           | (m, ilast, first, touched) =>
               (set_fac st n (upd A jj m), (if vltb kmode first then first else kmode), notconv || touched, cnt + ilast)
           end
  end.

Definition mode_step_rsG (iter : nat) (acc : state * nat) (n : nat) : state * nat :=
  match acc with
  | (st, total) =>
      let st1 := redistribute v0 v1 vmul n st in
      match fold_left (rows_stepG iter n (innermax_of maxinner inexact iter)) (seq 0 (length (fac st1 n))) (st1, v0, false, 0) with
      | (st2, kmode, notconv, cnt) =>
          (normalize_mode v0 vadd vmul vscale vabs n
             (mkSt (sw st2) (sA st2) (sPhi st2) (upd (skkt st2) n kmode) (sconv st2 && negb notconv)),
           total + cnt)
      end
  end.

Definition sweep_rsG (iter : nat) (st : state) : state * nat :=
  fold_left (mode_step_rsG iter) (seq 0 (length (sA st)))
            (mkSt (sw st) (sA st) (sPhi st) (repeat v0 (length (sA st))) true, 0).

Fixpoint outer_rsG (fuel : nat) (iter : nat) (st : state) (kkts : list V) (inners : list nat) : state * list V * list nat :=
  match fuel with
  | O => (st, kkts, inners)
  | S f =>
      match sweep_rsG iter st with
      | (st', cnt) =>
          let k := maxlist v0 vmax (skkt st') in
          if stop_now vmax vleb vdiv100 stoptol inexact st' k then (st', kkts ++ [k], inners ++ [cnt])
          else outer_rsG f (S iter) st' (kkts ++ [k]) (inners ++ [cnt])
      end
  end.

Definition cp_apr_rowsG (K : ktensor V) (maxiters : nat) : state * list V * list nat :=
  match outer_rsG maxiters 0 (init_rs v0 vadd vmul vscale vabs isz tiny K) [] [] with
  | (st, kkts, inners) => (normalize_all v0 vadd vmul vscale vabs st, kkts, inners)
  end.
End Generic.

(* the dense instance IS the C11 model *)
Lemma rowsG_dense (X : dense V) (K : ktensor V) (maxiters : nat) :
  cp_apr_rowsG (row_empty v0 isz X) K maxiters =
  cp_apr_rows v0 v1 vadd vmul vscale vabs vmin vmax vgt0 vltb vleb isz vdiv100 stoptol tiny maxinner inexact prestep
              grad dir phi alpha fallback X K maxiters.
Proof.
  unfold cp_apr_rowsG, cp_apr_rows.
  assert (E : forall fuel iter st kk ii,
    outer_rsG (row_empty v0 isz X) fuel iter st kk ii =
    outer_rs v0 v1 vadd vmul vscale vabs vmin vmax vgt0 vltb vleb isz vdiv100 stoptol maxinner inexact prestep
             grad dir phi alpha fallback fuel X iter st kk ii).
  { induction fuel as [|f IH]; intros iter st kk ii; cbn [outer_rsG outer_rs]; [reflexivity|].
    change (sweep_rsG (row_empty v0 isz X) iter st)
      with (sweep_rs v0 v1 vadd vmul vscale vabs vmin vmax vgt0 vltb isz stoptol maxinner inexact prestep grad dir phi alpha fallback X iter st).
    destruct (sweep_rs _ _ _ _ _ _ _ _ _ _ _ _ _ _ _ _ _ _ _ _ X iter st) as [st' cnt].
    destruct (stop_now _ _ _ _ _ _ _); [reflexivity|apply IH]. }
  now rewrite E.
Qed.

(* ------------------------------------------------------------------------------------------------ agreement of two tests *)
Section Agree.
Variables (re1 re2 : nat -> nat -> bool) (shp : list nat).
Hypothesis re_agree : forall n jj, n < length shp -> jj < nth n shp 0 -> re1 n jj = re2 n jj.

Lemma rows_set_row (st : state) n jj (m : list V) : rows_of V (set_fac st n (upd (fac st n) jj m)) = rows_of V st.
Proof. unfold rows_of, set_fac, fac. cbn [sA]. apply map_length_upd'. now rewrite upd_length. Qed.

Lemma rows_stepG_agree iter n im acc jj : n < length shp -> rows_of V (fst (fst (fst acc))) = shp -> jj < nth n shp 0 ->
  rows_stepG re1 iter n im acc jj = rows_stepG re2 iter n im acc jj /\
  rows_of V (fst (fst (fst (rows_stepG re2 iter n im acc jj)))) = shp.
Proof.
  intros Hn Hr Hjj. destruct acc as [[[st km] nc] cnt]. cbn [fst] in Hr. unfold rows_stepG.
  rewrite (re_agree n jj Hn Hjj). split; [reflexivity|].
  destruct (re2 n jj); [cbn [fst]; now rewrite rows_set_row|].
  destruct (row_loop _ _ _ _ _ _ _ _ _ _ _ _ _ _ _ _ _ _ _ _ _ _ _) as [[[m il] fi] to]. cbn [fst]. now rewrite rows_set_row.
Qed.

Lemma rows_fold_agree iter n im (l : list nat) : n < length shp -> Forall (fun jj => jj < nth n shp 0) l ->
  forall acc, rows_of V (fst (fst (fst acc))) = shp ->
  fold_left (rows_stepG re1 iter n im) l acc = fold_left (rows_stepG re2 iter n im) l acc /\
  rows_of V (fst (fst (fst (fold_left (rows_stepG re2 iter n im) l acc)))) = shp.
Proof.
  intros Hn. induction l as [|jj l IH]; intros HF acc Hr; cbn [fold_left]; [split; [reflexivity|exact Hr]|].
  apply Forall_cons_iff in HF as [Hjj HF'].
  destruct (rows_stepG_agree iter n im acc jj Hn Hr Hjj) as [E1 E2]. rewrite E1. now apply IH.
Qed.

Lemma mode_step_rsG_agree iter acc n : n < length shp -> rows_of V (fst acc) = shp ->
  mode_step_rsG re1 iter acc n = mode_step_rsG re2 iter acc n /\ rows_of V (fst (mode_step_rsG re2 iter acc n)) = shp.
Proof.
  intros Hn Hr. destruct acc as [st total]. cbn [fst] in Hr. unfold mode_step_rsG.
  set (st1 := redistribute v0 v1 vmul n st).
  assert (Hr1 : rows_of V st1 = shp) by (unfold st1; now rewrite rows_redistribute).
  assert (HF : Forall (fun jj => jj < nth n shp 0) (seq 0 (length (fac st1 n)))).
  { apply Forall_forall. intros jj Hjj. apply in_seq in Hjj. rewrite (rows_fac V st1 n), Hr1 in Hjj. lia. }
  destruct (rows_fold_agree iter n (innermax_of maxinner inexact iter) _ Hn HF (st1, v0, false, 0) Hr1) as [E1 E2].
  rewrite E1.
  destruct (fold_left (rows_stepG re2 iter n (innermax_of maxinner inexact iter)) (seq 0 (length (fac st1 n))) (st1, v0, false, 0))
    as [[[st2 km] nc] cnt].
  cbn [fst] in E2 |- *. split; [reflexivity|]. rewrite rows_normalize. exact E2.
Qed.

Lemma sweep_rsG_agree iter st : rows_of V st = shp ->
  sweep_rsG re1 iter st = sweep_rsG re2 iter st /\ rows_of V (fst (sweep_rsG re2 iter st)) = shp.
Proof.
  intros Hr. unfold sweep_rsG.
  assert (HL : length (sA st) = length shp) by (rewrite <- Hr; unfold rows_of; now rewrite map_length).
  set (a0 := (mkSt (sw st) (sA st) (sPhi st) (repeat v0 (length (sA st))) true, 0)).
  assert (H0 : rows_of V (fst a0) = shp) by exact Hr. clearbody a0. rewrite HL.
  assert (Hall : forall n, In n (seq 0 (length shp)) -> n < length shp) by (intros n Hin; apply in_seq in Hin; lia).
  revert a0 H0 Hall. generalize (seq 0 (length shp)). intros l; induction l as [|n l IH]; intros a0 H0 Hall; cbn [fold_left];
    [split; [reflexivity|exact H0]|].
  destruct (mode_step_rsG_agree iter a0 n (Hall n (or_introl eq_refl)) H0) as [E1 E2]. rewrite E1.
  apply IH; [exact E2|intros m Hm; apply Hall; now right].
Qed.

Lemma outer_rsG_agree fuel : forall iter st kk ii, rows_of V st = shp ->
  outer_rsG re1 fuel iter st kk ii = outer_rsG re2 fuel iter st kk ii.
Proof.
  induction fuel as [|f IH]; intros iter st kk ii Hr; cbn [outer_rsG]; [reflexivity|].
  destruct (sweep_rsG_agree iter st Hr) as [E1 E2]. rewrite E1.
  destruct (sweep_rsG re2 iter st) as [st' cnt]. cbn [fst] in E2.
  destruct (stop_now _ _ _ _ _ _ _); [reflexivity|now apply IH].
Qed.
End Agree.

Lemma rows_init_rs (K : ktensor V) : rows_of V (init_rs v0 vadd vmul vscale vabs isz tiny K) = kshape K.
Proof.
  unfold init_rs, normalize_all.
  set (s0 := mkSt _ _ _ _ _).
  assert (H0 : rows_of V s0 = kshape K).
  { unfold s0, rows_of, kshape, nrows. cbn [sA]. rewrite map_map. apply map_ext. intros A. unfold patch_zero_rows. now rewrite map_length. }
  generalize (seq 0 (length (sA s0))). clearbody s0. revert s0 H0.
  intros s0 H0 l. revert s0 H0. induction l as [|n l IH]; intros s H; cbn [fold_left]; [exact H|].
  apply IH. now rewrite rows_normalize.
Qed.

(* ------------------------------------------------------------------------------------------------ the sparse test *)
(* no stored nonzero of S has subscript jj in mode n *)
Definition row_empty_sp (S : sparse V) (n jj : nat) : bool :=
  forallb (fun i => negb (Nat.eqb (nth n i 0) jj)) (ssubs S).

Theorem row_empty_repr (S : sparse V) (X : dense V) (n jj : nat) :
  wf_sp isz S -> isz v0 = true -> dshape X = sshape S -> (forall i, den_dense v0 X i = den_sp v0 S i) ->
  n < length (sshape S) -> jj < nth n (sshape S) 0 ->
  row_empty v0 isz X n jj = row_empty_sp S n jj.
Proof.
  intros W Hz Hs Hden Hn Hjj. destruct W as (HL & HND & HB & HV). unfold row_empty, row_empty_sp. rewrite Hs.
  destruct (forallb (fun i => negb (Nat.eqb (nth n i 0) jj)) (ssubs S)) eqn:E.
  - apply forallb_forall. intros i Hi. rewrite Hden. rewrite den_sp_notin; [exact Hz|].
    intros Hin. rewrite forallb_forall in E. specialize (E _ Hin).
    apply in_allsubs, inb_length in Hi. rewrite remove_nth_length in Hi by exact Hn.
    rewrite nth_insert_at in E by lia. now rewrite Nat.eqb_refl in E.
  - apply Bool.not_true_is_false. intros Hall. rewrite forallb_forall in Hall.
    assert (Hex : exists i, In i (ssubs S) /\ nth n i 0 = jj).
    { clear -E. induction (ssubs S) as [|i l IH]; cbn in E; [discriminate|].
      destruct (Nat.eqb_spec (nth n i 0) jj) as [E1|E1]; [exists i; split; [now left|exact E1]|].
      cbn in E. destruct (IH E) as (i' & Hi' & E'). exists i'. split; [now right|exact E']. }
    destruct Hex as (i & Hi & Ei).
    assert (Hinb : inb (sshape S) i = true) by (rewrite Forall_forall in HB; now apply HB).
    pose proof (inb_length _ _ Hinb) as Hli.
    destruct (In_nth _ _ [] Hi) as (k & Hk & Ek).
    assert (Hent : In (i, nth k (svals S) v0) (entries S)).
    { unfold entries. rewrite <- Ek. pose proof (combine_nth (ssubs S) (svals S) k [] v0 HL) as Hc.
      assert (Hlt : k < length (combine (ssubs S) (svals S))) by (rewrite combine_length, <- HL, Nat.min_id; exact Hk).
      pose proof (nth_In (combine (ssubs S) (svals S)) ([], v0) Hlt) as Hin2.
      exact (eq_ind _ (fun x => In x (combine (ssubs S) (svals S))) Hin2 _ Hc). }
    assert (Hval : den_sp v0 S i = nth k (svals S) v0) by (apply (den_sp_in v0 isz); [repeat split; assumption|exact Hent]).
    assert (Hnz : isz (nth k (svals S) v0) = false) by (rewrite Forall_forall in HV; apply HV, nth_In; rewrite <- HL; exact Hk).
    specialize (Hall (remove_nth n i)).
    rewrite Hden in Hall. rewrite <- Ei in Hall. rewrite insert_remove in Hall by lia.
    rewrite Hval, Hnz in Hall. discriminate Hall.
    apply in_allsubs. apply inb_remove; [lia|exact Hinb].
Qed.

(* tt_cp_apr_pdnr / tt_cp_apr_pqnr on an sptensor: the loop with the sparse emptiness test *)
Definition cp_apr_rows_sp (S : sparse V) (K : ktensor V) (maxiters : nat) : state * list V * list nat :=
  cp_apr_rowsG (row_empty_sp S) K maxiters.

Theorem cp_apr_rows_repr (S : sparse V) (X : dense V) (K : ktensor V) (maxiters : nat) :
  wf_sp isz S -> isz v0 = true -> dshape X = sshape S -> (forall i, den_dense v0 X i = den_sp v0 S i) -> kshape K = sshape S ->
  cp_apr_rows_sp S K maxiters =
  cp_apr_rows v0 v1 vadd vmul vscale vabs vmin vmax vgt0 vltb vleb isz vdiv100 stoptol tiny maxinner inexact prestep
              grad dir phi alpha fallback X K maxiters.
Proof.
  intros W Hz Hs Hden HK. rewrite <- rowsG_dense. unfold cp_apr_rows_sp, cp_apr_rowsG.
  rewrite (outer_rsG_agree (row_empty_sp S) (row_empty v0 isz X) (sshape S)); [reflexivity| |].
  - intros n jj Hn Hjj. symmetry. now apply row_empty_repr.
  - now rewrite rows_init_rs.
Qed.
End ReprRows.

(* the quantity the row subproblem's gradient is built from, 1 - Phi[jj, :] with row jj of factor n replaced by the current iterate m:
   the sparse branch (sums over the stored nonzeros of the row) and the dense branch agree in exact arithmetic *)
Section GradRow.
Variable V : Type.
Variables (v0 v1 : V) (vadd vmul vsub : V -> V -> V) (vopp : V -> V).
Hypothesis Vring : ring_theory v0 v1 vadd vmul vsub vopp (@eq V).
Variables (vdivmax : V -> V -> V) (isz : V -> bool).
Theorem phi_row_repr (S : sparse V) (X : dense V) (n jj : nat) (st : @state V) (m : list V) :
  wf_sp isz S -> dshape X = sshape S -> (forall i, den_dense v0 X i = den_sp v0 S i) -> (forall v, vdivmax v0 v = v0) ->
  n < length (sshape S) -> rows_of V st = sshape S ->
  let st' := set_fac st n (upd (fac st n) jj m) in
  calc_phi_sp_code v0 v1 vadd vmul vdivmax S n st' = calc_phi v0 v1 vadd vmul vdivmax X n st'.
Proof.
  intros W Hs Hden Hdiv Hn Hr st'. apply (phi_sp_dense V v0 v1 vadd vmul vsub vopp Vring vdivmax isz); auto.
  unfold st'. now rewrite rows_set_row.
Qed.
End GradRow.

(* ---------- non-vacuity: 2 x 3 x 2 counts whose mode-1 row 1 is empty; toy integer row oracles (gradient 3 - m, direction = -gradient,
   step 1, never the fallback); PQNR-style prestep; 2 outer iterations ---------- *)
From Coq Require Import ZArith.
Module C18ReprRowsExample.
Local Open Scope Z_scope.
Definition S_ex : sparse Z := mkSp [2; 3; 2]%nat [[1; 2; 0]; [0; 0; 1]; [1; 0; 0]]%nat [40; 24; 36].
Definition K_ex : ktensor Z := mkK [1; 1] [[[2; 1]; [1; 3]]; [[1; 2]; [3; 1]; [2; 2]]; [[1; 1]; [2; 1]]].
Definition zscale (t a : Z) : Z := if 0 <? t then a / t else a.
Definition g_ex (st : @state Z) (c : ctx) (h : list (list Z)) (m : list Z) : list Z := map (fun x => 3 - x) m.
Definition d_ex (st : @state Z) (c : ctx) (h : list (list Z)) (m : list Z) : list Z := map (fun x => x - 3) m.
Definition run_sp := cp_apr_rows_sp Z 0 1 Z.add Z.mul zscale Z.abs Z.min Z.max (fun x => 0 <? x) Z.ltb Z.leb (Z.eqb 0) (fun x => x / 100) 1 1 3%nat
                       false true g_ex d_ex (fun _ _ _ m => m) (fun _ _ _ _ => 1) (fun _ _ _ _ => false) S_ex K_ex 2%nat.
Definition run_de := cp_apr_rows 0 1 Z.add Z.mul zscale Z.abs Z.min Z.max (fun x => 0 <? x) Z.ltb Z.leb (Z.eqb 0) (fun x => x / 100) 1 1 3%nat
                       false true g_ex d_ex (fun _ _ _ m => m) (fun _ _ _ _ => 1) (fun _ _ _ _ => false) (full 0 S_ex) K_ex 2%nat.
Example repr_rows_example :
  run_sp = run_de /\ row_empty_sp Z S_ex 1 1 = true /\ row_empty 0 (Z.eqb 0) (full 0 S_ex) 1 1 = true /\
  row_empty_sp Z S_ex 1 0 = false /\ nth 1 (nth 1 (sA (fst (fst run_sp))) []) [] = [0; 0] /\
  sA (fst (fst run_sp)) <> kfactors K_ex.
Proof. vm_compute. repeat split; discriminate. Qed.
End C18ReprRowsExample.
