(* Proofs/C15KNorm.v — ktensor.symmetrize on a Kruskal tensor with IDENTICAL factors, end to end:
     symmetrize = body (Model/C15K.v) after normalize("all") (Model/C08Kruskal.v, the model of C08).
   normalize("all") of identical factors A (any weights) returns factors that are, column by column, one matrix up to the
   sign moved into factor 0 (the normalisation loop treats every mode alike; only k_fix_neg touches factor 0 alone), so
   the body keeps the value (Proofs/C15K.v), and normalize keeps it by C08's theorem: the symmetrised tensor denotes the
   same array as the input. *)
From Coq Require Import List Arith Lia Bool Permutation Ring.
From PV Require Import Base.Index Base.Perm Base.Sum Np.Array Model.Repr Model.C08Kruskal Model.C15Sym Model.C15K
  Proofs.C15Proofs Proofs.C15K Proofs.C08Proofs Proofs.C08NormalForm.
Import ListNotations.

Lemma nth_repeat_lt {A} (a d : A) N n : n < N -> nth n (repeat a N) d = a.
Proof. revert n; induction N as [|N IH]; intros [|n] H; cbn; try lia; auto. apply IH. lia. Qed.

Lemma map_repeat_c {A B} (f : A -> B) a N : map f (repeat a N) = repeat (f a) N.
Proof. induction N as [|N IH]; cbn; auto. now rewrite IH. Qed.

Section KN15.
Variable V : Type.
Variables (v0 v1 : V) (vadd vmul vsub : V -> V -> V) (vopp vinv : V -> V).
Hypothesis Vring : ring_theory v0 v1 vadd vmul vsub vopp (@eq V).
Add Ring VrKN15 : Vring.
Variables (nrm : list V -> V) (pos neg : V -> bool) (root : V -> V) (srt : list V -> list nat).
Notation "x * y" := (vmul x y).
Notation mat := (list (list V)).
Notation mg := (mget v0).
Notation nmode := (k_normalize_mode v0 v1 vmul vinv nrm pos).
Notation ncols := (k_normalize_cols v0 v1 vmul vinv nrm pos).
Notation nfold := (fold_left (fun K n => nmode n K)).
Notation normalize := (k_normalize v0 v1 vmul vopp vinv nrm pos neg root srt).
Notation scols := (scale_cols vmul).
Notation den := (den_k v0 v1 vadd vmul).
Notation core := (k15_core v0 v1 vadd vmul vopp vinv neg).

(* the loop over the modes rescales factor n by the inverse norms of ITS OWN columns *)
Lemma fold_factor l : forall K n, NoDup l -> In n l -> n < length (kfactors K) ->
  nth n (kfactors (nfold l K)) [] =
  scols (map (inv_pos v1 vinv pos) (col_norms v0 nrm (nth n (kfactors K) []) (krank K))) (nth n (kfactors K) []).
Proof.
  induction l as [|a l IH]; intros K n Hnd Hin Hn; [contradiction|]. cbn [fold_left].
  inversion Hnd as [|? ? Ha Hnd']; subst.
  destruct (Nat.eq_dec a n) as [->|Hne].
  - rewrite (fold_other V v0 v1 vmul vinv nrm pos) by exact Ha. now apply normalize_mode_factor.
  - destruct Hin as [->|Hin]; [congruence|]. rewrite IH; auto.
    + rewrite (normalize_mode_other V v0 v1 vmul vinv nrm pos n a K) by congruence.
      now rewrite krank_normalize_mode.
    + now rewrite nfactors_normalize_mode.
Qed.

Definition unit_cols (w : list V) (A : mat) : mat :=
  scols (map (inv_pos v1 vinv pos) (col_norms v0 nrm A (length w))) A.

Lemma ncols_identical w (A : mat) N : kfactors (ncols (mkK w (repeat A N))) = repeat (unit_cols w A) N.
Proof.
  pose proof (ncols_rank_len V v0 v1 vmul vinv nrm pos (mkK w (repeat A N))) as [_ HL]. cbn [kfactors] in HL.
  rewrite repeat_length in HL. unfold matrix in *.
  apply (nth_ext _ _ [] []); [rewrite repeat_length; exact HL|].
  intros n Hn. assert (Hn' : n < N) by (eapply Nat.lt_le_trans; [exact Hn|]; apply Nat.eq_le_incl; exact HL). clear Hn. rename Hn' into Hn. rewrite (nth_repeat_lt _ [] N n Hn). unfold k_normalize_cols. cbn [kfactors].
  rewrite repeat_length. rewrite fold_factor.
  - cbv [kfactors krank kweights]. unfold matrix. now rewrite (nth_repeat_lt A [] N n Hn).
  - apply seq_NoDup.
  - apply in_seq. lia.
  - cbn [kfactors]. now rewrite repeat_length.
Qed.

Lemma mget_scols cs (X : mat) x r : mg (scols cs X) x r = mg X x r * nth r cs v0.
Proof.
  unfold mget, scale_cols. change (@nil V) with (zipmul vmul (@nil V) cs) at 1.
  rewrite (map_nth (fun row => zipmul vmul row cs)). apply (nth_zipmul V v0 v1 vadd vmul vsub vopp Vring).
Qed.

(* normalize("all") of identical factors: factor 0 is the common matrix with some columns negated *)
Lemma normalize_all_identical w (A : mat) n :
  exists s d : list V, length s = length w /\
    (forall r, r < length w -> nth r s v0 = v1 \/ nth r s v0 = km1 v1 vopp) /\
    kfactors (normalize WAll false None (mkK w (repeat A (S n)))) =
      scols d (scols s (unit_cols w A)) :: repeat (scols d (unit_cols w A)) n.
Proof.
  cbn [k_normalize]. set (Kc := ncols (mkK w (repeat A (S n)))).
  assert (Hf : kfactors Kc = unit_cols w A :: repeat (unit_cols w A) n) by (unfold Kc; now rewrite ncols_identical).
  assert (Hr : length (kweights Kc) = length w).
  { pose proof (ncols_rank_len V v0 v1 vmul vinv nrm pos (mkK w (repeat A (S n)))) as [H _]. exact H. }
  set (s := map (sgn_neg v1 vopp neg) (kweights Kc)).
  exists s, (map root (zipmul vmul (kweights Kc) s)). split; [unfold s; now rewrite map_length|]. split.
  - intros r Hlt. unfold s. rewrite (nth_indep _ v0 (sgn_neg v1 vopp neg v0)) by (rewrite map_length; lia).
    rewrite map_nth. unfold sgn_neg, km1, vm1. destruct (neg _); auto.
  - unfold k_fix_neg. rewrite Hf. fold s. unfold k_absorb. cbn [kfactors kweights map]. now rewrite map_repeat_c.
Qed.

(* ---- oracles: C08's for normalize, C15K's for the sign test ---- *)
Hypothesis vinv_r : forall x, x <> v0 -> x * vinv x = v1.
Hypothesis pos_nz : forall x, pos x = true -> x <> v0.
Hypothesis nrm_pos : forall l, pos (nrm l) = false -> Forall (fun y => y = v0) l.
Hypothesis srt_perm : forall l, is_perm (srt l) (length l).
Hypothesis neg_opp : forall x, neg x = true -> neg (vopp x) = false.
Hypothesis neg_sq : forall (h : nat -> V) n, neg (sum_n v0 vadd n (fun x => h x * h x)) = false.
Hypothesis neg_opp_sq : forall (h : nat -> V) n, neg (vopp (sum_n v0 vadd n (fun x => h x * h x))) = false ->
  forall x, x < n -> h x = v0.
Hypothesis char0 : forall n, n <> 0 -> of_nat v0 v1 vadd n <> v0.
Hypothesis vinv_l : forall x, x <> v0 -> vinv x * x = v1.

(* "an already symmetric tensor keeps its value": symmetrize = body after normalize('all'), on identical factors A
   (any size, rank, weights of either sign, order N = S n >= 1 with an N-th root oracle on the non-negative values) *)
Theorem ksymmetrize_identical_keeps w (A : mat) n :
  (forall x, neg x = false -> vpow v1 vmul (root x) (S n) = x) ->
  forall i, den (core (normalize WAll false None (mkK w (repeat A (S n))))) i = den (mkK w (repeat A (S n))) i.
Proof.
  intros Hroot i. set (K := mkK w (repeat A (S n))). set (K1 := normalize WAll false None K).
  destruct (normalize_all_identical w A n) as (s & d & Hs & Hsg & Hf). fold K in Hf. fold K1 in Hf.
  set (U := unit_cols w A) in *. set (B := scols d U).
  assert (HR : krank K1 = length w).
  { destruct (normal_form_all_one V v0 v1 vmul vopp vinv nrm pos neg root srt srt_perm WAll false K I) as [H _]. exact H. }
  rewrite (k15_core_keeps V v0 v1 vadd vmul vsub vopp vinv neg Vring neg_sq neg_opp_sq char0 vinv_l B (nrows U) (length w) K1).
  - unfold K1. apply (den_normalize_any V v0 v1 vadd vmul vsub vopp vinv Vring nrm pos neg root srt vinv_r pos_nz nrm_pos srt_perm).
    + discriminate.
    + intros _ _. split; [discriminate|]. split.
      * unfold root_spec, K. cbv [kfactors]. rewrite repeat_length. exact Hroot.
      * exact neg_opp.
  - rewrite Hf. discriminate.
  - exact HR.
  - intros F HF. rewrite Hf in HF. destruct HF as [<-|HF].
    + split; [unfold nrows, scale_cols; now rewrite !map_length|].
      intros r Hr. exists (nth r s v0). split; [now apply Hsg|]. intros x _. unfold B. rewrite !mget_scols.
      assert (Hid : forall a b c : V, a * b * c = a * c * b) by (intros; ring). apply Hid.
    + apply repeat_spec in HF. subst F. split; [unfold B, nrows, scale_cols; now rewrite !map_length|].
      intros r Hr. exists v1. split; [now left|]. intros x _.
      assert (Hid : forall a : V, a = a * v1) by (intros; ring). apply Hid.
Qed.

End KN15.
