(* Props/C15.v — symmetrisation and the symmetry test. Only statements, short proofs by the lemmas, Print Assumptions. *)
From Coq Require Import List Arith Bool ZArith Permutation Ring.
From PV Require Import Base.Index Base.Perm Base.Sum Model.Repr Model.C15Sym Proofs.C15Proofs.
Import ListNotations.

Section C15.
Variable V : Type.
Variables (v0 v1 : V) (vadd vmul vsub : V -> V -> V) (vopp vinv : V -> V) (veqb : V -> V -> bool).
Hypothesis Vring : ring_theory v0 v1 vadd vmul vsub vopp (@eq V).
Hypothesis char0 : forall n, n <> 0 -> of_nat v0 v1 vadd n <> v0.          (* characteristic 0 *)
Hypothesis vinv_l : forall x, x <> v0 -> vmul (vinv x) x = v1.
Hypothesis veqb_spec : forall a b, veqb a b = true <-> a = b.

(* every summand of the average is a rearrangement of the group's subscripts, the subscripts themselves included *)
Theorem C15_sym_spec_terms : forall l y, In y (perms l) -> Permutation l y.
Proof. exact perms_sound. Qed.

(* invariance under the exchange of two adjacent group positions implies invariance under EVERY rearrangement *)
Theorem C15_adjacent_transpositions_suffice : forall (X : idx -> V) g i,
  (forall pre a b post, X (put g (pre ++ a :: b :: post) i) = X (put g (pre ++ b :: a :: post) i)) ->
  forall vals vals', Permutation vals vals' -> X (put g vals i) = X (put g vals' i).
Proof. exact (adjacent_suffices V). Qed.

(* symmetrising keeps the value of an already symmetric tensor (one group, and any list of groups) *)
Theorem C15_fixes_symmetric : forall G (X : idx -> V), (forall g, In g G -> sym_in V X g) ->
  forall i, spec_sym v0 v1 vadd vmul vinv X G i = X i.
Proof. intros; eapply spec_sym_fixes_symmetric; eauto. Qed.

(* the symmetry test (spec): true exactly when the groups are cubical and no adjacent exchange changes a value *)
Theorem C15_issym_spec : forall s (X : idx -> V) G,
  spec_issym veqb s X G = true <->
  (forall g, In g G -> group_cubical s g = true) /\
  (forall i, inb s i = true -> forall g, In g G -> forall j, j < length g - 1 ->
     X (put g (swap_adj j (pick 0 g i)) i) = X i).
Proof. intros; eapply spec_issym_correct; eauto. Qed.

(* a Kruskal tensor whose factor matrices are identical is symmetric in all modes *)
Theorem C15_kruskal_sym : forall w (A : list (list V)) N i i', Permutation i i' ->
  den_k v0 v1 vadd vmul (mkK w (repeat A N)) i = den_k v0 v1 vadd vmul (mkK w (repeat A N)) i'.
Proof. intros; eapply den_identical_factors_symmetric; eauto. Qed.

(* NOT proved (kept visible): the average itself is symmetric, hence symmetrising is idempotent *)
Definition C15_result_symmetric_stmt : Prop :=
  forall (X : idx -> V) g, NoDup g -> sym_in V (sym_group v0 v1 vadd vmul vinv X g) g.
End C15.

Print Assumptions C15_sym_spec_terms.
Print Assumptions C15_adjacent_transpositions_suffice.
Print Assumptions C15_fixes_symmetric.
Print Assumptions C15_issym_spec.
Print Assumptions C15_kruskal_sym.

(* non-vacuity: a non-symmetric 2x2 matrix, one group [0;1] over Z-valued functions is not available without division;
   the list machinery on a concrete instance *)
Example C15_example_perms : perms [1; 2; 3] = [[1; 2; 3]; [2; 1; 3]; [2; 3; 1]; [1; 3; 2]; [3; 1; 2]; [3; 2; 1]]
  /\ put [0; 2] [7; 9] [1; 2; 3] = [7; 2; 9] /\ swap_adj 1 [4; 5; 6] = [4; 6; 5].
Proof. repeat split; reflexivity. Qed.
