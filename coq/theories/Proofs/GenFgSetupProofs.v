(* Proofs/GenFgSetupProofs.v — the objective table of pyttb/gcp/fg_setup.py::setup as regenerated into
   Gen/GenFgSetup.v, composed with the T1 derivative theorems of Proofs/C12Handles.v (over Gen/GenHandles.v):
   for every objective, the (loss, gradient) pair that `setup` selects is a derivative pair on m >= lower_bound. *)
From Coq Require Import Reals Lra.
Set Warnings "-ambiguous-paths".
From Coquelicot Require Import Coquelicot.
From PV Require Import Np.NpR Gen.GenHandles Gen.GenFgSetup Proofs.C12Handles Proofs.C12NegBinRefuted.
Local Open Scope R_scope.

(* the model domain attached to an objective *)
Definition above (lb : lbound) (m : R) : Prop := match lb with NegInf => True | Finite b => b <= m end.

(* admissible extra parameter: Huber threshold > 0, Beta exponent b not in {0, 1} (the loss divides by b and b - 1) *)
Definition param_ok (o : Objectives) (p : option R) : Prop :=
  match o, p with
  | HUBER, Some t => 0 < t
  | BETA, Some b => b <> 0 /\ b <> 1
  | _, _ => True
  end.

(* the table itself (no data given): which pair and which lower bound each objective gets *)
Theorem setup_table :
  setup GAUSSIAN None None = Some (gaussian, gaussian_grad, NegInf) /\
  setup BERNOULLI_ODDS None None = Some (bernoulli_odds, bernoulli_odds_grad, Finite 0) /\
  setup BERNOULLI_LOGIT None None = Some (bernoulli_logit, bernoulli_logit_grad, NegInf) /\
  setup POISSON None None = Some (poisson, poisson_grad, Finite 0) /\
  setup POISSON_LOG None None = Some (poisson_log, poisson_log_grad, NegInf) /\
  setup RAYLEIGH None None = Some (rayleigh, rayleigh_grad, Finite 0) /\
  setup GAMMA None None = Some (gamma_, gamma_grad, Finite 0) /\
  (forall t, setup HUBER None (Some t) = Some ((fun x m => huber x m t), (fun x m => huber_grad x m t), NegInf)) /\
  (forall r, setup NEGATIVE_BINOMIAL None (Some r)
             = Some ((fun x m => negative_binomial x m r), (fun x m => negative_binomial_grad x m r), Finite 0)) /\
  (forall b, setup BETA None (Some b) = Some ((fun x m => beta_ x m b), (fun x m => beta_grad x m b), Finite 0)) /\
  setup HUBER None None = None /\ setup NEGATIVE_BINOMIAL None None = None /\ setup BETA None None = None.
Proof. repeat split; reflexivity. Qed.

(* data-domain requirement: which valid_* check guards which objective *)
Theorem setup_data_domain (d : datachk) (p : option R) :
  (valid_binary d = false -> setup BERNOULLI_ODDS (Some d) p = None /\ setup BERNOULLI_LOGIT (Some d) p = None) /\
  (valid_natural d = false -> setup POISSON (Some d) p = None /\ setup POISSON_LOG (Some d) p = None) /\
  (valid_nonneg d = false -> setup RAYLEIGH (Some d) p = None /\ setup GAMMA (Some d) p = None /\
                             setup NEGATIVE_BINOMIAL (Some d) p = None /\ setup BETA (Some d) p = None).
Proof. split; [|split]; intros Hv; repeat split; cbn; rewrite Hv; reflexivity. Qed.

(* T1 composed with the generated table: every objective except NEGATIVE_BINOMIAL (finding A-34) *)
Theorem setup_derivative_pair (o : Objectives) (data : option datachk) (p : option R) f g lb :
  setup o data p = Some (f, g, lb) -> o <> NEGATIVE_BINOMIAL -> param_ok o p ->
  forall x m, above lb m -> is_derive (fun m => f x m) m (g x m).
Proof.
  intros H Hnb Hp x m Hm.
  destruct o; cbn in H;
    try (destruct (match data with Some d_ => negb _ | None => false end); [discriminate|]);
    try (destruct p as [q|]; [|discriminate]);
    inversion H; subst; clear H; cbn in Hm, Hp.
  - apply gaussian_deriv.
  - now apply bernoulli_odds_deriv.
  - apply bernoulli_logit_deriv.
  - now apply poisson_deriv.
  - apply poisson_log_deriv.
  - now apply rayleigh_deriv.
  - now apply gamma_deriv.
  - now apply huber_deriv.
  - congruence.
  - destruct Hp. now apply beta_deriv.
Qed.

(* NEGATIVE_BINOMIAL: the pair selected by setup is a derivative pair at data value 1 only (A-34: the gradient in the
   source uses num_trials + 1 where the derivative has num_trials + data); the general statement is refuted in
   Proofs/C12NegBinRefuted.v *)
Theorem setup_negative_binomial_partial (data : option datachk) (p : option R) f g lb :
  setup NEGATIVE_BINOMIAL data p = Some (f, g, lb) ->
  forall m, above lb m -> is_derive (fun m => f 1 m) m (g 1 m).
Proof.
  intros H m Hm. cbn in H.
  destruct (match data with Some d_ => negb _ | None => false end); [discriminate|].
  destruct p as [q|]; [|discriminate]. inversion H; subst; clear H. cbn in Hm.
  now apply negative_binomial_deriv_partial.
Qed.
