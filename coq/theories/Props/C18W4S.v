(* Props/C18W4S.v — C18, wave 4: SCALING for the transliterated hosvd DRIVER (Proofs/C18Print.v hv_run: concrete automatic rank rule, user
   ranks, IndexError path, sequential or not, any verbosity).  Only statements, `exact`, Print Assumptions; proofs and an example in
   Proofs/C18HosvdScale.v.  An absolute floor in the rank rule (seeded change C18-C) contradicts these statements. *)
From Coq Require Import List Arith Bool ZArith Reals.
From PV Require Import Base.Index Base.Sum Np.Array Np.NpR Model.Sparse Model.Repr Model.C10Tucker Proofs.C18Print Proofs.C18HosvdRel
                       Proofs.C18HosvdScale.
Import ListNotations.

Section C18_hosvd_scale_sim.
Variables T T' M FS FS' : Type.
Variables (thresh : R -> R) (fleb : R -> R -> bool) (tol : R).
Variables (normsq : T -> R) (eigs : nat -> T -> list R) (lead : nat -> T -> nat -> M) (setf : FS -> nat -> M -> FS) (fs0 : FS)
          (shrink : T -> nat -> M -> T) (core_all : T -> FS -> T) (relnorm : T -> T -> FS -> R).
Variables (normsq' : T' -> R) (eigs' : nat -> T' -> list R) (lead' : nat -> T' -> nat -> M) (setf' : FS' -> nat -> M -> FS') (fs0' : FS')
          (shrink' : T' -> nat -> M -> T') (core_all' : T' -> FS' -> T') (relnorm' : T' -> T' -> FS' -> R).
Variables (ranks : nat -> nat) (sequential : bool).
Variable k : R.
Hypothesis kpos : (0 < k)%R.
Variables (RT : T -> T' -> Prop) (RF : FS -> FS' -> Prop).
Hypothesis H_norm : forall X X', RT X X' -> normsq' X' = (k * normsq X)%R.
Hypothesis H_thresh : forall nx, thresh (k * nx)%R = (k * thresh nx)%R.
Hypothesis H_eigs : forall n Y Y', RT Y Y' -> eigs' n Y' = map (Rmult k) (eigs n Y).
Hypothesis H_lead : forall n Y Y' r, RT Y Y' -> lead' n Y' r = lead n Y r.
Hypothesis H_setf : forall n fs fs' U, RF fs fs' -> RF (setf fs n U) (setf' fs' n U).
Hypothesis H_shrink : forall n Y Y' U, RT Y Y' -> RT (shrink Y n U) (shrink' Y' n U).
Hypothesis H_core : forall Y Y' fs fs', RT Y Y' -> RF fs fs' -> RT (core_all Y fs) (core_all' Y' fs').

(* a presentation that multiplies the squared norm and every eigenvalue list by k > 0 (X' = c X, k = c^2), with a homogeneous threshold
   map and unchanged leading eigenvectors: the driver chooses the same number of columns in every mode, raises the rank rule's
   IndexError under both presentations or under none, and returns related results - for ANY two verbosities *)
Theorem C18_hosvd_driver_scale : forall (v v' : Z) (dimorder : list nat) (X : T) (X' : T'), RT X X' -> RF fs0 fs0' ->
  rel_res T T' FS FS' RT RF
    (fst (hv_run T M FS R 0%R Rplus Rltb normsq thresh eigs lead setf fs0 shrink core_all relnorm fleb tol ranks sequential v dimorder X))
    (fst (hv_run T' M FS' R 0%R Rplus Rltb normsq' thresh eigs' lead' setf' fs0' shrink' core_all' relnorm' fleb tol ranks sequential v'
                 dimorder X')).
Proof. exact (hv_run_scale T T' M FS FS' thresh fleb tol normsq eigs lead setf fs0 shrink core_all relnorm
                           normsq' eigs' lead' setf' fs0' shrink' core_all' relnorm' ranks sequential k kpos RT RF
                           H_norm H_thresh H_eigs H_lead H_setf H_shrink H_core). Qed.
End C18_hosvd_scale_sim.
Print Assumptions C18_hosvd_driver_scale.

Section C18_hosvd_scale_dense.
Local Notation rmatrix := (list (list R)).
Variables (E : nat -> rmatrix -> list R) (L : nat -> rmatrix -> nat -> rmatrix).
Variables (thresh : R -> R) (fleb : R -> R -> bool) (tol : R) (relnorm relnorm' : dense R -> dense R -> list rmatrix -> R).
Variables (ranks : nat -> nat) (sequential : bool) (c : R).
Hypothesis cpos : (0 < c)%R.
Hypothesis E_hom : forall n G, E n (mscale (c * c) G) = map (Rmult (c * c)) (E n G).
Hypothesis L_hom : forall n G r, L n (mscale (c * c) G) r = L n G r.
Hypothesis thresh_hom : forall nx, thresh (c * c * nx)%R = (c * c * thresh nx)%R.
Local Notation RUN := (hv_run (dense R) rmatrix (list rmatrix) R 0%R Rplus Rltb (normsq_c R 0%R Rplus Rmult) thresh
   (fun k Y => E k (gram_of R 0%R Rplus Rmult Y k)) (fun k Y r => L k (gram_of R 0%R Rplus Rmult Y k) r) (fun fs k U => upd fs k U)).

(* hosvd on dense real arrays, X vs c X (c > 0): concrete Gram matrices of the running tensor, shrink = Y.ttm(U^T, k), non-sequential
   core, ||X||^2 = sum of squares; eigen solver = oracle with the homogeneity contract (eigenvalues of k G are k times those of G, same
   leading eigenvectors).  For ANY two verbosities: IndexError under both or none; the SAME factor matrices (same chosen ranks in every
   mode) and the core scaled by c *)
Theorem C18_scale_hosvd_driver_dense : forall (v v' : Z) (dimorder : list nat) (X : dense R) (fs0 : list rmatrix),
  rel_res (dense R) (dense R) (list rmatrix) (list rmatrix) (fun Y Y' => Y' = dscale c Y) eq
    (fst (RUN fs0 (shrink_c R 0%R Rplus Rmult) (core_all_c R 0%R Rplus Rmult) relnorm fleb tol ranks sequential v dimorder X))
    (fst (RUN fs0 (shrink_c R 0%R Rplus Rmult) (core_all_c R 0%R Rplus Rmult) relnorm' fleb tol ranks sequential v' dimorder (dscale c X))).
Proof. exact (hosvd_driver_scale_dense E L thresh fleb tol relnorm relnorm' ranks sequential c cpos E_hom L_hom thresh_hom). Qed.
End C18_hosvd_scale_dense.
Print Assumptions C18_scale_hosvd_driver_dense.

From PV Require Import Proofs.C18Tucker Proofs.C18TuckerLoop Proofs.C18TuckerScale.
Section C18_tucker_scale_dense.
Variables (s rk : list nat) (eig : nat -> list (list R) -> list (list R)) (dimorder : list nat) (X : dense R) (stoptol c : R).
Hypothesis HX : dshape X = s.
Hypothesis cpos : (0 < c)%R.
Hypothesis Xnz : (0 < dinnerR X X)%R.
Hypothesis eig_hom : forall n G, eig n (mscale (c * c) G) = eig n G.

(* tucker_als on dense real arrays, X vs c X (c > 0, X <> 0), the WHOLE main loop (concrete mode update: products with U_m^T in increasing
   mode order, Gram matrix of Utilde, eigen step = oracle with eig n (k G) = eig n G; fit from sums of squares; stopping test; iteration
   count): the same factor matrices, the same fit, the same number of iterations, the core multiplied by c - C18_tucker_als_loop_scale with
   its contracts upd_scale / A_lin / innerF_smul discharged *)
Theorem C18_scale_tucker_als_loop_dense : forall (maxiters : nat) (U : list (list (list R))) (fit0 : R),
  let r := als_loop (dense R) dinnerR (list (list (list R))) (dense R) (coreR s rk) dinnerR (updR s rk eig) stoptol dimorder maxiters U fit0 X in
  let r' := als_loop (dense R) dinnerR (list (list (list R))) (dense R) (coreR s rk) dinnerR (updR s rk eig) stoptol dimorder maxiters U fit0
                     (dscale c X) in
  fst (fst r') = fst (fst r) /\ snd (fst r') = snd (fst r) /\ snd r' = snd r /\
  coreR s rk (fst (fst r')) (dscale c X) = dscale c (coreR s rk (fst (fst r)) X).
Proof. exact (tucker_als_loop_scale_dense s rk eig dimorder X stoptol c HX cpos Xnz eig_hom). Qed.
End C18_tucker_scale_dense.
Print Assumptions C18_scale_tucker_als_loop_dense.
