(* Proofs/C18GenPrintHosvdFull.v — C18, verbosity clause for the WHOLE hosvd function as generated (Gen/GenHosvdFull.v, unit of w5-skel:
   argument checks on ranks / dimorder, defaults, threshold, the mode loop, final core, result; regenerated from /repo/pyttb/hosvd.py on
   every run, kernels arbitrary): the generated function takes `verbosity` as a parameter and never reads it - every statement under
   `if verbosity > ...` assigns print-only variables (diffnormsqr, relnorm, print_msg) or prints, and is dropped by the translator
   (trusted: their right-hand sides / arguments, pinned by tools/props/c18_static.py).  The returned ttensor - or the exception - is the
   same for any two verbosities. *)
From Coq Require Import String List Arith Bool.
From PV Require Import Model.W4SPrelude Gen.GenHosvdFull.
Import ListNotations.
Local Open Scope nat_scope.

Section HosvdFull.
Variables T_V T_X T_Tensor T_Mat T_TT : Type.
Variable c_leV : T_V -> T_V -> bool.
Variable c_zeroV : T_V.
Variable c_addV : T_V -> T_V -> T_V.
Variable c_emptyMat : T_Mat.
Variable k_ndims : T_X -> nat.
Variable k_not_permutation : nat -> list nat -> bool.
Variable k_normsqr : T_X -> T_V.
Variable k_thresh : T_V -> T_V -> nat -> T_V.
Variable k_as_tensor : T_X -> T_Tensor.
Variable k_unfold : T_Tensor -> nat -> T_Mat.
Variable k_gram : T_Mat -> T_Mat.
Variable k_eigh : T_Mat -> list T_V * T_Mat.
Variable k_argsort_desc : list T_V -> list nat.
Variable k_take : list T_V -> list nat -> list T_V.
Variable k_select_cols : T_Mat -> list nat -> T_Mat.
Variable k_shrink : T_Tensor -> list T_Mat -> nat -> T_Tensor.
Variable k_ttm_all_t : T_Tensor -> list T_Mat -> T_Tensor.
Variable k_ttensor : T_Tensor -> list T_Mat -> T_TT.

Notation gfull := (GenHosvdFull.hosvd_full T_V T_X T_Tensor T_Mat T_TT c_leV c_zeroV c_addV c_emptyMat k_ndims k_not_permutation k_normsqr
  k_thresh k_as_tensor k_unfold k_gram k_eigh k_argsort_desc k_take k_select_cols k_shrink k_ttm_all_t k_ttensor).

Theorem gen_hosvd_full_print_indep : forall X tol (v1 v2 : T_V) dimorder sequential ranks,
  gfull X tol v1 dimorder sequential ranks = gfull X tol v2 dimorder sequential ranks.
Proof. intros. reflexivity. Qed.
End HosvdFull.
