(* Props/C20.v — generators and aggregating constructors build what they advertise.
   Only statements, `exact`, Print Assumptions, and concrete Examples (non-vacuity). *)
From Coq Require Import List Arith ZArith Bool QArith Qcanon Sorting.Sorted Permutation.
From PV Require Import Base.Index Base.Sum Base.Perm Np.Array Model.Sparse Model.Repr Model.Harness Model.C20Gen Model.C20Harness Proofs.C20Proofs Proofs.C20Teneye Proofs.C20TeneyeGen Proofs.C20Guards Proofs.C20W3 Proofs.C20TeneyeEntry Proofs.C20Sat Proofs.C20TeneyeAll Proofs.C20Float.
Import ListNotations.
Local Open Scope nat_scope.

Section C20_dense.
Context {V : Type} (v0 v1 : V).

(* tenones / tenzeros: shape exact, every entry 1 / 0 — all shapes, all orders *)
Theorem C20_ones : forall s : shape,
  exists T, tenones v0 v1 s = Some T /\ dshape T = s /\ wf_dense T /\
            ddata T = repeat v1 (size s) /\ (forall i, inb s i = true -> den_dense v0 T i = v1).
Proof. exact (tenones_ok v0 v1). Qed.

Theorem C20_zeros : forall s : shape,
  exists T, tenzeros v0 s = Some T /\ dshape T = s /\ wf_dense T /\
            ddata T = repeat v0 (size s) /\ (forall i, den_dense v0 T i = v0).
Proof. exact (tenzeros_ok v0). Qed.

(* tensor.from_function: whatever array the function returns (any shape with the right number of elements, a 1-d
   vector included), the tensor has exactly the requested shape and its data is the output listed first-index-fastest *)
Theorem C20_from_function : forall (s : shape) (out : dense V),
  wf_dense out -> size (dshape out) = size s ->
  exists T, from_function v0 s out = Some T /\ dshape T = s /\ wf_dense T /\ ddata T = ddata out /\
            (forall i, inb s i = true -> den_dense v0 T i = nth (sub2ind s i) (ddata out) v0).
Proof. exact (from_function_ok v0). Qed.

Theorem C20_from_function_same_shape : forall out : dense V, wf_dense out ->
  from_function v0 (dshape out) out = Some out.
Proof. exact (from_function_same_shape v0). Qed.

Theorem C20_from_function_reject : forall (s : shape) (out : dense V),
  length (ddata out) <> size s -> from_function v0 s out = None.
Proof. exact (from_function_reject v0). Qed.
End C20_dense.

Print Assumptions C20_ones.
Print Assumptions C20_zeros.
Print Assumptions C20_from_function.
Print Assumptions C20_from_function_same_shape.
Print Assumptions C20_from_function_reject.


(* ---------------------------------------------------------------- Kruskal tensor from a function *)
Section C20_kruskal.
Context {V : Type} (v0 v1 : V) (vadd vmul : V -> V -> V).
Hypothesis vmul_1_l : forall x, vmul v1 x = x.

(* ktensor.from_function: weights all one, factor n = the n-th output (I_n x R), hence the tensor it denotes is
   sum_r prod_n out_n[i_n, r] — all shapes, all ranks *)
Theorem C20_kfrom_function : forall (s : shape) (R : nat) (outs : list (list (list V))),
  Forall2 (fun d A => length A = d /\ Forall (fun row => length row = R) A) s outs ->
  let K := kfrom_function v1 R outs in
  kshape K = s /\ kweights K = repeat v1 R /\ kfactors K = outs /\ krank K = R /\ wf_k K /\
  (forall i, inb s i = true ->
     den_k v0 v1 vadd vmul K i = sum_n v0 vadd R (fun r => kprod v0 v1 vmul outs i r)).
Proof. exact (kfrom_function_ok v0 v1 vadd vmul vmul_1_l). Qed.
End C20_kruskal.
Print Assumptions C20_kfrom_function.

(* ---------------------------------------------------------------- diagonal tensors *)
Section C20_diag.
Context {V : Type} (v0 : V) (vadd : V -> V -> V) (isz : V -> bool).
Hypothesis isz_spec : forall v, isz v = true <-> v = v0.
Hypothesis vadd_0_r : forall x, vadd x v0 = x.

(* tendiag: shape = (N,)*N or max(N, dim) per requested mode; e_k at (k,...,k); zero elsewhere —
   for element vectors longer or shorter than the requested shape *)
Theorem C20_tendiag : forall (e : list V) (so : option shape),
  let N := length e in let cs := diag_shape N so in let M := length cs in
  1 <= M ->
  dshape (tendiag v0 e so) = cs /\ wf_dense (tendiag v0 e so) /\
  (forall k, k < N -> den_dense v0 (tendiag v0 e so) (repeat k M) = nth k e v0) /\
  (forall i, (forall k, k < N -> i <> repeat k M) -> den_dense v0 (tendiag v0 e so) i = v0).
Proof. exact (tendiag_ok v0). Qed.

(* sptendiag: the same array as a well-formed sparse tensor; zero elements get no entry *)
Theorem C20_sptendiag : forall (e : list V) (so : option shape),
  let N := length e in let cs := diag_shape N so in let M := length cs in
  1 <= M ->
  sshape (sptendiag v0 vadd isz e so) = cs /\ wf_sp isz (sptendiag v0 vadd isz e so) /\
  (forall k, k < N -> den_sp v0 (sptendiag v0 vadd isz e so) (repeat k M) = nth k e v0) /\
  (forall i, (forall k, k < N -> i <> repeat k M) -> den_sp v0 (sptendiag v0 vadd isz e so) i = v0) /\
  (forall k, k < N -> (In (repeat k M) (ssubs (sptendiag v0 vadd isz e so)) <-> isz (nth k e v0) = false)).
Proof. exact (sptendiag_ok v0 vadd isz isz_spec vadd_0_r). Qed.

(* ---------------------------------------------------------------- aggregating constructor *)
(* for EVERY subscript list (any multiplicities, any order), every value list and every reducer f:
   the result denotes  i |-> f(values whose subscript is i, in input order)  on the subscripts present, zero elsewhere;
   a subscript is stored iff it is present and its reduced value is non-zero; the result is well-formed *)
Theorem C20_aggregator : forall (s : shape) (subs : list idx) (vals : list V) (f : list V -> V),
  (forall i, den_sp v0 (from_aggregator isz s subs vals f) i =
             if existsb (idx_eqb i) subs then f (vals_at i subs vals) else v0) /\
  (forall i, In i (ssubs (from_aggregator isz s subs vals f)) <->
             In i subs /\ isz (f (vals_at i subs vals)) = false) /\
  sshape (from_aggregator isz s subs vals f) = s /\
  (Forall (fun i => inb s i = true) subs -> wf_sp isz (from_aggregator isz s subs vals f)).
Proof.
  exact (fun s subs vals f => conj (agg_den v0 isz isz_spec s subs vals f)
          (conj (agg_entry_iff isz s subs vals f) (conj eq_refl (agg_wf isz s subs vals f)))).
Qed.
End C20_diag.
Print Assumptions C20_tendiag.
Print Assumptions C20_sptendiag.
Print Assumptions C20_aggregator.

(* ---------------------------------------------------------------- random sparse generators, draws as inputs *)
Section C20_sprand.
Context {V : Type} (isz : V -> bool).

(* whatever the draw matrices (entries m with u = m/2^53 in [0,1)): well-formed, requested shape, values = the
   supplied function's output, at most the requested number of nonzeros *)
Theorem C20_sprand_post : forall (nz : nat) (s : shape) (draws : list (list (list Z))) (vals : list V),
  Forall (fun d => 0 < d) s -> Forall (valid_draw s) draws ->
  length vals = length (sprand_subs nz s draws) -> Forall (fun v => isz v = false) vals ->
  wf_sp isz (sprand nz s draws vals) /\ sshape (sprand nz s draws vals) = s /\
  svals (sprand nz s draws vals) = vals /\ nnz (sprand nz s draws vals) <= nz.
Proof. exact (sprand_wf isz). Qed.
End C20_sprand.

(* the requested count, for the code as repaired (finding A-46, /repo bc5da93: union of all consumed draws as a fallback):
   nnz = min(request, number of DISTINCT rows over ALL consumed draws); hence nnz = request EXACTLY WHEN the consumed
   draws together hold that many distinct rows - in particular whenever the request is zero or one single draw of the
   (at most ten) has pairwise distinct scaled rows *)
Theorem C20_sprand_count : forall (nz : nat) (s : shape) (draws : list (list (list Z))),
  let pool := pool_rows s (firstn (sprand_consumed nz s draws) draws) in
  length (sprand_subs nz s draws) = Nat.min nz (length (dedup pool)) /\
  (length (sprand_subs nz s draws) = nz <-> nz <= length (dedup pool)) /\
  (Forall (fun d => length d = nz) draws -> 10 <= length draws ->
   nz = 0 \/ Exists (distinct_rows s) (firstn 10 draws) -> length (sprand_subs nz s draws) = nz).
Proof. exact sprand_count. Qed.

(* seeded reproducibility: the stored subscripts and the number of draws consumed are FUNCTIONS of the captured
   stream (sprand_subs, sprand_consumed); when the first draw is already distinct, exactly one draw is used and the
   stored subscripts are its rows in ascending order *)
Theorem C20_seeded_first_draw : forall (nz : nat) (s : shape) (d : list (list Z)) (ds : list (list (list Z))),
  0 < nz -> length d = nz -> distinct_rows s d ->
  sprand_subs nz s (d :: ds) = cand s d /\ sprand_consumed nz s (d :: ds) = 1.
Proof. exact sprand_first_draw. Qed.

Print Assumptions C20_sprand_post.
Print Assumptions C20_sprand_count.
Print Assumptions C20_seeded_first_draw.

(* ---------------------------------------------------------------- value ranges: the draw is an input *)
(* tenrand / tensor.from_function: every stored value and every entry of the tensor is a value the function returned
   (tenrand: the uniform draws), so whatever predicate holds of the draws — 0 <= u < 1 — holds of the tensor *)
Theorem C20_from_function_values : forall (V : Type) (v0 : V) (P : V -> Prop) (s : shape) (out T : dense V),
  wf_dense out -> from_function v0 s out = Some T -> Forall P (ddata out) ->
  Forall P (ddata T) /\ (forall i, inb s i = true -> P (den_dense v0 T i)).
Proof. exact (@from_function_values). Qed.

(* sptenrand / sptensor.from_function: the stored values are the supplied function's output verbatim; the entry at the
   k-th stored subscript is the k-th value; every entry satisfies any predicate that holds of zero and of the output *)
Theorem C20_sprand_values : forall (V : Type) (v0 : V) (nz : nat) (s : shape) (draws : list (list (list Z))) (vals : list V),
  length vals = length (sprand_subs nz s draws) ->
  svals (sprand nz s draws vals) = vals /\
  (forall k, k < length vals ->
     den_sp v0 (sprand nz s draws vals) (nth k (sprand_subs nz s draws) []) = nth k vals v0) /\
  (forall P : V -> Prop, P v0 -> Forall P vals -> forall i, P (den_sp v0 (sprand nz s draws vals) i)).
Proof. exact (@sprand_values). Qed.
Print Assumptions C20_from_function_values.
Print Assumptions C20_sprand_values.

(* ---------------------------------------------------------------- ill-formed requests *)
(* tenones / tenzeros (tenrand and tensor.from_function share the path): rejected EXACTLY WHEN the shape is empty or
   holds a negative size; otherwise the generator's result for the shape *)
Theorem C20_dense_generator_guard : forall s : list Z,
  (ztenones_chk s = None <-> s = [] \/ Exists (fun d => (d < 0)%Z) s) /\
  (dense_gen_guard s = true -> exists T, ztenones_chk s = Some T /\ dshape T = to_shape s /\
      ddata T = repeat 1%Z (size (to_shape s))) /\
  (ztenzeros_chk s = None <-> s = [] \/ Exists (fun d => (d < 0)%Z) s) /\
  (dense_gen_guard s = true -> exists T, ztenzeros_chk s = Some T /\ dshape T = to_shape s /\
      ddata T = repeat 0%Z (size (to_shape s))).
Proof. exact tenones_chk_spec. Qed.

(* teneye(ndims, size): accepted EXACTLY WHEN the order is positive and even and the size is not negative *)
Theorem C20_teneye_guard : forall m n : Z, teneye_guard m n = true <-> ((0 < m)%Z /\ Z.even m = true /\ (0 <= n)%Z).
Proof. exact teneye_guard_spec. Qed.

(* tendiag / sptendiag never reject a shape for its sizes: pyttb's max(N, dim) on integers raises negative and zero
   sizes to N — the same shape as the rule gives for the sizes clamped at zero *)
Theorem C20_diag_negative_sizes : forall (e : list Z) (s : list Z),
  dshape (ztendiag_z e (Some s)) = pyttb_diag_shape (length e) s /\
  sshape (zsptendiag_z e (Some s)) = pyttb_diag_shape (length e) s /\
  Forall (fun d => length e <= d) (pyttb_diag_shape (length e) s).
Proof. exact diag_z_shape. Qed.
(* sptendiag with a shape: rejected (by the sptensor constructor: sizes must be positive) EXACTLY WHEN there is no
   element and the requested shape holds a non-positive size *)
Theorem C20_sptendiag_guard : forall (e s : list Z),
  zsptendiag_chk e s = None <-> (e = [] /\ Exists (fun d => (d <= 0)%Z) s).
Proof. exact sptendiag_chk_spec. Qed.
Print Assumptions C20_sptendiag_guard.
Print Assumptions C20_dense_generator_guard.
Print Assumptions C20_teneye_guard.
Print Assumptions C20_diag_negative_sizes.

(* ---------------------------------------------------------------- stored order *)
(* the stored subscripts of from_aggregator's result and of the random sparse generators ascend STRICTLY in
   lexicographic order (first mode most significant) — whatever the input order / the draws: the stored order is a
   function of the set of subscripts, which is what makes seeded runs reproduce the same raw object *)
Theorem C20_stored_order :
  (forall (V : Type) (isz : V -> bool) s subs (vals : list V) f,
     StronglySorted idx_lt (ssubs (from_aggregator isz s subs vals f))) /\
  (forall nz s draws, StronglySorted idx_lt (sprand_subs nz s draws)).
Proof. exact (conj (@agg_sorted) sprand_sorted). Qed.
Print Assumptions C20_stored_order.

(* ---------------------------------------------------------------- what the code does not guarantee *)
(* "the requested number of distinct nonzeros" for EVERY admissible stream of draws stays FALSE for the repaired code too:
   ten draws that all hit one and the same cell end short (no bounded number of draws with replacement can guarantee the
   request). What IS guaranteed now is C20_sprand_count: nnz = min(request, distinct rows over all consumed draws). *)
Theorem C20_requested_count_refuted : ~ requested_count_stmt.
Proof. exact requested_count_refuted. Qed.

(* sptenrand(density = p/q) after the repair of C20-N1: the count handed to the generator IS floor(prod(shape) * density)
   for every density in (0,1) and every non-empty shape (a count of zero included: the empty tensor, repair C20-N2);
   such a request is never the saturated one *)
Theorem C20_density_count : forall (total : nat) (p : Z) (q : positive),
  0 < total -> (0 < p < Zpos q)%Z ->
  sptenrand_count_impl total p q = Some (false, sptenrand_count_spec total p q).
Proof. exact density_count. Qed.

(* the guard of sptenrand: a density outside (0,1] is rejected; density = 1 passes the guard, the property admits it
   (all prod(shape) entries) and - after the repair of C20-N3, /repo 2b4b024 - so does from_function: the SATURATED request *)
Theorem C20_density_guard : forall (total : nat) (p : Z) (q : positive),
  ((p <= 0)%Z \/ (Zpos q < p)%Z -> sptenrand_count_impl total p q = None /\ sptenrand_request_spec total p q = None) /\
  (p = Zpos q -> 0 < total ->
   sptenrand_count_impl total p q = Some (true, total) /\ sptenrand_request_spec total p q = Some total).
Proof. exact density_guard. Qed.

(* sptensor.from_function's reading of a request p/q as an exact rational (t = prod(shape)), after /repo 2b4b024:
   rejected iff p/q < 0 or p/q > t or t = 0;  p/q = t: SATURATED, count t;
   0 <= p/q < 1 is a density -> ceil(t * p/q) in [0, t], positive iff p > 0;  1 <= p/q < t is a count -> floor(p/q) in [1, t) *)
Theorem C20_norm_request : forall (total : nat) (p : Z) (q : positive),
  let t := Z.of_nat total in
  (norm_request total p q = None <-> (p < 0)%Z \/ (t * Zpos q < p)%Z \/ total = 0) /\
  (0 < total -> p = (t * Zpos q)%Z -> norm_request total p q = Some (true, total)) /\
  ((0 <= p < Zpos q)%Z -> (p < t * Zpos q)%Z ->
     exists c, norm_request total p q = Some (false, c) /\ Z.of_nat c = zceil (t * p) q /\
               (Zpos q * (Z.of_nat c - 1) < t * p <= Zpos q * Z.of_nat c)%Z /\ c <= total /\ (0 < c <-> (0 < p)%Z)) /\
  ((Zpos q <= p < t * Zpos q)%Z ->
     exists c, norm_request total p q = Some (false, c) /\ Z.of_nat c = (p / Zpos q)%Z /\
               (Zpos q * Z.of_nat c <= p < Zpos q * (Z.of_nat c + 1))%Z /\ 1 <= c < total).
Proof. exact norm_request_cases. Qed.

(* the saturated branch is taken exactly when the request equals the (positive) tensor size; its count is the size *)
Theorem C20_norm_request_saturated : forall (total : nat) (p : Z) (q : positive) (c : nat),
  norm_request total p q = Some (true, c) <-> (p = (Z.of_nat total * Zpos q)%Z /\ 0 < total /\ c = total).
Proof. exact norm_request_saturated. Qed.

(* UNCONDITIONAL since the repair of C20-N3: the code reads EVERY request as the property does - rejected alike, same
   count otherwise (the request equal to the tensor size included; the exception of the defect is gone) *)
Theorem C20_norm_request_vs_spec : forall (total : nat) (p : Z) (q : positive),
  option_map snd (norm_request total p q) = norm_request_spec total p q.
Proof. exact norm_request_eq_spec. Qed.

(* ... and sptenrand reads EVERY density as the property does: floor(prod(shape) * density) for 0 < density <= 1 *)
Theorem C20_density_vs_spec : forall (total : nat) (p : Z) (q : positive),
  option_map snd (sptenrand_count_impl total p q) = sptenrand_request_spec total p q.
Proof. exact density_eq_spec. Qed.

(* FLOAT CAVEAT: pyttb forms prod(shape)*nonzeros resp. prod(shape)*density in double arithmetic. The faithful models
   take the rounded product rn/rd as an input; whenever that product is exact they are the exact-rational models above *)
Theorem C20_request_float_product : forall (total : nat) (p : Z) (q : positive) (rn : Z) (rd : positive),
  (rn * Zpos q = Z.of_nat total * p * Zpos rd)%Z ->
  norm_request_fl total p q rn rd = norm_request total p q /\
  sptenrand_count_fl total p q rn rd = sptenrand_count_impl total p q.
Proof. exact (fun total p q rn rd H => conj (norm_request_fl_exact total p q rn rd H) (sptenrand_count_fl_exact total p q rn rd H)). Qed.

(* wave 4: the model ROUNDS THE PRODUCT ITSELF (C20Gen.round64: the binary64 number nearest to a rational, ties to even,
   normal range): norm_request_r64 / sptenrand_count_r64 take nothing but the request.  A representable value
   n/d = m * 2^e0 (0 < m < 2^53; written n * pow2n e0 = m * pow2p e0 * d with 2^e0 = pow2p e0 / pow2n e0) is its own rounding *)
Theorem C20_round64_exact : forall (n : Z) (d : positive) (m e0 : Z),
  (0 < n)%Z -> (0 < m < 2 ^ 53)%Z -> (n * pow2n e0 = m * pow2p e0 * Zpos d)%Z ->
  (fst (round64 n d) * Zpos d = n * Zpos (snd (round64 n d)))%Z.
Proof. exact round64_exact. Qed.

(* ... hence, whenever the exact product prod(shape) * p/q is a binary64 number (or the request is not positive), the
   faithful models with the rounded product ARE the exact-rational models of C20_norm_request / C20_density_count *)
Theorem C20_request_r64 : forall (total : nat) (p : Z) (q : positive),
  (Z.of_nat total * p <= 0)%Z \/
  (exists m e0, (0 < m < 2 ^ 53)%Z /\ (Z.of_nat total * p * pow2n e0 = m * pow2p e0 * Zpos q)%Z) ->
  norm_request_r64 total p q = norm_request total p q /\
  sptenrand_count_r64 total p q = sptenrand_count_impl total p q.
Proof. exact norm_request_r64_exact. Qed.

(* in particular for every dyadic request / density p / 2^(j+1) with prod(shape) * p < 2^53 (1/2, 1/4, 3/4, ...) *)
Theorem C20_request_r64_dyadic : forall (total : nat) (p : Z) (j : nat),
  (0 <= Z.of_nat total * p < 2 ^ 53)%Z ->
  norm_request_r64 total p (Pos.pow 2 (Pos.of_succ_nat j)) = norm_request total p (Pos.pow 2 (Pos.of_succ_nat j)) /\
  sptenrand_count_r64 total p (Pos.pow 2 (Pos.of_succ_nat j)) = sptenrand_count_impl total p (Pos.pow 2 (Pos.of_succ_nat j)).
Proof. exact norm_request_r64_dyadic. Qed.

(* the guards of from_aggregator: accepted exactly when the counts agree and every subscript fits the (given or
   inferred) shape *)
Theorem C20_aggregator_guard : forall (V : Type) (isz : V -> bool) so N subs (vals : list V) f,
  (length subs = length vals -> Forall (fun i => inb (agg_shape_of so N subs) i = true) subs ->
   from_aggregator_chk isz so N subs vals f = Some (from_aggregator isz (agg_shape_of so N subs) subs vals f)) /\
  (length subs <> length vals \/ Exists (fun i => inb (agg_shape_of so N subs) i = false) subs ->
   from_aggregator_chk isz so N subs vals f = None).
Proof. exact (fun V isz so N subs vals f => conj (agg_guard_accept isz so N subs vals f) (agg_guard_reject isz so N subs vals f)). Qed.

Print Assumptions C20_requested_count_refuted.
Print Assumptions C20_density_count.
Print Assumptions C20_density_guard.
Print Assumptions C20_norm_request.
Print Assumptions C20_norm_request_vs_spec.
Print Assumptions C20_norm_request_saturated.
Print Assumptions C20_density_vs_spec.
Print Assumptions C20_request_float_product.
Print Assumptions C20_round64_exact.
Print Assumptions C20_request_r64.
Print Assumptions C20_request_r64_dyadic.
Print Assumptions C20_aggregator_guard.

(* ---------------------------------------------------------------- teneye *)
(* order 2: the entry numerators are 2!*delta — the identity matrix *)
Theorem C20_teneye_order2 : forall a b : nat, teneye_count [a; b] = if Nat.eqb a b then 2 else 0.
Proof. exact teneye_count_2. Qed.
Print Assumptions C20_teneye_order2.

(* order 4: the entry numerators are 8 * (number of the three pairings {ab|cd}, {ac|bd}, {ad|bc} whose pairs are equal) *)
Theorem C20_teneye_order4 : forall a b c d : nat, teneye_count [a; b; c; d] =
  8 * ((if a =? b then 1 else 0) * (if c =? d then 1 else 0) +
       (if a =? c then 1 else 0) * (if b =? d then 1 else 0) +
       (if a =? d then 1 else 0) * (if b =? c then 1 else 0)).
Proof. exact teneye_count_4. Qed.
Print Assumptions C20_teneye_order4.

(* the statement of the identity action, for every even order m >= 2, every size n, every vector x (not only unit
   vectors): ttsv(I, x) = ||x||^(m-2) x, I = the tensor with the entries teneye_count i / m! that teneye computes *)
Definition C20_teneye_identity_stmt : Prop :=
  forall (m n : nat) (x : list Qc), Nat.even m = true -> 2 <= m -> length x = n ->
  forall a, a < n ->
  ttsv1 (tabulate (repeat n m) (teneye_entry m)) m n x a = (qpow (qdot x) (m / 2 - 1) * nth a x q0)%Qc.

(* ... PROVED for every even order (reduction: sum over the m! rearrangements, re-indexing of the subscript sum by each
   position permutation, factorisation of the matched sum into m/2 dot products, one of which holds the free index) *)
Theorem C20_teneye_identity : C20_teneye_identity_stmt.
Proof. exact teneye_identity_all. Qed.
Print Assumptions C20_teneye_identity.

(* the reduction lemma in an arbitrary commutative ring: the count-weighted sum over all subscripts equals the sum over
   the m! position permutations of the product of m/2 dot products of the paired weight vectors *)
Theorem C20_teneye_reduction :
  forall (V : Type) (v0 v1 : V) (vadd vmul vsub : V -> V -> V) (vopp : V -> V),
  ring_theory v0 v1 vadd vmul vsub vopp (@eq V) ->
  forall (n m : nat) (dY : nat -> V) (Y : list (nat -> V)), Nat.even m = true -> 2 <= m -> length Y = m ->
  sum_over v0 vadd (allsubs (repeat n m)) (fun i => vmul (ofnat V v0 v1 vadd (teneye_count i)) (W V v1 vmul Y i)) =
  sum_over v0 vadd (perms (seq 0 m)) (fun sigma => pairdots V v0 v1 vadd vmul n (pick dY (pick 0 (rho m) sigma) Y)).
Proof. exact teneye_count_sum. Qed.
Print Assumptions C20_teneye_reduction.

(* corollaries kept by name: orders 2 and 4 *)
Theorem C20_teneye_identity_order2 : forall (n : nat) (x : list Qc) (a : nat), length x = n -> a < n ->
  ttsv1 (tabulate (repeat n 2) (teneye_entry 2)) 2 n x a = (qpow (qdot x) (2 / 2 - 1) * nth a x q0)%Qc.
Proof. exact teneye_identity_order2. Qed.
Theorem C20_teneye_identity_order4 : forall (n : nat) (x : list Qc) (a : nat), length x = n -> a < n ->
  ttsv1 (tabulate (repeat n 4) (teneye_entry 4)) 4 n x a = (qpow (qdot x) (4 / 2 - 1) * nth a x q0)%Qc.
Proof. exact teneye_identity_order4. Qed.
Print Assumptions C20_teneye_identity_order2.
Print Assumptions C20_teneye_identity_order4.

(* ---------------------------------------------------------------- wave 3: corner requests *)
(* no element / no pair: the zero tensor of EXACTLY the requested shape (zero sizes included) — dense: every cell zero;
   sparse and aggregating constructor: no stored entry *)
Theorem C20_diag_no_element : forall (V : Type) (v0 : V) (vadd : V -> V -> V) (isz : V -> bool) (s : shape),
  tendiag v0 [] (Some s) = mkDense s (repeat v0 (size s)) /\
  sptendiag v0 vadd isz [] (Some s) = mkSp s [] [] /\
  (forall f : list V -> V, from_aggregator isz s [] [] f = mkSp s [] []).
Proof. exact (fun V v0 vadd isz s => conj (tendiag_no_element v0 s) (conj (sptendiag_no_element v0 vadd isz s) (aggregator_no_pair isz s))). Qed.
Print Assumptions C20_diag_no_element.

(* tendiag, every request (sizes in Z): rejected EXACTLY WHEN the constructed shape is empty (the empty shape requested,
   or no shape and no element: an order-0 dense tensor cannot be generated, C20_dense_generator_guard); every accepted
   request yields the tensor of C20_tendiag with the shape rule's shape, which has at least one mode.
   pyttb crashes on "no element, non-empty shape" (finding C20-N6): the model states what the property demands *)
Theorem C20_tendiag_request : forall (e : list Z) (so : option (list Z)),
  (ztendiag_req e so = None <-> so = Some [] \/ (so = None /\ e = [])) /\
  (forall T, ztendiag_req e so = Some T ->
     T = ztendiag_z e so /\ dshape T = diag_shape_z (length e) so /\ 1 <= length (dshape T)).
Proof. exact tendiag_req_spec. Qed.
Print Assumptions C20_tendiag_request.

Theorem C20_tendiag_request_no_element : forall s : list Z, s <> [] ->
  ztendiag_req [] (Some s) = Some (mkDense (to_shape s) (repeat 0%Z (size (to_shape s)))).
Proof. exact tendiag_req_no_element. Qed.
Print Assumptions C20_tendiag_request_no_element.

(* sptendiag, every request: rejected EXACTLY WHEN there are elements and the empty shape was requested (an order-0
   tensor cannot carry them; pyttb drops them silently, finding C20-N7), or there is no element and a requested size is
   below one (the sparse constructor's rule) *)
Theorem C20_sptendiag_request : forall (e : list Z) (so : option (list Z)),
  zsptendiag_req e so = None <->
  (e <> [] /\ so = Some []) \/ (e = [] /\ exists s, so = Some s /\ Exists (fun d => (d <= 0)%Z) s).
Proof. exact sptendiag_req_spec. Qed.
Print Assumptions C20_sptendiag_request.

(* from_aggregator with sizes in Z: a size below one is rejected; neither a shape nor a pair is rejected (nothing to
   infer the shape from); a positive shape without a pair gives the empty tensor of that shape *)
Theorem C20_aggregator_request : forall (so : option (list Z)) (N : nat) (subs : list idx) (vals : list Z) (r : reducer),
  (forall s, so = Some s -> Exists (fun d => (d <= 0)%Z) s -> zaggregator_z so N subs vals r = None) /\
  (so = None -> subs = [] -> zaggregator_z so N subs vals r = None) /\
  (forall s, so = Some s -> Forall (fun d => (0 < d)%Z) s -> zaggregator_z so N [] [] r = Some (mkSp (to_shape s) [] [])).
Proof. exact aggregator_z_spec. Qed.
Print Assumptions C20_aggregator_request.

(* the repair of finding A-46 (/repo bc5da93; model C20Gen.sprand_subs), the draws as inputs: whenever the loop ends with
   enough distinct rows the result is EXACTLY the loop's last candidate as before the repair (same seeded outputs, same
   draws consumed); otherwise it holds min(request, number of distinct rows over ALL consumed draws) rows, each a row of a
   consumed draw; never fewer rows than the loop's last candidate alone; always strictly ascending; distinct and inside the
   shape for valid draws. *)
Theorem C20_sprand_union_repair : forall (nz : nat) (s : shape) (draws : list (list (list Z))),
  let r := redraw 10 nz s [] draws in
  let pool := pool_rows s (firstn (snd r) draws) in
  (nz <= length (fst r) -> sprand_subs nz s draws = sprand_loop_subs nz s draws) /\
  (length (fst r) < nz ->
     length (sprand_subs nz s draws) = Nat.min nz (length (dedup pool)) /\
     (forall i, In i (sprand_subs nz s draws) -> In i pool)) /\
  length (sprand_loop_subs nz s draws) <= length (sprand_subs nz s draws) /\
  StronglySorted idx_lt (sprand_subs nz s draws) /\
  (Forall (fun d => 0 < d) s -> Forall (valid_draw s) draws -> good s (sprand_subs nz s draws)).
Proof. exact sprand_union_spec. Qed.
Print Assumptions C20_sprand_union_repair.

(* ---------------------------------------------------------------- teneye entries, EVERY even order (wave 3b) *)
(* pyttb's entry A[i] = teneye_count i / m!.  For every even order m >= 2 and every size: an entry whose subscript holds
   some value an ODD number of times is zero; every order: the super-diagonal entries are m!/m! = 1 *)
Theorem C20_teneye_odd_multiplicity_zero : forall (i : idx) (v : nat), 2 <= length i -> Nat.even (length i) = true ->
  Nat.even (count_occ Nat.eq_dec i v) = false -> teneye_count i = 0.
Proof. exact teneye_count_odd. Qed.
Theorem C20_teneye_diagonal : forall a m : nat, teneye_count (repeat a m) = fact m.
Proof. exact teneye_count_diag. Qed.
(* THE GENERAL ENTRY FORMULA (wave 4; the statement C20_teneye_entry_formula_stmt of wave 3b, now PROVED for every
   subscript of every even order): pyttb's count of the rearrangements of i whose pairs match is
   C20Gen.teneye_formula i = 0 if some value occurs an odd number of times, else 2^(m/2) (m/2)! prod_v (c_v - 1)!!
   over the multiplicities c_v - so the entry A[i] = teneye_count i / m! is that closed form over m! *)
Definition C20_teneye_entry_formula_stmt : Prop := teneye_entry_formula_stmt.
Theorem C20_teneye_entry_formula : forall i : idx, Nat.even (length i) = true -> teneye_count i = teneye_formula i.
Proof. exact teneye_entry_formula. Qed.
Theorem C20_teneye_entry_closed : forall (m : nat) (i : idx), Nat.even (length i) = true ->
  teneye_entry m i = teneye_entry_f m i.
Proof. exact teneye_entry_closed. Qed.
(* the structure of pyttb's enumeration of rearrangements the proof rests on: as a multiset it splits by the first and by
   the last element, and is closed under rotation (pyttb pairs the LAST with the first position, then consecutive ones) *)
Theorem C20_perms_structure : forall l : list nat,
  (l <> [] -> Permutation (perms l) (flat_map hd_block (sel l)) /\ Permutation (perms l) (flat_map last_block (sel l))) /\
  Permutation (map rot (perms l)) (perms l).
Proof. exact perms_structure. Qed.
Print Assumptions C20_teneye_odd_multiplicity_zero.
Print Assumptions C20_teneye_diagonal.
Print Assumptions C20_teneye_entry_formula.
Print Assumptions C20_teneye_entry_closed.
Print Assumptions C20_perms_structure.

(* ---------------------------------------------------------------- non-vacuity: concrete, non-symmetric instances *)
Example C20_example_from_function :
  zfrom_function [2; 3] (mkDense [6] [1; 2; 3; 4; 5; 6]%Z) = Some (mkDense [2; 3] [1; 2; 3; 4; 5; 6]%Z)
  /\ zden (mkDense [2; 3] [1; 2; 3; 4; 5; 6]%Z) [1; 2] = 6%Z /\ zden (mkDense [2; 3] [1; 2; 3; 4; 5; 6]%Z) [0; 1] = 3%Z
  /\ ztenones [2; 1; 2] = Some (mkDense [2; 1; 2] [1; 1; 1; 1]%Z).
Proof. repeat split; reflexivity. Qed.

Example C20_example_tendiag :
  ztendiag [1; 2; 3]%Z (Some [2; 4]) = mkDense [3; 4] [1; 0; 0; 0; 2; 0; 0; 0; 3; 0; 0; 0]%Z
  /\ ztendiag [1; 2]%Z None = mkDense [2; 2] [1; 0; 0; 2]%Z
  /\ zsptendiag [1; 0; 3]%Z (Some [3; 3]) = mkSp [3; 3] [[0; 0]; [2; 2]] [1; 3]%Z.
Proof. repeat split; reflexivity. Qed.

Example C20_example_aggregator :
  let subs := [[1; 2]; [0; 1]; [1; 2]; [0; 0]; [1; 2]; [0; 1]] in
  let vals := [3; 4; 5; 7; -8; -4]%Z in
  zaggregator (Some [2; 3]) 2 subs vals RSum = Some (mkSp [2; 3] [[0; 0]] [7]%Z)
  /\ zaggregator (Some [2; 3]) 2 subs vals RMax = Some (mkSp [2; 3] [[0; 0]; [0; 1]; [1; 2]] [7; 4; 5]%Z)
  /\ zaggregator (Some [2; 3]) 2 subs vals RFirstMinusRest = Some (mkSp [2; 3] [[0; 0]; [0; 1]; [1; 2]] [7; 8; 6]%Z)
  /\ zaggregator None 2 subs vals RLen = Some (mkSp [2; 3] [[0; 0]; [0; 1]; [1; 2]] [1; 2; 3]%Z)
  /\ zaggregator (Some [2; 2]) 2 subs vals RSum = None.
Proof. repeat split; reflexivity. Qed.

(* first draw has a repeated row (both rows scale to [0;0]): a second draw is consumed and REPLACES it *)
Example C20_example_sprand :
  let h := (2 ^ 52)%Z in
  let d1 := [[0; h]; [1; h + 5]]%Z in let d2 := [[h; h]; [0; 7]]%Z in
  cand [2; 3] d1 = [[0; 1]] /\
  sprand_subs 2 [2; 3] [d1; d2] = [[0; 0]; [1; 1]] /\ sprand_consumed 2 [2; 3] [d1; d2] = 2 /\
  sprand_subs 2 [2; 3] [d2; d1] = [[0; 0]; [1; 1]] /\ sprand_consumed 2 [2; 3] [d2; d1] = 1 /\
  norm_request 6 1 2 = Some (false, 3) /\ norm_request 6 5 1 = Some (false, 5) /\ norm_request 6 6 1 = Some (true, 6) /\
  norm_request 6 13 2 = None /\ norm_request 0 0 1 = None /\ norm_request 2 9 10 = Some (false, 2) /\
  norm_request 6 0 1 = Some (false, 0) /\ norm_request_spec 6 6 1 = Some 6 /\
  sptenrand_count_impl 100 1 200 = Some (false, 0) /\ sptenrand_count_impl 100 1 4 = Some (false, 25) /\
  sptenrand_count_impl 4 1 1 = Some (true, 4) /\
  sptenrand_count_fl 3 1 3 1 1 = Some (false, 1) /\ sptenrand_count_impl 3 1 3 = Some (false, 1) /\
  norm_request_fl 3 1 3 1 1 = Some (false, 1).
Proof. vm_compute. repeat split; reflexivity. Qed.

Example C20_example_teneye : map teneye_count [[0; 0; 0; 0]; [0; 0; 1; 1]; [0; 1; 0; 1]; [0; 0; 0; 1]] = [24; 8; 8; 0].
Proof. vm_compute. reflexivity. Qed.

Example C20_example_teneye_identity :
  let x := [Q2Qc (1#2); Q2Qc (-3#1)] in
  ttsv1 (tabulate (repeat 2 4) (teneye_entry 4)) 4 2 x 0 = Q2Qc (37#8) /\
  ttsv1 (tabulate (repeat 2 4) (teneye_entry 4)) 4 2 x 1 = Q2Qc (-111#4) /\
  (qpow (qdot x) (4/2-1) * nth 0 x q0)%Qc = Q2Qc (37#8) /\
  (qpow (qdot x) (4/2-1) * nth 1 x q0)%Qc = Q2Qc (-111#4).
Proof. exact teneye_identity_example. Qed.

Example C20_example_corner_requests :
  ztendiag_req [] (Some [2; 3]%Z) = Some (mkDense [2; 3]%nat [0; 0; 0; 0; 0; 0]%Z) /\
  ztendiag_req [1; 2]%Z (Some []) = None /\ ztendiag_req [] None = None /\
  ztendiag_req [] (Some [0; 2]%Z) = Some (mkDense [0; 2]%nat []) /\
  zsptendiag_req [1; 2]%Z (Some []) = None /\ zsptendiag_req [] (Some []) = Some (mkSp [] [] []) /\
  zsptendiag_req [] None = Some (mkSp [] [] []) /\ zsptendiag_req [] (Some [0; 2]%Z) = None /\
  zsptendiag_req [2; 0; 2]%Z (Some [1; 4]%Z) = Some (mkSp [3; 4]%nat [[0; 0]; [2; 2]]%nat [2; 2]%Z) /\
  zaggregator_z (Some [2; 3]%Z) 2 [] [] RMax = Some (mkSp [2; 3]%nat [] []) /\
  zaggregator_z None 2 [] [] RSum = None /\ zaggregator_z (Some [2; 0]%Z) 2 [] [] RSum = None /\
  zaggregator (Some [2; 3]%nat) 2 [[0; 1]; [1; 2]; [0; 1]; [1; 2]]%nat [0; 4; 5; 2]%Z RMin = Some (mkSp [2; 3]%nat [[1; 2]]%nat [2]%Z) /\
  zaggregator (Some [2; 3]%nat) 2 [[0; 1]; [1; 2]; [0; 1]; [1; 2]]%nat [1; 4; 5; 2]%Z RMean = Some (mkSp [2; 3]%nat [[0; 1]; [1; 2]]%nat [3; 3]%Z).
Proof. exact diag_req_examples. Qed.

Example C20_example_union_repair :
  let h := (2 ^ 52)%Z in
  let da := [[0; h]; [1; h + 5]]%Z in let db := [[h; h]; [h + 1; h + 3]]%Z in
  let ds := [da; db; da; db; da; db; da; db; da; db] in
  sprand_loop_subs 2 [2; 3]%nat ds = [[1; 1]]%nat /\ sprand_subs 2 [2; 3]%nat ds = [[0; 1]; [1; 1]]%nat /\
  sprand_consumed 2 [2; 3]%nat ds = 10%nat /\
  sprand_subs 2 [2; 3]%nat (repeat da 10) = [[0; 1]]%nat /\
  sprand_subs 2 [2; 3]%nat ([[0; h]; [h; 7]]%Z :: ds) = sprand_loop_subs 2 [2; 3]%nat ([[0; h]; [h; 7]]%Z :: ds) /\
  sprand_subs 2 [2; 3]%nat ([[0; h]; [h; 7]]%Z :: ds) = [[0; 1]; [1; 0]]%nat.
Proof. exact sprand_union_example. Qed.

(* teneye entries: order 6, a subscript with an odd multiplicity, a diagonal one, a mixed one (48 * 3 matchings); the
   closed form on the same subscripts; a TEST of the closed form on every subscript of orders 2, 4 (sizes <= 3), 6 (size 2) *)
Example C20_example_teneye_entries :
  map teneye_count [[0; 1; 1; 1; 0; 0]; [1; 1; 1; 1; 1; 1]; [1; 0; 1; 1; 0; 1]] = [0; 720; 144] /\
  map teneye_formula [[0; 1; 1; 1; 0; 0]; [1; 1; 1; 1; 1; 1]; [1; 0; 1; 1; 0; 1]] = [0; 720; 144] /\
  forallb (fun mn => forallb (fun i => teneye_count i =? teneye_formula i) (allsubs (repeat (snd mn) (fst mn))))
          [(2, 3); (4, 3); (6, 2); (0, 2)] = true.
Proof. exact teneye_entries_example. Qed.

(* ---------------------------------------------------------------- wave 4: the saturated request (repair of C20-N3) *)
(* np.ndindex: all_rows s lists EXACTLY the subscripts of the shape, prod(shape) of them, strictly ascending (first mode
   most significant) - the stored order of every sparse generator *)
Theorem C20_all_rows : forall s : shape,
  length (all_rows s) = size s /\ (forall i, In i (all_rows s) <-> inb s i = true) /\
  StronglySorted idx_lt (all_rows s) /\ NoDup (all_rows s).
Proof. exact all_rows_spec. Qed.

(* the body of sptensor.from_function as ONE function of the list the loop starts from: the empty start is the ordinary
   request (sprand_subs: C20_sprand_post / _count / _union_repair apply); a start that already holds the requested
   number of rows is returned untouched and no draw is consumed, whatever the stream holds *)
Theorem C20_sprand_from : forall (init : list idx) (nz : nat) (s : shape) (draws : list (list (list Z))),
  (sprand_subs_from [] nz s draws = sprand_subs nz s draws /\ sprand_consumed_from [] nz s draws = sprand_consumed nz s draws) /\
  (sprand_subs_from init (length init) s draws = init /\ sprand_consumed_from init (length init) s draws = 0).
Proof. exact sprand_from_spec. Qed.

(* SATURATED request (request = prod(shape)): every subscript of the shape is stored, in np.ndindex order; no draw is
   consumed (seeded streams are left untouched); the number of stored subscripts is the size *)
Theorem C20_saturated_request : forall (s : shape) (draws : list (list (list Z))),
  sprand_req_subs true (size s) s draws = all_rows s /\
  sprand_req_consumed true (size s) s draws = 0 /\
  length (sprand_req_subs true (size s) s draws) = size s /\
  (forall i, In i (sprand_req_subs true (size s) s draws) <-> inb s i = true).
Proof. exact sprand_req_saturated. Qed.

Section C20_sprand_req.
Context {V : Type} (v0 : V) (isz : V -> bool).
(* EVERY normalised request (saturated or not), whatever the draws: well-formed, requested shape, values = the supplied
   function's output, at most the requested number of nonzeros *)
Theorem C20_sprand_req_post : forall (sat : bool) (nz : nat) (s : shape) (draws : list (list (list Z))) (vals : list V),
  Forall (fun d => 0 < d) s -> Forall (valid_draw s) draws ->
  length vals = length (sprand_req_subs sat nz s draws) -> Forall (fun v => isz v = false) vals ->
  wf_sp isz (sprand_req sat nz s draws vals) /\ sshape (sprand_req sat nz s draws vals) = s /\
  svals (sprand_req sat nz s draws vals) = vals /\ nnz (sprand_req sat nz s draws vals) <= nz.
Proof. exact (sprand_req_wf isz). Qed.

(* the saturated request is ALWAYS met exactly: nnz = prod(shape); EVERY cell holds the value the function returned
   for it (the k-th value at the k-th subscript in np.ndindex order) *)
Theorem C20_saturated_post : forall (s : shape) (draws : list (list (list Z))) (vals : list V),
  Forall (fun d => 0 < d) s -> length vals = size s -> Forall (fun v => isz v = false) vals ->
  let S := sprand_req true (size s) s draws vals in
  wf_sp isz S /\ sshape S = s /\ nnz S = size s /\ ssubs S = all_rows s /\
  (forall k, k < size s -> den_sp v0 S (nth k (all_rows s) []) = nth k vals v0) /\
  (forall i, inb s i = true -> exists k, k < size s /\ nth k (all_rows s) [] = i /\ den_sp v0 S i = nth k vals v0).
Proof. exact (sprand_req_saturated_post v0 isz). Qed.
End C20_sprand_req.

(* values of EVERY normalised request (saturated or not): the stored values are the supplied function's output verbatim,
   the entry at the k-th stored subscript is the k-th value, every entry satisfies any predicate that holds of zero and of
   the output (sptenrand: 0 <= u < 1) *)
Theorem C20_sprand_req_values : forall (V : Type) (v0 : V) (sat : bool) (nz : nat) (s : shape) (draws : list (list (list Z))) (vals : list V),
  length vals = length (sprand_req_subs sat nz s draws) ->
  svals (sprand_req sat nz s draws vals) = vals /\
  (forall k, k < length vals ->
     den_sp v0 (sprand_req sat nz s draws vals) (nth k (sprand_req_subs sat nz s draws) []) = nth k vals v0) /\
  (forall P : V -> Prop, P v0 -> Forall P vals -> forall i, P (den_sp v0 (sprand_req sat nz s draws vals) i)).
Proof. exact (@sprand_req_values). Qed.

(* from the request p/q to the number of stored subscripts: never more than the normalised count; a request EQUAL to the
   tensor size always stores exactly the size and consumes no draw (the input class of the repaired finding C20-N3);
   below the size: min(count, distinct rows over all consumed draws) (C20_sprand_count) *)
Theorem C20_request_count : forall (s : shape) (p : Z) (q : positive) (draws : list (list (list Z))) (sat : bool) (c : nat),
  norm_request (size s) p q = Some (sat, c) ->
  length (sprand_req_subs sat c s draws) <= c /\
  (sat = true -> (p = Z.of_nat (size s) * Zpos q)%Z /\ c = size s /\ length (sprand_req_subs sat c s draws) = size s /\
                 sprand_req_consumed sat c s draws = 0) /\
  (sat = false -> sprand_req_subs sat c s draws = sprand_subs c s draws /\
                  length (sprand_req_subs sat c s draws) =
                  Nat.min c (length (dedup (pool_rows s (firstn (sprand_consumed c s draws) draws))))).
Proof. exact request_count. Qed.

(* stored order of every normalised request: strictly ascending *)
Theorem C20_sprand_req_sorted : forall sat nz s draws, StronglySorted idx_lt (sprand_req_subs sat nz s draws).
Proof. exact sprand_req_sorted. Qed.

Print Assumptions C20_all_rows.
Print Assumptions C20_sprand_from.
Print Assumptions C20_saturated_request.
Print Assumptions C20_sprand_req_post.
Print Assumptions C20_saturated_post.
Print Assumptions C20_request_count.
Print Assumptions C20_sprand_req_values.
Print Assumptions C20_sprand_req_sorted.

(* density 1.0 on (2,2) - the witness of the repaired finding C20-N3 - and a request of 6 on (2,3): all subscripts, no draw *)
Example C20_example_saturated :
  let h := (2 ^ 52)%Z in
  norm_request 4 4 1 = Some (true, 4) /\ sptenrand_count_impl 4 1 1 = Some (true, 4) /\
  sprand_req_subs true 4 [2; 2] [] = [[0; 0]; [0; 1]; [1; 0]; [1; 1]] /\ sprand_req_consumed true 4 [2; 2] [[[h; h]]] = 0 /\
  all_rows [2; 3] = [[0; 0]; [0; 1]; [0; 2]; [1; 0]; [1; 1]; [1; 2]] /\
  sprand_req true 6 [2; 3] [] [1; 2; 3; 4; 5; 6]%Z = mkSp [2; 3] (all_rows [2; 3]) [1; 2; 3; 4; 5; 6]%Z /\
  (* ceil(2 * 0.9) = 2 = the size, but NOT saturated: the two cells must be drawn *)
  norm_request 2 9 10 = Some (false, 2) /\ sprand_req_consumed false 2 [2] [[[0]; [h]]%Z] = 1 /\
  sprand_req_subs false 2 [2] [[[0]; [h]]%Z] = [[0]; [1]].
Proof. exact saturated_example. Qed.

Example C20_example_teneye_order6 :
  map teneye_formula [[3; 3; 3; 3; 3; 3]; [0; 1; 0; 0; 1; 0]; [2; 0; 1; 1; 2; 0]; [2; 0; 1; 1; 2; 1]] = [720; 144; 48; 0] /\
  map teneye_count [[3; 3; 3; 3; 3; 3]; [0; 1; 0; 0; 1; 0]; [2; 0; 1; 1; 2; 0]; [2; 0; 1; 1; 2; 1]] = [720; 144; 48; 0].
Proof. exact teneye_formula_order6. Qed.

(* 3 * 0.1 rounds to 0.30000000000000004, 2 * 0.9 = 1.8 and 6 * 1/2 = 3 are exact *)
Example C20_example_round64 : round64_examples_stmt.
Proof. exact round64_examples. Qed.
