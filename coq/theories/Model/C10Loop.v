(* Model/C10Loop.v — control flow of pyttb.hosvd (hosvd.py, `d = input_tensor.ndims` ... `result = ttb.ttensor(G, factor_matrices)`)
   and of pyttb.tucker_als (tucker_als.py, `U = Uinit.copy()` ... `return solution, Uinit, output`) as executable state machines,
   transliterated statement by statement from the current (repaired) source.  The numerics are abstract oracles (Gram matrix +
   eigh + descending sort, leading eigenvectors, ttm, nvecs, norms); everything about argument validation, the per-mode rank
   decision (the value-generic rule of Model/C10Tucker.v), the order in which modes are treated, what is shrunk, the iteration
   counter, the convergence test, the printed lines and the returned tuple is explicit. *)
From Coq Require Import List Arith Bool Lia.
From PV Require Import Model.Sparse Model.C10Tucker.
Import ListNotations.

(* sorted(dimorder): the sorted permutation (insertion sort computes the same list as Python's sorted on ints) *)
Fixpoint ins_sorted (x : nat) (l : list nat) : list nat :=
  match l with [] => [x] | y :: l' => if x <=? y then x :: l else y :: ins_sorted x l' end.
Fixpoint py_sorted (l : list nat) : list nat :=
  match l with [] => [] | x :: l' => ins_sorted x (py_sorted l') end.
Fixpoint nlist_eqb (a b : list nat) : bool :=
  match a, b with [] , [] => true | x :: a', y :: b' => (x =? y) && nlist_eqb a' b' | _, _ => false end.
(*  tuple(range(d)) != tuple(sorted(dimorder))  is False *)
Definition dimorder_ok (d : nat) (dimorder : list nat) : bool := nlist_eqb (seq 0 d) (py_sorted dimorder).

(* ======================================================================================== *)
(* hosvd                                                                                      *)
(* ======================================================================================== *)
Section Hosvd.
Variables T Fac V : Type.
Variables (v0 : V) (vadd : V -> V -> V) (vltb : V -> V -> bool).
Variable eigvals : T -> nat -> list V.        (* eigvec = D[pi] of Z = Yk Yk^T for Yk = Y.to_tenmat([k]) : descending eigenvalues *)
Variable leading : T -> nat -> nat -> Fac.    (* V[:, pi[0:r]] for the same decomposition *)
Variable ttm_t : T -> Fac -> nat -> T.        (* Y.ttm(factor_matrices[k].transpose(), int(k)) *)
Variable ttm_all_t : T -> list Fac -> T.      (* Y.ttm(factor_matrices, transpose=True) *)
Variable fac0 : Fac.                          (* np.empty(1) placeholder *)

Inductive herr : Type := ErrRanksLen | ErrDimorder | ErrIndex.
Inductive hres (A : Type) : Type := HOk (a : A) | HErr (e : herr).
Arguments HOk {A} a. Arguments HErr {A} e.

Section Run.
Variable sequential : bool.
Variable thresh : V.                          (* eigsumthresh = tol**2 * normxsqr / d *)

(* for k in dimorder: ...   state = (ranks, factor_matrices, Y) *)
Fixpoint hosvd_loop (order : list nat) (ranks : list nat) (Us : list Fac) (Y : T) : option (list nat * list Fac * T) :=
  match order with
  | [] => Some (ranks, Us, Y)
  | k :: order' =>
      let eig := eigvals Y k in                                       (* Yk, Z, eigh, pi, eigvec *)
      let rk := match nth k ranks 0 with                              (* if ranks[k] == 0: *)
                | 0 => auto_rank v0 vadd vltb eig thresh              (*   ranks[k] = np.where(eigsum > eigsumthresh)[0][-1] + 1 *)
                | S _ => Some (nth k ranks 0)
                end in
      match rk with
      | None => None                                                  (* IndexError: no reverse cumulative sum exceeds the threshold *)
      | Some r =>
          let ranks' := upd ranks k r in
          let U := leading Y k r in                                   (* factor_matrices[k] = V[:, pi[0 : ranks[k]]] *)
          let Us' := upd Us k U in
          let Y' := if sequential then ttm_t Y U k else Y in          (* if sequential: Y = Y.ttm(...) *)
          hosvd_loop order' ranks' Us' Y'
      end
  end.

(* result: (core G, factor_matrices, the function's private ranks array after the loop) *)
Definition hosvd_run (X : T) (d : nat) (ranks_arg : option (list nat)) (dimorder_arg : option (list nat))
  : hres (T * list Fac * list nat) :=
  let ranks := match ranks_arg with None => repeat 0 d | Some r => r end in   (* np.zeros(d) / parse_one_d(ranks).copy() *)
  if negb (length ranks =? d) then HErr ErrRanksLen else                      (* if len(ranks) != d: raise ValueError *)
  let dimorder := match dimorder_arg with None => seq 0 d | Some o => o end in
  if match dimorder_arg with None => false | Some o => negb (dimorder_ok d o) end
  then HErr ErrDimorder else                                                   (* raise ValueError("Dimorder must be ...") *)
  match hosvd_loop dimorder ranks (repeat fac0 d) X with                       (* factor_matrices = [np.empty(1)] * d; Y = copy *)
  | None => HErr ErrIndex
  | Some (ranks', Us, Y) =>
      let G := if sequential then Y else ttm_all_t Y Us in                     (* Extract final core *)
      HOk (G, Us, ranks')
  end.
End Run.
End Hosvd.
Arguments HOk {A} a. Arguments HErr {A} e.

(* ======================================================================================== *)
(* tucker_als                                                                                 *)
(* ======================================================================================== *)
Section TuckerAls.
Variables Fac Ut Core F : Type.
Variable project : list Fac -> nat -> Ut.            (* Utilde = input_tensor.ttm(U, exclude_dims=n, transpose=True) *)
Variable nvecs : Ut -> nat -> nat -> Fac.            (* Utilde.nvecs(n, rank[n]) *)
Variable core_of : Ut -> list Fac -> nat -> Core.    (* Utilde.ttm(U, n, transpose=True) *)
Variable normres_of : Core -> F.                     (* np.sqrt(abs(normX**2 - core.norm()**2)) *)
Variable fit_of : F -> F.                            (* 1 - normresidual / normX *)
Variable fchange_lt : F -> F -> F -> bool.           (* fchange_lt fitold fit stoptol = (abs(fitold - fit) < stoptol) *)
Variable fit0 : F.                                   (* fit = 0 *)
Variable rank : list nat.
Variable dimorder : list nat.

Inductive tevent : Type :=
| TEvHeader : tevent                                 (* "Tucker Alternating Least-Squares:" *)
| TEvIter (k : nat) (fit fitold : F) : tevent.       (* " Iter k: fit = .. fitdelta = |fitold - fit|" *)

(* for n in dimorder:  (U, last (Utilde, n)) *)
Fixpoint tals_inner (order : list nat) (U : list Fac) (last : option (Ut * nat)) : list Fac * option (Ut * nat) :=
  match order with
  | [] => (U, last)
  | n :: order' =>
      let Utilde := project U n in
      let U' := upd U n (nvecs Utilde n (nth n rank 0)) in
      tals_inner order' U' (Some (Utilde, n))
  end.

Record tout : Type := mkTout {
  to_U : list Fac; to_iter : nat; to_core : Core; to_nr : F; to_fit : F; to_log : list tevent; to_trace : list F }.

Section Run.
Variable stoptol : F.
Variable printitn : nat.

Definition tals_iter_events (k : nat) (fit fitold : F) : list tevent :=
  if (0 <? printitn) && (k mod printitn =? 0) then [TEvIter k fit fitold] else [].

(* for iteration in range(maxiters):   rem = iterations still to come, k = next value of `iteration`,
   last = Some (iteration, core, normresidual) once bound *)
Fixpoint tals_loop (rem k : nat) (U : list Fac) (fit : F) (last : option (nat * Core * F)) : option tout :=
  match rem with
  | 0 => match last with
         | None => None                                            (* UnboundLocalError: core (maxiters = 0) *)
         | Some (it, core, nr) => Some (mkTout U it core nr fit [] [])
         end
  | S rem' =>
      let fitold := fit in
      match tals_inner dimorder U None with
      | (_, None) => None                                          (* empty dimorder: Utilde unbound *)
      | (U', Some (Utilde, n)) =>
          let core := core_of Utilde U' n in
          let nr := normres_of core in
          let fit' := fit_of nr in
          let ev := tals_iter_events k fit' fitold in
          if fchange_lt fitold fit' stoptol                        (* if fitchange < stoptol: break *)
          then Some (mkTout U' k core nr fit' ev [fit'])
          else match tals_loop rem' (S k) U' fit' (Some (k, core, nr)) with
               | None => None
               | Some o => Some (mkTout (to_U o) (to_iter o) (to_core o) (to_nr o) (to_fit o) (ev ++ to_log o) (fit' :: to_trace o))
               end
      end
  end.

Record tresult : Type := mkTres {
  tr_core : Core; tr_U : list Fac;          (* solution = ttensor(core, U) *)
  tr_init : list Fac;                       (* Uinit, returned as given *)
  tr_iters : nat; tr_normres : F; tr_fit : F;
  tr_log : list tevent; tr_trace : list F }.

Definition tals_run (Uinit : list Fac) (maxiters : nat) : option tresult :=
  let hdr := if 0 <? printitn then [TEvHeader] else [] in
  match tals_loop maxiters 0 Uinit fit0 None with            (* U = Uinit.copy(); fit = 0 *)
  | None => None
  | Some o => Some (mkTres (to_core o) (to_U o) Uinit (to_iter o) (to_nr o) (to_fit o) (hdr ++ to_log o) (to_trace o))
  end.
End Run.

(* ---- specification vocabulary ---- *)
Definition sweep (U : list Fac) : list Fac := fst (tals_inner dimorder U None).
Fixpoint iter_sweep (n : nat) (U : list Fac) : list Fac := match n with 0 => U | S j => sweep (iter_sweep j U) end.
Definition fit_after (U : list Fac) : option F :=
  match tals_inner dimorder U None with
  | (U', Some (Utilde, n)) => Some (fit_of (normres_of (core_of Utilde U' n)))
  | _ => None
  end.
End TuckerAls.
