"""C11 — CP-APR returns a non-negative model and a truthful objective (DESIGN §C11).

cp_apr (mu / pdnr / pqnr) is run on small count tensors (dense and sparse) from explicit non-negative guesses.  The returned
Kruskal model goes to Coq as exact rationals: non-negativity, shape/rank, and the mass identity (sum of all model entries =
sum_r lambda_r prod_n colsum_n(r) = sum(factor_0)) are checked exactly; the harness recomputes the Poisson log-likelihood
sum x log m - sum m by brute force (math.log, loops over all subscripts) and Coq compares it with the reported objective."""
import contextlib
import io
import math
from fractions import Fraction

from vcheck import Case, gnlist, gq, gbool
import tgen
from props.c10 import gqmat, gqlist

PROP = "C11"
LEVEL = "proof"
INCLUDE = ['w4s_c11', 'w4s_c11b']     # w4-skel: generated control-flow skeleton of the MU loop (Props/W4SC11.v) + replay stream sk_mu
GEN_UNITS = []
SHARD = 8
COQ_TARGETS = ["Props/C11.vo", "Props/C11w4.vo", "Props/C11w5.vo", "Props/C11w5b.vo", "Model/C11Check.vo", "Model/C11GenCheck.vo", "Model/C11Replay.vo",
               "Model/C11Lbfgs.vo", "Model/C11Pdnr.vo", "Model/Harness.vo"]
THEOREM_FILES = ["Props/C11.v", "Props/C11w4.v", "Props/C11w5.v", "Props/C11w5b.v"]
COQ_IMPORTS = ("From Coq Require Import List ZArith Bool QArith Qcanon.\n"
               "From PV Require Import Base.Index Np.Array Model.Sparse Model.Repr Model.Harness Model.C11Check Model.C11GenCheck Model.C11Replay Model.C11Lbfgs Model.C11Pdnr.\n")
RULE = ("count tensors <= 4x3x2 (2- to 4-way; random fill, an emptied slice, emptied slices in several modes, all-zero fibres, all-zero data, "
        "singleton modes), dense and sparse, ranks 1-3, integer / fractional guesses optionally with an all-zero row, fractional weights, "
        "guess factors F-ordered, C-ordered or strided views, dense data from a C-ordered array; algorithms mu/pdnr/pqnr x option sets "
        "(maxinneriters 1..10, precompinds, inexact, lbfgsMem, mu0, epsActive, kappa 0..1, kappatol 0..10, printitn/printinneritn > 0), "
        "maxiters 1..3 run from the same guess; op sp_degenerate: sparse holders with no stored entry / exactly one / explicitly stored "
        "zeros (plain constructor or arising from (S+T)-T); op rerun: a second call starting from the model object the first call "
        "returned (both holders); op ll_sp: tt_loglikelihood called directly on a sparse holder with an un-normalised model; op overspec: "
        "over-specified rank on rank-1 / empty-slice counts, fractional guesses, pdnr+pqnr, maxiters 1 and 2, dense AND sparse holder "
        "(dead components); op zero_row: MU from a guess with an all-zero row over observed counts (objective -inf, infinities compared "
        "explicitly); op phi_sp: calculate_pi/calculate_phi on sparse and dense holders vs the Qc models; op mu_model: the executable Coq "
        "MU model run side by side; data, guess and aliasing of the result observed for purity on every run; stop reason and nInnerIters "
        "bounds on every ordinary run; wave 4: every pdnr run of op cp_apr and every completing pqnr run of op pqnr_result is RECORDED "
        "(wrappers around pyttb.cp_apr.calc_partials / calc_grad / tt_linesearch_prowsubprob, position read from the caller's frame) and "
        "replayed through the Qc instance of Model/C11Rows.v with the recorded gradients / line-search answers as table oracles "
        "(final tensor, KKT list, nInnerIters; traces with <= 150 (quick) / 100 (thorough) table entries); op pqnr_f1_state: the L-BFGS pair "
        "bookkeeping predicts exactly whether (and in which row) the C11-F1 assertion is raised; op lbfgs_dir: get_search_dir_pqnr called "
        "directly vs its Qc transliteration; wave 5: op mu_model runs the GENERATED MU loop (Gen/GenCpAprMu.v with the C11 kernels) in Qc side by "
        "side: final tensor, sorted explicit weights, kktViolations, nInnerIters, nViolations, nTotalIters (and the hand model on one case per "
        "shape); ops overspec / rerun (both calls) / sp_degenerate are recorded and replayed too, within a cost cap (tables <= 60 entries, "
        "<= 25 for a second call); sparse holders are replayed with the indicator of their STORED subscripts (explicitly stored zeros "
        "included); op pdnr_dir: get_search_dir_pdnr called directly (rank 1-3, 1-4 Pi columns, fixed variables, damping 2^-10..8) vs its "
        "exact Qc transliteration; non-trivial = data not all zero; distinct = distinct (op,args)")
CORRESPONDENCE_ONLY = ["damped-Newton search direction get_search_dir_pdnr: since wave 5 transliterated exactly (Model/C11Pdnr.v: active set, get_hessian, Gaussian "
                       "elimination of the damped system, predicted reduction, -g fallback) and compared on direct calls (op pdnr_dir); nothing proved about it; inside "
                       "the replay it stays a recorded oracle answer",
                       "step lengths and the line-search decisions (oracles of Model/C11Rows.v): proved "
                       "for every oracle are non-negativity and the bookkeeping (C11_rows_nonneg, C11_rows_inner_bound, C11_proj_nonneg, and for the "
                       "executed Qc instance C11_rows_replay_nonneg); since wave 4 the PDNR/PQNR state machine is tied to the code SIDE BY SIDE: "
                       "recorded gradients and line-search answers are fed to the model as tables, everything else (zero-row patch, normalise, "
                       "redistribute, row-empty test, row KKT value, stoptol test, projected step / multiplicative fallback, write-back, inner counts, "
                       "convergence flag, inexact rule, outer stop) is computed in exact rationals and compared with the returned model, kktViolations, "
                       "nInnerIters; the line search's own decisions (descent test, sufficient decrease, fallback) stay oracles because they compare "
                       "float log-likelihood values at ties",
                       "L-BFGS two-loop direction get_search_dir_pqnr: transliterated (Model/C11Lbfgs.v) and compared on direct calls (op lbfgs_dir); proved "
                       "about it only the rank-1 statements C11_lbfgs_dir_1d_zero / _mem1; the L-BFGS pair bookkeeping of tt_cp_apr_pqnr is modelled "
                       "(lbfgs_scan) and compared on every pqnr run (op pqnr_f1_state), nothing proved about it",
                       "logarithm in the objective (math.log recomputation in the harness)",
                       "likelihood improvement over the starting guess: sampled, not proved",
                       "purity (data / guess unchanged, result not aliased): observed on every run"]
ASSUMPTIONS = ["model entries converted exactly float -> rational (signs are exact)",
               "objective compared at 1e-9 relative; -inf objectives (a positive count where the model is exactly 0) must agree as -inf; "
               "+inf / nan objectives are failures",
               "runs that abort with the known C11-F1 assertion are skipped in ops pqnr_result / overspec / rerun / sp_degenerate; they are judged by "
               "pqnr_completes (fails ONLY on that exact assertion; attributed to C11-F1) and pqnr_f1_state (the assertion must occur exactly in the solver "
               "state the bookkeeping model predicts; unattributed); any other exception or wrong value of a pqnr run is reported unattributed",
               "the recorder relies on the local variable names iteration / n / jj / i of tt_cp_apr_pdnr / tt_cp_apr_pqnr and on the positional signature of "
               "tt_linesearch_prowsubprob (a rename makes the check fail loudly, not silently)",
               "replay compares at 1e-9 relative: pyttb computes the state in floats, the model in exact rationals from the same recorded oracle answers; a sparse "
               "holder is replayed with the 0/1 indicator of its stored subscripts as the data argument (Model/C11Rows.v reads the data only through "
               "row_empty; pyttb's sparse rule is 'no stored entry in the slice'); overspec / rerun / sp_degenerate replays only within the cost cap",
               "MU side by side: the generated loop is run with a clock that always reads 0 (the time-limit exit is in the generated code and in the theorems, "
               "not exercised by the stream: cp_apr's default stoptime is 1e6 s); the final component order is compared through the weight list (ties: any order)",
               "the kernels of the generated MU loop are the hand-written executable operations of Model/C11GenMu.v (not translated): they are tied to pyttb by op "
               "mu_model / phi_sp; the sign flip of ktensor.normalize for negative weights is not modelled (no-op on the property's non-negative models)",
               "theorems over an abstract ordered commutative ring given by Section hypotheses; division, Newton and L-BFGS steps are oracles",
               "maxiters >= 1 and maxinneriters >= 1 (with 0 the Python loops leave their index variables unbound; not covered by the property text)"]
EXPLANATION = ("Wave 5: C11_gen_mu_nonneg / C11_gen_bookkeeping are proved by induction over the loops of Gen/GenCpAprMu.v (regenerated from /repo on every "
               "run) with the kernels of Model/C11GenMu.v: an edit of the loop structure of tt_cp_apr_mu changes the generated text and breaks the proofs; "
               "C11_gen_mu_returns / C11_gen_skeleton_returns: the generated function returns for maxiters >= 1 (any kernels); C11_gen_mu_bridge: generated loop = "
               "hand model Model/C11Apr.v (never-expiring clock). "
               "op mu_model ties the model the theorems are about to the code: its final state denotes the returned tensor and its "
               "KKT trace equals the reported one at 1e-9. C11_mu_nonneg: executable model of the MU sweep keeps weights/factors non-negative for any division oracle that maps "
               "non-negative inputs to non-negative outputs; C11_rows_nonneg: the PDNR/PQNR outer-loop state machine keeps them non-negative for every "
               "gradient / direction / step / fallback oracle and keeps one KKT and one inner-count entry per outer iteration, stopping early only when converged; "
               "C11_rows_inner_bound: every inner-count entry <= (sum of mode sizes) * (max(maxinneriters, 2) - 1); "
               "C11_proj_nonneg: the projected step is non-negative for every direction; "
               "C11_mass_identity / _factor0 / _factor0_dead: sum of all model entries = sum(factor_0) after the final normalisation, also with "
               "dead components; C11_objective_pairing: the dense double loop over to_tenmat([1]) of data and model = the sum over all "
               "subscripts; C11_loglik_sparse_terms / C11_loglik_sparse: the sparse branch of tt_loglikelihood (gather at the stored subscripts) = the "
               "log-likelihood by definition on the denoted tensor (op ll_sp checks the model's row sums exactly against a direct call); "
               "C11_phi_sparse: sparse Pi/Phi = the dense definition on den_sp; C11_bookkeeping (a corollary of C11_mu_nonneg): KKT list length = iterations "
               "performed <= maxiters, entries >= 0; C11_rows_replay_nonneg: the Qc table-oracle instance that is replayed side by side satisfies the sign "
               "contracts, so C11_rows_nonneg / _inner_bound apply to exactly what is executed; C11_lbfgs_dir_1d_zero / _mem1: in the transliterated L-BFGS "
               "direction a rank-1 row with memory 3 gets direction exactly 0 at inner iteration 1 or 2 (mechanism of C11-F1), with memory 1 the secant step.")


# ---------------------------------------------------------------- generators
SHAPES_Q = [(3, 2), (2, 2, 2), (4, 3, 2)]
SHAPES_T = SHAPES_Q + [(2, 3), (4, 3), (3, 2, 2), (2, 3, 2), (1, 3, 2), (3, 3)]


REPLAY_MULTI_CAP = 60          # overspec / rerun: a run is replayed when its recorded tables have at most this many entries (<= 8 s each)
REPLAY_SECOND_CAP = 25         # second call of rerun: the guess is a float model (53-bit dyadic rationals), exact replay is ~10x dearer


OVERSPEC_SHAPES = [(2, 2, 2), (1, 3, 2), (3, 2, 2), (2, 2, 1, 2), (1, 3, 2), (2, 3), (3, 1, 2)]


def _counts(rng, shp, kind):
    n = math.prod(shp)
    subs = tgen.all_subs(shp)
    data = [(rng.randint(1, 3) if rng.random() < 0.6 else 0) for _ in range(n)]
    if kind == "empty_slice":
        m = rng.randrange(len(shp))
        j = rng.randrange(shp[m])
        data = [0 if s[m] == j else v for s, v in zip(subs, data)]
    elif kind == "multi_empty":          # one entirely-zero slice in each of >= 2 modes (all modes with prob. 1/2)
        modes = [m for m in range(len(shp)) if shp[m] > 1]
        rng.shuffle(modes)
        for m in modes[:(len(modes) if rng.random() < 0.5 else 2)]:
            j = rng.randrange(shp[m])
            data = [0 if s[m] == j else v for s, v in zip(subs, data)]
    elif kind == "zero_fibres":
        m = rng.randrange(len(shp))
        rest = {tuple(s[:m] + s[m + 1:]) for s in subs}
        kill = {r for r in rest if rng.random() < 0.4}
        data = [0 if tuple(s[:m] + s[m + 1:]) in kill else v for s, v in zip(subs, data)]
    elif kind == "full":
        data = [rng.randint(1, 4) for _ in range(n)]
    elif kind == "all_zero":
        return [0] * n
    if not any(data):
        data[rng.randrange(n)] = 2
    return data


def _options(rng, alg):
    if alg == "mu":
        return {"maxinneriters": rng.choice([1, 3, 10]), "kappa": rng.choice([0.01, 0.1]), "kappatol": rng.choice([1e-10, 1e-3])}
    if alg == "pdnr":
        return {"maxinneriters": rng.choice([1, 3, 10]), "precompinds": rng.random() < 0.5, "inexact": rng.random() < 0.5,
                "mu0": rng.choice([1e-5, 1e-2])}
    return {"maxinneriters": rng.choice([1, 3, 10]), "precompinds": rng.random() < 0.5, "lbfgsMem": rng.choice([1, 3])}


def _corner_options(rng, alg):
    """option corners that change control flow: one inner iteration, kappa fix-up never / always firing, damping and memory extremes"""
    if alg == "mu":
        return {"maxinneriters": rng.choice([1, 1, 2, 10]), "kappa": rng.choice([0.0, 0.01, 1.0]),
                "kappatol": rng.choice([0.0, 1e-10, 0.5, 10.0])}
    if alg == "pdnr":
        return {"maxinneriters": rng.choice([1, 1, 2, 10]), "precompinds": rng.random() < 0.5, "inexact": rng.random() < 0.5,
                "mu0": rng.choice([1e-5, 1.0, 1e3]), "epsActive": rng.choice([1e-8, 1e-1])}
    return {"maxinneriters": rng.choice([1, 1, 2, 10]), "precompinds": rng.random() < 0.5, "lbfgsMem": rng.choice([1, 2, 5]),
            "epsActive": rng.choice([1e-8, 1e-1])}


def _rand_guess(rng, shp, rank, lo=1, hi=3):
    return [[[rng.randint(lo, hi) for _ in range(rank)] for _ in range(d)] for d in shp]


def gen_cases(rng, tier):
    big = tier == "thorough"
    cases = []
    cases += _gen_w3(rng, big)
    for shp in (SHAPES_T if big else SHAPES_Q):
        for kind in ("random", "empty_slice", "zero_fibres", "full"):
            for alg in ("mu", "pdnr", "pqnr"):
                for rep in range(2 if big else 1):
                    data = _counts(rng, shp, kind)
                    rank = rng.randint(1, 2)
                    guess = [[[rng.randint(1, 3) for _ in range(rank)] for _ in range(d)] for d in shp]
                    zero_row = rng.random() < 0.3
                    if zero_row:
                        m = rng.randrange(len(shp))
                        guess[m][rng.randrange(shp[m])] = [0] * rank
                    w = [rng.randint(1, 2) for _ in range(rank)]
                    a = {"shape": list(shp), "data": data, "sparse": rng.random() < 0.5, "rank": rank, "gw": w, "gf": guess,
                         "alg": alg, "maxiters": rng.randint(1, 3), "opts": _options(rng, alg), "order": rng.choice(["sorted", "random"]),
                         "sseed": rng.randrange(10 ** 6)}
                    if alg == "pqnr":      # completion and result are separate views (finding C11-F1)
                        cases.append(Case("pqnr_completes", a, True))
                        cases.append(Case("pqnr_f1_state", a, True))
                        cases.append(Case("pqnr_result", a, True))
                    else:
                        cases.append(Case("cp_apr", a, True))
    # over-specified rank on (near) rank-1 / empty-slice count data with singleton modes, pdnr and pqnr, maxiters 1 and 2 from the
    # same fractional guess, dense AND sparse holder: the projected (quasi-)Newton row solves drive whole components to exactly 0
    # in some mode k >= 1 and the run stops in that sweep — the state in which the shortcut "- sum(factor_0)" of the reported
    # objective needs the dead component's weight to be 0 (C11_mass_factor0_dead)
    for alg, cnt in (("pdnr", 160 if big else 90), ("pqnr", 120 if big else 60)):
        for rep in range(cnt):
            shp = rng.choice(OVERSPEC_SHAPES)
            d = len(shp)
            fam = rng.choice(["lr", "lr", "lr0", "empty2"])
            subs = tgen.all_subs(shp)
            if fam in ("lr", "lr0"):
                vs = [[rng.randint(0 if fam == "lr" else 1, 3) for _ in range(sz)] for sz in shp]
                if fam == "lr0":
                    for n in range(1, d):
                        if shp[n] > 1 and rng.random() < 0.7:
                            vs[n][rng.randrange(shp[n])] = 0
                data = [math.prod(vs[n][sb[n]] for n in range(d)) for sb in subs]
            else:
                data = [(rng.randint(1, 3) if rng.random() < 0.7 else 0) for _ in subs]
                for m in range(1, d):
                    if shp[m] > 1 and rng.random() < 0.7:
                        j = rng.randrange(shp[m])
                        data = [0 if sb[m] == j else v for sb, v in zip(subs, data)]
            if not any(data):
                data[0] = 2
            rank = rng.choice([2, 3, 3])
            gden = rng.choice([10, 10, 4])
            guess = [[[rng.randint(1, gden + 1) for _ in range(rank)] for _ in range(sz)] for sz in shp]
            a = {"shape": list(shp), "data": data, "rank": rank, "gw": [1] * rank, "gf": guess, "gden": gden, "alg": alg,
                 "opts": {"precompinds": rng.random() < 0.5} if rng.random() < 0.5 else {},
                 "variants": [{"maxiters": 1}, {"maxiters": 2}],
                 "order": rng.choice(["sorted", "random"]), "sseed": rng.randrange(10 ** 6)}
            cases.append(Case("overspec", a, True))
    # guesses with an all-zero row over a slice that holds positive counts, MU stopped before (or configured without) the
    # "inadmissible zero" repair: the returned model gives probability 0 to an observed count, the truthful objective is -inf —
    # for the dense and the sparse holder alike
    for rep in range(40 if big else 16):
        shp = rng.choice([(3, 2), (2, 2, 2), (2, 3), (3, 2, 2), (1, 3, 2)])
        d = len(shp)
        subs = tgen.all_subs(shp)
        data = [(rng.randint(1, 3) if rng.random() < 0.7 else 0) for _ in subs]
        m = rng.randrange(d)
        j = rng.randrange(shp[m])
        if not any(v for sb, v in zip(subs, data) if sb[m] == j):
            data[[k for k, sb in enumerate(subs) if sb[m] == j][0]] = 2
        rank = rng.randint(1, 2)
        guess = [[[rng.randint(1, 3) for _ in range(rank)] for _ in range(sz)] for sz in shp]
        guess[m][j] = [0] * rank
        a = {"shape": list(shp), "data": data, "rank": rank, "gw": [rng.randint(1, 2) for _ in range(rank)], "gf": guess, "alg": "mu",
             "opts": {}, "variants": [{"maxiters": 1}, {"maxiters": 1, "maxinneriters": 3}, {"maxiters": rng.choice([2, 5]), "kappa": 0.0}],
             "order": rng.choice(["sorted", "random"]), "sseed": rng.randrange(10 ** 6)}
        cases.append(Case("zero_row", a, True))
    # calculate_pi + calculate_phi called directly on a sparse and a dense holder of the same counts: the sparse-branch model of
    # C11_phi_sparse and the dense definition, evaluated exactly in Qc, against both
    for rep in range(24 if big else 8):
        shp = rng.choice([(3, 2), (2, 2, 2), (2, 3, 2), (1, 3, 2), (4, 3)])
        data = _counts(rng, shp, rng.choice(["random", "empty_slice", "zero_fibres"]))
        rank = rng.randint(1, 3)
        guess = [[[rng.randint(0, 3) for _ in range(rank)] for _ in range(sz)] for sz in shp]
        cases.append(Case("phi_sp", {"shape": list(shp), "data": data, "rank": rank, "gw": [1] * rank, "gf": guess, "gden": rng.choice([1, 2]),
                                     "n": rng.randrange(len(shp)), "order": rng.choice(["sorted", "reversed", "random"]),
                                     "sseed": rng.randrange(10 ** 6)}, True))
    # the executable MU model of Model/C11Apr.v run side by side (exact rationals) — small inputs, shallow iteration depth
    for shp in ([(3, 2), (2, 2, 2), (2, 3)] if big else [(3, 2), (2, 2, 2)]):
        for rep in range(6 if big else 2):
            data = _counts(rng, shp, rng.choice(["random", "empty_slice", "full"]))
            rank = rng.randint(1, 2)
            guess = [[[rng.randint(1, 3) for _ in range(rank)] for _ in range(d)] for d in shp]
            deep = len(shp) == 2 and (rep == 0 or rng.random() < 0.5)       # two outer iterations: exercises the kappa fix-up
            if deep or rng.random() < 0.3:
                m = rng.randrange(len(shp))
                guess[m][rng.randrange(shp[m])] = [0] * rank
            a = {"shape": list(shp), "data": data, "sparse": rng.random() < 0.5, "rank": rank, "gw": [rng.randint(1, 2) for _ in range(rank)],
                 "gf": guess, "alg": "mu", "maxiters": 2 if deep else 1,
                 "opts": {"maxinneriters": rng.choice([1, 2]) if (not deep and len(shp) == 2) else 1, "kappa": rng.choice([0.01, 0.1]),
                          "kappatol": rng.choice([1e-10, 1e-3])},
                 "order": rng.choice(["sorted", "random"]), "sseed": rng.randrange(10 ** 6)}
            a["hand"] = rep == 0          # the hand model Model/C11Apr.v too (C11_gen_mu_bridge proves it equal to the generated loop)
            cases.append(Case("mu_model", a, True))
    cases += _gen_w4(rng, big)
    cases += _gen_w5(rng, big)
    for c in cases:          # exact-rational replay of a recorded PDNR / PQNR run: cost grows steeply with the number of recorded
        if c.op in ("cp_apr", "pqnr_result", "sp_degenerate") and c.args.get("alg") in ("pdnr", "pqnr"):      # gradients + line searches
            c.args["replay_max"] = 100 if big else 150
        if c.op in ("overspec", "rerun") and c.args.get("alg") in ("pdnr", "pqnr"):
            c.args["replay_multi"] = REPLAY_MULTI_CAP       # per run of the case: replayed when its tables have at most this many entries
    return cases


def _gen_w4(rng, big):
    """wave 4: get_search_dir_pqnr called directly (L-BFGS two-loop direction of the PQNR row sub-problem) on small dyadic inputs:
    rank 1-3, memory 1/2/3/5, any slot position, 0-4 earlier iterations, empty / orthogonal / negative-curvature slots, variables at
    zero with positive gradient (fixed), Bertsekas tolerance small and large"""
    cases = []
    for rep in range(120 if big else 40):
        R = rng.choice([1, 1, 2, 3])
        size = rng.choice([1, 2, 3, 3, 5])
        m = [rng.choice([0, 0, 1, 2, 3, 5, 8]) / rng.choice([1, 4, 16]) for _ in range(R)]
        g = [rng.choice([-6, -3, -1, 0, 1, 2, 5]) / rng.choice([1, 4, 8]) for _ in range(R)]
        used = rng.randint(0, size)
        delm = [[(rng.randint(-4, 4) / 4 if k < used else 0.0) for _ in range(R)] for k in range(size)]
        delg = [[(rng.randint(-4, 4) / 4 if k < used else 0.0) for _ in range(R)] for k in range(size)]
        rho = []
        for k in range(size):
            dt = sum(x * y for x, y in zip(delm[k], delg[k]))
            rho.append((1 / dt) if dt != 0 else (0.0 if rng.random() < 0.7 else 0.5))
        cases.append(Case("lbfgs_dir", {"m": m, "g": g, "eps": rng.choice([2.0 ** -27, 1e-8, 0.125, 0.5]), "delm": delm, "delg": delg,
                                         "rho": rho, "pos": rng.choice([0, 0, 0, rng.randrange(size)]), "iters": rng.randint(0, 4)}, True))
    return cases


def _gen_w5(rng, big):
    """wave 5: get_search_dir_pdnr called directly (damped-Newton direction of the PDNR row sub-problem) on small dyadic inputs: rank 1-3,
    1-4 columns of Pi, variables at zero with positive gradient (fixed), small / large Bertsekas tolerance, damping 2^-10 .. 8, zero upsilon
    entries (zero counts), gradients that make the predicted reduction vanish (g_free = 0)"""
    cases = []
    for rep in range(120 if big else 40):
        R = rng.choice([1, 2, 2, 3, 3])
        J = rng.choice([1, 2, 3, 4])
        Pi = [[rng.choice([0, 1, 1, 2, 3]) / rng.choice([1, 2, 4]) for _ in range(R)] for _ in range(J)]
        ups = [rng.choice([0, 0, 1, 2, 5]) / rng.choice([1, 4]) for _ in range(J)]
        m = [rng.choice([0, 0, 1, 2, 3, 5]) / rng.choice([1, 4, 16]) for _ in range(R)]
        g = [rng.choice([-6, -3, -1, 0, 1, 2, 5]) / rng.choice([1, 4, 8]) for _ in range(R)]
        if rng.random() < 0.1:
            g = [abs(x) if mi == 0 else 0.0 for x, mi in zip(g, m)]
        cases.append(Case("pdnr_dir", {"Pi": Pi, "ups": ups, "m": m, "g": g, "mu": rng.choice([2.0 ** -10, 0.25, 1.0, 8.0]),
                                        "eps": rng.choice([2.0 ** -27, 0.125, 0.5])}, True))
    return cases


def _gen_w3(rng, big):
    """wave 3: degenerate sparse holders, several emptied slices, option / print corners, memory layouts of the guess, re-runs"""
    cases = []
    # (1) corners of the ordinary runs
    for rep in range(72 if big else 30):
        shp = rng.choice([(3, 2), (2, 2, 2), (2, 3), (3, 2, 2), (1, 3, 2), (3, 1), (2, 2, 1, 2)])
        alg = ("mu", "pdnr", "pqnr")[rep % 3]
        kind = rng.choice(["multi_empty", "multi_empty", "random", "empty_slice", "all_zero"])
        data = _counts(rng, shp, kind)
        rank = rng.randint(1, 3)
        guess = _rand_guess(rng, shp, rank, 1, 4)
        if rng.random() < 0.25:
            m = rng.randrange(len(shp))
            guess[m][rng.randrange(shp[m])] = [0] * rank
        a = {"shape": list(shp), "data": data, "sparse": rng.random() < 0.5, "rank": rank,
             "gw": [rng.randint(1, 5) for _ in range(rank)], "wden": rng.choice([1, 4, 4]), "gf": guess, "gden": rng.choice([1, 1, 8]),
             "alg": alg, "maxiters": rng.choice([1, 1, 2, 3]), "opts": _corner_options(rng, alg),
             "layout": rng.choice(["F", "C", "view", "mixed"]), "xlayout": rng.choice(["F", "C"]),
             "print": rng.choice([[0, 0], [1, 1], [2, 3], [1, 0], [0, 1], [1, 2]]),
             "order": rng.choice(["sorted", "reversed", "random"]), "sseed": rng.randrange(10 ** 6)}
        if alg == "pqnr":
            cases.append(Case("pqnr_completes", a, any(data)))
            cases.append(Case("pqnr_f1_state", a, any(data)))
            cases.append(Case("pqnr_result", a, any(data)))
        else:
            cases.append(Case("cp_apr", a, any(data)))
    # (2) sparse holders with no stored entry / exactly one / explicitly stored zeros (plain constructor, or arising from S + T - T)
    for rep in range(54 if big else 24):
        shp = rng.choice([(3, 2), (2, 2, 2), (2, 3), (3, 2, 2), (1, 3, 2)])
        fam = ("none", "one", "zeros", "zeros", "all_zero_vals", "one_zero")[rep % 6]
        allsubs = tgen.all_subs(shp)
        rng.shuffle(allsubs)
        if fam == "none":
            subs, vals = [], []
        elif fam == "one":
            subs, vals = [allsubs[0]], [rng.randint(1, 4)]
        elif fam == "one_zero":
            subs, vals = [allsubs[0]], [0]
        else:
            k = rng.randint(2, len(allsubs))
            subs = allsubs[:k]
            vals = [0 if (fam == "all_zero_vals" or rng.random() < 0.4) else rng.randint(1, 3) for _ in subs]
            if fam == "zeros" and 0 not in vals:
                vals[rng.randrange(k)] = 0
            if fam == "zeros" and not any(vals):
                vals[0] = 2
        if rng.random() < 0.5:
            pairs = sorted(zip(subs, vals), key=lambda e: e[0][::-1])
            subs, vals = [list(e[0]) for e in pairs], [e[1] for e in pairs]
        data = [0] * len(allsubs)
        pos = {tuple(sb): k for k, sb in enumerate(tgen.all_subs(shp))}
        for sb, v in zip(subs, vals):
            data[pos[tuple(sb)]] = v
        rank = rng.randint(1, 2)
        alg = rng.choice(["mu", "mu", "pdnr", "pdnr", "pqnr"])
        a = {"shape": list(shp), "data": data, "sparse": True, "stored": {"subs": [list(x) for x in subs], "vals": vals},
             "via": "diff" if (fam in ("none", "one") and rng.random() < 0.5) else "ctor",
             "rank": rank, "gw": [rng.randint(1, 2) for _ in range(rank)], "gf": _rand_guess(rng, shp, rank), "alg": alg,
             "maxiters": rng.randint(1, 3), "opts": _options(rng, alg), "order": "sorted", "sseed": 0}
        cases.append(Case("sp_degenerate", a, any(data)))
    # (2b) tt_loglikelihood called directly on a sparse holder with an un-normalised model (any stored order; zero rows in the model
    #      make the truthful value -inf); the model object is normalised in place by the call and observed afterwards
    for rep in range(30 if big else 12):
        shp = rng.choice([(3, 2), (2, 2, 2), (2, 3, 2), (1, 3, 2), (4, 3), (2, 2, 1, 2)])
        data = _counts(rng, shp, rng.choice(["random", "empty_slice", "multi_empty", "zero_fibres"]))
        rank = rng.randint(1, 3)
        guess = _rand_guess(rng, shp, rank, 0, 3)
        if rng.random() < 0.3:
            m = rng.randrange(len(shp))
            guess[m][rng.randrange(shp[m])] = [0] * rank
        cases.append(Case("ll_sp", {"shape": list(shp), "data": data, "rank": rank, "gw": [rng.randint(1, 3) for _ in range(rank)],
                                    "gf": guess, "gden": rng.choice([1, 2, 5]), "layout": rng.choice(["F", "C", "view"]),
                                    "order": rng.choice(["sorted", "reversed", "random"]), "sseed": rng.randrange(10 ** 6)}, True))
    # (3) a second call that starts from the model the first call returned (the object itself), both holders
    for rep in range(36 if big else 15):
        shp = rng.choice([(3, 2), (2, 2, 2), (2, 3), (3, 2, 2), (1, 3, 2)])
        alg = ("mu", "pdnr", "pqnr")[rep % 3]
        data = _counts(rng, shp, rng.choice(["random", "empty_slice", "multi_empty", "full"]))
        rank = rng.randint(1, 3)
        a = {"shape": list(shp), "data": data, "rank": rank, "gw": [rng.randint(1, 3) for _ in range(rank)],
             "gf": _rand_guess(rng, shp, rank, 1, 4), "alg": alg, "maxiters": rng.choice([1, 2]), "maxiters2": rng.choice([1, 2, 3]),
             "opts": _options(rng, alg) if rng.random() < 0.5 else _corner_options(rng, alg),
             "layout": rng.choice(["F", "C", "view"]), "order": rng.choice(["sorted", "random"]), "sseed": rng.randrange(10 ** 6)}
        cases.append(Case("rerun", a, True))
    return cases


# ---------------------------------------------------------------- running pyttb
def _model_vals(shape, w, fs):
    out = []
    for s in tgen.all_subs(shape):
        acc = 0.0
        for r in range(len(w)):
            p = w[r]
            for n in range(len(shape)):
                p *= fs[n][s[n]][r]
            acc += p
        out.append(acc)
    return out


def _loglik(shape, data, w, fs):
    """sum_i x_i log m_i - sum_i m_i by brute force (0 log m = 0; log 0 = -inf)"""
    m = _model_vals(shape, w, fs)
    f = 0.0
    for x, mi in zip(data, m):
        if x != 0:
            if mi <= 0:
                return float("-inf"), math.fsum(m)
            f += x * math.log(mi)
    return f - math.fsum(m), math.fsum(m)


def _mk_data(ttb, np, a, sparse):
    """the data holder: dense (F- or C-ordered source array) or sparse (plain constructor; a["stored"] = explicit stored
    subs/vals incl. explicitly stored zeros or no entry at all; a["via"] = "diff": the holder arises from a computation)"""
    import random
    if sparse:
        st = a.get("stored")
        if st is not None:
            subs, vals = st["subs"], st["vals"]
        else:
            subs, vals = tgen.dense_to_sparse(a["shape"], a["data"], random.Random(a["sseed"]), a["order"])
        if a.get("via") == "diff":           # (S + T) - T : same counts, holder produced by sptensor arithmetic
            S = tgen.mk_sptensor(ttb, np, a["shape"], subs, vals) if subs else ttb.sptensor(shape=tuple(a["shape"]))
            T = tgen.mk_sptensor(ttb, np, a["shape"], [[0] * len(a["shape"])], [2.0])
            return (S + T) - T
        if not subs:
            return ttb.sptensor(shape=tuple(a["shape"]))
        return tgen.mk_sptensor(ttb, np, a["shape"], subs, vals)
    if a.get("xlayout") == "C":              # tensor built from a C-ordered array, no copy requested
        import logging
        logging.disable(logging.WARNING)     # "Selected no copy, but input data isn't F ordered so must copy."
        try:
            return ttb.tensor(np.ascontiguousarray(tgen.np_dense(np, a["shape"], a["data"])), tuple(a["shape"]), copy=False)
        finally:
            logging.disable(logging.NOTSET)
    return tgen.mk_tensor(ttb, np, a["shape"], a["data"])


def _mk_guess(ttb, np, a):
    d = len(a["shape"])
    gden = float(a.get("gden", 1))
    wden = float(a.get("wden", 1))
    fms = [np.array(a["gf"][n], dtype=float).reshape((a["shape"][n], a["rank"])) / gden for n in range(d)]
    init = ttb.ktensor(fms, np.array(a["gw"], dtype=float) / wden, copy=True)
    lay = a.get("layout", "F")
    for n in range(d):                       # a user may assign arrays of any memory layout to K.factor_matrices[n]
        if lay == "C" or (lay == "mixed" and n % 2 == 0):
            init.factor_matrices[n] = np.ascontiguousarray(fms[n])
        elif lay == "view" or (lay == "mixed" and n % 2 == 1):
            big = np.full((2 * fms[n].shape[0] + 1, 3 * fms[n].shape[1] + 2), 7.0)
            big[1::2, 2::3] = fms[n]
            init.factor_matrices[n] = big[1::2, 2::3]      # strided view, neither C- nor F-contiguous (unless 1 x 1)
    return init


def _run(ttb, np, a, maxiters, sparse=None, init=None, trace=None):
    """trace = a c11_trace.Trace: the row sub-problem helpers of pyttb.cp_apr are wrapped for the duration of the call"""
    if trace is not None:
        import importlib
        from props import c11_trace
        with c11_trace.recording(np, importlib.import_module("pyttb.cp_apr"), trace):
            return _run(ttb, np, a, maxiters, sparse, init)
    X = _mk_data(ttb, np, a, a["sparse"] if sparse is None else sparse)
    if init is None:
        init = _mk_guess(ttb, np, a)
    # snapshots of the caller's objects ("data and caller's guess are not modified")
    snap_f = [np.array(U, copy=True) for U in init.factor_matrices]
    snap_w = np.array(init.weights, copy=True)
    snap_x = (np.array(X.subs, copy=True), np.array(X.vals, copy=True)) if isinstance(X, ttb.sptensor) else np.array(X.data, copy=True)
    pr = a.get("print", [0, 0])
    with contextlib.redirect_stdout(io.StringIO()):
        M, M0, out = ttb.cp_apr(X, a["rank"], algorithm=a["alg"], maxiters=maxiters, init=init, printitn=pr[0], printinneritn=pr[1],
                                stoptol=1e-4, **a["opts"])
    pure = (all(np.array_equal(U, V) for U, V in zip(init.factor_matrices, snap_f)) and np.array_equal(init.weights, snap_w)
            and M is not init and all(U is not V and not np.shares_memory(U, V) for U in M.factor_matrices for V in init.factor_matrices)
            and not np.shares_memory(M.weights, init.weights))
    if isinstance(X, ttb.sptensor):
        pure = pure and np.array_equal(X.subs, snap_x[0]) and np.array_equal(X.vals, snap_x[1])
    else:
        pure = pure and np.array_equal(X.data, snap_x)
    out = dict(out)
    out["pure"] = bool(pure)
    return M, out


def _xsubs(ttb, np, a, sparse):
    """stored subscripts of the sparse holder the run gets (None for a dense holder)"""
    if not sparse:
        return None
    X = _mk_data(ttb, np, a, True)
    return [[int(x) for x in row] for row in np.asarray(X.subs).reshape((-1, len(a["shape"])))] if X.nnz else []


def _guess_floats(a):
    gden = float(a.get("gden", 1))
    wden = float(a.get("wden", 1))
    return [float(x) / wden for x in a["gw"]], [[[float(x) / gden for x in row] for row in U] for U in a["gf"]]


def _kfloats(np, M):
    return ([float(x) for x in np.asarray(M.weights).ravel()],
            [[[float(x) for x in row] for row in np.asarray(U)] for U in M.factor_matrices])


def _obs_result(np, a, M, out, guess=None):
    w, fs = _kfloats(np, M)
    ll, mass = _loglik(a["shape"], a["data"], w, fs)
    gw, gf = guess if guess is not None else _guess_floats(a)
    ll0, _ = _loglik(a["shape"], a["data"], gw, gf)
    return {"weights": [tgen.exact(x) for x in w], "factors": [[[tgen.exact(x) for x in row] for row in U] for U in fs],
            "obj": tgen.exact(out["obj"]), "ll": tgen.exact(ll), "ll0": tgen.exact(ll0), "mass": tgen.exact(mass),
            "nkkt": len(out["kktViolations"]), "ninner": len(out["nInnerIters"]), "ntimes": len(out["times"]),
            "kkt": [tgen.exact(x) for x in np.asarray(out["kktViolations"]).ravel()],
            "inner": [tgen.exact(x) for x in np.asarray(out["nInnerIters"]).ravel()],
            "nviol": ([int(x) for x in np.asarray(out["nViolations"]).ravel()] if "nViolations" in out else None),
            "ntotal": (int(out["nTotalIters"]) if "nTotalIters" in out else None),
            "pure": out["pure"]}


def _ex(l):
    return [tgen.exact(x) for x in l]


def _obs_trace(np, a, tr):
    """tables for Model/C11Replay.v from a recorded run (JSON-able: keys as lists, values exact)"""
    from props import c11_trace
    gtab, stab = c11_trace.tables(np, tr, a["alg"])
    return {"gtab": [[list(k), _ex(v)] for k, v in gtab.items()],
            "stab": [[list(k), bool(fb), _ex(d), tgen.exact(al), _ex(phi)] for k, (fb, d, al, phi) in stab.items()],
            "bad": list(tr.bad), "nev": len(tr.ev)}


def _obs_f1_rows(np, tr):
    """per PQNR row, in the order solved: [m_rowOLD, gradOLD, [(m_row, gradM) the KKT test of inner iteration 0, 1, ... saw]] and whether
    float and exact arithmetic agree on 'delm . delg == 0' at every iteration (they differ only by underflow / exact cancellation)"""
    rows, order = {}, []
    for e in tr.ev:
        if e[0] == "g":
            r = e[1][:3]
            if r not in rows:
                rows[r] = []
                order.append(r)
            rows[r].append((e[2], e[3]))
    out, agree = [], True
    for r in order:
        seq = rows[r]
        for (m0, g0), (m1, g1) in zip(seq, seq[1:]):
            fl = bool(np.any((np.array(m1) - np.array(m0)).dot((np.array(g1) - np.array(g0)).transpose()) == 0))
            exq = sum(((Fraction(x) - Fraction(y)) * (Fraction(u) - Fraction(v)) for x, y, u, v in zip(m1, m0, g1, g0)), Fraction(0)) == 0
            agree = agree and (fl == exq)
        out.append([_ex(seq[0][0]), _ex(seq[0][1]), [[_ex(m), _ex(g)] for m, g in seq[1:]]])
    return out, agree


def run_impl(c):
    import numpy as np
    import pyttb as ttb
    a = c.args
    if c.op == "lbfgs_dir":
        import importlib
        apr = importlib.import_module("pyttb.cp_apr")
        try:
            args = [np.array(a["m"], dtype=float), np.array(a["g"], dtype=float), float(a["eps"]),
                    np.array(a["delm"], dtype=float).T.copy(), np.array(a["delg"], dtype=float).T.copy(), np.array(a["rho"], dtype=float)]
            snap = [np.array(x, copy=True) for x in args]
            d = apr.get_search_dir_pqnr(*args, int(a["pos"]), int(a["iters"]), False)
            return {"dir": _ex(np.asarray(d).ravel()), "pure": all(np.array_equal(x, y) for x, y in zip(args, snap))}
        except Exception as ex:
            return {"exc": type(ex).__name__, "msg": str(ex)[:200]}
    if c.op == "pdnr_dir":
        import importlib
        import warnings
        apr = importlib.import_module("pyttb.cp_apr")
        try:
            args = [np.array(a["Pi"], dtype=float), np.array(a["ups"], dtype=float), len(a["m"]), np.array(a["g"], dtype=float),
                    np.array(a["m"], dtype=float), float(a["mu"]), float(a["eps"])]
            snap = [np.array(x, copy=True) for x in args]
            with warnings.catch_warnings():
                warnings.simplefilter("ignore")
                d, pred = apr.get_search_dir_pdnr(*args)
            return {"dir": _ex(np.asarray(d, dtype=float).ravel()), "pred": tgen.exact(float(np.asarray(pred).ravel()[0])),
                    "pure": all(np.array_equal(x, y) for x, y in zip(args, snap))}
        except Exception as ex:
            return {"exc": type(ex).__name__, "msg": str(ex)[:200]}
    if c.op == "pqnr_f1_state":
        from props import c11_trace
        tr = c11_trace.Trace()
        o = {}
        try:
            _run(ttb, np, a, a["maxiters"], trace=tr)
        except Exception as ex:
            o = {"exc": type(ex).__name__, "msg": str(ex)[:200]}
        o["rows"], o["agree"] = _obs_f1_rows(np, tr)
        return o
    if c.op == "phi_sp":
        import random
        import importlib
        apr = importlib.import_module("pyttb.cp_apr")
        try:
            subs, vals = tgen.dense_to_sparse(a["shape"], a["data"], random.Random(a["sseed"]), a["order"])
            S = tgen.mk_sptensor(ttb, np, a["shape"], subs, vals)
            X = tgen.mk_tensor(ttb, np, a["shape"], a["data"])
            d = len(a["shape"])
            K = ttb.ktensor([np.array(a["gf"][m], dtype=float).reshape((a["shape"][m], a["rank"])) / float(a["gden"]) for m in range(d)],
                            np.array(a["gw"], dtype=float), copy=True)
            out = {}
            for nm, D in (("sp", S), ("dense", X)):
                Pi = apr.calculate_pi(D, K, a["rank"], a["n"], d)
                Phi = apr.calculate_phi(D, K, a["rank"], a["n"], Pi, 1e-10)
                out[nm] = [[tgen.exact(x) for x in row] for row in np.asarray(Phi).reshape((a["shape"][a["n"]], a["rank"]))]
            return out
        except Exception as ex:
            return {"exc": type(ex).__name__, "msg": str(ex)[:200]}
    if c.op == "ll_sp":
        import importlib
        apr = importlib.import_module("pyttb.cp_apr")
        try:
            S = _mk_data(ttb, np, a, True)
            K = _mk_guess(ttb, np, a)
            snap = (np.array(S.subs, copy=True), np.array(S.vals, copy=True))
            f = apr.tt_loglikelihood(S, K)
            w, fs = _kfloats(np, K)          # the model as the call left it
            gw, gf = _guess_floats(a)
            ll, _ = _loglik(a["shape"], a["data"], gw, gf)
            return {"f": tgen.exact(f), "weights": [tgen.exact(x) for x in w], "factors": [[[tgen.exact(x) for x in row] for row in U] for U in fs],
                    "ll": tgen.exact(ll), "pure": bool(np.array_equal(S.subs, snap[0]) and np.array_equal(S.vals, snap[1]))}
        except Exception as ex:
            return {"exc": type(ex).__name__, "msg": str(ex)[:200]}
    if c.op == "rerun":
        runs = []
        for sparse in (False, True):
            M1 = None
            traced = a["alg"] in ("pdnr", "pqnr") and a.get("replay_multi")
            if traced:
                from props import c11_trace
            try:
                tr = c11_trace.Trace() if traced else None
                M1, out1 = _run(ttb, np, a, a["maxiters"], sparse, trace=tr)
                r = _obs_result(np, a, M1, out1)
                if tr is not None:
                    r["trace"] = _obs_trace(np, a, tr)
                    r["xsubs"] = _xsubs(ttb, np, a, sparse)
            except Exception as ex:
                r = {"exc": type(ex).__name__, "msg": str(ex)[:200]}
            r["sparse"], r["maxiters"], r["variant"] = sparse, a["maxiters"], "first call"
            runs.append(r)
            if M1 is None:
                continue
            try:
                g = _kfloats(np, M1)
                tr = c11_trace.Trace() if traced else None
                M2, out2 = _run(ttb, np, a, a["maxiters2"], sparse, init=M1, trace=tr)       # M1 itself: must come back unchanged
                r = _obs_result(np, a, M2, out2, guess=g)
                if tr is not None:
                    r["trace"] = _obs_trace(np, a, tr)
                    r["xsubs"] = _xsubs(ttb, np, a, sparse)
                    r["guess"] = [_ex(g[0]), [[_ex(row) for row in U] for U in g[1]]]
            except Exception as ex:
                r = {"exc": type(ex).__name__, "msg": str(ex)[:200]}
            r["sparse"], r["maxiters"], r["variant"] = sparse, a["maxiters2"], "second call, init = model returned by the first"
            runs.append(r)
        return {"runs": runs}
    if c.op in MULTI_OPS:
        runs = []
        for sparse in (False, True):
            for var in a["variants"]:
                var = dict(var)
                mi = var.pop("maxiters")
                try:
                    av = dict(a, opts=dict(a["opts"], **var))
                    tr = None
                    if a["alg"] in ("pdnr", "pqnr") and a.get("replay_multi"):
                        from props import c11_trace
                        tr = c11_trace.Trace()
                    M, out = _run(ttb, np, av, mi, sparse, trace=tr)
                    r = _obs_result(np, a, M, out)
                    if tr is not None:
                        r["trace"] = _obs_trace(np, a, tr)
                        r["xsubs"] = _xsubs(ttb, np, a, sparse)
                except Exception as ex:
                    r = {"exc": type(ex).__name__, "msg": str(ex)[:200]}
                r["sparse"], r["maxiters"], r["variant"] = sparse, mi, var
                runs.append(r)
        return {"runs": runs}
    try:
        kkts, res = [], None
        tr = None
        for mi in (1, 2, 3):
            if mi == a["maxiters"] and a["alg"] in ("pdnr", "pqnr") and c.op in ("cp_apr", "pqnr_result", "sp_degenerate"):
                from props import c11_trace
                tr = c11_trace.Trace()
                M, out = _run(ttb, np, a, mi, trace=tr)
            else:
                M, out = _run(ttb, np, a, mi)
            kkts.append([tgen.exact(x) for x in np.asarray(out["kktViolations"]).ravel()])
            if mi == a["maxiters"]:
                res = _obs_result(np, a, M, out)
        res["kkts"] = kkts
        if tr is not None:
            res["trace"] = _obs_trace(np, a, tr)
            res["xsubs"] = _xsubs(ttb, np, a, a["sparse"])
        return res
    except Exception as ex:
        return {"exc": type(ex).__name__, "msg": str(ex)[:200]}


# ---------------------------------------------------------------- Coq side
def _gk(o):
    return f"(mkK {gqlist(o['weights'])} [" + "; ".join(gqmat(f) for f in o["factors"]) + "])"


def _finite(x):
    return not isinstance(x, str)


MULTI_OPS = ("overspec", "zero_row", "rerun")


def _gqsparse(shape, subs, vals):
    from vcheck import gnmat
    return f"(mkSp {gnlist(shape)} {gnmat(subs)} {gqlist(vals)})"


def _ll_sp_harness(o, subs, vals):
    """exact row sums sum_r prod_n A_n[sub_n, r] at the stored subscripts and the exact sum of factor 0 of the observed (normalised)
    model; then sum_k vals[k] * log(rowsum[k]) - msum with math.log ('-inf' when a positive count meets a zero row sum)"""
    F = [[[Fraction(x) for x in row] for row in U] for U in o["factors"]]
    R = len(o["weights"])
    rows = []
    for sb in subs:
        acc = Fraction(0)
        for r in range(R):
            p = Fraction(1)
            for n, x in enumerate(sb):
                p *= F[n][x][r]
            acc += p
        rows.append(acc)
    msum = sum((x for row in F[0] for x in row), Fraction(0))
    if any(v != 0 and q <= 0 for v, q in zip(vals, rows)):
        return rows, msum, "-inf"
    return rows, msum, tgen.exact(math.fsum(v * math.log(q) for v, q in zip(vals, rows) if v != 0) - float(msum))


def _normal_form_exact(o):
    """exact (Fraction) image of ktensor.normalize(weight_factor=0, normtype=1) of an observed model: what tt_loglikelihood evaluates.
    Whether the call normalised the caller's object in place (old behaviour) or a copy (cp_apr.py since c01a61b) the observed model
    maps to the same normal form up to rounding; Coq checks that it denotes the tensor of the model passed in."""
    w = [Fraction(x) for x in o["weights"]]
    F = [[[Fraction(x) for x in row] for row in U] for U in o["factors"]]
    for U in F:
        for r in range(len(w)):
            c = sum((abs(row[r]) for row in U), Fraction(0))
            if c > 0:
                for row in U:
                    row[r] = row[r] / c
            w[r] = w[r] * c
    for r in range(len(w)):
        if w[r] < 0:
            w[r] = -w[r]
            for row in F[0]:
                row[r] = -row[r]
        for row in F[0]:
            row[r] = row[r] * w[r]
    return {"weights": [Fraction(1)] * len(w), "factors": F}


def _known_f1(o):
    return o.get("exc") == "AssertionError" and "L-BFGS first iterate is bad" in o.get("msg", "")


_F1_OPEN = None


def _f1_open():
    """C11-F1 still open in findings.d/C11.jsonl?  (open: the assertion is the known behaviour exactly where the L-BFGS bookkeeping
    model predicts it; fixed: a pqnr run never raises)"""
    global _F1_OPEN
    if _F1_OPEN is None:
        import json
        import os
        _F1_OPEN = False
        with open(os.path.join(os.path.dirname(os.path.abspath(__file__)), "..", "..", "findings.d", "C11.jsonl")) as fh:
            for ln in fh:
                if ln.strip():
                    k = json.loads(ln)
                    if k.get("finding_id") == "C11-F1":
                        _F1_OPEN = k.get("status", "open") == "open"
    return _F1_OPEN


def _gkey(k):
    return "(" + ", ".join(str(int(x)) for x in k) + ")%nat"


def _replay_data(a, o):
    """the data argument of the rows model: Model/C11Rows.v reads the data ONLY through row_empty (all entries of the slice are zero).
    For a sparse holder pyttb's rule is 'no STORED entry in the slice' (cp_apr.py: sparse_indices.size == 0), whatever the stored
    values: the replay therefore gets the 0/1 indicator of the stored subscripts of the holder actually passed (o['xsubs'], observed)"""
    if o.get("xsubs") is None:
        return a["data"]
    pos = {tuple(sb): k for k, sb in enumerate(tgen.all_subs(a["shape"]))}
    ind = [0] * len(pos)
    for sb in o["xsubs"]:
        ind[pos[tuple(sb)]] = 1
    return ind


def _e_replay(a, o, dbg=False, guess=None):
    """Model/C11Replay.v: cp_apr_rows in Qc with the recorded gradients / line-search answers as oracles, against the returned model,
    kktViolations and nInnerIters"""
    t = o["trace"]
    if t["bad"]:
        return " && false"
    if not all(_finite(x) for _, v in t["gtab"] for x in v) or not all(_finite(x) for e in t["stab"] for x in e[2] + [e[3]] + e[4]):
        return " && false"
    gw, gf = guess if guess is not None else _guess_floats(a)
    G = f"(mkK {gqlist([Fraction(x) for x in gw])} [" + "; ".join(gqmat([[Fraction(x) for x in row] for row in U]) for U in gf) + "])"
    gtab = "[" + "; ".join(f"({_gkey(k)}, {gqlist(v)})" for k, v in t["gtab"]) + "]" if t["gtab"] else "(@nil (key * list Qc))"
    stab = ("[" + "; ".join(f"({_gkey(k)}, mkSE {gbool(fb)} {gqlist(d)} {gq(al)} {gqlist(phi)})" for k, fb, d, al, phi in t["stab"]) + "]"
            if t["stab"] else "(@nil (key * stepent))")
    op = a["opts"]
    pd = a["alg"] == "pdnr"
    sec = (f"{gq(Fraction(1e-4))} {gq(Fraction(1e-8))} {op.get('maxinneriters', 10)} "
           f"{gbool(pd and op.get('inexact', True))} {gbool(not pd)} {gtab} {stab}")
    run = f"{tgen.gqdense(a['shape'], _replay_data(a, o))} {G} {a['maxiters']}"
    if dbg:
        return sec, run
    return f" && rows_replay_ok {sec} tol9 {run} {_gk(o)} {gqlist(o['kkt'])} {gnlist([int(x) for x in o['inner']])}"


def _g_f1rows(rows):
    if not rows:
        return "(@nil (list Qc * list Qc * list (list Qc * list Qc)))"
    return "[" + "; ".join(
        f"({gqlist(m0)}, {gqlist(g0)}, " + ("[" + "; ".join(f"({gqlist(m)}, {gqlist(g)})" for m, g in seq) + "]" if seq
                                              else "(@nil (list Qc * list Qc))") + ")" for m0, g0, seq in rows) + "]"


def _e_objective(o, vs_guess=True):
    """reported objective = independently recomputed log-likelihood of the RETURNED model; infinities compared explicitly"""
    e = ""
    if _finite(o["obj"]) and _finite(o["ll"]):
        e += f" && qclose tol9 {gq(o['obj'])} {gq(o['ll'])}"
        if vs_guess and _finite(o["ll0"]):       # at least as likely as the starting guess
            e += f" && qleb {gq(o['ll0'])} ({gq(o['ll'])} + tol6 * qmax q1 (qabs {gq(o['ll'])}))"
    elif o["obj"] != o["ll"]:
        e += " && false"           # one of them is -inf / nan and the other is not the same
    elif o["ll"] != "-inf":
        e += " && false"           # +inf / nan objective
    elif vs_guess and _finite(o["ll0"]):
        e += " && false"           # the guess had finite likelihood, the result -inf
    return e


def _e_model(a, o):
    flat = list(o["weights"]) + [x for U in o["factors"] for row in U for x in row]
    if not all(_finite(x) for x in flat) or not _finite(o["mass"]):
        return "false"
    K = _gk(o)
    return f"kwell {K} {gnlist(a['shape'])} {a['rank']} && knonneg {K} && mass_ok tol9 {K} {gq(o['mass'])} && {gbool(o['pure'])}"


def coq_check(c, o):
    a = c.args
    if c.op == "phi_sp":
        import random
        if "exc" in o:
            return "false"
        if not all(_finite(x) for m in (o["sp"], o["dense"]) for row in m for x in row):
            return "false"
        subs, vals = tgen.dense_to_sparse(a["shape"], a["data"], random.Random(a["sseed"]), a["order"])
        K = f"(mkK {gqlist(a['gw'])} [" + "; ".join(gqmat([[Fraction(x, a['gden']) for x in row] for row in f]) for f in a["gf"]) + "])"
        return (f"phi_sp_ok tol9 {gq(Fraction(1e-10))} {_gqsparse(a['shape'], subs, vals)} {tgen.gqdense(a['shape'], a['data'])} "
                f"{a['n']} {K} {gqmat(o['sp'])} {gqmat(o['dense'])}")
    if c.op == "ll_sp":
        import random
        if "exc" in o:
            return "false"
        flat = list(o["weights"]) + [x for U in o["factors"] for row in U for x in row]
        if not all(_finite(x) for x in flat):
            return "false"
        subs, vals = tgen.dense_to_sparse(a["shape"], a["data"], random.Random(a["sseed"]), a["order"])
        on = _normal_form_exact(o)          # the model in the normal form the function evaluates (observed after the call, normalised exactly)
        rows, msum, fh = _ll_sp_harness(on, subs, vals)
        K = (f"(mkK {gqlist([Fraction(x) for x in a['gw']])} ["
             + "; ".join(gqmat([[Fraction(x, a['gden']) for x in row] for row in f]) for f in a["gf"]) + "])")
        e = f"ll_sp_ok tol9 {_gqsparse(a['shape'], subs, vals)} {K} {_gk(on)} {gqlist(rows)} {gq(msum)} && {gbool(o['pure'])}"
        for x, y in ((o["f"], fh), (fh, o["ll"])):       # reported = harness evaluation of the model's terms = brute force over all subscripts
            if _finite(x) and _finite(y):
                e += f" && qclose tol9 {gq(x)} {gq(y)}"
            elif x != y or x != "-inf":
                e += " && false"
        return e
    if c.op in MULTI_OPS:
        parts = []
        for r in o["runs"]:
            if "exc" in r:
                if a["alg"] == "pqnr" and _known_f1(r):
                    continue                 # known finding C11-F1 (reported by op pqnr_completes)
                return "false"
            e = _e_model(a, r) + _e_objective(r)
            if "trace" in r and all(_finite(x) for x in r["kkt"] + r["inner"]) and \
                    len(r["trace"]["gtab"]) + len(r["trace"]["stab"]) <= (min(a.get("replay_multi", 0), REPLAY_SECOND_CAP) if "guess" in r
                                                                                   else a.get("replay_multi", 0)):
                var = r["variant"] if isinstance(r["variant"], dict) else {}
                av = dict(a, maxiters=r["maxiters"], opts=dict(a["opts"], **var), sparse=r["sparse"])
                e += _e_replay(av, r, guess=r.get("guess"))
            parts.append("(" + e + ")")
        return " && ".join(parts) if parts else None
    if c.op == "pqnr_completes":
        if "exc" not in o:
            return "true"
        if _f1_open():          # only the exact assertion is the known behaviour; any other exception of the same request is
            return "false" if _known_f1(o) else "true"      # reported, unattributed, by op pqnr_result
        return "false"
    if c.op == "lbfgs_dir":
        if "exc" in o or not all(_finite(x) for x in o["dir"]):
            return "false"
        fr = lambda l: gqlist([Fraction(x) for x in l])
        mat = lambda M: "[" + "; ".join(fr(col) for col in M) + "]"
        return (f"search_dir_ok tol9 {gq(Fraction(a['eps']))} {fr(a['m'])} {fr(a['g'])} {mat(a['delm'])} {mat(a['delg'])} {fr(a['rho'])} "
                f"{a['pos']} {a['iters']} {gqlist(o['dir'])} && {gbool(o['pure'])}")
    if c.op == "pdnr_dir":
        if "exc" in o or not all(_finite(x) for x in o["dir"]) or not _finite(o["pred"]) or len(o["dir"]) != len(a["m"]):
            return "false"
        fr = lambda l: gqlist([Fraction(x) for x in l])
        return (f"search_dir_pdnr_ok tol6 {gq(Fraction(a['eps']))} {gq(Fraction(a['mu']))} " + "[" + "; ".join(fr(row) for row in a["Pi"]) + "] "
                f"{fr(a['ups'])} {fr(a['m'])} {fr(a['g'])} {gqlist(o['dir'])} {gq(o['pred'])} && {gbool(o['pure'])}")
    if c.op == "pqnr_f1_state":
        raised = _known_f1(o)
        if ("exc" in o and not raised) or not o["agree"]:
            return None             # other exception: reported by pqnr_result; float/exact disagreement on 'delm.delg == 0'
        if not all(_finite(x) for m0, g0, seq in o["rows"] for v in [m0, g0] + [y for pr in seq for y in pr] for x in v):
            return "false"
        if not _f1_open():
            return gbool(not raised)
        return f"pqnr_f1_ok {a['opts'].get('lbfgsMem', 3)} {gq(Fraction(1e-4))} {_g_f1rows(o['rows'])} {gbool(raised)}"
    if "exc" in o:
        return None if (a["alg"] == "pqnr" and c.op in ("pqnr_result", "sp_degenerate") and _known_f1(o)) else "false"
    flat = list(o["weights"]) + [x for U in o["factors"] for row in U for x in row]
    if not all(_finite(x) for x in flat) or not all(_finite(x) for k in o["kkts"] for x in k) or not _finite(o["mass"]):
        return "false"
    K = _gk(o)
    if c.op == "mu_model":
        ex = Fraction
        op = a["opts"]
        X = tgen.gqdense(a["shape"], a["data"])
        G = f"(mkK {gqlist(a['gw'])} [" + "; ".join(gqmat(f) for f in a["gf"]) + "])"
        kk = gqlist(o["kkts"][a["maxiters"] - 1])
        sec = f"tol9 {gq(ex(1e-10))} {gq(ex(op['kappa']))} {gq(ex(op['kappatol']))} {gq(ex(1e-4))} {op['maxinneriters']} {X} {G} {a['maxiters']} {K} {kk}"
        if o.get("nviol") is None or o.get("ntotal") is None or not all(_finite(x) for x in o["inner"]):
            return "false"
        if int(o["ntotal"]) != sum(int(x) for x in o["inner"]):
            return "false"
        # the GENERATED loop (Gen/GenCpAprMu.v with the C11 kernels, Model/C11GenCheck.v) side by side: final tensor, explicit sorted weights,
        # KKT list, nInnerIters, nViolations, nTotalIters; and the hand model the older theorems (Props/C11.v, C18) are about
        e = f"gmu_model_ok {sec} {gnlist([int(x) for x in o['inner']])} {gnlist(o['nviol'])} && {gbool(o['pure'])}"
        if a.get("hand", True):
            e += f" && mu_model_ok {sec}"
        return e
    e = _e_model(a, o) + _e_objective(o)
    # bookkeeping
    k1, k2, k3 = (gqlist(k) for k in o["kkts"])
    kk = gqlist(o["kkts"][a["maxiters"] - 1])
    e += (f" && kkt_ok {k1} 1 && kkt_ok {k2} 2 && kkt_ok {k3} 3 && is_prefix tol9 {k1} {k2} && is_prefix tol9 {k2} {k3}"
          f" && Nat.eqb {o['nkkt']} (length {kk}) && Nat.eqb {o['ninner']} {o['nkkt']} && Nat.eqb {o['ntimes']} {o['nkkt']}")
    e += _e_bookkeeping(a, o)
    if "trace" in o and len(o["trace"]["gtab"]) + len(o["trace"]["stab"]) <= a.get("replay_max", 100):
        e += _e_replay(a, o)
    return e


def _inner_bounds(a, nit):
    """bounds on nInnerIters[it] that the loop structure implies (Model/C11Apr.v inner/outer; Model/C11Rows.v row_loop_spec /
    rows_fold_spec): MU counts inner iterations (between N and N * maxinneriters); PDNR / PQNR add the LAST inner index of every row
    solved (<= innermax - 1 per row, innermax = 2 in outer iteration 1 of PDNR-inexact)"""
    N, rows = len(a["shape"]), sum(a["shape"])
    mi = a["opts"].get("maxinneriters", 10)
    out = []
    for it in range(nit):
        if a["alg"] == "mu":
            out.append((N, N * mi))
        else:
            im = 2 if (a["alg"] == "pdnr" and a["opts"].get("inexact", True) and it == 1) else mi
            out.append((0, rows * (im - 1)))
    return out


def _e_bookkeeping(a, o):
    """stop reason and inner-iteration counts: fewer than maxiters outer iterations only after convergence (then the last KKT
    violation is below stoptol = 1e-4); inner counts within the structural bounds"""
    e = ""
    if not all(_finite(x) for x in o["kkt"]) or not all(_finite(x) for x in o["inner"]):
        return " && false"
    if o["kkt"]:
        e += f" && (negb (Nat.ltb {len(o['kkt'])} {a['maxiters']}) || qlt {gq(o['kkt'][-1])} {gq(Fraction(1e-4))})"
    for x, (lo, hi) in zip(o["inner"], _inner_bounds(a, len(o["inner"]))):
        e += f" && qleb {gq(Fraction(lo))} {gq(x)} && qleb {gq(x)} {gq(Fraction(hi))}"
    return e


# ---------------------------------------------------------------- brute-force oracle
def oracle(c, o):
    a = c.args
    if c.op in ("lbfgs_dir", "pdnr_dir"):
        return None                  # a helper: no property predicate of its own (the transliteration is what is compared)
    if c.op == "pqnr_f1_state":
        if _known_f1(o):
            return ("admissible pqnr request raised 'L-BFGS first iterate is bad' in a solver state the bookkeeping model of finding "
                    "C11-F1 (Model/C11Replay.v lbfgs_scan) does not predict" if _f1_open() else
                    f"admissible request raised {o['exc']}: {o.get('msg')}")
        return None
    if c.op == "phi_sp":
        if "exc" in o:
            return f"calculate_pi/calculate_phi raised {o['exc']}: {o.get('msg')}"
        sp, de = o["sp"], o["dense"]
        if any((not _finite(x)) or (not _finite(y)) or abs(float(x) - float(y)) > 1e-9 * max(1.0, abs(float(y)))
               for rs, rd in zip(sp, de) for x, y in zip(rs, rd)):
            return "Phi computed from the sparse holder differs from Phi computed from the dense holder of the same counts"
        return None
    if c.op == "ll_sp":
        if "exc" in o:
            return f"tt_loglikelihood on a sparse holder raised {o['exc']}: {o.get('msg')}"
        if _finite(o["f"]) != _finite(o["ll"]) or (not _finite(o["f"]) and o["f"] != o["ll"]) or \
                (_finite(o["f"]) and abs(float(o["f"]) - float(o["ll"])) > 1e-8 * max(1.0, abs(float(o["ll"])))):
            return (f"tt_loglikelihood(sparse data, model) = {o['f'] if not _finite(o['f']) else float(o['f'])} but the Poisson "
                    f"log-likelihood summed over all subscripts is {o['ll'] if not _finite(o['ll']) else float(o['ll'])}")
        if not o["pure"]:
            return "tt_loglikelihood modified the data"
        return None
    if c.op in MULTI_OPS:
        for r in o["runs"]:
            if "exc" in r and a["alg"] == "pqnr" and _known_f1(r):
                continue
            w = _oracle_run(a, r, check_kkts=False)
            if w:
                return f"{'sparse' if r['sparse'] else 'dense'} data, maxiters={r['maxiters']} {r.get('variant') or ''}: {w}"
        return None
    if c.op != "pqnr_completes" and "exc" in o and a["alg"] == "pqnr" and _known_f1(o):
        return None                      # C11-F1 is reported by op pqnr_completes only
    return _oracle_run(a, o)


def _oracle_run(a, o, check_kkts=True):
    if "exc" in o:
        return f"admissible request raised {o['exc']}: {o.get('msg')}"
    flat = list(o["weights"]) + [x for U in o["factors"] for row in U for x in row]
    if any(not _finite(x) for x in flat):
        return "returned model has non-finite entries"
    if any(x < 0 for x in flat):
        return f"returned model has a negative entry {min(flat)}"
    if [len(U) for U in o["factors"]] != a["shape"] or any(len(row) != a["rank"] for U in o["factors"] for row in U) \
            or len(o["weights"]) != a["rank"]:
        return "returned model has the wrong shape or rank"
    if _finite(o["obj"]) != _finite(o["ll"]) or (not _finite(o["obj"]) and o["obj"] != o["ll"]) or (_finite(o["obj"]) and abs(float(o["obj"]) - float(o["ll"])) > 1e-8 * max(1.0, abs(float(o["ll"])))):
        return f"reported objective {o['obj'] if not _finite(o['obj']) else float(o['obj'])} but the log-likelihood of the returned model is {o['ll'] if not _finite(o['ll']) else float(o['ll'])}"
    if _finite(o["ll0"]) and (not _finite(o["ll"]) or float(o["ll"]) < float(o["ll0"]) - 1e-6 * max(1.0, abs(float(o["ll0"])))):
        return f"result (log-likelihood {o['ll']}) is less likely than the starting guess ({float(o['ll0'])})"
    if not o.get("pure", True):
        return "cp_apr modified the data or the caller's starting guess (or returned an alias of it)"
    if "kkt" in o and "inner" in o and all(_finite(x) for x in o["kkt"]) and all(_finite(x) for x in o["inner"]):
        mi_run = o.get("maxiters", a.get("maxiters"))
        if mi_run is not None and o["kkt"] and len(o["kkt"]) < mi_run and not float(o["kkt"][-1]) < 1e-4:
            return (f"stopped after {len(o['kkt'])} of {mi_run} outer iterations although the last KKT violation "
                    f"{float(o['kkt'][-1])} is not below stoptol")
        if check_kkts:
            for it, (x, (lo, hi)) in enumerate(zip(o["inner"], _inner_bounds(a, len(o["inner"])))):
                if not lo <= float(x) <= hi:
                    return f"nInnerIters[{it}] = {float(x)} outside the bounds [{lo}, {hi}] the loop structure allows"
    if not check_kkts:
        return None
    for mi, k in enumerate(o["kkts"], 1):
        if not (1 <= len(k) <= mi):
            return f"maxiters={mi}: {len(k)} KKT entries"
        if any((not _finite(x)) or x < 0 for x in k):
            return f"negative or non-finite KKT violation in {k}"
    return None


# ---------------------------------------------------------------- known findings
def _trig_no_entry(c):
    """the data holder is a sparse tensor without any stored entry (constructed empty, or all counts cancelled in a computation)"""
    a = c.args
    if c.op not in ("cp_apr", "pqnr_result", "sp_degenerate") or not a.get("sparse"):
        return False
    st = a.get("stored")
    return (len(st["subs"]) == 0) if st is not None else not any(a["data"])


def _trig_explicit_zero(c):
    """the sparse holder stores an explicit zero (plain constructor)"""
    st = c.args.get("stored")
    return c.op == "sp_degenerate" and st is not None and c.args.get("via") != "diff" and 0 in st["vals"]


def _trig_big_kappa(c):
    """MU with a slackness offset kappa >= 1 applied below a tolerance kappatol >= 0.5, AND an independent pure-Python evaluation of
    the documented algorithm on this request (props/c11_mu.py: no numpy, no pyttb) says that in some call the repair fired and that
    call ended less likely than its starting guess — the request class on which C11-F4 manifests, decided from the request alone"""
    a = c.args
    if not (c.op in ("cp_apr", "rerun") and a.get("alg") == "mu" and a["opts"].get("kappa", 0.01) >= 1.0
            and a["opts"].get("kappatol", 1e-10) >= 0.5):
        return False
    from props import c11_mu
    gw, gf = _guess_floats(a)
    runs = [a["maxiters"], a["maxiters2"]] if c.op == "rerun" else [a["maxiters"]]
    return c11_mu.less_likely_after_repair(a["shape"], a["data"], gw, gf, runs, a["opts"])


TRIGGERS = {"pqnr_any_input": lambda c: c.op == "pqnr_completes", "sparse_no_entry": _trig_no_entry,
            "sparse_explicit_zero": _trig_explicit_zero, "mu_big_kappa": _trig_big_kappa}


def _wit_f1():
    import numpy as np
    import pyttb as ttb
    X = ttb.tensor(np.array([1.0, 0.0, 2.0, 0.0]).reshape((2, 2), order="F"))
    init = ttb.ktensor([np.array([[2.0], [2.0]]), np.array([[2.0], [3.0]])], np.array([1.0]))
    try:
        with contextlib.redirect_stdout(io.StringIO()):
            ttb.cp_apr(X, 1, algorithm="pqnr", maxiters=1, init=init, printitn=0)
    except Exception as ex:
        return f"cp_apr(algorithm='pqnr') on a 2x2 count tensor with a positive rank-1 guess raises {type(ex).__name__}: {ex}"
    return None


def _wit_guess():
    import numpy as np
    import pyttb as ttb
    return ttb.ktensor([np.array([[1.0, 2.0], [3.0, 1.0], [2.0, 2.0]]), np.array([[1.0, 1.0], [2.0, 3.0]])], np.array([1.0, 2.0]))


def _wit_f2():
    import pyttb as ttb
    bad = []
    for alg in ("mu", "pdnr"):
        try:
            with contextlib.redirect_stdout(io.StringIO()):
                ttb.cp_apr(ttb.sptensor(shape=(3, 2)), 2, algorithm=alg, maxiters=1, init=_wit_guess(), printitn=0)
        except Exception as ex:
            bad.append(f"{alg}: {type(ex).__name__}: {ex}")
    return ("cp_apr on a 3x2 sptensor without stored entries (all counts zero) raises " + "; ".join(bad)) if bad else None


def _wit_f3():
    import numpy as np
    import pyttb as ttb
    S = ttb.sptensor(np.array([[1, 0], [0, 1], [2, 1]]), np.array([[3.0], [0.0], [1.0]]), (3, 2))
    with contextlib.redirect_stdout(io.StringIO()):
        M, _, out = ttb.cp_apr(S, 2, algorithm="mu", maxiters=2, init=_wit_guess(), printitn=0)
    if out["obj"] != out["obj"]:
        return ("cp_apr(mu) on a 3x2 sptensor with an explicitly stored zero at (0,1) reports objective nan "
                "(the returned model is 0 there: 0 * log 0); the log-likelihood of the returned model is finite (-0.7042...)")
    return None


_F4_ARGS = {"shape": [2, 3], "data": [3, 3, 0, 3, 0, 0], "rank": 2, "gw": [1, 2], "gf": [[[3, 4], [3, 1]], [[4, 4], [3, 4], [3, 3]]],
            "alg": "mu", "opts": {"maxinneriters": 2, "kappa": 1.0, "kappatol": 0.5}, "layout": "F", "order": "sorted", "sseed": 0}


def _wit_f4():
    import numpy as np
    import pyttb as ttb
    a = _F4_ARGS
    M1, _ = _run(ttb, np, a, 2, False)
    g = _kfloats(np, M1)
    M2, _ = _run(ttb, np, a, 3, False, init=M1)
    ll1, _ = _loglik(a["shape"], a["data"], *g)
    ll2, _ = _loglik(a["shape"], a["data"], *_kfloats(np, M2))
    if ll2 < ll1 - 1e-6 * max(1.0, abs(ll1)):
        return (f"cp_apr(mu, kappa=1.0, kappatol=0.5, maxiters=3) started from a model with log-likelihood {ll1:.6f} returns a model with "
                f"log-likelihood {ll2:.6f}")
    return None


WITNESSES = {"C11-F1": _wit_f1, "C11-F2": _wit_f2, "C11-F3": _wit_f3, "C11-F4": _wit_f4}
