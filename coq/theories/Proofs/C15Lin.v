(* Proofs/C15Lin.v — wave 4: the line-by-line transliteration of NEW symmetrize / issymmetric over the GENERATED
   tt_ind2sub / tt_sub2ind (Model/C15Lin.v) computes, container for container, the class-filter model of
   Model/C15Dense.v (hence, by Proofs/C15Dense.v, the spec average).  Uses C17's theorems about the generated helpers
   (Proofs/UtilsProofs.v: tt_ind2sub_spec, tt_sub2ind_spec), so an edit of those helpers in /repo that changes what they
   compute breaks this file.  No ring hypothesis is needed: the two algorithms add the same values in the same order. *)
From Coq Require Import List Arith ZArith Lia Bool Permutation.
From PV Require Import Base.Index Base.Perm Base.Sum Np.Array Np.NpZ Proofs.NpZProofs Gen.GenUtils Proofs.UtilsProofs
  Model.Sparse Model.Repr Model.C15Sym Model.C15Impl Model.C15Dense Model.C15Lin
  Proofs.C15Proofs Proofs.C15Orbit Proofs.C15ImplProofs.
Import ListNotations.
Local Open Scope nat_scope.

(* ---- list helpers ---- *)
Lemma nrow_zs l : nrow (zs l) = l.
Proof. unfold nrow, zs. rewrite map_map. rewrite <- (map_id l) at 2. apply map_ext. intros a. apply Nat2Z.id. Qed.

Lemma filter_map_comm {A B} (f : A -> B) (P : B -> bool) l : filter P (map f l) = map f (filter (fun a => P (f a)) l).
Proof. induction l as [|a l IH]; cbn; auto. destruct (P (f a)); cbn; now rewrite IH. Qed.

Lemma combine_map_both {A B C} (f : C -> A) (h : C -> B) l : combine (map f l) (map h l) = map (fun c => (f c, h c)) l.
Proof. induction l as [|a l IH]; cbn; auto. now rewrite IH. Qed.

Lemma nth_map_seq {A} (F : nat -> A) m c d : c < m -> nth c (map F (seq 0 m)) d = F c.
Proof.
  intros H. rewrite (nth_indep _ d (F 0)) by (now rewrite map_length, seq_length).
  rewrite (map_nth F). now rewrite seq_nth.
Qed.

Lemma forallb_map_comm {A B} (f : A -> B) (P : B -> bool) l : forallb P (map f l) = forallb (fun a => P (f a)) l.
Proof. induction l as [|a l IH]; cbn; auto. now rewrite IH. Qed.

Lemma forallb_ext_in15 {A} (P Q : A -> bool) l : (forall a, In a l -> P a = Q a) -> forallb P l = forallb Q l.
Proof.
  induction l as [|a l IH]; intros H; cbn; auto. rewrite (H a (or_introl eq_refl)), IH; auto.
  intros b Hb. apply H. now right.
Qed.

(* ---- sorted class exemplars stay in bounds (cubical group) ---- *)
Lemma sort_in_inb s g i : okg (length s) g -> group_cubical s g = true -> inb s i = true -> inb s (sort_in g i) = true.
Proof.
  intros Hok Hc Hi. pose proof (cubical_sizes s g Hc) as Hd. unfold sort_in.
  apply (inb_put s g _ i (nth (hd 0 g) s 0)); auto.
  - rewrite length_sort_nat. apply pick_length.
  - eapply Permutation_Forall; [symmetry; apply sort_nat_perm|]. now apply (pick_inb_lt s g i).
Qed.

(* ---- the generated helpers on the full index range ---- *)
Definition cl (s : shape) (g : list nat) (k : nat) : nat := sub2ind s (sort_in g (ind2sub s k)).

Lemma class_rows_spec s g :
  class_rows s (size s) g = Ok (map (fun k => sort_in g (ind2sub s k)) (seq 0 (size s))).
Proof.
  unfold class_rows. rewrite tt_ind2sub_spec by (intros k Hk; apply in_seq in Hk; lia). cbn [bind]. f_equal.
  rewrite map_map. apply map_ext. intros k. now rewrite nrow_zs.
Qed.

Lemma lin_spec s g : s <> [] -> okg (length s) g -> group_cubical s g = true ->
  tt_sub2ind (zs s) (zm (map (fun k => sort_in g (ind2sub s k)) (seq 0 (size s)))) OrdF =
  Ok (zs (map (cl s g) (seq 0 (size s)))).
Proof.
  intros Hs Hok Hc. rewrite tt_sub2ind_spec; auto.
  - f_equal. unfold zs, cl. now rewrite !map_map.
  - intros i Hi. apply in_map_iff in Hi as (k & <- & Hk). apply in_seq in Hk.
    apply sort_in_inb; auto. apply inb_ind2sub. lia.
Qed.

Lemma overlaps_spec g rest : overlaps g rest = true <-> exists m g', In m g /\ In g' rest /\ In m g'.
Proof.
  unfold overlaps. rewrite existsb_exists. split.
  - intros (m & Hm & H). apply existsb_exists in H as (g' & Hg' & H). apply existsb_exists in H as (m' & Hm' & E).
    apply Nat.eqb_eq in E. subst m'. now exists m, g'.
  - intros (m & g' & Hm & Hg' & Hmg'). exists m. split; auto. apply existsb_exists. exists g'. split; auto.
    apply existsb_exists. exists m. split; auto. apply Nat.eqb_refl.
Qed.

Section LinP.
Variable V : Type.
Variables (v0 v1 : V) (vadd vmul : V -> V -> V) (vinv : V -> V) (veqb : V -> V -> bool).
Notation den := (den_dense v0).
Notation ofn := (of_nat v0 v1 vadd).
Notation sumo := (sum_over v0 vadd).

Lemma sum_ones {A} (l : list A) : sumo l (fun _ => v1) = ofn (length l).
Proof. unfold sum_over. induction l as [|a l IH]; cbn; auto. now rewrite IH. Qed.

Lemma den_ind2sub (T : dense V) k : k < size (dshape T) -> den T (ind2sub (dshape T) k) = nth k (ddata T) v0.
Proof. intros H. unfold den_dense. rewrite inb_ind2sub by auto. now rewrite sub2ind_ind2sub. Qed.

(* np.all(data.ravel() == data[tuple(classidx.T)]) is the class-exemplar test of the model *)
Lemma exemplars_equal_spec (T : dense V) g : wf_dense T ->
  exemplars_equal v0 veqb T (map (fun k => sort_in g (ind2sub (dshape T) k)) (seq 0 (size (dshape T)))) =
  exemplar_ok veqb (dshape T) (den T) g.
Proof.
  intros W. unfold exemplars_equal, all_eq, exemplar_ok, allsubs. rewrite W, forallb_map_comm.
  apply forallb_ext_in15. intros k Hk. apply in_seq in Hk. rewrite map_map, nth_map_seq by lia.
  now rewrite den_ind2sub by lia.
Qed.

(* the positions holding the key of entry k are the members of its class *)
Lemma cls_positions s g k : okg (length s) g -> group_cubical s g = true -> k < size s ->
  cls s g (ind2sub s k) = map (ind2sub s) (positions_of (map (cl s g) (seq 0 (size s))) (cl s g k)).
Proof.
  intros Hok Hc Hk. unfold cls, allsubs, positions_of. rewrite filter_map_comm, map_length, seq_length. f_equal.
  apply filter_ext_in. intros t Ht. apply in_seq in Ht. rewrite nth_map_seq by lia.
  unfold same_class, cl. apply Bool.eq_iff_eq_true. rewrite idx_eqb_spec, Nat.eqb_eq. split; [now intros ->|].
  intros E. apply (f_equal (ind2sub s)) in E.
  rewrite !ind2sub_sub2ind in E by (apply sort_in_inb; auto; apply inb_ind2sub; lia). exact E.
Qed.

(* ONE GROUP: the linear-index algorithm over the generated helpers = the class-filter model, container for container *)
Theorem sym_new_lin_step_spec (T : dense V) g : wf_dense T -> dshape T <> [] ->
  okg (length (dshape T)) g -> group_cubical (dshape T) g = true ->
  sym_new_lin_step v0 v1 vadd vmul vinv veqb T g = Ok (sym_new_step v0 v1 vadd vmul vinv veqb T g).
Proof.
  intros W Hs Hok Hc. unfold sym_new_lin_step. rewrite W, class_rows_spec. cbn [bind].
  rewrite lin_spec by auto. cbn [bind]. rewrite nrow_zs, exemplars_equal_spec by auto.
  unfold sym_new_step, sym_new_group. set (s := dshape T) in *. set (n := size s).
  destruct (exemplar_ok veqb s (den T) g) eqn:E.
  - f_equal. symmetry. now apply tabulate_den.
  - f_equal. unfold tabulate. f_equal. rewrite map_map. apply map_ext_in. intros k Hk. apply in_seq in Hk.
    set (lin := map (cl s g) (seq 0 n)).
    assert (Hmax : cl s g k < S (list_max lin)).
    { assert (F : Forall (fun c => c <= list_max lin) lin) by (now apply list_max_le).
      rewrite Forall_forall in F. apply Nat.lt_succ_r, F. unfold lin. apply in_map. apply in_seq. lia. }
    unfold accum. rewrite combine_map_both, map_map, nth_map_seq by exact Hmax. cbn [fst snd].
    fold lin. fold n. rewrite (cls_positions s g k Hok Hc) by (unfold n in Hk; lia). fold n. fold lin.
    rewrite map_length, sum_ones. f_equal.
    rewrite (sum_over_map V v0 vadd). apply (sum_over_ext V v0 vadd). intros t Ht.
    unfold positions_of in Ht. apply filter_In in Ht as [Ht _]. apply in_seq in Ht.
    unfold lin in Ht. rewrite map_length, seq_length in Ht. symmetry. apply den_ind2sub. fold s. fold n. lia.
Qed.

Lemma sym_new_lin_step_shape (T T' : dense V) g :
  sym_new_lin_step v0 v1 vadd vmul vinv veqb T g = Ok T' -> dshape T' = dshape T.
Proof.
  unfold sym_new_lin_step. destruct (class_rows _ _ _) as [rows|]; cbn [bind]; [|discriminate].
  destruct (tt_sub2ind _ _ _) as [linz|]; cbn [bind]; [|discriminate].
  destruct (exemplars_equal _ _ _ _); intros E; inversion E; reflexivity.
Qed.

(* ALL GROUPS (pairwise disjoint, cubical, N >= 1): the transliterated loop returns the container of Model/C15Dense.v *)
Theorem sym_new_lin_spec G : forall T : dense V, wf_dense T -> dshape T <> [] ->
  groups_ok (length (dshape T)) G -> (forall g, In g G -> group_cubical (dshape T) g = true) ->
  sym_new_lin v0 v1 vadd vmul vinv veqb T G = Ok (sym_new_d v0 v1 vadd vmul vinv veqb T G).
Proof.
  induction G as [|g G IH]; intros T W Hs HG Hc; [reflexivity|].
  destruct HG as (Hok & D & HG). cbn [sym_new_lin]. rewrite (Hc g (or_introl eq_refl)). cbn [negb].
  destruct (overlaps g G) eqn:O.
  - exfalso. apply overlaps_spec in O as (m & g' & Hm & Hg' & Hmg'). exact (D g' Hg' m Hm Hmg').
  - rewrite sym_new_lin_step_spec by (auto; apply Hc; now left). cbn [bind].
    change (sym_new_d v0 v1 vadd vmul vinv veqb T (g :: G))
      with (sym_new_d v0 v1 vadd vmul vinv veqb (sym_new_step v0 v1 vadd vmul vinv veqb T g) G).
    apply IH; unfold sym_new_step; rewrite ?dshape_tabulate; auto.
    + apply wf_tabulate.
    + intros g' Hg'. apply Hc. now right.
Qed.

(* a group with unequal mode sizes, or a mode shared by two groups, ends in AssertionError *)
Theorem sym_new_lin_rejects G : forall T : dense V,
  (exists g, In g G /\ group_cubical (dshape T) g = false) \/
  (exists G1 g G2, G = G1 ++ g :: G2 /\ overlaps g G2 = true) ->
  sym_new_lin v0 v1 vadd vmul vinv veqb T G = Err.
Proof.
  induction G as [|g G IH]; intros T H.
  - destruct H as [(g & [] & _)|(G1 & g & G2 & E & _)]. now destruct G1.
  - cbn [sym_new_lin]. destruct (group_cubical (dshape T) g) eqn:C; cbn [negb]; auto.
    destruct (overlaps g G) eqn:O; auto.
    destruct (sym_new_lin_step v0 v1 vadd vmul vinv veqb T g) as [T'|] eqn:S; cbn [bind]; auto.
    apply IH. rewrite (sym_new_lin_step_shape T T' g S).
    destruct H as [(g0 & [<-|Hin] & Hg0)|(G1 & g0 & G2 & E & Hov)].
    + congruence.
    + left. now exists g0.
    + right. destruct G1 as [|g1 G1]; cbn in E; inversion E; subst.
      * congruence.
      * now exists G1, g0, G2.
Qed.

(* NEW issymmetric over the generated tt_ind2sub: for EVERY list of groups the transliteration answers the model's test *)
Theorem issym_new_lin_spec (T : dense V) G : wf_dense T ->
  issym_new_lin v0 veqb T G = Ok (issym_new_d v0 veqb T G).
Proof.
  intros W. unfold issym_new_d, impl_issym_new. induction G as [|g G IH]; [reflexivity|].
  cbn [issym_new_lin forallb]. destruct (group_cubical (dshape T) g); cbn [negb andb]; auto.
  rewrite W, class_rows_spec. cbn [bind]. rewrite exemplars_equal_spec by auto.
  destruct (exemplar_ok veqb (dshape T) (den T) g); cbn [andb]; auto.
Qed.
End LinP.
